(* FrTcp.v — code-shaped model of pymodbus/framer/socket_framer.py (ModbusSocketFramer).
   State = (_buffer, _header); [t_recv] mirrors processIncomingPacket statement by
   statement.  Every number, slice bound, comparison, struct format and header literal is
   read from [tcp_code], which the translator regenerates from the source on every run
   (Generated/GenFramerA.v: [tcp]).  The branch structure is hand-written here and is tied
   to the source by [t_skel C = tcp_skel_expected] (proofs/FrA_tcp_proofs.v).
   The PDU decoder is an oracle [dec].  No proofs. *)
From PM.theories Require Import Base Expr Struct FrBaseA.
Open Scope string_scope.
Open Scope list_scope.
Open Scope Z_scope.

Record thdr := { h_tid : Z; h_pid : Z; h_len : Z; h_uid : Z }.
Record tstate := { t_buf : bytes; t_hdr : thdr }.

Record tcp_code := {
  t_hsize : Z;                               (* self._hsize = 0x07 *)
  t_hdr_init : thdr;                         (* __init__ *)
  t_hdr_adv : thdr;                          (* advanceFrame *)
  t_hdr_reset : thdr;                        (* resetFrame *)
  t_unpack_big : bool; t_unpack_fmt : list fmtc;   (* '>HHHB' *)
  t_unpack_targets : list string;            (* header keys assigned, in order *)
  t_unpack_lo : expr; t_unpack_hi : expr;    (* self._buffer[0:self._hsize] *)
  t_cf_short : expr;                         (* self._header['len'] < 2 *)
  t_cf_complete : expr;                      (* len(self._buffer) - self._hsize + 1 >= self._header['len'] *)
  t_adv_len : expr;                          (* self._hsize + self._header['len'] - 1 *)
  t_ready : expr;                            (* len(self._buffer) > self._hsize *)
  t_get_len : expr;                          (* getFrame: length = ... *)
  t_get_lo : expr; t_get_hi : expr;          (* self._buffer[self._hsize:length] *)
  t_populate : list (string * string);       (* result.<attr> = self._header[<key>] *)
  t_wait : expr;                             (* elif self._header['len'] >= 2: break *)
  t_errfc : expr;                            (* result.function_code < 0x80 *)
  t_skel : pskel;
  t_build_big : bool; t_build_fmt : list fmtc;     (* SOCKET_FRAME_HEADER *)
  t_build_args : list expr;                  (* arguments of struct.pack in buildPacket *)
  t_single_default : bool                    (* kwargs.get("single", False) *)
}.

Definition hdr_get (k : string) (h : thdr) : option Z :=
  if String.eqb k "tid" then Some (h_tid h) else if String.eqb k "pid" then Some (h_pid h)
  else if String.eqb k "len" then Some (h_len h) else if String.eqb k "uid" then Some (h_uid h)
  else None.
Definition hdr_set (k : string) (v : Z) (h : thdr) : thdr :=
  if String.eqb k "tid" then {| h_tid := v; h_pid := h_pid h; h_len := h_len h; h_uid := h_uid h |}
  else if String.eqb k "pid" then {| h_tid := h_tid h; h_pid := v; h_len := h_len h; h_uid := h_uid h |}
  else if String.eqb k "len" then {| h_tid := h_tid h; h_pid := h_pid h; h_len := v; h_uid := h_uid h |}
  else if String.eqb k "uid" then {| h_tid := h_tid h; h_pid := h_pid h; h_len := h_len h; h_uid := v |}
  else h.
Fixpoint hdr_assign (ks : list string) (vs : list Z) (h : thdr) : option thdr :=
  match ks, vs with
  | [], [] => Some h
  | k :: ks', v :: vs' => hdr_assign ks' vs' (hdr_set k v h)
  | _, _ => None
  end.

(* the branch structure this model implements (compare processIncomingPacket) *)
Definition tcp_skel_expected : pskel :=
  {| sk_loop := LWhileTrue;
     sk_body := [PIf PReady
                   [PIf PCheck
                      [PIf PUnit [PProcess false] [PAdvance]]
                      [PIf (PHdr "wait") [PBreak] [PReset]]]
                   [PBreak]] |}.

Section WithCode.
Variable B : base_code.
Variable C : tcp_code.
Variable dec : bytes -> dres.

Definition t_init : tstate := {| t_buf := []; t_hdr := t_hdr_init C |}.

Definition tenv (st : tstate) : env :=
  env_of [("self._hsize", t_hsize C); ("self._header['len']", h_len (t_hdr st));
          ("len(self._buffer)", Z.of_nat (length (t_buf st)))].

Definition t_isready (st : tstate) : bool := beval (tenv st) (t_ready C).

Definition t_advance (st : tstate) : tstate :=
  {| t_buf := pyfrom (t_buf st) (eval (tenv st) (t_adv_len C)); t_hdr := t_hdr_adv C |}.

Definition t_reset (st : tstate) : tstate := {| t_buf := []; t_hdr := t_hdr_reset C |}.

Definition t_check (st : tstate) : res (tstate * bool) :=
  if t_isready st then
    do vs <- unpack (t_unpack_big C) (t_unpack_fmt C)
               (pyslice (t_buf st) (eval (tenv st) (t_unpack_lo C)) (eval (tenv st) (t_unpack_hi C)));
    match hdr_assign (t_unpack_targets C) vs (t_hdr st) with
    | None => Raise ValueError
    | Some h =>
        let st1 := {| t_buf := t_buf st; t_hdr := h |} in
        if beval (tenv st1) (t_cf_short C) then Ok (t_advance st1, false)
        else if beval (tenv st1) (t_cf_complete C) then Ok (st1, true)
        else Ok (st1, false)
    end
  else Ok (st, false).

Definition t_getframe (st : tstate) : bytes :=
  let length := eval (tenv st) (t_get_len C) in
  let rho := env_of [("self._hsize", t_hsize C); ("length", length)] in
  pyslice (t_buf st) (eval rho (t_get_lo C)) (eval rho (t_get_hi C)).

Definition t_popfield (attr : string) (h : thdr) : Z :=
  match sassoc attr (t_populate C) with
  | Some k => match hdr_get k h with Some v => v | None => 0 end
  | None => 0
  end.

Definition t_deliv (data : bytes) (h : thdr) : delivery :=
  {| d_pdu := data; d_tid := t_popfield "transaction_id" h; d_pid := t_popfield "protocol_id" h;
     d_uid := t_popfield "unit_id" h |}.

(* _process(callback, error): new state, the delivery, the exception that escapes *)
Definition t_process (st : tstate) (err : bool) : tstate * option delivery * option pyexn :=
  let data := if err then t_buf st else t_getframe st in
  match dec data with
  | DNone => (st, None, Some ModbusIOExc)
  | DRaise e => (st, None, Some e)
  | DMsg fc =>
      if err && beval (env_of [("result.function_code", fc)]) (t_errfc C)
      then (st, None, Some InvalidMessageExc)
      else (t_advance st, Some (t_deliv data (t_hdr st)), None)
  end.

Definition cons_d (d : delivery) (r : tstate * list delivery * outc) : tstate * list delivery * outc :=
  let '(s, ds, o) := r in (s, d :: ds, o).

Fixpoint t_loop (fuel : nat) (units : list Z) (single : bool) (st : tstate) : tstate * list delivery * outc :=
  match fuel with
  | O => (st, [], OutOfFuel)
  | S f =>
      if t_isready st then
        match t_check st with
        | Raise e => (st, [], Exc e)
        | Ok (st1, true) =>
            match validate_unit B units single (Some (h_uid (t_hdr st1))) with
            | Raise e => (st1, [], Exc e)
            | Ok true =>
                match t_process st1 false with
                | (st2, Some d, None) => cons_d d (t_loop f units single st2)
                | (st2, _, Some e) => (st2, [], Exc e)
                | (st2, None, None) => (st2, [], Done)      (* not produced by t_process *)
                end
            | Ok false => t_loop f units single (t_advance st1)
            end
        | Ok (st1, false) =>
            if beval (tenv st1) (t_wait C) then (st1, [], Done)
            else t_loop f units single (t_reset st1)
        end
      else (st, [], Done)         (* fewer than _hsize + 1 bytes: wait *)
  end.

(* processIncomingPacket(data, callback, unit, single=...) *)
Definition t_recv (c : cfg) (st : tstate) (data : bytes) : tstate * list delivery * outc :=
  let st0 := {| t_buf := t_buf st ++ data; t_hdr := t_hdr st |} in
  t_loop (S (length (t_buf st0))) (c_units c) (single_of (t_single_default C) c) st0.

(* buildPacket: message.encode() = data, header fields from the message *)
Definition t_build (tid pid uid fc : Z) (data : bytes) : res bytes :=
  let rho := env_of [("message.transaction_id", tid); ("message.protocol_id", pid);
                     ("message.unit_id", uid); ("message.function_code", fc);
                     ("len(data)", Z.of_nat (length data))] in
  do h <- pack (t_build_big C) (t_build_fmt C) (map (eval rho) (t_build_args C));
  Ok (h ++ data).

End WithCode.
