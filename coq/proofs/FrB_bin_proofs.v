(* FrB_bin_proofs.v — lemmas about the binary framer model (theories/FrBin.v) instantiated
   with the regenerated constants: closed forms, bytes.find, the while loop never runs out
   of fuel, whole delimiter-free frames, frame-aligned chunkings, and the delivery gate
   (which holds only when the examined buffer starts with '{': the stale `start`). *)
From Coq Require Import ZifyBool.
From PM.theories Require Import Base Expr Struct FrBCode Crc FrBCommon FrBin FrSpecB.
From PM.Generated Require Import GenFramerB.
From PM.proofs Require Import Struct_proofs Crc_proofs FrB_rtu_proofs.
Open Scope list_scope.
Open Scope Z_scope.

Ltac Zify.zify_post_hook ::= Z.to_euclidean_division_equations.

(* ------------------------------------------------------------------ closed forms *)
Lemma bc_ready_closed n : beval (env_of [("len(self._buffer)"%string, n)]) (bc_ready bin) = (n >? 1).
Proof. unfold beval. cbn. destruct (n >? 1); reflexivity. Qed.
Lemma bc_crc_lo_closed s e : eval (env_se s e) (bc_crc_lo bin) = e - 2. Proof. reflexivity. Qed.
Lemma bc_crc_hi_closed s e : eval (env_se s e) (bc_crc_hi bin) = e. Proof. reflexivity. Qed.
Lemma bc_data_lo_closed s e : eval (env_se s e) (bc_data_lo bin) = 1. Proof. reflexivity. Qed.
Lemma bc_data_hi_closed s e : eval (env_se s e) (bc_data_hi bin) = e - 2. Proof. reflexivity. Qed.
Lemma bc_uid_closed : bc_uid_lo bin = 1 /\ bc_uid_hi bin = 2. Proof. split; reflexivity. Qed.
Lemma bc_get_start_closed : e1 "self._hsize" (bc_hsize bin) (bc_get_start bin) = 2. Proof. reflexivity. Qed.
Lemma bc_get_end_closed l : e1 "self._header['len']" l (bc_get_end bin) = l - 2. Proof. reflexivity. Qed.
Lemma bc_get_cond_closed e : beval (env_of [("end"%string, e)]) (bc_get_cond bin) = (e >? 0).
Proof. unfold beval. cbn. destruct (e >? 0); reflexivity. Qed.
Lemma bc_adv_closed l : e1 "self._header['len']" l (bc_adv bin) = l + 1. Proof. reflexivity. Qed.
Lemma bin_delims : bin_start = 123%N /\ bin_end = 125%N. Proof. split; reflexivity. Qed.
Lemma bc_fmts : bc_hdr_fmt bin = ">BB"%string /\ bc_crc_fmt bin = ">H"%string. Proof. split; reflexivity. Qed.
Lemma bc_repeat_closed : bc_repeat bin = [125; 123]. Proof. reflexivity. Qed.

(* ------------------------------------------------------------------ bytes.find *)
Lemma find_byte_ge b l : -1 <= find_byte b l.
Proof. induction l as [|x t IH]; cbn; [lia|]. destruct (N.eqb x b); [lia|]. destruct (find_byte b t <? 0); lia. Qed.

Lemma find_byte_lt b l : find_byte b l < zlen l.
Proof.
  induction l as [|x t IH]; unfold zlen in *; cbn [find_byte length]; [lia|].
  destruct (N.eqb x b); [lia|]. destruct (find_byte b t <? 0) eqn:E; lia.
Qed.

Lemma find_byte_notin b l : ~ In b l -> find_byte b l = -1.
Proof.
  induction l as [|x t IH]; intros H; cbn; [reflexivity|].
  destruct (N.eqb x b) eqn:E; [apply N.eqb_eq in E; subst; exfalso; apply H; left; reflexivity|].
  rewrite IH by (intro; apply H; right; assumption). reflexivity.
Qed.

Lemma find_byte_hit b pre post : ~ In b pre -> find_byte b (pre ++ b :: post) = zlen pre.
Proof.
  induction pre as [|x t IH]; intros H; cbn [app find_byte].
  - rewrite N.eqb_refl. reflexivity.
  - destruct (N.eqb x b) eqn:E; [apply N.eqb_eq in E; subst; exfalso; apply H; left; reflexivity|].
    rewrite IH by (intro; apply H; right; assumption).
    pose proof (zlen_nonneg t). replace (zlen t <? 0) with false by lia. unfold zlen. cbn [length]. lia.
Qed.

Lemma find_byte_spec b l k : find_byte b l = k -> 0 <= k ->
  exists pre post, l = pre ++ b :: post /\ zlen pre = k /\ ~ In b pre.
Proof.
  revert k. induction l as [|x t IH]; intros k H Hk; cbn in H; [lia|].
  destruct (N.eqb x b) eqn:E.
  - apply N.eqb_eq in E. subst. exists [], t. repeat split; auto.
  - destruct (find_byte b t <? 0) eqn:F; [lia|].
    destruct (IH (find_byte b t) eq_refl ltac:(lia)) as (pre & post & -> & Hl & Hn).
    exists (x :: pre), post. split; [reflexivity|]. split; [unfold zlen in *; cbn [length]; lia|].
    intros [->|Hin]; [rewrite N.eqb_refl in E; discriminate | exact (Hn Hin)].
Qed.

Lemma no_delim_notin l : no_delim l = true -> ~ In 123%N l /\ ~ In 125%N l.
Proof.
  unfold no_delim. rewrite forallb_forall. intros H.
  split; intros Hin; apply H in Hin; vm_compute in Hin; discriminate.
Qed.

Lemma escape_no_delim l : no_delim l = true -> escape l = l.
Proof.
  induction l as [|x t IH]; intros H; [reflexivity|]. cbn in H. apply andb_prop in H. destruct H as [Hx Ht].
  cbn [escape]. destruct (is_delim x); [discriminate|]. rewrite IH by exact Ht. reflexivity.
Qed.

Lemma no_delim_app a b : no_delim (a ++ b) = no_delim a && no_delim b.
Proof. unfold no_delim. apply forallb_app. Qed.

(* ------------------------------------------------------------------ struct '>B', '>H' *)
Lemma unpack_B x : unpack_s ">B" [x] = Ok [Z.of_N x].
Proof. unfold unpack_s. rewrite parse_B. unfold unpack. cbn. unfold unpack1, of_unsigned. cbn. apply f_equal. apply (f_equal (fun z => [z])). lia. Qed.

Lemma unpack_H a b : unpack_s ">H" [a; b] = Ok [Z.of_N a * 256 + Z.of_N b].
Proof.
  unfold unpack_s. rewrite parse_H. unfold unpack. cbn -[Z.mul Z.add]. unfold unpack1, of_unsigned.
  cbn -[Z.mul Z.add]. apply f_equal. apply (f_equal (fun z => [z])). lia.
Qed.

Lemma unpack_H_len bs l : unpack_s ">H" bs = Ok l -> length bs = 2%nat.
Proof.
  unfold unpack_s. rewrite parse_H. unfold unpack.
  destruct (Nat.eqb (length bs) (fmt_size [FH])) eqn:E; [|discriminate]. intros _. apply Nat.eqb_eq in E. exact E.
Qed.

Lemma unpack_B_len bs l : unpack_s ">B" bs = Ok l -> length bs = 1%nat.
Proof.
  unfold unpack_s. rewrite parse_B. unfold unpack.
  destruct (Nat.eqb (length bs) (fmt_size [FB])) eqn:E; [|discriminate]. intros _. apply Nat.eqb_eq in E. exact E.
Qed.

(* ------------------------------------------------------------------ the while loop has enough fuel *)
Lemma pyslice_from_len {A} (l : list A) k : 0 <= k ->
  Z.of_nat (length (pyslice l (Some k) None)) = Z.max 0 (zlen l - k).
Proof.
  intros Hk. unfold pyslice, norm_idx. fold (zlen l). replace (k <? 0) with false by lia.
  rewrite firstn_length, skipn_length. unfold zlen. lia.
Qed.

Lemma bin_check_len st st1 r : bin_check st = (st1, r) -> (length (b_buf st1) <= length (b_buf st))%nat.
Proof.
  unfold bin_check.
  destruct (find_byte bin_start (b_buf st) =? -1) eqn:S; [intros HH; inversion HH; lia|].
  pose proof (find_byte_ge bin_start (b_buf st)).
  assert (L : (length (if find_byte bin_start (b_buf st) >? 0
                       then pyslice (b_buf st) (Some (find_byte bin_start (b_buf st))) None else b_buf st)
               <= length (b_buf st))%nat).
  { destruct (find_byte bin_start (b_buf st) >? 0); [|lia].
    pose proof (pyslice_from_len (b_buf st) (find_byte bin_start (b_buf st)) ltac:(lia)). unfold zlen in *. lia. }
  set (buf := if find_byte bin_start (b_buf st) >? 0 then _ else _) in *.
  destruct (negb (find_byte bin_end buf =? -1)); [|intros HH; inversion HH; exact L].
  destruct (unpack_s ">B" _) as [[|u [|? ?]]|]; try (intros HH; inversion HH; exact L).
  destruct (unpack_s ">H" _) as [[|c [|? ?]]|]; try (intros HH; inversion HH; exact L).
  destruct (py_check_crc _ _); intros HH; inversion HH; exact L.
Qed.

Lemma bin_check_true_len st st1 : bin_check st = (st1, Ok true) -> 0 <= b_len (b_hdr st1).
Proof.
  unfold bin_check.
  destruct (find_byte bin_start (b_buf st) =? -1); [intros HH; discriminate HH|].
  set (buf := if find_byte bin_start (b_buf st) >? 0 then _ else _).
  pose proof (find_byte_ge bin_end buf).
  destruct (negb (find_byte bin_end buf =? -1)) eqn:E; [|intros HH; discriminate HH].
  destruct (unpack_s ">B" _) as [[|u [|? ?]]|]; try (intros HH; discriminate HH).
  destruct (unpack_s ">H" _) as [[|c [|? ?]]|]; try (intros HH; discriminate HH).
  destruct (py_check_crc _ _) as [[|]|]; intros HH; try discriminate HH.
  inversion HH. subst. cbn [b_hdr b_len]. lia.
Qed.

Lemma bin_loop_fuel cfg : forall fuel st acc, (length (b_buf st) < fuel)%nat ->
  snd (bin_loop fuel cfg st acc) <> FOutOfFuel.
Proof.
  induction fuel as [|k IH]; intros st acc Hf; [lia|]. cbn [bin_loop].
  unfold bin_ready. rewrite bc_ready_closed.
  destruct (zlen (b_buf st) >? 1) eqn:R; [|cbn; discriminate].
  destruct (bin_check st) as [st1 [[|]|e]] eqn:C; try (cbn; discriminate).
  destruct (validate_unit cfg _) as [[|]|e]; try (cbn; discriminate).
  destruct (cf_dec cfg _); try (cbn; discriminate).
  apply IH. pose proof (bin_check_len _ _ _ C). pose proof (bin_check_true_len _ _ C).
  unfold bin_advance. cbn [b_buf]. rewrite bc_adv_closed.
  pose proof (pyslice_from_len (b_buf st1) (b_len (b_hdr st1) + 1) ltac:(lia)) as Hp.
  assert (Hn : (1 <= length (b_buf st1))%nat).
  { destruct (b_buf st1) eqn:E1; [|cbn; lia]. exfalso.
    unfold bin_check in C. destruct (find_byte bin_start (b_buf st) =? -1); [discriminate C|].
    set (buf := if find_byte bin_start (b_buf st) >? 0 then _ else _) in C.
    destruct (negb (find_byte bin_end buf =? -1)) eqn:En; [|discriminate C].
    assert (Eb : b_buf st1 = buf).
    { destruct (unpack_s ">B" _) as [[|u [|? ?]]|]; try discriminate C.
      destruct (unpack_s ">H" _) as [[|c [|? ?]]|]; try discriminate C.
      destruct (py_check_crc _ _) as [[|]|]; inversion C; reflexivity. }
    rewrite E1 in Eb. rewrite <- Eb in En. cbn in En. discriminate En. }
  unfold zlen in *. lia.
Qed.

(* processIncomingPacket always terminates within the fuel it is given *)
Theorem bin_recv_no_fuel_out cfg st chunk : snd (bin_recv cfg st chunk) <> FOutOfFuel.
Proof. unfold bin_recv. apply bin_loop_fuel. cbn [b_buf]. lia. Qed.

(* ------------------------------------------------------------------ buildPacket and whole frames, delimiter-free *)
Lemma bin_preflight_no_delim data : no_delim data = true -> bin_preflight data = data.
Proof.
  induction data as [|d t IH]; intros H; [reflexivity|]. cbn in H. apply andb_prop in H. destruct H as [Hd Ht].
  cbn [bin_preflight]. rewrite bc_repeat_closed.
  replace (existsb (Z.eqb (zb d)) [125; 123]) with false.
  - rewrite IH by exact Ht. reflexivity.
  - cbn. unfold is_delim, LBRACE, RBRACE, zb in *. lia.
Qed.

(* buildPacket = '{' unit PDU CRC '}' (nothing to escape) *)
Theorem bin_build_spec uid fc data : (uid < 256)%N -> (fc < 256)%N -> wfb data = true ->
  no_delim (with_crc (uid :: fc :: data)) = true ->
  bin_build (Z.of_N uid) (Z.of_N fc) data = Ok (spec_adu_binary uid (fc :: data)).
Proof.
  intros Hu Hf Hw Hn. unfold bin_build. destruct bc_fmts as [-> ->].
  assert (Hnd : no_delim data = true).
  { unfold with_crc in Hn. rewrite no_delim_app in Hn. apply andb_prop in Hn. destruct Hn as [Hn _].
    cbn in Hn. apply andb_prop in Hn. destruct Hn as [_ Hn]. apply andb_prop in Hn. tauto. }
  rewrite bin_preflight_no_delim by exact Hnd.
  rewrite pack_BB by assumption. cbn [bind app].
  assert (Hw' : wfb (uid :: fc :: data) = true).
  { cbn [wfb forallb]. fold (wfb data). rewrite Hw. unfold byteb. lia. }
  rewrite py_crc_bitwise by exact Hw'. cbn [bind].
  rewrite pack_H_swapped by (apply crc16_lt; exact Hw'). cbn [bind].
  unfold spec_adu_binary. rewrite escape_no_delim by exact Hn.
  destruct bin_delims as [-> ->]. reflexivity.
Qed.

Record valid_bframe (cfg : fcfg) (u : N) (pdu : bytes) : Prop := {
  vb_wfb : wfb (u :: pdu) = true;
  vb_pdu : pdu <> [];
  vb_dec : cf_dec cfg pdu = DMsg;
  vb_unit : validate_unit cfg (Some (zb u)) = Ok true;
  vb_nodelim : no_delim (with_crc (u :: pdu)) = true
}.

(* ITERATION: the buffer holds junk without '{' (possibly none), then a delimiter-free valid frame,
   then anything: one iteration of the loop delivers the frame and continues exactly behind its '}'
   (the bytes in front of '{' do not cost the frame; advanceFrame drops exactly the frame) *)
Lemma bin_loop_frame cfg k h j u pdu rest acc : valid_bframe cfg u pdu -> ~ In 123%N j ->
  bin_loop (S k) cfg {| b_buf := j ++ spec_adu_binary u pdu ++ rest; b_hdr := h |} acc =
  bin_loop k cfg {| b_buf := rest; b_hdr := bin_hdr0 |} (acc ++ [(pdu, zb u)]).
Proof.
  intros [Hw Hp Hd Hu Hn] Hj.
  destruct (spec_adu_rtu_shape u pdu Hw) as (lo & hi & Esp & Hlo & Hhi & Hcrc).
  unfold spec_adu_rtu in Esp.
  destruct pdu as [|fc data]; [congruence|].
  set (buf1 := [123%N] ++ (u :: fc :: data) ++ [lo; hi] ++ ([125%N] ++ rest)).
  assert (Ebuf : j ++ spec_adu_binary u (fc :: data) ++ rest = j ++ buf1).
  { unfold spec_adu_binary. rewrite escape_no_delim by exact Hn. rewrite Esp. unfold buf1.
    rewrite <- !app_assoc. reflexivity. }
  rewrite Esp in Hn. destruct (no_delim_notin _ Hn) as [Hn123 Hn125].
  rewrite Ebuf. clear Ebuf.
  assert (Lbuf : zlen buf1 = zlen data + 6 + zlen rest).
  { unfold buf1, zlen. rewrite !app_length. cbn [length]. lia. }
  pose proof (zlen_nonneg data) as Hd0. pose proof (zlen_nonneg rest) as Hr0. pose proof (zlen_nonneg j) as Hj0.
  cbn [bin_loop]. unfold bin_ready at 1. cbn [b_buf]. rewrite bc_ready_closed, zlen_app.
  replace (zlen j + zlen buf1 >? 1) with true by lia.
  (* checkFrame *)
  assert (C : bin_check {| b_buf := j ++ buf1; b_hdr := h |} =
              ({| b_buf := buf1; b_hdr := {| b_uid := zb u; b_len := zlen data + 5; b_crc := zb lo * 256 + zb hi |} |}, Ok true)).
  { unfold bin_check. cbn [b_buf b_hdr]. destruct bin_delims as [-> ->].
    assert (F0 : find_byte 123 (j ++ buf1) = zlen j) by (unfold buf1; cbn [app]; apply find_byte_hit; exact Hj).
    rewrite F0. replace (zlen j =? -1) with false by lia.
    assert (Eb1 : (if zlen j >? 0 then pyslice (j ++ buf1) (Some (zlen j)) None else j ++ buf1) = buf1).
    { destruct j as [|x j']; [reflexivity|].
      replace (zlen (x :: j') >? 0) with true by (unfold zlen; cbn [length]; lia). apply pyslice_suffix. reflexivity. }
    rewrite Eb1.
    assert (F1 : find_byte 125 buf1 = zlen data + 5).
    { unfold buf1. rewrite (app_assoc (u :: fc :: data) [lo; hi]). rewrite (app_assoc [123%N]).
      change ([125%N] ++ rest) with (125%N :: rest). rewrite find_byte_hit.
      - unfold zlen. rewrite !app_length. cbn [length]. lia.
      - intros Hin. apply in_app_or in Hin. destruct Hin as [[E|[]]|Hin]; [discriminate E|exact (Hn125 Hin)]. }
    rewrite F1. replace (zlen data + 5 =? -1) with false by lia. cbn [negb].
    destruct bc_uid_closed as [-> ->].
    rewrite bc_crc_lo_closed, bc_crc_hi_closed, bc_data_lo_closed, bc_data_hi_closed.
    replace (pyslice buf1 (Some 1) (Some 2)) with [u].
    2: { symmetry. unfold buf1. change ([123%N] ++ (u :: fc :: data) ++ [lo; hi] ++ [125%N] ++ rest)
           with ([123%N] ++ [u] ++ ((fc :: data) ++ [lo; hi] ++ [125%N] ++ rest)). apply pyslice_mid; reflexivity. }
    rewrite unpack_B.
    replace (pyslice buf1 (Some (zlen data + 5 - 2)) (Some (zlen data + 5))) with [lo; hi].
    2: { symmetry. unfold buf1. rewrite app_assoc. apply pyslice_mid; unfold zlen; rewrite ?app_length; cbn [length]; lia. }
    rewrite unpack_H.
    replace (pyslice buf1 (Some 1) (Some (zlen data + 5 - 2))) with (u :: fc :: data).
    2: { symmetry. unfold buf1. apply pyslice_mid; unfold zlen; cbn [length]; lia. }
    rewrite py_check_crc_spec by exact Hw.
    rewrite swap16_bytes by (apply crc16_lt; exact Hw). rewrite Hcrc.
    destruct (crc_split lo hi Hlo Hhi) as [-> ->]. unfold zb.
    replace (Z.of_N (256 * lo + hi) =? Z.of_N lo * 256 + Z.of_N hi) with true by lia. reflexivity. }
  rewrite C. cbn [b_hdr b_uid]. rewrite Hu.
  (* getFrame / decode / advanceFrame *)
  assert (G : bin_get_frame {| b_buf := buf1; b_hdr := {| b_uid := zb u; b_len := zlen data + 5; b_crc := zb lo * 256 + zb hi |} |} = fc :: data).
  { unfold bin_get_frame. cbn [b_buf b_hdr b_len]. rewrite bc_get_start_closed, bc_get_end_closed, bc_get_cond_closed.
    replace (zlen data + 5 - 2 >? 0) with true by lia.
    unfold buf1. change ([123%N] ++ (u :: fc :: data) ++ [lo; hi] ++ [125%N] ++ rest)
      with ([123%N; u] ++ (fc :: data) ++ ([lo; hi] ++ [125%N] ++ rest)). apply pyslice_mid; unfold zlen; cbn [length]; lia. }
  rewrite G, Hd.
  assert (A : bin_advance {| b_buf := buf1; b_hdr := {| b_uid := zb u; b_len := zlen data + 5; b_crc := zb lo * 256 + zb hi |} |}
              = {| b_buf := rest; b_hdr := bin_hdr0 |}).
  { unfold bin_advance. cbn [b_buf b_hdr b_len]. rewrite bc_adv_closed. f_equal.
    unfold buf1. rewrite !app_assoc. apply pyslice_suffix. unfold zlen. rewrite !app_length. cbn [length]. lia. }
  rewrite A. cbn [b_uid]. reflexivity.
Qed.

(* a call that leaves at most one byte buffered does nothing *)
Lemma bin_loop_short cfg k q h acc : (length q <= 1)%nat ->
  bin_loop (S k) cfg {| b_buf := q; b_hdr := h |} acc = ({| b_buf := q; b_hdr := h |}, acc, FOk).
Proof.
  intros H. cbn [bin_loop]. unfold bin_ready. cbn [b_buf]. rewrite bc_ready_closed.
  replace (zlen q >? 1) with false by (unfold zlen; lia). reflexivity.
Qed.

Lemma bin_recv_short cfg st chunk : (length (b_buf st ++ chunk) <= 1)%nat ->
  bin_recv cfg st chunk = ({| b_buf := b_buf st ++ chunk; b_hdr := b_hdr st |}, [], FOk).
Proof. intros H. unfold bin_recv. apply bin_loop_short. exact H. Qed.

Definition bstream (fs : list (N * bytes)) : bytes := flat_map (fun f => spec_adu_binary (fst f) (snd f)) fs.
Definition bmsgs (fs : list (N * bytes)) : list delivered := map (fun f => (snd f, zb (fst f))) fs.

Lemma bstream_len fs : (length fs <= length (bstream fs))%nat.
Proof.
  induction fs as [|f t IH]; [cbn; lia|]. unfold bstream. cbn [flat_map length]. fold (bstream t).
  rewrite app_length. unfold spec_adu_binary at 1. rewrite app_length. cbn [length]. lia.
Qed.

(* one call drains EVERY complete frame in the buffer and keeps at most one trailing byte *)
Lemma bin_loop_drain cfg : forall fs fuel q h acc,
  Forall (fun f => valid_bframe cfg (fst f) (snd f)) fs -> (length q <= 1)%nat -> (length fs < fuel)%nat ->
  exists h', bin_loop fuel cfg {| b_buf := bstream fs ++ q; b_hdr := h |} acc
             = ({| b_buf := q; b_hdr := h' |}, acc ++ bmsgs fs, FOk).
Proof.
  induction fs as [|[u pdu] fs IH]; intros fuel q h acc Hall Hq Hf.
  - destruct fuel as [|k]; [lia|]. cbn [bstream flat_map app bmsgs map]. rewrite app_nil_r.
    exists h. apply bin_loop_short. exact Hq.
  - destruct fuel as [|k]; [cbn in Hf; lia|]. inversion Hall as [|? ? V Hfs]. subst. cbn [fst snd] in V.
    unfold bstream. cbn [flat_map fst snd]. fold (bstream fs). rewrite <- app_assoc.
    change (spec_adu_binary u pdu ++ bstream fs ++ q) with ([] ++ spec_adu_binary u pdu ++ (bstream fs ++ q)).
    rewrite (bin_loop_frame cfg k h [] u pdu (bstream fs ++ q) acc V (fun F => F)).
    destruct (IH k q bin_hdr0 (acc ++ [(pdu, zb u)]) Hfs Hq ltac:(cbn [length] in Hf; lia)) as (h' & R).
    exists h'. rewrite R. unfold bmsgs. cbn [map fst snd]. rewrite <- app_assoc. reflexivity.
Qed.

(* whole frame, possibly behind junk without '{', to a receiver with an empty buffer *)
Lemma bin_recv_whole cfg st chunk j u pdu : valid_bframe cfg u pdu -> ~ In 123%N j ->
  b_buf st ++ chunk = j ++ spec_adu_binary u pdu ->
  bin_recv cfg st chunk = (bin_init, [(pdu, zb u)], FOk).
Proof.
  intros V Hj Hbuf. unfold bin_recv.
  assert (E : j ++ spec_adu_binary u pdu = j ++ spec_adu_binary u pdu ++ []) by (rewrite app_nil_r; reflexivity).
  rewrite Hbuf, E. cbn [b_buf].
  rewrite (bin_loop_frame cfg _ (b_hdr st) j u pdu [] [] V Hj).
  remember (length (j ++ spec_adu_binary u pdu ++ [])) as n eqn:L. destruct n as [|n].
  { rewrite !app_length in L. unfold spec_adu_binary in L. rewrite !app_length in L. cbn [length] in L. lia. }
  rewrite bin_loop_short by (cbn; lia). reflexivity.
Qed.

Theorem bin_whole_frame cfg u pdu : valid_bframe cfg u pdu ->
  bin_recv cfg bin_init (spec_adu_binary u pdu) = (bin_init, [(pdu, zb u)], FOk).
Proof. intros V. apply (bin_recv_whole cfg bin_init _ [] u pdu V (fun F => F)). reflexivity. Qed.

(* ------------------------------------------------------------------ C06 partial: reads that end on a frame boundary or one byte behind it *)
Fixpoint bin_feed_dels (cfg : fcfg) (st : bstate) (chunks : list bytes) : list delivered * list fexit :=
  match chunks with
  | [] => ([], [])
  | c :: t => let '(st1, ds, x) := bin_recv cfg st c in
              let '(ds', xs) := bin_feed_dels cfg st1 t in (ds ++ ds', x :: xs)
  end.

(* every read completes any number of whole frames (none, one, several) and leaves at most one byte
   of the next frame buffered *)
Fixpoint bopr (b : bytes) (frames : list (N * bytes)) (chunks : list bytes) : Prop :=
  match chunks with
  | [] => frames = [] /\ b = []
  | c :: cs => exists fs rest q, frames = fs ++ rest /\ b ++ c = bstream fs ++ q /\ (length q <= 1)%nat /\ bopr q rest cs
  end.

Theorem bin_chunked cfg : forall chunks b frames st,
  b_buf st = b ->
  Forall (fun f => valid_bframe cfg (fst f) (snd f)) frames ->
  bopr b frames chunks ->
  bin_feed_dels cfg st chunks = (bmsgs frames, map (fun _ => FOk) chunks).
Proof.
  induction chunks as [|c cs IH]; intros b frames st Hb Hall Ho.
  - cbn in Ho. destruct Ho as [-> _]. reflexivity.
  - cbn [bopr] in Ho. destruct Ho as (fs & rest & q & -> & Eb & Hq & Ho).
    apply Forall_app in Hall. destruct Hall as [H1 H2].
    cbn [bin_feed_dels]. unfold bin_recv. rewrite Hb, Eb.
    destruct (bin_loop_drain cfg fs (S (length (b_buf {| b_buf := bstream fs ++ q; b_hdr := b_hdr st |}))) q (b_hdr st) [] H1 Hq) as (h' & R).
    { cbn [b_buf]. pose proof (bstream_len fs). rewrite app_length. lia. }
    cbn [b_buf] in R |- *. rewrite R. cbn [app].
    rewrite (IH q rest {| b_buf := q; b_hdr := h' |} eq_refl H2 Ho).
    unfold bmsgs. rewrite map_app. reflexivity.
Qed.

(* ------------------------------------------------------------------ C07: the delivery gate *)

Lemma swap_val_bytes c0 c1 k : (c0 < 256)%N -> (c1 < 256)%N -> (k < 65536)%N ->
  (Z.of_N (swap16 k) =? Z.of_N c0 * 256 + Z.of_N c1) = true -> k = (c0 + 256 * c1)%N.
Proof.
  intros H0 H1 Hk H. rewrite swap16_bytes in H by exact Hk.
  pose proof (crc_lo_lt k). pose proof (crc_hi_lt k Hk). pose proof (crc_lo_hi k Hk). lia.
Qed.

Lemma pyslice_len_hi {A} (l : list A) lo hi : 0 <= hi ->
  Z.of_nat (length (pyslice l lo (Some hi))) <= hi.
Proof.
  intros Hh. unfold pyslice, norm_idx. fold (zlen l). replace (hi <? 0) with false by lia.
  rewrite firstn_length. pose proof (zlen_nonneg l).
  destruct lo as [i|]; [destruct (i <? 0) eqn:Ei|]; lia.
Qed.

Lemma pyslice_empty {A} (l : list A) a b : 0 <= b <= a -> pyslice l (Some a) (Some b) = [].
Proof.
  intros H. unfold pyslice, norm_idx. replace (a <? 0) with false by lia. replace (b <? 0) with false by lia.
  replace (Z.to_nat (Z.min b (Z.of_nat (length l)) - Z.min a (Z.of_nat (length l)))) with 0%nat by lia. reflexivity.
Qed.

Lemma split_last2 {A} (m : list A) : (2 <= length m)%nat ->
  exists d c0 c1, m = d ++ [c0; c1].
Proof.
  intros H. exists (firstn (length m - 2) m).
  pose proof (firstn_skipn (length m - 2) m) as E.
  assert (L : length (skipn (length m - 2) m) = 2%nat) by (rewrite skipn_length; lia).
  destruct (skipn (length m - 2) m) as [|c0 [|c1 [|? ?]]]; cbn in L; try lia.
  exists c0, c1. symmetry. exact E.
Qed.

(* checkFrame = True on a buffer that starts with '{': the buffer is '{' d c0 c1 '}' rest with
   no '}' inside and CRC(d) = c0 + 256 c1 — the check is over exactly the bytes between the
   braces *)
Lemma bin_check_true_start0 st st1 : wfb (b_buf st) = true -> find_byte 123%N (b_buf st) = 0 ->
  bin_check st = (st1, Ok true) ->
  exists d c0 c1 rest,
    b_buf st = [123%N] ++ d ++ [c0; c1] ++ [125%N] ++ rest /\ ~ In 125%N (d ++ [c0; c1]) /\
    crc16_bitwise d = (c0 + 256 * c1)%N /\ b_buf st1 = b_buf st /\ b_len (b_hdr st1) = zlen d + 3 /\
    match d with u :: _ => b_uid (b_hdr st1) = zb u | [] => True end.
Proof.
  intros Hw F0. unfold bin_check. destruct bin_delims as [-> ->]. rewrite F0.
  cbn [Z.eqb Z.gtb Z.compare].
  set (buf := b_buf st) in *.
  destruct (find_byte 125%N buf =? -1) eqn:E1; cbn [negb]; [intros HH; discriminate HH|].
  pose proof (find_byte_ge 125%N buf) as Hge.
  destruct (find_byte_spec 125%N buf _ eq_refl ltac:(lia)) as (pre & post & Ebuf & Hpre & Hnin).
  assert (Hpre1 : exists m, pre = 123%N :: m).
  { destruct pre as [|x m].
    - rewrite Ebuf in F0. cbn in F0. pose proof (find_byte_ge 123%N post). destruct (find_byte 123%N post <? 0) eqn:Ef; lia.
    - rewrite Ebuf in F0. cbn [app find_byte] in F0. destruct (N.eqb x 123) eqn:Ex.
      + apply N.eqb_eq in Ex. subst. eexists. reflexivity.
      + pose proof (find_byte_ge 123%N (m ++ 125%N :: post)). destruct (find_byte 123%N (m ++ 125%N :: post) <? 0) eqn:Ef; lia. }
  destruct Hpre1 as [m ->].
  set (e := find_byte 125%N buf) in *.
  assert (He : e = zlen m + 1) by (rewrite <- Hpre; unfold zlen; cbn [length]; lia).
  destruct bc_uid_closed as [-> ->].
  rewrite bc_crc_lo_closed, bc_crc_hi_closed, bc_data_lo_closed, bc_data_hi_closed.
  destruct (unpack_s ">B" (pyslice buf (Some 1) (Some 2))) as [[|uv [|? ?]]|] eqn:UB; try (intros HH; discriminate HH).
  destruct (unpack_s ">H" (pyslice buf (Some (e - 2)) (Some e))) as [[|c [|? ?]]|] eqn:UH; try (intros HH; discriminate HH).
  pose proof (unpack_H_len _ _ UH) as L2.
  destruct (le_lt_dec 2 (length m)) as [Hm|Hm].
  - (* the normal case: at least two bytes between the braces *)
    destruct (split_last2 m Hm) as (d & c0 & c1 & ->).
    assert (Ebuf' : buf = (123%N :: d) ++ [c0; c1] ++ (125%N :: post)).
    { rewrite Ebuf. cbn [app]. rewrite <- app_assoc. reflexivity. }
    assert (Ed : zlen (d ++ [c0; c1]) = zlen d + 2) by (rewrite zlen_app; reflexivity).
    rewrite Ed in He.
    assert (S1 : pyslice buf (Some (e - 2)) (Some e) = [c0; c1]).
    { rewrite Ebuf'. apply pyslice_mid; unfold zlen in *; cbn [length]; lia. }
    rewrite S1, unpack_H in UH. inversion UH. subst c. clear UH.
    assert (S2 : pyslice buf (Some 1) (Some (e - 2)) = d).
    { rewrite Ebuf'. change ((123%N :: d) ++ [c0; c1] ++ 125%N :: post) with ([123%N] ++ d ++ ([c0; c1] ++ 125%N :: post)).
      apply pyslice_mid; unfold zlen in *; cbn [length]; lia. }
    rewrite S2.
    assert (Hws : wfb d = true /\ (c0 < 256)%N /\ (c1 < 256)%N).
    { rewrite Ebuf' in Hw. change ((123%N :: d) ++ [c0; c1] ++ 125%N :: post) with ([123%N] ++ d ++ ([c0; c1] ++ 125%N :: post)) in Hw.
      rewrite !wfb_app in Hw. apply andb_prop in Hw. destruct Hw as [_ Hw]. apply andb_prop in Hw. destruct Hw as [Hd Hw].
      apply andb_prop in Hw. destruct Hw as [Hc _]. cbn in Hc. unfold byteb in Hc. split; [exact Hd|lia]. }
    destruct Hws as (Hwd & H0 & H1).
    rewrite py_check_crc_spec by exact Hwd.
    destruct (Z.of_N (swap16 (crc16_bitwise d)) =? Z.of_N c0 * 256 + Z.of_N c1) eqn:K; intros HH; inversion HH. subst st1.
    apply swap_val_bytes in K; try assumption; [|apply crc16_lt; exact Hwd].
    exists d, c0, c1, post. cbn [b_buf b_hdr b_len b_uid].
    split; [rewrite Ebuf'; reflexivity|].
    split; [intro Hin; apply Hnin; right; exact Hin|].
    split; [exact K|]. split; [reflexivity|]. split; [lia|].
    destruct d as [|u d']; [exact I|].
    assert (S3 : pyslice buf (Some 1) (Some 2) = [u]).
    { rewrite Ebuf'. change ((123%N :: u :: d') ++ [c0; c1] ++ 125%N :: post) with ([123%N] ++ [u] ++ (d' ++ [c0; c1] ++ 125%N :: post)).
      apply pyslice_mid; reflexivity. }
    rewrite S3, unpack_B in UB. inversion UB. reflexivity.
  - (* fewer than two bytes between the braces: the CRC field cannot be read or cannot match *)
    destruct m as [|x [|y m']]; [| |cbn in Hm; lia].
    + (* "{}": buffer[-1:1] *)
      replace e with 1 in L2 by (unfold zlen in He; cbn in He; lia).
      pose proof (pyslice_len_hi buf (Some (1 - 2)) 1 ltac:(lia)). exfalso. lia.
    + (* "{x}": crc = "{x", data empty *)
      replace e with 2 in * by (unfold zlen in He; cbn in He; lia).
      assert (S1 : pyslice buf (Some (2 - 2)) (Some 2) = [123%N; x]).
      { rewrite Ebuf. change ([123%N; x] ++ 125%N :: post) with ([] ++ [123%N; x] ++ 125%N :: post). apply pyslice_mid; reflexivity. }
      rewrite S1, unpack_H in UH.
      apply (f_equal (fun r => match r with Ok (v :: _) => v | _ => 0 end)) in UH. cbn beta iota in UH.
      change (Z.of_N 123) with 123 in UH. rename UH into Hc.
      assert (Hx : (x < 256)%N).
      { rewrite Ebuf in Hw. cbn [app wfb forallb] in Hw. unfold byteb in Hw. lia. }
      assert (Hc' : c = 31488 + Z.of_N x) by lia. clear Hc. subst c.
      assert (S2 : pyslice buf (Some 1) (Some (2 - 2)) = []).
      { assert (L : Z.of_nat (length (pyslice buf (Some 1) (Some (2 - 2)))) <= 0) by (apply pyslice_len_hi; lia).
        destruct (pyslice buf (Some 1) (Some (2 - 2))); [reflexivity|cbn [length] in L; lia]. }
      rewrite S2. rewrite py_check_crc_spec by reflexivity.
      assert (K : (Z.of_N (swap16 (crc16_bitwise [])) =? 31488 + Z.of_N x) = false).
      { replace (Z.of_N (swap16 (crc16_bitwise []))) with 65535 by (vm_compute; reflexivity). lia. }
      rewrite K. intros HH. discriminate HH.
Qed.

(* bytes in front of the first '{' are dropped and play no part in the check *)
Lemma bin_check_trim j t h : ~ In 123%N j ->
  bin_check {| b_buf := j ++ 123%N :: t; b_hdr := h |} = bin_check {| b_buf := 123%N :: t; b_hdr := h |}.
Proof.
  intros Hj. unfold bin_check. cbn [b_buf b_hdr]. destruct bin_delims as [-> ->].
  rewrite (find_byte_hit 123%N j t Hj). cbn [find_byte]. rewrite N.eqb_refl. cbn [Z.eqb Z.gtb Z.compare].
  pose proof (zlen_nonneg j). replace (zlen j =? -1) with false by lia.
  assert (Eb1 : (if zlen j >? 0 then pyslice (j ++ 123%N :: t) (Some (zlen j)) None else j ++ 123%N :: t) = 123%N :: t).
  { destruct j as [|x j']; [reflexivity|].
    replace (zlen (x :: j') >? 0) with true by (unfold zlen; cbn [length]; lia). apply pyslice_suffix. reflexivity. }
  rewrite Eb1. rewrite ?bc_crc_lo_closed, ?bc_crc_hi_closed, ?bc_data_lo_closed, ?bc_data_hi_closed. reflexivity.
Qed.

(* checkFrame = True, any buffer: junk without '{', then '{' d c0 c1 '}' rest with no '}' inside and
   CRC(d) = c0 + 256 c1; the junk has been dropped from the buffer *)
Lemma bin_check_true st st1 : wfb (b_buf st) = true -> bin_check st = (st1, Ok true) ->
  exists j d c0 c1 rest,
    b_buf st = j ++ [123%N] ++ d ++ [c0; c1] ++ [125%N] ++ rest /\ ~ In 125%N (d ++ [c0; c1]) /\
    crc16_bitwise d = (c0 + 256 * c1)%N /\ b_buf st1 = [123%N] ++ d ++ [c0; c1] ++ [125%N] ++ rest /\
    b_len (b_hdr st1) = zlen d + 3 /\
    match d with u :: _ => b_uid (b_hdr st1) = zb u | [] => True end.
Proof.
  intros Hw C. destruct st as [buf h]. cbn [b_buf] in *.
  destruct (find_byte 123%N buf =? -1) eqn:S0.
  { unfold bin_check in C. cbn [b_buf] in C. destruct bin_delims as [E _]. rewrite E, S0 in C. discriminate C. }
  pose proof (find_byte_ge 123%N buf).
  destruct (find_byte_spec 123%N buf _ eq_refl ltac:(lia)) as (j & t & Ebuf & _ & Hj).
  subst buf. rewrite (bin_check_trim j t h Hj) in C.
  assert (Hwt : wfb (123%N :: t) = true) by (rewrite wfb_app in Hw; apply andb_prop in Hw; tauto).
  destruct (bin_check_true_start0 {| b_buf := 123%N :: t; b_hdr := h |} st1 Hwt) as (d & c0 & c1 & rest & E & Hn & Hc & Hb & Hl & Hu);
    [cbn [b_buf find_byte]; rewrite N.eqb_refl; reflexivity | exact C |].
  cbn [b_buf] in E, Hb. exists j, d, c0, c1, rest.
  split; [rewrite E; reflexivity|]. split; [exact Hn|]. split; [exact Hc|]. split; [rewrite Hb, E; reflexivity|].
  split; assumption.
Qed.

Lemma bin_loop_prefix cfg : forall fuel st acc st' ds x,
  bin_loop fuel cfg st acc = (st', ds, x) -> exists t, ds = acc ++ t.
Proof.
  induction fuel as [|k IH]; intros st acc st' ds x H; cbn [bin_loop] in H.
  - inversion H. exists []. rewrite app_nil_r. reflexivity.
  - destruct (bin_ready st); [|inversion H; exists []; rewrite app_nil_r; reflexivity].
    destruct (bin_check st) as [st1 [[|]|e]]; try (inversion H; exists []; rewrite app_nil_r; reflexivity).
    destruct (validate_unit cfg _) as [[|]|e]; try (inversion H; exists []; rewrite app_nil_r; reflexivity).
    destruct (cf_dec cfg _); try (inversion H; exists []; rewrite app_nil_r; reflexivity).
    apply IH in H. destruct H as [t ->]. rewrite <- app_assoc. eexists. reflexivity.
Qed.

(* a delivery is justified: the buffered bytes contain '{' unit PDU crc '}' for it, with the
   bitwise CRC-16 of unit + PDU (low byte first) and no '}' inside *)
Definition bin_justified (buf : bytes) (d : delivered) : Prop :=
  exists pre u c0 c1 rest,
    buf = pre ++ [123%N] ++ (u :: fst d) ++ [c0; c1] ++ [125%N] ++ rest /\ snd d = zb u /\ fst d <> [] /\
    crc16_bitwise (u :: fst d) = (c0 + 256 * c1)%N /\ ~ In 125%N ((u :: fst d) ++ [c0; c1]).

Lemma bin_justified_shift pre buf d : bin_justified buf d -> bin_justified (pre ++ buf) d.
Proof. intros (p & u & c0 & c1 & r & E & H). exists (pre ++ p), u, c0, c1, r. rewrite E, <- app_assoc. split; [reflexivity|exact H]. Qed.

Lemma bin_loop_gate cfg : cf_dec cfg [] <> DMsg -> forall fuel st acc st' ds x,
  wfb (b_buf st) = true -> bin_loop fuel cfg st acc = (st', ds, x) ->
  exists new, ds = acc ++ new /\ forall d, In d new -> bin_justified (b_buf st) d.
Proof.
  intros Hd0. induction fuel as [|k IH]; intros st acc st' ds x Hw H; cbn [bin_loop] in H.
  { inversion H. exists []. split; [rewrite app_nil_r; reflexivity|intros ? []]. }
  assert (Stop : forall s y, (s, acc, y) = (st', ds, x) -> exists new, ds = acc ++ new /\ forall d, In d new -> bin_justified (b_buf st) d).
  { intros s y E. inversion E. exists []. split; [rewrite app_nil_r; reflexivity|intros ? []]. }
  destruct (bin_ready st); [|eapply Stop; exact H].
  destruct (bin_check st) as [st1 [[|]|e]] eqn:C; try (eapply Stop; exact H).
  apply bin_check_true in C; [|exact Hw].
  destruct C as (j & dd & c0 & c1 & rest & Ebuf & Hnin & Hcrc & Hb1 & Hl & Hu).
  destruct (validate_unit cfg _) as [[|]|e]; try (eapply Stop; exact H).
  assert (G : bin_get_frame st1 = match dd with _ :: pdu => pdu | [] => [] end).
  { unfold bin_get_frame. rewrite bc_get_start_closed, bc_get_end_closed, bc_get_cond_closed, Hl, Hb1.
    pose proof (zlen_nonneg dd). replace (zlen dd + 3 - 2 >? 0) with true by lia.
    destruct dd as [|u pdu].
    - apply pyslice_empty. unfold zlen. cbn [length]. lia.
    - change ([123%N] ++ (u :: pdu) ++ [c0; c1] ++ [125%N] ++ rest) with ([123%N; u] ++ pdu ++ ([c0; c1] ++ [125%N] ++ rest)).
      apply pyslice_mid; unfold zlen; cbn [length]; lia. }
  rewrite G in H.
  destruct dd as [|u pdu].
  { destruct (cf_dec cfg []) eqn:D; try (eapply Stop; exact H). congruence. }
  destruct (cf_dec cfg pdu) eqn:D; try (eapply Stop; exact H).
  assert (A : b_buf (bin_advance st1) = rest).
  { unfold bin_advance. cbn [b_buf]. rewrite bc_adv_closed, Hl, Hb1. rewrite !app_assoc.
    apply pyslice_suffix. unfold zlen. rewrite !app_length. cbn [length]. lia. }
  assert (Hwr : wfb rest = true).
  { rewrite Ebuf in Hw. rewrite !wfb_app in Hw. repeat (apply andb_prop in Hw; destruct Hw as [_ Hw]). exact Hw. }
  apply IH in H; [|rewrite A; exact Hwr]. destruct H as (new & -> & Hj). rewrite A in Hj.
  exists ((pdu, b_uid (b_hdr st1)) :: new). split; [rewrite <- app_assoc; reflexivity|].
  intros d [<-|Hin].
  - exists j, u, c0, c1, rest. cbn [fst snd]. split; [exact Ebuf|]. split; [exact Hu|].
    split; [intro Ep; rewrite Ep in D; congruence|]. split; assumption.
  - rewrite Ebuf. rewrite !app_assoc. apply bin_justified_shift. apply Hj. exact Hin.
Qed.

(* GATE, binary: for EVERY receiver state, chunk and decoder (that rejects the empty PDU, as both
   real decoders do), every message delivered by a call — the first or a later one of the same read,
   with or without junk in front of its '{' — is exactly the unit and PDU between a '{' and the next
   '}', the two bytes before that '}' are their bitwise CRC-16 (low byte first) *)
Theorem bin_gate cfg st chunk st' ds x :
  wfb (b_buf st ++ chunk) = true -> cf_dec cfg [] <> DMsg ->
  bin_recv cfg st chunk = (st', ds, x) ->
  forall d, In d ds -> bin_justified (b_buf st ++ chunk) d.
Proof.
  intros Hw Hd0 R d Hin. unfold bin_recv in R.
  apply (bin_loop_gate cfg Hd0) in R; [|exact Hw]. destruct R as (new & -> & Hj). exact (Hj d Hin).
Qed.

(* ... which is the specified frame when the bytes between the braces contain no '{' either *)
Corollary bin_gate_span_spec u pdu c0 c1 : (c0 < 256)%N -> (c1 < 256)%N ->
  crc16_bitwise (u :: pdu) = (c0 + 256 * c1)%N -> no_delim ((u :: pdu) ++ [c0; c1]) = true ->
  [123%N] ++ (u :: pdu) ++ [c0; c1] ++ [125%N] = spec_adu_binary u pdu.
Proof.
  intros H0 H1 Hc Hn. unfold spec_adu_binary, with_crc. rewrite Hc.
  destruct (crc_split c0 c1 H0 H1) as [-> ->]. rewrite escape_no_delim by exact Hn.
  rewrite <- !app_assoc. reflexivity.
Qed.

(* the former refutation witnesses (stale start; advance skipping a byte) on the repaired code *)
Lemma bin_stale_start_fixed_witness :
  let cfg := {| cf_dec := fun _ => DMsg; cf_rules := server_decoder; cf_units := [17; 3]; cf_single := false |} in
  snd (fst (bin_recv cfg bin_init [0; 123; 17; 3; 43; 14; 1; 0; 9; 183; 125]%N)) = [] /\
  snd (fst (bin_recv cfg bin_init [0; 255; 123; 3; 43; 14; 1; 0; 9; 183; 125]%N)) = [([43; 14; 1; 0]%N, 3)].
Proof. cbv zeta. split; vm_compute; reflexivity. Qed.

(* valid delimiter-free frames, any number per read, from any state with an empty buffer *)
Theorem bin_frames_per_read cfg (reads : list (list (N * bytes))) : forall st,
  b_buf st = [] ->
  Forall (fun f => valid_bframe cfg (fst f) (snd f)) (concat reads) ->
  bin_feed_dels cfg st (map bstream reads) = (bmsgs (concat reads), map (fun _ => FOk) reads).
Proof.
  induction reads as [|fs t IH]; intros st Hb Hall; [reflexivity|].
  cbn [concat] in Hall. apply Forall_app in Hall. destruct Hall as [H1 H2].
  cbn [map bin_feed_dels concat]. unfold bin_recv. rewrite Hb. cbn [app b_buf].
  rewrite <- (app_nil_r (bstream fs)).
  destruct (bin_loop_drain cfg fs (S (length (bstream fs ++ []))) [] (b_hdr st) [] H1 ltac:(cbn; lia)) as (h' & R).
  { pose proof (bstream_len fs). rewrite app_length. cbn [length]. lia. }
  rewrite R. cbn [app]. rewrite (IH {| b_buf := []; b_hdr := h' |} eq_refl H2).
  unfold bmsgs. rewrite map_app. reflexivity.
Qed.

Example valid_bframe_example :
  let cfg := {| cf_dec := fun _ => DMsg; cf_rules := server_decoder; cf_units := [1]; cf_single := false |} in
  valid_bframe cfg 1 [3; 0; 1; 0; 2]%N.
Proof. cbv zeta. constructor; try reflexivity. discriminate. Qed.

Example bopr_example :
  let f := spec_adu_binary 1 [3; 0; 1; 0; 2]%N in
  bopr [] [(1, [3; 0; 1; 0; 2]); (1, [3; 0; 1; 0; 2]); (1, [3; 0; 1; 0; 2])]%N [[]; f ++ firstn 1 f; skipn 1 f ++ f; []].
Proof.
  cbv zeta. cbn [bopr].
  exists [], [(1, [3; 0; 1; 0; 2]); (1, [3; 0; 1; 0; 2]); (1, [3; 0; 1; 0; 2])]%N, []. repeat split; try reflexivity; [cbn; lia|].
  exists [(1, [3; 0; 1; 0; 2])]%N, [(1, [3; 0; 1; 0; 2]); (1, [3; 0; 1; 0; 2])]%N, [123%N]. split; [reflexivity|]. split; [vm_compute; reflexivity|]. split; [cbn; lia|].
  exists [(1, [3; 0; 1; 0; 2]); (1, [3; 0; 1; 0; 2])]%N, [], []. split; [reflexivity|]. split; [vm_compute; reflexivity|]. split; [cbn; lia|].
  exists [], [], []. repeat split; try reflexivity. cbn; lia.
Qed.
