(* AsyncGen_proofs.v — facts about the record regenerated from the source (Generated/GenAsync.v):
   it has everything [good_code] asks for, and the refutations of the parts of C16 that the
   unmodified code does not satisfy, each by running the model on a concrete history. *)
From PM.theories Require Import Base AsyncClient.
From PM.Generated Require Import GenAsync.
From PM.proofs Require Import Async_proofs.
Open Scope list_scope.
Open Scope N_scope.

Lemma gen_good : good_code code.
Proof. unfold good_code. repeat split; vm_compute; reflexivity. Qed.

(* a request outstanding across a full wrap of the 16-bit counter *)
Definition wrap_history : list aop := [Made; Execute; Skip 65535; Execute].

Lemma wrap_same_tid :
  let σ := arun code VDict wrap_history (init_state code) in
  In 1 (outstanding σ) /\ In 65537 (outstanding σ) /\
  sent_tid (a_sent σ) 1 = Some 1 /\ sent_tid (a_sent σ) 65537 = Some 1 /\ a_lost σ = [1].
Proof. vm_compute. repeat split; auto. Qed.

(* ... its deferred never fires, not even when the connection is lost *)
Lemma wrap_never_fires :
  let σ := arun code VDict (wrap_history ++ [Reply 1 7; Lost]) (init_state code) in
  In 1 (issued σ) /\ ~ In 1 (fired_dids σ) /\ a_pending σ = [] /\ a_fired σ = [(65537, OCb 1 7)].
Proof. vm_compute. repeat split; auto. intros [H|[]]. discriminate. Qed.

(* one window short of the wrap everything is still fine *)
Lemma wrap_window_ok :
  safe_run code VDict [Made; Execute; Skip 65534; Execute] (init_state code) = true /\
  safe_run code VDict wrap_history (init_state code) = false.
Proof. vm_compute. split; reflexivity. Qed.

(* replies for units 1, 2, 1 in one segment: the reply for the foreign unit 2 is skipped (its
   deferred stays pending); since the framer repair the frame behind it is still delivered *)
Lemma mixed_unit_dropped :
  let σ := arun code VDict [Made; Execute; Execute; Execute; Segment [(1, 1, 11); (2, 2, 12); (1, 3, 13)]] (init_state code) in
  a_fired σ = [(1, OCb 1 11); (3, OCb 3 13)] /\ a_pending σ = [(2, 2)].
Proof. vm_compute. split; reflexivity. Qed.

(* the same two replies in two segments are both delivered *)
Lemma mixed_unit_separate_ok :
  let σ := arun code VDict [Made; Execute; Execute; Segment [(1, 1, 11)]; Segment [(2, 2, 12)]] (init_state code) in
  a_fired σ = [(1, OCb 1 11); (2, OCb 2 12)] /\ a_pending σ = [].
Proof. vm_compute. split; reflexivity. Qed.

(* FIFO (serial) variant: no id on the wire, so an unsolicited frame is handed to the oldest request *)
Lemma fifo_unsolicited :
  let σ := arun code VFifo [Made; Execute; Execute; Segment [(1, 999, 5)]] (init_state code) in
  a_fired σ = [(1, OCb 999 5)] /\ a_pending σ = [(2, 2)].
Proof. vm_compute. split; reflexivity. Qed.

(* a concrete history on which every hypothesis used in Props/C16.v is satisfied and something fires *)
Lemma nonvacuous_history :
  let ops := [Made; Execute; Execute; Execute; Reply 3 30; Reply 1 10; Reply 9 90; Reply 1 11; Lost; Execute] in
  let σ := arun code VDict ops (init_state code) in
  plain ops = true /\ safe_run code VDict ops (init_state code) = true /\
  a_fired σ = [(3, OCb 3 30); (1, OCb 1 10); (2, OErr ConnectionExc); (4, OErr ConnectionExc)] /\
  a_pending σ = [] /\ a_lost σ = [].
Proof. vm_compute. repeat split; reflexivity. Qed.

(* re-entrant user code: an errback that calls execute() while connectionLost is still draining the
   table.  Because _connected is cleared BEFORE the loop, the re-issued request fails at once ... *)
Lemma reentrant_errback_ok :
  let σ := arun code VDict [Made; ExecuteE; Execute; Lost] (init_state code) in
  a_pending σ = [] /\ a_conn σ = false /\
  a_fired σ = [(1, OErr ConnectionExc); (3, OErr ConnectionExc); (2, OErr ConnectionExc)].
Proof. vm_compute. repeat split; reflexivity. Qed.

(* ... whereas with the flag cleared AFTER the loop the re-issued request is filed behind the
   snapshot being drained and never fires (dict and FIFO variant alike) *)
Definition code_clear_late : async_code :=
  {| ac_tid_init := ac_tid_init code; ac_tid_inc := ac_tid_inc code; ac_tid_mask := ac_tid_mask code;
     ac_init_connected := ac_init_connected code; ac_made_connected := ac_made_connected code;
     ac_build_guard := ac_build_guard code; ac_build_exn := ac_build_exn code;
     ac_handle_by_reply_tid := ac_handle_by_reply_tid code; ac_lost_clears := ac_lost_clears code;
     ac_lost_clear_first := false; ac_lost_loop := ac_lost_loop code; ac_lost_exn := ac_lost_exn code;
     ac_close_clears := ac_close_clears code; ac_unit_default := ac_unit_default code; ac_unit_wild := ac_unit_wild code;
     ac_unit_wild_on_frame := ac_unit_wild_on_frame code |}.

Lemma reentrant_errback_needs_clear_first :
  (let σ := arun code_clear_late VDict [Made; ExecuteE; Lost] (init_state code_clear_late) in
   a_pending σ = [(2, 2)] /\ a_conn σ = false /\ a_fired σ = [(1, OErr ConnectionExc)]) /\
  (let σ := arun code_clear_late VFifo [Made; ExecuteE; Lost] (init_state code_clear_late) in
   a_pending σ = [(2, 2)] /\ a_conn σ = false /\ a_fired σ = [(1, OErr ConnectionExc)]).
Proof. vm_compute. repeat split; reflexivity. Qed.

(* a callback that issues the next request: it is filed and answered like any other *)
Lemma reentrant_callback_ok :
  let σ := arun code VDict [Made; ExecuteC; Reply 1 10; Reply 2 20] (init_state code) in
  a_pending σ = [] /\ a_fired σ = [(1, OCb 1 10); (2, OCb 2 20)] /\ a_sent σ = [(1, 1); (2, 2)].
Proof. vm_compute. repeat split; reflexivity. Qed.

(* requests to the gateway (0xFF), unit 0 and units 1, 2 outstanding, all replies in one segment:
   a segment that STARTS with a wildcard unit delivers everything; one that starts with unit 1
   delivers only the unit-1 reply (the mixed-unit finding) *)
Lemma wildcard_first_delivers_all :
  let σ := arun code VDict [Made; Execute; Execute; Execute; Execute;
                            Segment [(255, 1, 11); (1, 2, 12); (0, 3, 13); (2, 4, 14)]] (init_state code) in
  a_pending σ = [] /\ a_fired σ = [(1, OCb 1 11); (2, OCb 2 12); (3, OCb 3 13); (4, OCb 4 14)].
Proof. vm_compute. split; reflexivity. Qed.

Lemma plain_unit_first_filters :
  let σ := arun code VDict [Made; Execute; Execute; Execute; Execute;
                            Segment [(1, 2, 12); (255, 1, 11); (0, 3, 13); (2, 4, 14)]] (init_state code) in
  a_pending σ = [(1, 1); (3, 3); (4, 4)] /\ a_fired σ = [(2, OCb 2 12)].
Proof. vm_compute. split; reflexivity. Qed.

(* close() by the user, then a request, then the loss of the transport is reported *)
Lemma close_then_execute :
  let σ := arun code VDict [Made; Execute; Close; Execute; Lost] (init_state code) in
  a_pending σ = [] /\ a_fired σ = [(2, OErr ConnectionExc); (1, OErr ConnectionExc)].
Proof. vm_compute. split; reflexivity. Qed.
