#!/bin/bash
# tools/seedround.sh <root prefix, e.g. /tmp/seed3> <tag offset, e.g. 4> Cxx  — verify + run + keep the two seeds of Cxx from that round
root="$1"; off="$2"; p="$3"
for n in 1 2; do
  t=$((n+off))
  echo "=== $p seed $n of $root -> $p-$t"
  # keep the artefacts first: the scratch worktree may disappear before the checks have finished
  mkdir -p /verif/seeded/$p-$t && cp ${root}_$p/out/$n/patch.diff ${root}_$p/out/$n/demo.py ${root}_$p/out/$n/meta.json /verif/seeded/$p-$t/ 2>/dev/null
  /verif/tools/seedverify.sh ${root}_$p/out/$n 2>&1 | tr '\n' ' '; echo
  SEEDROOT=$root SEEDTAG=$t /verif/tools/seedrun.sh $p $n $p | grep -v "^exit"
  SEEDROOT=$root SEEDTAG=$t /verif/tools/seedkeep.py $p $n
done
