"""GenServer.v — the execute/send path of the three server front-ends as handler skeletons.

Sources read (fail closed on any other shape):
  pymodbus/server/sync.py          ModbusBaseRequestHandler.execute, the three handler classes' send / handle
  pymodbus/server/async_io.py      ModbusBaseRequestHandler.execute / send / handle
  pymodbus/server/asynchronous.py  ModbusTcpProtocol._execute/_send/dataReceived, ModbusUdpProtocol._execute/_send/datagramReceived
  pymodbus/framer/__init__.py      ModbusFramer._validate_unit_id
  pymodbus/pdu.py                  ModbusExceptions codes, ExceptionResponse offset, doException, PDU defaults
  pymodbus/constants.py            Defaults.TransactionId / UnitId
  pymodbus/datastore/context.py    ModbusServerContext.__init__/__getitem__/slaves (shape only)

Only *data* is printed: conditions as `Server.cnd` terms, the except ladder as a list of arms, booleans for
"copies the transaction id", and integer constants.  The interpreter is `PM.theories.Server.respond`.
"""
import ast
from . import core
from .core import Src, coq_z, coq_bool, coq_list
from .gen_store import expect, norm


# ------------------------------------------------------------------ statement helpers

def is_log(st):
    """logging statements, including the `if _logger.isEnabledFor(...): _logger.debug(...)` form"""
    if core.is_docstring(st) or core.is_log_call(st):
        return True
    if isinstance(st, ast.If) and not st.orelse and isinstance(st.test, ast.Call) \
            and ast.unparse(st.test.func) == "_logger.isEnabledFor" and all(is_log(s) for s in st.body):
        return True
    return False


def body_of(fn_or_list):
    stmts = fn_or_list.body if hasattr(fn_or_list, "body") and not isinstance(fn_or_list, list) else fn_or_list
    return [s for s in stmts if not is_log(s)]


IGNORE_ATTRS = ("self.server.ignore_missing_slaves", "self.factory.ignore_missing_slaves", "self.ignore_missing_slaves")
CTX_EXPRS = ("self.server.context", "self.factory.store", "self.store")


def cnd(src, n):
    """Python condition -> Server.cnd term (text)"""
    t = ast.unparse(n)
    if isinstance(n, ast.Constant) and isinstance(n.value, bool):
        return "CTrue" if n.value else "CFalse"
    if t == "self.server.broadcast_enable":
        return "CBcastEnable"
    if t in IGNORE_ATTRS:
        return "CIgnoreMissing"
    if t == "broadcast":
        return "CBroadcastVar"
    if t == "message.should_respond":
        return "CShouldRespond"
    if t == "single":
        return "CSingle"
    if isinstance(n, ast.BoolOp):
        parts = [cnd(src, v) for v in n.values]
        ctor = "CAnd" if isinstance(n.op, ast.And) else "COr"
        acc = parts[-1]
        for p in reversed(parts[:-1]):
            acc = "(%s %s %s)" % (ctor, p, acc)
        return acc
    if isinstance(n, ast.UnaryOp) and isinstance(n.op, ast.Not):
        return "(CNot %s)" % cnd(src, n.operand)
    if isinstance(n, ast.Compare) and len(n.ops) == 1:
        a, op, b = n.left, n.ops[0], n.comparators[0]
        if isinstance(op, (ast.Eq, ast.NotEq)):
            if ast.unparse(b) == "request.unit_id":
                a, b = b, a
            if ast.unparse(a) == "request.unit_id":
                k = core.const_int(src, b)
                r = "(CUnitIs %s)" % coq_z(k)
                return r if isinstance(op, ast.Eq) else "(CNot %s)" % r
        if isinstance(op, (ast.In, ast.NotIn)) and ast.unparse(b) == "units":
            if ast.unparse(a) == "self._header['uid']":
                r = "CHdrInUnits"
            else:
                r = "(CInUnits %s)" % coq_z(core.const_int(src, a))
            return r if isinstance(op, ast.In) else "(CNot %s)" % r
    src.fail(n, "unsupported condition: %s" % t)


def cnd_body(src, stmts):
    """`if c: return e` chains / `if c: return a else: <chain>` / `return e`  ->  cnd"""
    stmts = body_of(stmts)
    if not stmts:
        src.fail(None, "condition body falls off the end")
    st = stmts[0]
    if isinstance(st, ast.Return) and st.value is not None:
        return cnd(src, st.value)
    if isinstance(st, ast.If):
        b = body_of(st.body)
        if len(b) == 1 and isinstance(b[0], ast.Return) and b[0].value is not None:
            rest = st.orelse if st.orelse else stmts[1:]
            if st.orelse and len(stmts) > 1:
                src.fail(st, "statements after if/else with returns")
            return "(CIf %s %s %s)" % (cnd(src, st.test), cnd(src, b[0].value), cnd_body(src, rest))
    src.fail(st, "unsupported statement in a condition body: %s" % ast.unparse(st).split("\n")[0])


# ------------------------------------------------------------------ execute / _execute

def tr_execute(src, fn, merror):
    b = body_of(fn)
    i = 0
    has_bvar = False
    if ast.unparse(b[0]) == "broadcast = False":
        has_bvar = True
        i = 1
    if not (i < len(b) and isinstance(b[i], ast.Try)):
        src.fail(fn, "%s: expected a try statement" % fn.name)
    tr = b[i]
    if tr.orelse or tr.finalbody:
        src.fail(tr, "%s: try has else/finally" % fn.name)
    tail = b[i + 1:]

    # --- try body
    tb = body_of(tr.body)
    ctx = None

    def lookup_exec(stmts, where):
        nonlocal ctx
        if len(stmts) != 2:
            src.fail(where, "%s: expected `context = <ctx>[request.unit_id]; response = request.execute(context)`" % fn.name)
        a, e = stmts
        ok = False
        for c in CTX_EXPRS:
            if ast.unparse(a) == "context = %s[request.unit_id]" % c:
                ok = ctx in (None, c)
                ctx = c
        if not ok or ast.unparse(e) != "response = request.execute(context)":
            src.fail(where, "%s: unrecognised lookup/execute pair" % fn.name)

    bcast = "None"
    if len(tb) == 1 and isinstance(tb[0], ast.If):
        if not has_bvar:
            src.fail(tb[0], "%s: broadcast branch without `broadcast = False`" % fn.name)
        iff = tb[0]
        ib = body_of(iff.body)
        if not (len(ib) == 2 and ast.unparse(ib[0]) == "broadcast = True" and isinstance(ib[1], ast.For)
                and not ib[1].orelse and ast.unparse(ib[1].target) == "unit_id"):
            src.fail(iff, "%s: unrecognised broadcast branch" % fn.name)
        loop = ib[1]
        ok = False
        for c in CTX_EXPRS:
            if ast.unparse(loop.iter) == "%s.slaves()" % c:
                lb = body_of(loop.body)
                if len(lb) == 1 and ast.unparse(lb[0]) == "response = request.execute(%s[unit_id])" % c:
                    ok = True
                    ctx = c
        if not ok:
            src.fail(loop, "%s: unrecognised broadcast loop" % fn.name)
        lookup_exec(body_of(iff.orelse), iff)
        bcast = "(Some %s)" % cnd(src, iff.test)
    else:
        if has_bvar:
            src.fail(tr, "%s: `broadcast` variable without a broadcast branch" % fn.name)
        lookup_exec(tb, tr)

    # --- except ladder, in source order
    arms = []
    for h in tr.handlers:
        hb = body_of(h.body)
        ty = ast.unparse(h.type) if h.type is not None else None

        def doexc(st):
            t = ast.unparse(st)
            pre = "response = request.doException(merror."
            if not (t.startswith(pre) and t.endswith(")") and t[len(pre):-1] in merror):
                src.fail(st, "%s: expected `response = request.doException(merror.<Name>)`" % fn.name)
            return merror[t[len(pre):-1]]
        if ty == "NoSuchSlaveException":
            if not (len(hb) == 2 and isinstance(hb[0], ast.If) and not hb[0].orelse
                    and [ast.unparse(s) for s in body_of(hb[0].body)] == ["return"]):
                src.fail(h, "%s: NoSuchSlaveException arm: expected `if <c>: return` then doException" % fn.name)
            arms.append("ArmNoSlave %s %s" % (cnd(src, hb[0].test), coq_z(doexc(hb[1]))))
        elif ty == "Exception":
            if len(hb) != 1:
                src.fail(h, "%s: Exception arm: expected a single doException assignment" % fn.name)
            arms.append("ArmAny %s" % coq_z(doexc(hb[0])))
        else:
            src.fail(h, "%s: unsupported except clause: %s" % (fn.name, ty))

    # --- tail: [if guard:] copy tid / copy uid / send
    guard = "CTrue"
    if len(tail) == 1 and isinstance(tail[0], ast.If) and not tail[0].orelse:
        guard = cnd(src, tail[0].test)
        tail = body_of(tail[0].body)
    if not tail:
        src.fail(fn, "%s: nothing is sent" % fn.name)
    send = ast.unparse(tail[-1])
    if send not in ("self.send(response)", "self.send(response, *addr)", "self._send(response)", "self._send(response, addr)"):
        src.fail(tail[-1], "%s: the last statement is not the send call: %s" % (fn.name, send))
    copy_tid = copy_uid = False
    for st in tail[:-1]:
        t = ast.unparse(st)
        if t == "response.transaction_id = request.transaction_id" and not copy_tid:
            copy_tid = True
        elif t == "response.unit_id = request.unit_id" and not copy_uid:
            copy_uid = True
        else:
            src.fail(st, "%s: unsupported statement before send: %s" % (fn.name, t))
    return {"bcast": bcast, "ladder": coq_list(arms), "guard": guard,
            "copy_tid": coq_bool(copy_tid), "copy_uid": coq_bool(copy_uid),
            "passes_dest": send.endswith("addr)")}


# ------------------------------------------------------------------ send / _send

WRITES = ("return self.request.send(pdu)", "return self.socket.sendto(pdu, self.client_address)",
          "return self.transport.write(pdu)", "return self.transport.write(pdu, addr)",
          norm("if addr == (None,):\n    self._send_(pdu)\nelse:\n    self._send_(pdu, *addr)"))


def tr_send(src, fn):
    b = body_of(fn)
    gate = "CTrue"
    if len(b) == 1 and isinstance(b[0], ast.If) and not b[0].orelse:
        gate = cnd(src, b[0].test)
        b = body_of(b[0].body)
    b = [s for s in b if not ast.unparse(s).endswith("control.Counter.BusMessage += 1")]
    if not (len(b) == 2 and ast.unparse(b[0]) == "pdu = self.framer.buildPacket(message)"
            and ast.unparse(b[1]) in WRITES):
        src.fail(fn, "%s: unrecognised send body: %s" % (fn.name, [ast.unparse(s) for s in b]))
    return gate


# ------------------------------------------------------------------ handle / dataReceived: the unit list given to the framer

def tr_units(src, fn):
    calls = [n for n in ast.walk(fn) if isinstance(n, ast.Call) and isinstance(n.func, ast.Attribute)
             and n.func.attr == "processIncomingPacket"]
    if len(calls) != 1:
        src.fail(fn, "%s: expected exactly one processIncomingPacket call" % fn.name)
    call = calls[0]
    kw = {k.arg: ast.unparse(k.value) for k in call.keywords}
    pos = [ast.unparse(a) for a in call.args]
    unit = kw.get("unit", pos[2] if len(pos) > 2 else None)
    if unit not in (None, "units"):
        src.fail(call, "%s: unit argument is not `units`" % fn.name)
    passes = unit == "units"
    if passes and kw.get("single") != "single":
        src.fail(call, "%s: single=single not passed" % fn.name)
    assigns = [ast.unparse(n) for n in ast.walk(fn) if isinstance(n, ast.Assign)]
    if passes:
        if not any(a == "units = %s.slaves()" % c for a in assigns for c in CTX_EXPRS):
            src.fail(fn, "%s: `units = <ctx>.slaves()` not found" % fn.name)
        if not any(a == "single = %s.single" % c for a in assigns for c in CTX_EXPRS):
            src.fail(fn, "%s: `single = <ctx>.single` not found" % fn.name)
    for a in assigns:
        if a.startswith("units =") and not (a.endswith(".slaves()") or a == "units = [units]"):
            src.fail(fn, "%s: unexpected assignment to units: %s" % (fn.name, a))
    # every mutation of `units` must be the recognised append-0 block
    muts = [n for n in ast.walk(fn) if isinstance(n, ast.Call) and isinstance(n.func, ast.Attribute)
            and ast.unparse(n.func.value) == "units"]
    append0 = "CFalse"
    blocks = []
    for n in ast.walk(fn):
        if isinstance(n, ast.If) and not n.orelse:
            nb = body_of(n.body)
            if len(nb) == 1 and isinstance(nb[0], ast.If) and not nb[0].orelse:
                ib = body_of(nb[0].body)
                if len(ib) == 1 and ast.unparse(ib[0]) == "units.append(0)":
                    blocks.append((n.test, nb[0].test))
    if len(muts) != len(blocks) or len(blocks) > 1:
        src.fail(fn, "%s: unrecognised mutation of the unit list" % fn.name)
    if blocks:
        append0 = "(CAnd %s %s)" % (cnd(src, blocks[0][0]), cnd(src, blocks[0][1]))
    return append0, passes


# ------------------------------------------------------------------ constants

def class_ints(src, cls):
    out = {}
    for n in src.cls(cls).body:
        if isinstance(n, ast.Assign) and len(n.targets) == 1 and isinstance(n.targets[0], ast.Name):
            try:
                v = ast.literal_eval(n.value)
            except Exception:  # noqa: BLE001
                continue
            if isinstance(v, int) and not isinstance(v, bool):
                out[n.targets[0].id] = v
    return out


def generate():
    sy = Src("pymodbus/server/sync.py")
    ai = Src("pymodbus/server/async_io.py")
    tw = Src("pymodbus/server/asynchronous.py")
    fr = Src("pymodbus/framer/__init__.py")
    pdu = Src("pymodbus/pdu.py")
    cst = Src("pymodbus/constants.py")
    cx = Src("pymodbus/datastore/context.py")

    merror = class_ints(pdu, "ModbusExceptions")
    for k in ("GatewayNoResponse", "SlaveFailure", "GatewayPathUnavailable"):
        if k not in merror:
            pdu.fail(pdu.cls("ModbusExceptions"), "ModbusExceptions.%s not found" % k)
    for s, name in ((sy, "sync"), (ai, "async_io"), (tw, "asynchronous")):
        if "from pymodbus.pdu import ModbusExceptions as merror" not in s.text:
            s.fail(None, "merror is not pymodbus.pdu.ModbusExceptions")
    off = class_ints(pdu, "ExceptionResponse").get("ExceptionOffset")
    if off is None:
        pdu.fail(pdu.cls("ExceptionResponse"), "ExceptionOffset not found")
    expect(pdu, pdu.func("ExceptionResponse", "__init__"),
           "ModbusResponse.__init__(self, **kwargs)\nself.original_code = function_code\n"
           "self.function_code = function_code | self.ExceptionOffset\nself.exception_code = exception_code")
    expect(pdu, pdu.func("ModbusRequest", "doException"),
           "exc = ExceptionResponse(self.function_code, exception)\nreturn exc")
    sr = pdu.class_attr("ModbusResponse", "should_respond")
    if sr is None or ast.unparse(sr) != "True":
        pdu.fail(pdu.cls("ModbusResponse"), "ModbusResponse.should_respond default is not True")
    if pdu.class_attr("ExceptionResponse", "should_respond") is not None:
        pdu.fail(pdu.cls("ExceptionResponse"), "ExceptionResponse overrides should_respond")
    init = [ast.unparse(s) for s in body_of(pdu.func("ModbusPDU", "__init__"))]
    if "self.transaction_id = kwargs.get('transaction', Defaults.TransactionId)" not in init or \
            "self.unit_id = kwargs.get('unit', Defaults.UnitId)" not in init:
        pdu.fail(pdu.func("ModbusPDU", "__init__"), "PDU defaults have an unrecognised shape")
    dfl = class_ints(cst, "Defaults")
    for k in ("TransactionId", "UnitId"):
        if k not in dfl:
            cst.fail(cst.cls("Defaults"), "Defaults.%s not found" % k)

    # server context: the lookup the model hard-wires (single -> Defaults.UnitId; KeyError-free `in` test; NoSuchSlave)
    SV = "ModbusServerContext"
    expect(cx, cx.func(SV, "__init__"), "self.single = single\nself._slaves = slaves or {}\n"
                                         "if self.single:\n    self._slaves = {Defaults.UnitId: self._slaves}")
    expect(cx, cx.func(SV, "__getitem__"),
           "if self.single:\n    slave = Defaults.UnitId\nif slave in self._slaves:\n    return self._slaves.get(slave)\n"
           "else:\n    raise NoSuchSlaveException('slave - {} does not exist, or is out of range'.format(slave))")
    expect(cx, cx.func(SV, "slaves"), "return list(self._slaves.keys())")

    # unit filter
    vf = fr.func("ModbusFramer", "_validate_unit_id")
    if [a.arg for a in vf.args.args] != ["self", "units", "single"]:
        fr.fail(vf, "_validate_unit_id: unexpected parameters")
    unit_filter = cnd_body(fr, vf.body)

    # front-ends
    def no_override(src, cls, names):
        for n in names:
            if src.has_func(cls, n):
                src.fail(src.cls(cls), "%s overrides %s" % (cls, n))

    fes = []
    base = tr_execute(sy, sy.func("ModbusBaseRequestHandler", "execute"), merror)
    for name, cls in (("sync_tcp", "ModbusConnectedRequestHandler"), ("sync_udp", "ModbusDisconnectedRequestHandler"),
                      ("sync_serial", "ModbusSingleRequestHandler")):
        no_override(sy, cls, ["execute"])
        e = dict(base)
        e["gate"] = tr_send(sy, sy.func(cls, "send"))
        e["append0"], e["passes"] = tr_units(sy, sy.func(cls, "handle"))
        fes.append((name, e))
    abase = tr_execute(ai, ai.func("ModbusBaseRequestHandler", "execute"), merror)
    agate = tr_send(ai, ai.func("ModbusBaseRequestHandler", "send"))
    hfn = [n for n in ai.cls("ModbusBaseRequestHandler").body if isinstance(n, ast.AsyncFunctionDef) and n.name == "handle"]
    if len(hfn) != 1:
        ai.fail(ai.cls("ModbusBaseRequestHandler"), "async handle not found")
    aapp, apass = tr_units(ai, hfn[0])
    for name, cls in (("aio_tcp", "ModbusConnectedRequestHandler"), ("aio_udp", "ModbusDisconnectedRequestHandler")):
        no_override(ai, cls, ["execute", "send"])
        if any(isinstance(n, ast.AsyncFunctionDef) and n.name == "handle" for n in ai.cls(cls).body):
            ai.fail(ai.cls(cls), "%s overrides handle" % cls)
        e = dict(abase)
        e["gate"], e["append0"], e["passes"] = agate, aapp, apass
        fes.append((name, e))
    for name, cls, entry in (("tw_tcp", "ModbusTcpProtocol", "dataReceived"), ("tw_udp", "ModbusUdpProtocol", "datagramReceived")):
        e = tr_execute(tw, tw.func(cls, "_execute"), merror)
        e["gate"] = tr_send(tw, tw.func(cls, "_send"))
        e["append0"], e["passes"] = tr_units(tw, tw.func(cls, entry))
        fes.append((name, e))

    out = ["(* GENERATED by /verif/gen/gen_server.py from /repo's current source on every run. Do not edit. *)",
           "From PM.theories Require Import Base Server.",
           "Open Scope string_scope.", "Open Scope list_scope.", "Open Scope Z_scope.", "",
           "Definition code : server_code := {|",
           "  sc_exc_offset := %s;" % coq_z(off),
           "  sc_dflt_tid := %s;" % coq_z(dfl["TransactionId"]),
           "  sc_dflt_uid := %s;" % coq_z(dfl["UnitId"]),
           "  sc_single_key := %s;" % coq_z(dfl["UnitId"]),
           "  sc_unit_filter := %s" % unit_filter,
           "|}.", "",
           "Definition merror_GatewayPathUnavailable : Z := %s." % coq_z(merror["GatewayPathUnavailable"]),
           "Definition merror_GatewayNoResponse : Z := %s." % coq_z(merror["GatewayNoResponse"]),
           "Definition merror_SlaveFailure : Z := %s." % coq_z(merror["SlaveFailure"]), ""]
    for name, e in fes:
        out += ["Definition %s : skel := {|" % name,
                "  sk_bcast := %s;" % e["bcast"],
                "  sk_ladder := %s;" % e["ladder"],
                "  sk_send_guard := %s;" % e["guard"],
                "  sk_copy_tid := %s;" % e["copy_tid"],
                "  sk_copy_uid := %s;" % e["copy_uid"],
                "  sk_send_gate := %s;" % e["gate"],
                "  sk_append0 := %s;" % e["append0"],
                "  sk_passes_units := %s" % coq_bool(e["passes"]),
                "|}.", ""]
    out.append("Definition frontends : list (string * skel) := %s." %
               coq_list('("%s", %s)' % (n, n) for n, _ in fes))
    return {"GenServer.v": "\n".join(out) + "\n"}
