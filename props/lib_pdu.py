"""Shared harness code for C01/C02: drives the real pymodbus message classes and decoders
in-process, prints their instances as Coq `obj` terms (coq/theories/Pdu.v), prints spec
messages (coq/theories/PduSpec.v) and has an independent spec-side PDU encoder whose output is
cross-checked against `spec_pdu` inside Coq (chk_dec)."""
from lib.coqrun import string, lst
from lib.pyx import pyexn

IMPORTS = ("From PM.theories Require Import Base Struct PduCls PduSpec Pdu CorrPdu.\n"
           "From PM.Generated Require Import GenPdu.")
CASE_DEPS = ["theories/CorrPdu.vo", "Generated/GenPdu.vo"]

FIXED = {  # class -> attributes (what the struct layout reads/writes)
    "ReadCoilsRequest": ["address", "count"], "ReadDiscreteInputsRequest": ["address", "count"],
    "ReadHoldingRegistersRequest": ["address", "count"], "ReadInputRegistersRequest": ["address", "count"],
    "WriteMultipleCoilsResponse": ["address", "count"], "WriteMultipleRegistersResponse": ["address", "count"],
    "WriteSingleRegisterResponse": ["address", "value"],
    "MaskWriteRegisterRequest": ["address", "and_mask", "or_mask"],
    "MaskWriteRegisterResponse": ["address", "and_mask", "or_mask"],
    "ReadFifoQueueRequest": ["address"],
    "ReadDeviceInformationRequest": ["sub_function_code", "read_code", "object_id"],
}
EMPTY = ["ReadExceptionStatusRequest", "GetCommEventCounterRequest", "GetCommEventLogRequest", "ReportSlaveIdRequest"]
DIAG_SUBS = [("ReturnQueryData", 0), ("RestartCommunicationsOption", 1), ("ReturnDiagnosticRegister", 2),
             ("ChangeAsciiInputDelimiter", 3), ("ForceListenOnlyMode", 4), ("ClearCounters", 10),
             ("ReturnBusMessageCount", 11), ("ReturnBusCommunicationErrorCount", 12),
             ("ReturnBusExceptionErrorCount", 13), ("ReturnSlaveMessageCount", 14),
             ("ReturnSlaveNoResponseCount", 15), ("ReturnSlaveNAKCount", 16), ("ReturnSlaveBusyCount", 17),
             ("ReturnSlaveBusCharacterOverrunCount", 18), ("ReturnIopOverrunCount", 19),
             ("ClearOverrunCount", 20), ("GetClearModbusPlus", 21)]


def diag_cls(base, direction):
    if base == "ReturnSlaveNoResponseCount" and direction == "Response":
        return "ReturnSlaveNoReponseCountResponse"        # sic, pymodbus spelling
    return base + direction


_NS = {}


def ns():
    if not _NS:
        import pymodbus.factory as F
        import pymodbus.pdu as P
        from pymodbus.file_message import FileRecord
        for k in dir(F):
            _NS[k] = getattr(F, k)
        _NS["ExceptionResponse"] = P.ExceptionResponse
        _NS["IllegalFunctionRequest"] = P.IllegalFunctionRequest
        _NS["FileRecord"] = FileRecord
        _NS["_server"] = F.ServerDecoder()
        _NS["_client"] = F.ClientDecoder()
    return _NS


# ------------------------------------------------------------------ Coq term printing
# Strict printers: a value of a type the model does not have (None, float, str where an int is
# expected, ...) raises Undumpable, which `res` turns into an `Unexpected` observation.

class Undumpable(Exception):
    pass


def z(n):
    if isinstance(n, bool):
        n = int(n)
    if not isinstance(n, int):
        raise Undumpable("expected an int, got %r" % (n,))
    return "(%d)" % n if n < 0 else "%d" % n


def zlist(l):
    if not isinstance(l, (list, tuple)):
        raise Undumpable("expected a list, got %r" % (l,))
    return "[" + "; ".join(z(x) for x in l) + "]"


def boolean(b):
    if not isinstance(b, (bool, int)):
        raise Undumpable("expected a bool, got %r" % (b,))
    return "true" if b else "false"


def nbytes(b):
    if isinstance(b, str):
        b = b.encode()
    if not isinstance(b, (bytes, bytearray)):
        raise Undumpable("expected bytes, got %r" % (b,))
    return "[" + "; ".join(str(x) for x in bytes(b)) + "]%N"


def bits(l):
    if not isinstance(l, (list, tuple)):
        raise Undumpable("expected a list of bits, got %r" % (l,))
    return "[" + "; ".join("true" if x else "false" for x in l) + "]"


def what(text):
    """printable-ASCII Coq string for an Unexpected observation"""
    t = "".join(ch if 32 <= ord(ch) < 127 else "?" for ch in str(text))[:160]
    return string(t)


def opt(v):
    return "None" if v is None else "(Some %s)" % z(v)


def dmsg(m):
    if m is None:
        return "DNone"
    if isinstance(m, (bytes, bytearray)):
        return "(DBytes %s)" % nbytes(m)
    if isinstance(m, list):
        return "(DList %s)" % zlist(m)
    if isinstance(m, tuple):
        return "(DTuple %s)" % zlist(m)
    if isinstance(m, int):
        return "(DInt %s)" % z(m)
    raise Undumpable("diagnostic message of unmodelled type %r" % (m,))


def frec(r):
    return ("{| fr_ref := %s; fr_file := %s; fr_recno := %s; fr_data := %s; fr_len := %s; fr_rlen := %s |}"
            % (z(r.reference_type), z(r.file_number), z(r.record_number), nbytes(r.record_data),
               z(r.record_length), z(r.response_length)))


def info_term(d):
    items = []
    for k, v in d.items():
        if isinstance(v, list):
            items.append("(%s, MMany %s)" % (z(k), lst(nbytes(x) for x in v)))
        else:
            items.append("(%s, MOne %s)" % (z(k), nbytes(v)))
    return lst(items)


def obj_term(o):
    """public fields of a message instance as a Coq `obj` term (class = type(o).__name__)"""
    n = type(o).__name__
    if n in FIXED:
        return "(OFixed %s %s)" % (n, lst("(%s, %s)" % (string(a), z(getattr(o, a))) for a in FIXED[n]))
    if n in EMPTY:
        return "(OEmpty %s)" % n
    if n in ("ReadCoilsResponse", "ReadDiscreteInputsResponse"):
        return "(OBitsRsp %s %s %s)" % (n, bits(o.bits), opt(getattr(o, "byte_count", None)))
    if n in ("ReadHoldingRegistersResponse", "ReadInputRegistersResponse", "ReadWriteMultipleRegistersResponse"):
        return "(ORegsRsp %s %s)" % (n, zlist(o.registers))
    if n in ("WriteSingleCoilRequest", "WriteSingleCoilResponse"):
        return "(OCoil %s %s %s)" % (n, z(o.address), boolean(o.value))
    if n == "WriteSingleRegisterRequest":
        return "(OWriteRegReq %s %s)" % (z(o.address), z(o.value))
    if n == "WriteMultipleCoilsRequest":
        return "(OWriteCoilsReq %s %s %s)" % (z(o.address), bits(o.values), z(o.byte_count))
    if n == "WriteMultipleRegistersRequest":
        return "(OWriteRegsReq %s %s %s %s)" % (z(o.address), zlist(o.values), z(o.count), z(o.byte_count))
    if n == "ReadWriteMultipleRegistersRequest":
        return "(ORWReq %s %s %s %s %s %s)" % (z(o.read_address), z(o.read_count), z(o.write_address),
                                                zlist(o.write_registers), z(o.write_count), z(o.write_byte_count))
    if hasattr(o, "message") and hasattr(o, "sub_function_code") and o.function_code == 8:
        return "(ODiag %s %s %s)" % (n, z(o.sub_function_code), dmsg(o.message))
    if n == "ReadExceptionStatusResponse":
        return "(OExcStatusRsp %s)" % z(o.status)
    if n == "GetCommEventCounterResponse":
        return "(OEvCounterRsp %s %s)" % (boolean(o.status), z(o.count))
    if n == "GetCommEventLogResponse":
        return "(OEvLogRsp %s %s %s %s)" % (boolean(o.status), z(o.message_count), z(o.event_count), zlist(o.events))
    if n == "ReportSlaveIdResponse":
        return "(OSlaveIdRsp %s %s %s)" % (nbytes(o.identifier), boolean(o.status), opt(o.byte_count))
    if n in ("ReadFileRecordRequest", "ReadFileRecordResponse", "WriteFileRecordRequest", "WriteFileRecordResponse"):
        return "(OFileRecs %s %s)" % (n, lst(frec(r) for r in o.records))
    if n == "ReadFifoQueueResponse":
        return "(OFifoRsp %s)" % zlist(o.values)
    if n == "ReadDeviceInformationResponse":
        return "(OMeiRsp %s %s %s %s %s %s %s %s)" % (
            z(o.sub_function_code), z(o.read_code), z(o.conformity), z(o.more_follows), z(o.next_object_id),
            z(o.number_of_objects), info_term(o.information), opt(o.space_left))
    if n == "ExceptionResponse":
        return "(OExc %s %s %s)" % (z(o.original_code), z(o.function_code), z(o.exception_code))
    if n == "IllegalFunctionRequest":
        return "(OIllegal %s)" % z(o.function_code)
    raise Undumpable("instance of class %s is not a modelled message" % n)


class UnexpectedObs(Exception):
    """marker returned by `res` as its third component when the outcome could not be dumped"""


def unexpected(ty, text):
    return "(@Unexpected (%s) %s)" % (ty, what(text))


def res(thunk, printer, ty):
    """Run thunk on the implementation.  Returns (Coq term of type `seen ty`, value, exception):
       a value or an exception class is `Seen (Ok ..)` / `Seen (Raise ..)`; a value whose fields cannot
       be dumped (wrong class for its attributes, missing attribute, non-message, wrong field type) is
       `Unexpected "..."` with an UnexpectedObs marker as the exception.  Never raises."""
    try:
        v = thunk()
    except Exception as e:  # noqa: BLE001 — the exception class is the observation
        try:
            return "(Seen (@Raise (%s) %s))" % (ty, pyexn(e)), None, e
        except Exception as e2:  # noqa: BLE001
            return unexpected(ty, "exception could not be classified: %r" % (e2,)), None, UnexpectedObs(str(e2))
    try:
        return "(Seen (@Ok (%s) %s))" % (ty, printer(v)), v, None
    except Exception as e:  # noqa: BLE001 — undumpable result = Unexpected observation
        cn = type(v).__name__
        return unexpected(ty, "%s: %s: %s" % (cn, type(e).__name__, e)), v, UnexpectedObs(str(e))


def safe_obj_term(build_thunk, spec=None):
    """(term, instance, error text).  The term is the EXPECTED instance of the constructor call `spec`
    (what its parameters call for), the instance is what the real constructor returned; never raises"""
    try:
        o = build_thunk()
        return (expected_term(spec) if spec is not None else obj_term(o)), o, None
    except Exception as e:  # noqa: BLE001
        return None, None, "%s: %s" % (type(e).__name__, e)


def pdu_of(o):
    return bytes([o.function_code]) + o.encode()


def helper(server, data):
    d = ns()["_server" if server else "_client"]
    return d._helper(data)


def wrapper(server, data):
    d = ns()["_server" if server else "_client"]
    return d.decode(data)


def optobj(o):
    return "(@None obj)" if o is None else "(Some %s)" % obj_term(o)


# ------------------------------------------------------------------ building objects

U16 = [0, 1, 0x7f, 0x80, 0xff, 0x100, 0x7cf, 0x7d0, 0x7d1, 0xfffe, 0xffff]
BAD16 = [-1, 65536, 70000]


def u16(r, bad=0.0):
    k = r.random()
    if k < bad:
        return r.choice(BAD16)
    if k < 0.6:
        return r.choice(U16)
    return r.randrange(65536)


def u8(r, bad=0.0):
    k = r.random()
    if k < bad:
        return r.choice([-1, 256, 300])
    if k < 0.6:
        return r.choice([0, 1, 6, 0x7f, 0x80, 0xfe, 0xff])
    return r.randrange(256)


def rbytes(r, n):
    special = [0x7b, 0x7d, 0x3a, 0x0d, 0x0a, 0, 0xff, 0x30, 6]
    return bytes(r.choice(special) if r.random() < 0.3 else r.randrange(256) for _ in range(n))


def rbits(r, n):
    mode = r.random()
    if mode < 0.15:
        return [True] * n
    if mode < 0.3:
        return [False] * n
    return [r.random() < 0.5 for _ in range(n)]


def words(r, n, bad=0.0):
    return [u16(r, bad) for _ in range(n)]


def build(spec):
    """spec = (class name, args tuple, kwargs dict, post-assignments dict) -> instance"""
    name, args, kw, post = spec
    N = ns()
    if name in ("ReadFileRecordRequest", "ReadFileRecordResponse", "WriteFileRecordRequest", "WriteFileRecordResponse"):
        if args:
            o = N[name]([N["FileRecord"](**dict(rk)) for rk in args[0]])
        else:
            kw2 = dict(kw)
            if "records" in kw2:
                kw2["records"] = [N["FileRecord"](**dict(rk)) for rk in kw2["records"]]
            o = N[name](**kw2)
    else:
        o = N[name](*args, **kw)
    for k, v in post.items():
        setattr(o, k, v)
    return o


# ------------------------------------------------------------------ expected instance of a constructor call
# The input object of an enc/rt/hist case is NOT the dump of the instance the constructor returned but the
# instance the constructor's documented parameters call for (parameter lists / defaults as in
# GenPdu.ctor_sigs = Pdu.modelled_ctors).  A constructor that drops or alters an argument (e.g. `status or
# True` swallowing status=False) then shows up as: spec_pdu(expected) <> what the real instance encodes.

CTOR = {}
for _n in ("ReadCoilsRequest", "ReadDiscreteInputsRequest", "ReadHoldingRegistersRequest", "ReadInputRegistersRequest",
           "WriteMultipleCoilsResponse", "WriteMultipleRegistersResponse"):
    CTOR[_n] = [("address", None), ("count", None)]
for _n in ("WriteSingleRegisterRequest", "WriteSingleRegisterResponse", "WriteSingleCoilRequest", "WriteSingleCoilResponse"):
    CTOR[_n] = [("address", None), ("value", None)]
for _n in ("MaskWriteRegisterRequest", "MaskWriteRegisterResponse"):
    CTOR[_n] = [("address", 0), ("and_mask", 0xffff), ("or_mask", 0)]
CTOR["ReadFifoQueueRequest"] = [("address", 0)]
CTOR["ReadDeviceInformationRequest"] = [("read_code", None), ("object_id", 0)]
CTOR["ReadExceptionStatusResponse"] = [("status", 0)]
CTOR["GetCommEventCounterResponse"] = [("count", 0)]
CTOR["ExceptionResponse"] = [("function_code", None), ("exception_code", None)]
for _n in ("ReadCoilsResponse", "ReadDiscreteInputsResponse", "ReadHoldingRegistersResponse", "ReadInputRegistersResponse",
           "ReadWriteMultipleRegistersResponse", "ReadFifoQueueResponse"):
    CTOR[_n] = [("values", None)]
for _n in ("WriteMultipleCoilsRequest", "WriteMultipleRegistersRequest"):
    CTOR[_n] = [("address", None), ("values", None)]
CTOR["ReportSlaveIdResponse"] = [("identifier", b"\x00"), ("status", True)]
for _n in ("ReadFileRecordRequest", "ReadFileRecordResponse", "WriteFileRecordRequest", "WriteFileRecordResponse"):
    CTOR[_n] = [("records", None)]
CTOR["ReadDeviceInformationResponse"] = [("read_code", None), ("information", None)]
CTOR["ReadWriteMultipleRegistersRequest"] = [("read_address", 0), ("read_count", 0), ("write_address", 0), ("write_registers", None)]
CTOR["GetCommEventLogResponse"] = [("status", True), ("message_count", 0), ("event_count", 0), ("events", [])]
KWONLY = {"ReadWriteMultipleRegistersRequest", "GetCommEventLogResponse"}
for _n in EMPTY:
    CTOR[_n] = []
for _b, _s in DIAG_SUBS:
    for _d in ("Request", "Response"):
        _c = diag_cls(_b, _d)
        if _b == "ReturnQueryData":
            CTOR[_c] = [("message", 0)]
        elif _b == "RestartCommunicationsOption":
            CTOR[_c] = [("toggle", False)]
        elif _c == "ForceListenOnlyModeResponse":
            CTOR[_c] = []
        else:
            CTOR[_c] = [("data", 0)]
KWONLY.add("GetClearModbusPlusRequest")
DIAG_SUB_OF = {diag_cls(b, d): s for b, s in DIAG_SUBS for d in ("Request", "Response")}


def fake(name, **attrs):
    o = type(name, (), {})()
    o.__dict__.update(attrs)
    return o


def bind(name, args, kw):
    params = CTOR[name]
    if name in KWONLY and args:
        raise Undumpable("%s takes keyword arguments only" % name)
    if len(args) > len(params):
        raise Undumpable("too many positional arguments for %s" % name)
    b = {p: d for p, d in params}
    for (p, _), v in zip(params, args):
        b[p] = v
    for k, v in kw.items():
        if k not in b:
            raise Undumpable("unknown parameter %s of %s" % (k, name))
        b[k] = v
    return b


def expected_record(rk):
    d = dict(rk)
    data = d.get("record_data", "")
    return fake("FileRecord", reference_type=d.get("reference_type", 6), file_number=d.get("file_number", 0),
                record_number=d.get("record_number", 0), record_data=data,
                record_length=d.get("record_length", len(data) // 2), response_length=d.get("response_length", len(data) + 1))


def expected_instance(spec):
    """the instance the public constructor's parameters call for (see ctor_sigs), then the post-assignments"""
    name, args, kw, post = spec
    b = bind(name, args, kw)
    if name in FIXED and name != "ReadDeviceInformationRequest":
        a = dict(b)
    elif name == "ReadDeviceInformationRequest":
        a = {"sub_function_code": 14, "read_code": b["read_code"] or 1, "object_id": b["object_id"]}
    elif name in EMPTY:
        a = {}
    elif name == "WriteSingleCoilRequest":
        a = {"address": b["address"], "value": bool(b["value"])}
    elif name in ("WriteSingleCoilResponse", "WriteSingleRegisterRequest"):
        a = dict(b)
    elif name == "ReadExceptionStatusResponse":
        a = dict(b)
    elif name == "GetCommEventCounterResponse":
        a = {"count": b["count"], "status": True}
    elif name == "ExceptionResponse":
        a = {"original_code": b["function_code"], "function_code": b["function_code"] | 0x80, "exception_code": b["exception_code"]}
    elif name in ("ReadCoilsResponse", "ReadDiscreteInputsResponse"):
        a = {"bits": b["values"] or []}
    elif name in ("ReadHoldingRegistersResponse", "ReadInputRegistersResponse", "ReadWriteMultipleRegistersResponse"):
        a = {"registers": b["values"] or []}
    elif name == "ReadFifoQueueResponse":
        a = {"values": b["values"] or []}
    elif name == "WriteMultipleCoilsRequest":
        v = b["values"]
        v = [] if not v else (v if hasattr(v, "__iter__") else [v])
        a = {"address": b["address"], "values": v, "byte_count": (len(v) + 7) // 8}
    elif name == "WriteMultipleRegistersRequest":
        v = b["values"]
        v = [] if v is None else (v if hasattr(v, "__iter__") else [v])
        a = {"address": b["address"], "values": v, "count": len(v), "byte_count": 2 * len(v)}
    elif name == "ReadWriteMultipleRegistersRequest":
        v = b["write_registers"]
        v = v if hasattr(v, "__iter__") else [v]
        a = {"read_address": b["read_address"], "read_count": b["read_count"], "write_address": b["write_address"],
             "write_registers": v, "write_count": len(v), "write_byte_count": 2 * len(v)}
    elif name == "GetCommEventLogResponse":
        a = dict(b)
    elif name == "ReportSlaveIdResponse":
        a = {"identifier": b["identifier"], "status": b["status"], "byte_count": None}
    elif name in ("ReadFileRecordRequest", "ReadFileRecordResponse", "WriteFileRecordRequest", "WriteFileRecordResponse"):
        a = {"records": [expected_record(rk) for rk in (b["records"] or [])]}
    elif name == "ReadDeviceInformationResponse":
        a = {"sub_function_code": 14, "read_code": b["read_code"] or 1, "information": b["information"] or {},
             "number_of_objects": 0, "conformity": 0x83, "next_object_id": 0, "more_follows": 0, "space_left": None}
    elif name in DIAG_SUB_OF:
        if "message" in b:
            m = b["message"] if isinstance(b["message"], list) else [b["message"]]
        elif "toggle" in b:
            m = [0xff00] if b["toggle"] else [0]
        elif "data" in b:
            m = b["data"]
        else:
            m = []
        a = {"function_code": 8, "sub_function_code": DIAG_SUB_OF[name], "message": m}
    else:
        raise Undumpable("no constructor model for %s" % name)
    a.update(post)
    return fake(name, **a)


def expected_term(spec):
    return obj_term(expected_instance(spec))


def class_specs(r, tier, bad=0.1):
    """one list of object specs per class: every class x boundary field values x list lengths 0..max+1"""
    out = []
    reps = 3 if tier == "quick" else 12

    def add(name, args=(), kw=None, post=None):
        out.append((name, tuple(args), dict(kw or {}), dict(post or {})))

    for _ in range(reps):
        for n in ("ReadCoilsRequest", "ReadDiscreteInputsRequest", "ReadHoldingRegistersRequest", "ReadInputRegistersRequest",
                  "WriteMultipleCoilsResponse", "WriteMultipleRegistersResponse", "WriteSingleRegisterRequest",
                  "WriteSingleRegisterResponse"):
            add(n, (u16(r, bad), u16(r, bad)))
        for n in ("MaskWriteRegisterRequest", "MaskWriteRegisterResponse"):
            add(n, (u16(r, bad), u16(r, bad), u16(r, bad)))
        add("ReadFifoQueueRequest", (u16(r, bad),))
        add("ReadDeviceInformationRequest", (u8(r, bad), u8(r, bad)))
        for n in ("WriteSingleCoilRequest", "WriteSingleCoilResponse"):
            add(n, (u16(r, bad), r.random() < 0.5))
        for n in EMPTY:
            add(n)
        add("ReadExceptionStatusResponse", (u8(r, bad),))
        add("GetCommEventCounterResponse", (u16(r, bad),), post={"status": r.random() < 0.5})
        add("ExceptionResponse", (r.choice([1, 2, 3, 8, 43, 0x7f, 0x7e, r.randrange(1, 128)]), u8(r, bad)))
    add("ExceptionResponse", (0, 1))
    add("ExceptionResponse", (128, 2))
    add("ExceptionResponse", (129, 2))
    add("ExceptionResponse", (255, 4))
    add("ExceptionResponse", (256, 4))
    # bit lists
    small = [0, 1, 7, 8, 9, 15, 16, 17, 63, 64, 65]
    big_bits = [1968, 1969, 1999, 2000, 2001, 2040, 2041] if tier == "quick" else \
        [1967, 1968, 1969, 1999, 2000, 2001, 2039, 2040, 2041, 2048]
    for n in small + big_bits + [r.randrange(2, 300) for _ in range(reps)]:
        add("ReadCoilsResponse", (rbits(r, n),))
        add("ReadDiscreteInputsResponse", (rbits(r, n),))
        add("WriteMultipleCoilsRequest", (u16(r, bad), rbits(r, n)))
    # register lists
    for n in [0, 1, 2, 3, 122, 123, 124, 125, 126, 127, 128, 129, 255, 256] + [r.randrange(2, 130) for _ in range(reps)]:
        b = bad if n < 20 else 0.0
        add("ReadHoldingRegistersResponse", (words(r, n, b),))
        add("ReadInputRegistersResponse", (words(r, n, b),))
        add("ReadWriteMultipleRegistersResponse", (words(r, n, b),))
        add("WriteMultipleRegistersRequest", (u16(r, bad), words(r, n, b)))
        add("ReadWriteMultipleRegistersRequest", kw={"read_address": u16(r, bad), "read_count": u16(r, bad),
                                                     "write_address": u16(r, bad), "write_registers": words(r, n, b)})
        add("ReadFifoQueueResponse", (words(r, n, b),))
    for n in [30, 31, 32, 33]:
        add("ReadFifoQueueResponse", (words(r, n),))
    # comm event log
    for n in [0, 1, 2, 7, 64, 248, 249, 250, 251] + [r.randrange(0, 250) for _ in range(reps)]:
        add("GetCommEventLogResponse", kw={"status": r.random() < 0.5, "message_count": u16(r, bad),
                                           "event_count": u16(r, bad), "events": [u8(r, bad if n < 9 else 0) for _ in range(n)]})
    # slave id
    for n in [0, 1, 2, 8, 253, 254, 255, 256] + [r.randrange(0, 254) for _ in range(reps)]:
        add("ReportSlaveIdResponse", (rbytes(r, n), r.random() < 0.5))
    # file records
    for n in [0, 1, 2, 3, 35, 36, 37] + [r.randrange(1, 36) for _ in range(reps)]:
        add("ReadFileRecordRequest", ([(("file_number", u16(r, bad)), ("record_number", u16(r, bad)),
                                        ("record_length", u16(r, bad))) for _ in range(n)],))
    for n in [0, 1, 2, 3, 5] + [r.randrange(1, 8) for _ in range(reps)]:
        lens = [r.choice([0, 2, 4, 6, 10, 20, 40, 1, 3]) for _ in range(n)]
        add("ReadFileRecordResponse", ([(("record_data", rbytes(r, k)),) for k in lens],))
        for cn in ("WriteFileRecordRequest", "WriteFileRecordResponse"):
            add(cn, ([(("file_number", u16(r, bad)), ("record_number", u16(r, bad)),
                       ("record_data", rbytes(r, k - k % 2))) for k in lens],))
    add("ReadFileRecordResponse", ([(("record_data", rbytes(r, 250)),)],))
    add("ReadFileRecordResponse", ([(("record_data", rbytes(r, 252)),)],))
    add("ReadFileRecordResponse", ([(("record_data", rbytes(r, 254)),)],))
    add("WriteFileRecordRequest", ([(("file_number", 4), ("record_number", 7), ("record_data", rbytes(r, 244)))],))
    add("WriteFileRecordRequest", ([(("file_number", 4), ("record_number", 7), ("record_data", rbytes(r, 248)))],))
    add("WriteFileRecordRequest", ([(("file_number", 4), ("record_number", 7), ("record_data", rbytes(r, 250)))],))
    # device information
    for _ in range(reps + 4):
        info = {}
        for oid in r.sample([0, 1, 2, 3, 4, 5, 6, 0x80, 0x81, 0xff], r.choice([0, 1, 2, 3, 5])):
            if r.random() < 0.2:
                info[oid] = [rbytes(r, r.choice([0, 1, 5, 20])) for _ in range(r.choice([1, 2, 3]))]
            else:
                info[oid] = rbytes(r, r.choice([0, 1, 5, 20, 60]))
        add("ReadDeviceInformationResponse", (u8(r), info), post={"conformity": u8(r), "more_follows": r.choice([0, 0xff]),
                                                                "next_object_id": u8(r)})
    for n in [243, 244, 245, 246]:
        add("ReadDeviceInformationResponse", (1, {0: rbytes(r, n)}))
    add("ReadDeviceInformationResponse", (1, {0: rbytes(r, 120), 1: rbytes(r, 120), 2: rbytes(r, 5)}))
    add("ReadDeviceInformationResponse", (1, {0: rbytes(r, 120), 1: rbytes(r, 121), 2: rbytes(r, 5)}))
    add("ReadDeviceInformationResponse", (1, {0: rbytes(r, 120), 300: rbytes(r, 3)}))
    # repeated (list-valued) object ids that run out of PDU space in the MIDDLE of the list: after two of three items,
    # after the first of two, right at an item that would fit exactly; behind a scalar and alone
    add("ReadDeviceInformationResponse", (1, {0: rbytes(r, 10), 0x80: [rbytes(r, 100), rbytes(r, 100), rbytes(r, 100)]}))
    add("ReadDeviceInformationResponse", (3, {0x80: [rbytes(r, 120), rbytes(r, 120), rbytes(r, 5)]}))
    add("ReadDeviceInformationResponse", (1, {0: [rbytes(r, 200), rbytes(r, 60)]}))
    add("ReadDeviceInformationResponse", (2, {1: [rbytes(r, 50), rbytes(r, 50), rbytes(r, 50), rbytes(r, 50), rbytes(r, 50)]}))
    add("ReadDeviceInformationResponse", (1, {0: rbytes(r, 100), 1: [rbytes(r, 100), rbytes(r, 41)], 2: rbytes(r, 3)}))
    # every public constructor: all-keyword form, and every parameter once with a falsy value
    # (0 / False / [] / b'') while the others keep ordinary values
    def ordinary(cn, p):
        if p in ("values", "write_registers"):
            return rbits(r, 3) if "Coils" in cn else words(r, 2)
        if p == "events":
            return [u8(r), u8(r)]
        if p == "identifier":
            return rbytes(r, 3)
        if p == "records":
            if cn == "ReadFileRecordRequest":
                return [(("file_number", 3), ("record_number", 9), ("record_length", 2))]
            if cn == "ReadFileRecordResponse":
                return [(("record_data", rbytes(r, 4)),)]
            return [(("file_number", 3), ("record_number", 9), ("record_data", rbytes(r, 4)))]
        if p == "information":
            return {0: rbytes(r, 3), 1: rbytes(r, 2)}
        if p in ("status", "toggle"):
            return True
        if p == "value" and "Coil" in cn:
            return True
        if p == "message":
            return [u16(r)]
        if p in ("read_code",):
            return r.choice([1, 2, 3, 4])
        if p in ("object_id", "exception_code"):
            return r.choice([1, 2, 3, 0x80])
        if p == "function_code":
            return r.choice([1, 3, 16, 43])
        return r.choice([1, 2, 0x1234, 0xffff])

    def falsy(cn, p):
        if p in ("values", "write_registers", "events", "records", "message"):
            return []
        if p == "identifier":
            return b""
        if p == "information":
            return {}
        if p in ("status", "toggle") or (p == "value" and "Coil" in cn):
            return False
        return 0

    for cn, params in sorted(CTOR.items()):
        if not params:
            continue
        if cn == "ExceptionResponse":
            continue                       # function code 0 is outside the property's domain
        vals = {p: ordinary(cn, p) for p, _ in params}
        add(cn, kw=dict(vals))
        if cn not in KWONLY:
            add(cn, [vals[p] for p, _ in params])
        for p, _ in params:
            v2 = dict(vals)
            v2[p] = falsy(cn, p)
            add(cn, kw=v2)
            if cn not in KWONLY:
                add(cn, [v2[q] for q, _ in params])
        dflt = (cn, (), {params[0][0]: falsy(cn, params[0][0])}, {})   # the other parameters left at their defaults
        try:
            expected_term(dflt)                                       # (only where those defaults are encodable values)
            out.append(dflt)
        except Undumpable:
            pass
    # diagnostics: every sub-function class, both directions
    for base, sub in DIAG_SUBS:
        for direction in ("Request", "Response"):
            cn = diag_cls(base, direction)
            for _ in range(2 if tier == "quick" else 6):
                v = u16(r, bad)
                if base == "ReturnQueryData":
                    m = r.choice([v, [v], [], words(r, 2), words(r, 3), words(r, r.choice([5, 60, 125]))])
                    add(cn, (m,))
                elif base == "RestartCommunicationsOption":
                    add(cn, (r.random() < 0.5,))
                elif cn == "ForceListenOnlyModeResponse":
                    add(cn)
                elif cn == "GetClearModbusPlusRequest":
                    add(cn, kw={"data": r.choice([3, 4, v])})
                else:
                    add(cn, (v,))
            # other message shapes a caller may assign
            add(cn, post={"message": words(r, r.choice([0, 2, 3]))})
            add(cn, post={"message": rbytes(r, r.choice([0, 1, 2, 4]))})
            add(cn, post={"message": None})
    return out


# ------------------------------------------------------------------ spec messages (PduSpec.msg)

def be16(v):
    return bytes([(v >> 8) & 0xff, v & 0xff])


def pack_bits_spec(bs):
    out = bytearray()
    for i in range(0, len(bs), 8):
        out.append(sum((1 << j) for j, b in enumerate(bs[i:i + 8]) if b))
    return bytes(out)


def _sw(s):
    f, rn, d = s
    return b"\x06" + be16(f) + be16(rn) + be16(len(d)) + b"".join(be16(x) for x in d)


def spec_bytes(m):
    """independent transcription of v1.1b3 section 6 (third implementation; chk_dec compares it with spec_pdu)"""
    k = m[0]
    W = lambda l: b"".join(be16(x) for x in l)  # noqa: E731
    if k in ("MReadCoilsReq", "MReadDiscreteReq", "MReadHoldingReq", "MReadInputReq"):
        fc = {"MReadCoilsReq": 1, "MReadDiscreteReq": 2, "MReadHoldingReq": 3, "MReadInputReq": 4}[k]
        return bytes([fc]) + be16(m[1]) + be16(m[2])
    if k in ("MWriteCoilReq", "MWriteCoilRsp"):
        return b"\x05" + be16(m[1]) + (b"\xff\x00" if m[2] else b"\x00\x00")
    if k in ("MWriteRegReq", "MWriteRegRsp"):
        return b"\x06" + be16(m[1]) + be16(m[2])
    if k == "MReadExcStatusReq":
        return b"\x07"
    if k in ("MDiagReq", "MDiagRsp"):
        return b"\x08" + be16(m[1]) + W(m[2])
    if k == "MCommEventCounterReq":
        return b"\x0b"
    if k == "MCommEventLogReq":
        return b"\x0c"
    if k == "MWriteCoilsReq":
        return b"\x0f" + be16(m[1]) + be16(len(m[2])) + bytes([(len(m[2]) + 7) // 8]) + pack_bits_spec(m[2])
    if k == "MWriteRegsReq":
        return b"\x10" + be16(m[1]) + be16(len(m[2])) + bytes([2 * len(m[2])]) + W(m[2])
    if k == "MReportSlaveIdReq":
        return b"\x11"
    if k == "MReadFileReq":
        return b"\x14" + bytes([7 * len(m[1])]) + b"".join(b"\x06" + be16(f) + be16(rn) + be16(ln) for f, rn, ln in m[1])
    if k in ("MWriteFileReq", "MWriteFileRsp"):
        body = b"".join(_sw(s) for s in m[1])
        return b"\x15" + bytes([len(body)]) + body
    if k in ("MMaskWriteReq", "MMaskWriteRsp"):
        return b"\x16" + be16(m[1]) + be16(m[2]) + be16(m[3])
    if k == "MReadWriteRegsReq":
        return b"\x17" + be16(m[1]) + be16(m[2]) + be16(m[3]) + be16(len(m[4])) + bytes([2 * len(m[4])]) + W(m[4])
    if k == "MReadFifoReq":
        return b"\x18" + be16(m[1])
    if k == "MReadDevIdReq":
        return bytes([0x2b, 0x0e, m[1], m[2]])
    if k in ("MReadCoilsRsp", "MReadDiscreteRsp"):
        return bytes([1 if k == "MReadCoilsRsp" else 2, (len(m[1]) + 7) // 8]) + pack_bits_spec(m[1])
    if k in ("MReadHoldingRsp", "MReadInputRsp", "MReadWriteRegsRsp"):
        fc = {"MReadHoldingRsp": 3, "MReadInputRsp": 4, "MReadWriteRegsRsp": 23}[k]
        return bytes([fc, 2 * len(m[1])]) + W(m[1])
    if k == "MReadExcStatusRsp":
        return bytes([7, m[1]])
    if k == "MCommEventCounterRsp":
        return b"\x0b" + (b"\xff\xff" if m[1] else b"\x00\x00") + be16(m[2])
    if k == "MCommEventLogRsp":
        return bytes([0x0c, 6 + len(m[4])]) + (b"\xff\xff" if m[1] else b"\x00\x00") + be16(m[2]) + be16(m[3]) + bytes(m[4])
    if k in ("MWriteCoilsRsp", "MWriteRegsRsp"):
        return bytes([15 if k == "MWriteCoilsRsp" else 16]) + be16(m[1]) + be16(m[2])
    if k == "MReportSlaveIdRsp":
        return bytes([0x11, len(m[1]) + 1]) + bytes(m[1]) + (b"\xff" if m[2] else b"\x00")
    if k == "MReadFileRsp":
        body = b"".join(bytes([1 + 2 * len(d), 6]) + W(d) for d in m[1])
        return bytes([0x14, len(body)]) + body
    if k == "MReadFifoRsp":
        return b"\x18" + be16(2 + 2 * len(m[1])) + be16(len(m[1])) + W(m[1])
    if k == "MReadDevIdRsp":
        return bytes([0x2b, 0x0e, m[1], m[2], m[3], m[4], len(m[5])]) + b"".join(bytes([i, len(d)]) + bytes(d) for i, d in m[5])
    if k == "MException":
        return bytes([m[1] + 0x80, m[2]])
    raise ValueError(k)


def msg_term(m):
    k = m[0]
    if k in ("MWriteCoilReq", "MWriteCoilRsp"):
        return "(%s %s %s)" % (k, z(m[1]), boolean(m[2]))
    if k in ("MDiagReq", "MDiagRsp"):
        return "(%s %s %s)" % (k, z(m[1]), zlist(m[2]))
    if k == "MWriteCoilsReq":
        return "(%s %s %s)" % (k, z(m[1]), bits(m[2]))
    if k == "MWriteRegsReq":
        return "(%s %s %s)" % (k, z(m[1]), zlist(m[2]))
    if k == "MReadFileReq":
        return "(%s %s)" % (k, lst("{| sr_file := %s; sr_record := %s; sr_length := %s |}" % (z(f), z(rn), z(ln)) for f, rn, ln in m[1]))
    if k in ("MWriteFileReq", "MWriteFileRsp"):
        return "(%s %s)" % (k, lst("{| sw_file := %s; sw_record := %s; sw_data := %s |}" % (z(f), z(rn), zlist(d)) for f, rn, d in m[1]))
    if k == "MReadWriteRegsReq":
        return "(%s %s %s %s %s)" % (k, z(m[1]), z(m[2]), z(m[3]), zlist(m[4]))
    if k in ("MReadCoilsRsp", "MReadDiscreteRsp"):
        return "(%s %s)" % (k, bits(m[1]))
    if k in ("MReadHoldingRsp", "MReadInputRsp", "MReadWriteRegsRsp", "MReadFifoRsp"):
        return "(%s %s)" % (k, zlist(m[1]))
    if k == "MCommEventCounterRsp":
        return "(%s %s %s)" % (k, boolean(m[1]), z(m[2]))
    if k == "MCommEventLogRsp":
        return "(%s %s %s %s %s)" % (k, boolean(m[1]), z(m[2]), z(m[3]), zlist(m[4]))
    if k == "MReportSlaveIdRsp":
        return "(%s %s %s)" % (k, nbytes(m[1]), boolean(m[2]))
    if k == "MReadFileRsp":
        return "(%s %s)" % (k, lst(zlist(d) for d in m[1]))
    if k == "MReadDevIdRsp":
        return "(%s %s %s %s %s %s)" % (k, z(m[1]), z(m[2]), z(m[3]), z(m[4]),
                                        lst("(%s, %s)" % (z(i), nbytes(d)) for i, d in m[5]))
    if len(m) == 1:
        return k
    return "(%s %s)" % (k, " ".join(z(x) for x in m[1:]))


REQUEST_KINDS = {"MReadCoilsReq", "MReadDiscreteReq", "MReadHoldingReq", "MReadInputReq", "MWriteCoilReq", "MWriteRegReq",
                 "MReadExcStatusReq", "MDiagReq", "MCommEventCounterReq", "MCommEventLogReq", "MWriteCoilsReq",
                 "MWriteRegsReq", "MReportSlaveIdReq", "MReadFileReq", "MWriteFileReq", "MMaskWriteReq",
                 "MReadWriteRegsReq", "MReadFifoReq", "MReadDevIdReq"}


def spec_msgs(r, tier):
    """spec-conformant messages of every kind: boundary field values, list lengths 0..wire maximum"""
    out = []
    reps = 3 if tier == "quick" else 12
    g = lambda: u16(r)  # noqa: E731
    for _ in range(reps):
        for k in ("MReadCoilsReq", "MReadDiscreteReq", "MReadHoldingReq", "MReadInputReq", "MWriteRegReq", "MWriteRegRsp",
                  "MWriteCoilsRsp", "MWriteRegsRsp"):
            out.append((k, g(), g()))
        for k in ("MWriteCoilReq", "MWriteCoilRsp"):
            out.append((k, g(), r.random() < 0.5))
        for k in ("MMaskWriteReq", "MMaskWriteRsp"):
            out.append((k, g(), g(), g()))
        out.append(("MReadFifoReq", g()))
        out.append(("MReadDevIdReq", r.choice([1, 2, 3, 4, 0, 0xff]), u8(r)))
        out.append(("MReadExcStatusRsp", u8(r)))
        out.append(("MCommEventCounterRsp", r.random() < 0.5, g()))
        out.append(("MException", r.choice([1, 2, 3, 4, 5, 6, 7, 8, 11, 12, 15, 16, 17, 20, 21, 22, 23, 24, 43, 0x7f,
                                            r.randrange(1, 128)]), r.choice([1, 2, 3, 4, 5, 6, 8, 10, 11, 0, 0xff])))
    for k in ("MReadExcStatusReq", "MCommEventCounterReq", "MCommEventLogReq", "MReportSlaveIdReq"):
        out.append((k,))
    for base, sub in DIAG_SUBS + [("unregistered", 5), ("unregistered", 22), ("unregistered", 0xffff)]:
        for k in ("MDiagReq", "MDiagRsp"):
            out.append((k, sub, [g()]))
            out.append((k, sub, words(r, r.choice([0, 2, 3, 60, 125]))))
    bl = [0, 1, 7, 8, 9, 15, 16, 17, 1968, 1969, 2000, 2001, 2040] + [r.randrange(2, 300) for _ in range(reps)]
    for n in bl:
        out.append(("MReadCoilsRsp", rbits(r, n)))
        out.append(("MReadDiscreteRsp", rbits(r, n)))
        out.append(("MWriteCoilsReq", g(), rbits(r, n)))
    for n in [0, 1, 2, 3, 121, 122, 123, 124, 125, 126, 127] + [r.randrange(2, 128) for _ in range(reps)]:
        out.append(("MReadHoldingRsp", words(r, n)))
        out.append(("MReadInputRsp", words(r, n)))
        out.append(("MReadWriteRegsRsp", words(r, n)))
        out.append(("MWriteRegsReq", g(), words(r, n)))
        out.append(("MReadWriteRegsReq", g(), g(), g(), words(r, n)))
        out.append(("MReadFifoRsp", words(r, n)))
    for n in [30, 31, 32]:
        out.append(("MReadFifoRsp", words(r, n)))
    for n in [0, 1, 2, 7, 64, 248, 249] + [r.randrange(0, 250) for _ in range(reps)]:
        out.append(("MCommEventLogRsp", r.random() < 0.5, g(), g(), [u8(r) for _ in range(n)]))
    for n in [0, 1, 2, 8, 253, 254] + [r.randrange(0, 254) for _ in range(reps)]:
        out.append(("MReportSlaveIdRsp", rbytes(r, n), r.random() < 0.5))
    for n in [0, 1, 2, 3, 35, 36] + [r.randrange(1, 36) for _ in range(reps)]:
        out.append(("MReadFileReq", [(g(), g(), g()) for _ in range(n)]))
    for _ in range(reps + 4):
        subs, total = [], 0
        for _ in range(r.choice([0, 1, 2, 3, 5])):
            d = words(r, r.choice([0, 1, 2, 5, 20]))
            if total + 7 + 2 * len(d) <= 255:
                total += 7 + 2 * len(d)
                subs.append((g(), g(), d))
        out.append(("MWriteFileReq", subs))
        out.append(("MWriteFileRsp", subs))
        ds, total = [], 0
        for _ in range(r.choice([0, 1, 2, 3, 5])):
            d = words(r, r.choice([0, 1, 2, 5, 20]))
            if total + 2 + 2 * len(d) <= 255:
                total += 2 + 2 * len(d)
                ds.append(d)
        out.append(("MReadFileRsp", ds))
    out.append(("MWriteFileReq", [(4, 7, words(r, 124))]))
    out.append(("MReadFileRsp", [words(r, 126)]))
    for _ in range(reps + 3):
        objs, total = [], 0
        for oid in r.sample([0, 1, 2, 3, 4, 5, 6, 0x80, 0xff], r.choice([0, 1, 2, 3, 5])):
            d = rbytes(r, r.choice([0, 1, 5, 20, 60]))
            if total + 2 + len(d) <= 240:
                total += 2 + len(d)
                objs.append((oid, d))
        out.append(("MReadDevIdRsp", r.choice([1, 2, 3, 4]), r.choice([1, 2, 3, 0x81, 0x82, 0x83]), r.choice([0, 0xff]), u8(r), objs))
    return out
