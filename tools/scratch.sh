#!/bin/bash
# tools/scratch.sh <name>   — private copy of /verif and a git worktree of /repo for mutation trials.
#   edits go to /tmp/vs_<name>/repo ; run  VERIF_REPO=/tmp/vs_<name>/repo /tmp/vs_<name>/verif/check Cxx
# tools/scratch.sh <name> --rm   — remove both
n="$1"; d="/tmp/vs_$n"
if [ "$2" = "--rm" ]; then git -C /repo worktree remove --force "$d/repo" 2>/dev/null; rm -rf "$d"; git -C /repo worktree prune; exit 0; fi
mkdir -p "$d" && rsync -a --exclude .git --exclude replays --exclude coq/cases /verif/ "$d/verif/" && git -C /repo worktree add -q --detach "$d/repo" HEAD && echo "$d"
