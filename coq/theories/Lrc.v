(* Lrc.v — utilities.computeLRC / checkLRC as the interpretation of the expressions the
   translator reads from pymodbus/utilities.py, and the specification LRC of the Modbus
   serial line guide (two's complement of the byte sum, modulo 256).  No proofs. *)
From PM.theories Require Import Base Expr FrBaseA.
Open Scope string_scope.
Open Scope list_scope.
Open Scope Z_scope.

Record lrc_code := {
  l_mask : expr;      (* lrc = sum(...) & 0xff        atom "sum" *)
  l_step : expr;      (* lrc = (lrc ^ 0xff) + 1       atom "lrc" *)
  l_ret : expr;       (* return lrc & 0xff            atom "lrc" *)
  l_check : expr      (* computeLRC(data) == check    atoms "computeLRC(data)", "check" *)
}.

Section WithCode.
Variable L : lrc_code.

Definition py_lrc (bs : bytes) : Z :=
  let lrc := eval (env_of [("sum", bsum bs)]) (l_mask L) in
  let lrc := eval (env_of [("lrc", lrc)]) (l_step L) in
  eval (env_of [("lrc", lrc)]) (l_ret L).

Definition py_check_lrc (data : bytes) (check : Z) : bool :=
  beval (env_of [("computeLRC(data)", py_lrc data); ("check", check)]) (l_check L).
End WithCode.

(* specification side *)
Definition spec_lrc (bs : bytes) : Z := (256 - (bsum bs) mod 256) mod 256.
