(* Props/C13.v — Client transactions end in bounded time with a result and recover.
   ONLY statements.  [code] is the record regenerated from pymodbus/transaction.py on every run
   (retry loop as a statement list, `retries or 0`, getNextTID, sizes, caught exceptions);
   [execute code FS F] is the model of BaseModbusClient.execute + ModbusTransactionManager.execute
   over an arbitrary framer [F] (processIncomingPacket / resetFrame / buildPacket) and an arbitrary
   per-call transport script.  Time is virtual: one script element per transport call. *)
From PM.theories Require Import Base Expr Client CorrClient.
From PM.Generated Require Import GenClient.
From PM.proofs Require Import Client_proofs.
Open Scope list_scope.
Open Scope Z_scope.

(* the property as given (kept visible; it does NOT hold of the unchanged tree: see the _refuted theorems) *)
Definition C13_full_statement : Prop :=
  forall FS (F : framer FS) c st rq sc st' o,
    0 <= retries_given c -> execute code FS F c st rq sc = (st', o) ->
    sends_of (o_calls o) <= 1 + retries_given c /\
    match o_res o with RReply _ | RErr _ | RBroadcast => True
                  | RRaise e => e = ConnectionExc /\ s_conn st' = false | _ => False end.

(* at most 1 + retries frames are written, whatever the transport does, for every prior state;
   retries is the keyword as given (0 stays 0; not given = 3) *)
Theorem C13_transmissions : forall FS (F : framer FS) c st rq sc st' o,
  0 <= retries_given c -> execute code FS F c st rq sc = (st', o) ->
  sends_of (o_calls o) <= 1 + retries_given c.
Proof. exact execute_sends. Qed.
Print Assumptions C13_transmissions.

(* the retry loop of the generated skeleton terminates for every script: the fuel is never exhausted *)
Theorem C13_terminates : forall FS (F : framer FS) c st rq sc,
  o_res (snd (execute code FS F c st rq sc)) <> RStuck.
Proof. exact execute_not_stuck. Qed.
Print Assumptions C13_terminates.

(* a reply or an error object, never an exception, unless the connection cannot be established —
   PARTIAL: for non-ASCII framings and framers whose processIncomingPacket raises only ModbusIOException *)
Theorem C13_no_raise_partial : forall FS (F : framer FS) c st rq sc st' o,
  s_tx st = [] -> c_framing c <> FAscii -> framer_raises_io FS F ->
  execute code FS F c st rq sc = (st', o) ->
  match o_res o with
  | RReply _ | RErr _ | RBroadcast => True
  | RRaise e => e = ConnectionExc /\ s_conn st' = false
  | RNone | RStuck => False
  end.
Proof. exact execute_no_raise. Qed.
Print Assumptions C13_no_raise_partial.

(* … and on the ASCII framing a ValueError escapes (witness: bytes ':zz\xff\x00', recorded real framer) *)
Theorem C13_no_raise_refuted_ascii :
  exists (T : ftable) c st rq sc,
    s_tx st = [] /\ o_res (snd (execute code Z (table_framer T) c st rq sc)) = RRaise ValueError.
Proof. exact no_raise_refuted_ascii. Qed.
Print Assumptions C13_no_raise_refuted_ascii.

(* … and when processIncomingPacket delivers and then raises, the next call can return None *)
Theorem C13_none_refuted :
  exists (T : ftable) c st rq sc1 sc2,
    s_tx st = [] /\
    let '(st1, o1) := execute code Z (table_framer T) c st rq sc1 in
    o_res o1 = RErr None /\ s_tx st1 <> [] /\
    o_res (snd (execute code Z (table_framer T) c st1 rq sc2)) = RNone.
Proof. exact none_refuted. Qed.
Print Assumptions C13_none_refuted.

(* invariant over all histories: empty transaction table, transaction id in range and advanced by
   (t + 1) mod 65536 — given that a raising processIncomingPacket has delivered nothing *)
Theorem C13_inv : forall FS (F : framer FS) c st rq sc st' o,
  s_tx st = [] -> tid_ok (s_tid st) -> proc_clean FS F ->
  execute code FS F c st rq sc = (st', o) ->
  s_tx st' = [] /\ tid_ok (s_tid st') /\ (s_tid st' = s_tid st \/ s_tid st' = (s_tid st + 1) mod 65536).
Proof. exact execute_inv. Qed.
Print Assumptions C13_inv.

(* after ANY script of faults the next call over a healthy transport returns its own reply *)
Theorem C13_ready : forall FS (F : framer FS) c st rq1 faults st1 o1 rq reply sc rest m,
  s_tx st = [] -> tid_ok (s_tid st) -> proc_clean FS F ->
  execute code FS F c st rq1 faults = (st1, o1) ->
  c_bcast c && (r_unit rq =? 0) = false -> 0 <= retries_given c -> reply <> [] ->
  (c_roi c = true -> exists mb, decode_data 7 (c_framing c) reply = Ok mb /\ mb_unit mb = Some (r_unit rq)) ->
  reset_empties FS F -> conformant_frame FS F reply (r_unit rq) m ->
  serves (c_framing c) (exp_of c rq) (full_of FS c st1 rq) reply sc ->
  exists st2 o2,
    execute code FS F c st1 rq ((if s_conn st1 then [] else [Nothing]) ++ attempt true sc ++ rest) = (st2, o2)
    /\ o_res o2 = RReply m /\ s_tx st2 = [] /\ s_tid st2 = (s_tid st1 + 1) mod 65536.
Proof. exact execute_ready. Qed.
Print Assumptions C13_ready.

(* retry_on_empty: after j <= retries empty replies (each: frame written, nothing read) the valid reply is returned *)
Theorem C13_retry_on_empty_honoured : forall FS (F : framer FS) c st rq reply sc rest m (j : nat),
  s_tx st = [] -> c_bcast c && (r_unit rq =? 0) = false ->
  0 <= retries_given c -> Z.of_nat j <= retries_given c -> (j = O \/ c_roe c = true) ->
  reply <> [] ->
  (c_roi c = true -> exists mb, decode_data 7 (c_framing c) reply = Ok mb /\ mb_unit mb = Some (r_unit rq)) ->
  reset_empties FS F -> conformant_frame FS F reply (r_unit rq) m ->
  serves (c_framing c) (exp_of c rq) (snd (after_empties j true (full_of FS c st rq))) reply sc ->
  exists st' o,
    execute code FS F c st rq
      ((if s_conn st then [] else [Nothing]) ++ empties j true (full_of FS c st rq)
         ++ attempt (fst (after_empties j true (full_of FS c st rq))) sc ++ rest) = (st', o)
    /\ o_res o = RReply m /\ s_tx st' = [] /\ s_tid st' = next_tid code (s_tid st).
Proof. exact execute_empties_then_reply. Qed.
Print Assumptions C13_retry_on_empty_honoured.

(* retry_on_invalid: after |l| <= retries foreign replies (another unit answers) the valid reply is returned *)
Theorem C13_retry_on_invalid_honoured : forall FS (F : framer FS) c st rq reply sc rest m (l : list (bytes * list tev)),
  s_tx st = [] -> c_bcast c && (r_unit rq =? 0) = false ->
  0 <= retries_given c -> zlen l <= retries_given c -> (l = [] \/ c_roi c = true) ->
  reply <> [] ->
  (c_roi c = true -> exists mb, decode_data 7 (c_framing c) reply = Ok mb /\ mb_unit mb = Some (r_unit rq)) ->
  reset_empties FS F -> conformant_frame FS F reply (r_unit rq) m ->
  foreign_ok (env_of_call FS c st rq) (full_of FS c st rq) l ->
  serves (c_framing c) (exp_of c rq) (snd (after_foreign l true (full_of FS c st rq))) reply sc ->
  exists st' o,
    execute code FS F c st rq
      ((if s_conn st then [] else [Nothing]) ++ foreign_script l true
         ++ attempt (fst (after_foreign l true (full_of FS c st rq))) sc ++ rest) = (st', o)
    /\ o_res o = RReply m /\ s_tx st' = [] /\ s_tid st' = next_tid code (s_tid st).
Proof. exact execute_foreign_then_reply. Qed.
Print Assumptions C13_retry_on_invalid_honoured.

(* ModbusTcpClient._recv's deadline loop, under the hypothesis deadline_progress (each iteration receives
   >= 1 byte or advances the clock by >= delta > 0): it ends within size + ceil(timeout/delta) iterations
   and never returns more than it was asked for *)
Theorem C13_tcp_recv_terminates : forall delta, 0 < delta ->
  forall s now timeout ticks b,
  0 < s -> Forall (progress delta) ticks -> 0 <= b -> timeout < b * delta -> s + b <= zlen ticks ->
  exists bs, tcp_recv (Some s) now timeout ticks = Some bs /\ zlen bs <= s.
Proof. exact tcp_recv_terminates. Qed.
Print Assumptions C13_tcp_recv_terminates.

(* the hypotheses of the theorems above are satisfiable: tid wraps 65535 -> 0, two empty replies, retries = 2 *)
Example C13_nonvacuous :
  exists st' o,
    execute code unit demo_tcp cfg_retry (Build_cstate 65535 [] tt [] false) rq_rh
      ([Nothing] ++ empties 2 true false
         ++ attempt false [Data (firstn 8 (reply_rh 0)); Data (skipn 8 (reply_rh 0))] ++ [])
      = (st', o)
    /\ o_res o = RReply {| m_tid := 0; m_uid := 5; m_fc := 3; m_id := 0 |} /\ s_tx st' = [] /\ s_tid st' = 0.
Proof. exact retry_example. Qed.
Print Assumptions C13_nonvacuous.

(* the error object execute returns answers isError() = True (generated from exceptions.ModbusException.isError,
   which ModbusIOException inherits); a reply answers by its function code *)
Theorem C13_error_object_is_error : forall fc, is_error_of code (RErr fc) = Some true.
Proof. exact error_object_is_error. Qed.
Print Assumptions C13_error_object_is_error.

Theorem C13_reply_is_error : forall m, is_error_of code (RReply m) = Some (m_fc m >? 128).
Proof. exact reply_is_error. Qed.
Print Assumptions C13_reply_is_error.
