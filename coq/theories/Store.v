(* Store.v — executable model of pymodbus/datastore/store.py and context.py.
   The arithmetic (comparisons, offsets, slice bounds, range bounds, id limits) is NOT
   written here: it is the record [store_code] of [Expr.expr] terms that gen/gen_store.py
   regenerates from the source on every run (Generated/GenStore.v).  What is written by
   hand here is the Python list / dict / slice machinery those expressions drive.
   Values are [Z] (coils travel as 0/1).  No proofs in this file. *)
From PM.theories Require Import Base Expr.
Open Scope string_scope.
Open Scope Z_scope.

(* ---------------------------------------------------------------- Python list slices *)

(* PySlice_AdjustIndices for step 1 *)
Definition norm_idx (len i : Z) : Z :=
  if i <? 0 then Z.max 0 (i + len) else Z.min i len.

Definition py_slice {A} (l : list A) (lo hi : Z) : list A :=
  let len := Z.of_nat (length l) in
  let lo' := norm_idx len lo in
  let hi' := Z.max lo' (norm_idx len hi) in
  firstn (Z.to_nat (hi' - lo')) (skipn (Z.to_nat lo') l).

(* l[lo:hi] = vs *)
Definition py_slice_assign {A} (l : list A) (lo hi : Z) (vs : list A) : list A :=
  let len := Z.of_nat (length l) in
  let lo' := norm_idx len lo in
  let hi' := Z.max lo' (norm_idx len hi) in
  firstn (Z.to_nat lo') l ++ vs ++ skipn (Z.to_nat hi') l.

(* ---------------------------------------------------------------- Python dict (insertion ordered) *)

Definition dict := list (Z * Z).

Fixpoint d_get (d : dict) (k : Z) : option Z :=
  match d with
  | [] => None
  | (k', v) :: t => if k' =? k then Some v else d_get t k
  end.

Definition d_mem (d : dict) (k : Z) : bool :=
  match d_get d k with Some _ => true | None => false end.

Fixpoint d_set (d : dict) (k v : Z) : dict :=
  match d with
  | [] => [(k, v)]
  | (k', v') :: t => if k' =? k then (k', v) :: t else (k', v') :: d_set t k v
  end.

Fixpoint d_del (d : dict) (k : Z) : dict :=
  match d with
  | [] => []
  | (k', v') :: t => if k' =? k then t else (k', v') :: d_del t k
  end.

(* ---------------------------------------------------------------- generated code record *)

Record store_code := {
  (* ModbusSequentialDataBlock; atoms self.address address count len(self.values) len(values) *)
  c_seq_validate : expr;
  c_seq_get_lo : expr; c_seq_get_hi : expr;
  c_seq_set_lo : expr; c_seq_set_hi : expr;
  (* ModbusSparseDataBlock; atoms address count idx *)
  c_sp_validate_reject : expr;            (* the early `return False` test *)
  c_sp_validate_lo : expr; c_sp_validate_hi : expr;
  c_sp_get_lo : expr; c_sp_get_hi : expr;
  c_sp_set_key : expr;
  (* ModbusSlaveContext; atoms self.zero_mode address *)
  c_ctx_validate_addr : expr; c_ctx_get_addr : expr; c_ctx_set_addr : expr;
  c_fx_mapper : list (Z * string);
  (* ModbusServerContext; atoms slave self.single, Defaults.UnitId inlined *)
  c_srv_default_unit : Z;
  c_srv_set_ok : expr;
  c_srv_del_ok : expr;
  (* defaults: Defaults.ZeroMode (0/1) used when no zero_mode keyword is given; the create()
     factories: start address and number of cells of a default block *)
  c_ctx_default_zero : Z;
  c_create_addr : Z;
  c_create_size : Z
}.

(* ---------------------------------------------------------------- blocks *)

Record seqblock := { sb_addr : Z; sb_vals : list Z; sb_def : Z }.
Record spblock := { sp_vals : dict; sp_def : Z }.

Section WithCode.
Variable C : store_code.

Definition seq_env (b : seqblock) (address count nvalues : Z) : env :=
  env_of [("self.address", sb_addr b); ("address", address); ("count", count);
          ("len(self.values)", Z.of_nat (length (sb_vals b))); ("len(values)", nvalues)].

Definition seq_validate (b : seqblock) (a c : Z) : bool :=
  beval (seq_env b a c 0) (c_seq_validate C).

Definition seq_get (b : seqblock) (a c : Z) : list Z :=
  let rho := seq_env b a c 0 in
  py_slice (sb_vals b) (eval rho (c_seq_get_lo C)) (eval rho (c_seq_get_hi C)).

Definition seq_set (b : seqblock) (a : Z) (vs : list Z) : seqblock :=
  let rho := seq_env b a 0 (Z.of_nat (length vs)) in
  {| sb_addr := sb_addr b;
     sb_vals := py_slice_assign (sb_vals b) (eval rho (c_seq_set_lo C)) (eval rho (c_seq_set_hi C)) vs;
     sb_def := sb_def b |}.

Definition seq_reset (b : seqblock) : seqblock :=
  {| sb_addr := sb_addr b; sb_vals := map (fun _ => sb_def b) (sb_vals b); sb_def := sb_def b |}.

Definition seq_iter (b : seqblock) : list (Z * Z) :=
  combine (zrange (sb_addr b) (length (sb_vals b))) (sb_vals b).

Definition sp_env (address count idx : Z) : env :=
  env_of [("address", address); ("count", count); ("idx", idx)].

Definition sp_validate (b : spblock) (a c : Z) : bool :=
  let rho := sp_env a c 0 in
  if beval rho (c_sp_validate_reject C) then false
  else forallb (d_mem (sp_vals b))
               (py_range (eval rho (c_sp_validate_lo C)) (eval rho (c_sp_validate_hi C))).

Fixpoint d_get_all (d : dict) (ks : list Z) : res (list Z) :=
  match ks with
  | [] => Ok []
  | k :: t => match d_get d k with
              | None => Raise KeyError
              | Some v => do r <- d_get_all d t; Ok (v :: r)
              end
  end.

Definition sp_get (b : spblock) (a c : Z) : res (list Z) :=
  let rho := sp_env a c 0 in
  d_get_all (sp_vals b) (py_range (eval rho (c_sp_get_lo C)) (eval rho (c_sp_get_hi C))).

Fixpoint sp_set_from (d : dict) (a : Z) (idx : Z) (vs : list Z) : dict :=
  match vs with
  | [] => d
  | v :: t => sp_set_from (d_set d (eval (sp_env a 0 idx) (c_sp_set_key C)) v) a (idx + 1) t
  end.

Definition sp_set (b : spblock) (a : Z) (vs : list Z) : spblock :=
  {| sp_vals := sp_set_from (sp_vals b) a 0 vs; sp_def := sp_def b |}.

(* reset() after the fix: every populated key keeps existing, value := default *)
Definition sp_reset (b : spblock) : spblock :=
  {| sp_vals := map (fun kv => (fst kv, sp_def b)) (sp_vals b); sp_def := sp_def b |}.

Definition sp_iter (b : spblock) : list (Z * Z) := sp_vals b.

(* ---------------------------------------------------------------- blocks, uniformly *)

Inductive block := BSeq (b : seqblock) | BSp (b : spblock).

Definition blk_validate (b : block) (a c : Z) : bool :=
  match b with BSeq s => seq_validate s a c | BSp s => sp_validate s a c end.
Definition blk_get (b : block) (a c : Z) : res (list Z) :=
  match b with BSeq s => Ok (seq_get s a c) | BSp s => sp_get s a c end.
Definition blk_set (b : block) (a : Z) (vs : list Z) : block :=
  match b with BSeq s => BSeq (seq_set s a vs) | BSp s => BSp (sp_set s a vs) end.
Definition blk_reset (b : block) : block :=
  match b with BSeq s => BSeq (seq_reset s) | BSp s => BSp (sp_reset s) end.
Definition blk_iter (b : block) : list (Z * Z) :=
  match b with BSeq s => seq_iter s | BSp s => sp_iter s end.

(* ---------------------------------------------------------------- slave context
   The four table slots 'd' 'c' 'i' 'h' point into a list of blocks, so that two tables
   backed by the same Python object (shared tables) are one block here. *)

Record slavectx := {
  cx_zero : bool;
  cx_slots : list (string * nat);       (* slot letter -> index into cx_blocks *)
  cx_blocks : list block
}.

Fixpoint assoc_str {A} (l : list (string * A)) (k : string) : option A :=
  match l with
  | [] => None
  | (k', v) :: t => if String.eqb k' k then Some v else assoc_str t k
  end.

Fixpoint assoc_z {A} (l : list (Z * A)) (k : Z) : option A :=
  match l with
  | [] => None
  | (k', v) :: t => if k' =? k then Some v else assoc_z t k
  end.

Definition cx_env (x : slavectx) (address : Z) : env :=
  env_of [("self.zero_mode", b2z (cx_zero x)); ("address", address)].

(* self.store[self.decode(fx)] — KeyError for an unmapped function code or missing slot *)
Definition cx_block_idx (x : slavectx) (fx : Z) : res nat :=
  match assoc_z (c_fx_mapper C) fx with
  | None => Raise KeyError
  | Some letter => match assoc_str (cx_slots x) letter with
                   | None => Raise KeyError
                   | Some i => if Nat.ltb i (length (cx_blocks x)) then Ok i else Raise KeyError
                   end
  end.

Fixpoint set_nth {A} (l : list A) (i : nat) (v : A) : list A :=
  match l, i with
  | [], _ => []
  | _ :: t, O => v :: t
  | h :: t, S k => h :: set_nth t k v
  end.

Definition nth_block (x : slavectx) (i : nat) : block :=
  nth i (cx_blocks x) (BSeq {| sb_addr := 0; sb_vals := []; sb_def := 0 |}).

Definition cx_validate (x : slavectx) (fx a c : Z) : res bool :=
  do i <- cx_block_idx x fx;
  Ok (blk_validate (nth_block x i) (eval (cx_env x a) (c_ctx_validate_addr C)) c).

Definition cx_get (x : slavectx) (fx a c : Z) : res (list Z) :=
  do i <- cx_block_idx x fx;
  blk_get (nth_block x i) (eval (cx_env x a) (c_ctx_get_addr C)) c.

Definition cx_set (x : slavectx) (fx a : Z) (vs : list Z) : res slavectx :=
  do i <- cx_block_idx x fx;
  Ok {| cx_zero := cx_zero x; cx_slots := cx_slots x;
        cx_blocks := set_nth (cx_blocks x) i
                       (blk_set (nth_block x i) (eval (cx_env x a) (c_ctx_set_addr C)) vs) |}.

(* what ModbusSlaveContext() builds when a table / zero_mode is not passed *)
Definition default_zero_mode : bool := z2b (c_ctx_default_zero C).
Definition default_block : block :=
  BSeq {| sb_addr := c_create_addr C; sb_vals := repeat 0 (Z.to_nat (c_create_size C)); sb_def := 0 |}.

Definition cx_reset (x : slavectx) : slavectx :=
  {| cx_zero := cx_zero x; cx_slots := cx_slots x; cx_blocks := map blk_reset (cx_blocks x) |}.

(* ---------------------------------------------------------------- server context
   Slave contexts are opaque tokens (nat) here. *)

Record srvctx := { sv_single : bool; sv_slaves : list (Z * nat) }.

Definition sv_env (s : srvctx) (slave : Z) : env :=
  env_of [("slave", slave); ("self.single", b2z (sv_single s))].

Definition sv_key (s : srvctx) (slave : Z) : Z :=
  if sv_single s then c_srv_default_unit C else slave.

Definition sv_getitem (s : srvctx) (slave : Z) : res nat :=
  match assoc_z (sv_slaves s) (sv_key s slave) with
  | Some c => Ok c
  | None => Raise NoSuchSlaveExc
  end.

Definition sv_contains (s : srvctx) (slave : Z) : bool :=
  if sv_single s && negb (match sv_slaves s with [] => true | _ => false end) then true
  else match assoc_z (sv_slaves s) slave with Some _ => true | None => false end.

Fixpoint az_set {A} (l : list (Z * A)) (k : Z) (v : A) : list (Z * A) :=
  match l with
  | [] => [(k, v)]
  | (k', v') :: t => if k' =? k then (k', v) :: t else (k', v') :: az_set t k v
  end.
Fixpoint az_del {A} (l : list (Z * A)) (k : Z) : list (Z * A) :=
  match l with
  | [] => []
  | (k', v') :: t => if k' =? k then t else (k', v') :: az_del t k
  end.

Definition sv_setitem (s : srvctx) (slave : Z) (c : nat) : res srvctx :=
  let k := sv_key s slave in
  if beval (sv_env s k) (c_srv_set_ok C)
  then Ok {| sv_single := sv_single s; sv_slaves := az_set (sv_slaves s) k c |}
  else Raise NoSuchSlaveExc.

Definition sv_delitem (s : srvctx) (slave : Z) : res srvctx :=
  if beval (sv_env s slave) (c_srv_del_ok C)
  then match assoc_z (sv_slaves s) slave with
       | Some _ => Ok {| sv_single := sv_single s; sv_slaves := az_del (sv_slaves s) slave |}
       | None => Raise KeyError
       end
  else Raise NoSuchSlaveExc.

Definition sv_slaves_list (s : srvctx) : list Z := map fst (sv_slaves s).

End WithCode.
