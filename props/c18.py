"""C18 — Datastore blocks and contexts address exactly their cells."""
from lib import common
from lib.coqrun import z, zlist, nat, boolean, string, lst, pairs
from lib.main import Case, Suite
from lib.pyx import pyexn

ID = "C18"
GENERATORS = ["store"]
PROP_FILE = "C18"
CASE_DEPS = ["theories/CorrStore.vo", "Generated/GenStore.vo"]
RULE = ("operation sequences (validate/get/set/reset/iter; context and server-context item access) on "
        "sequential and sparse blocks whose start, size and key sets are drawn around boundaries, plus an "
        "exhaustive small validate sweep (start 0..3 x size 1..5 x addr 0..8 x count 1..5); a case is "
        "non-trivial when at least one get/set in it is on an accepted range; distinct = distinct Coq case terms")
TRUSTED = [
    "modelled by hand, validated by correspondence only: Python list slicing / slice assignment, dict "
    "get/set/delete with insertion order, enumerate/iteritems (coq/theories/Store.v)",
    "generated from source on every run (Generated/GenStore.v): every comparison, offset, slice bound, "
    "range bound, the fx->table mapper, Defaults.UnitId and the 0..247 id range",
]
ASSUMPTIONS = ["values stored in blocks are integers/booleans (booleans travel as 0/1)",
               "the dictionary form setValues(_, {k: v}) is modelled and exercised for sparse blocks only (on a sequential "
               "block it would store the dict object itself in one cell)"]

IMPORTS = ("From PM.theories Require Import Base Expr Store CorrStore.\n"
           "From PM.Generated Require Import GenStore.")


# ----------------------------------------------------------------------------- blocks

def mk_block(kind, start, values):
    from pymodbus.datastore import ModbusSequentialDataBlock, ModbusSparseDataBlock
    if kind == "seq":
        return ModbusSequentialDataBlock(start, list(values))
    return ModbusSparseDataBlock(dict(values))


def block_term(kind, start, values):
    if kind == "seq":
        return "(BSeq {| sb_addr := %s; sb_vals := %s; sb_def := 0 |})" % (z(start), zlist(values))
    return "(BSp {| sp_vals := %s; sp_def := 0 |})" % pairs(values)


def canon(v):
    return int(v)


def run_block_ops(blk, ops):
    outs = []
    for op in ops:
        try:
            if op[0] == "validate":
                # the documented default count is 1: every other count-1 call leaves it out
                outs.append(("B", bool(blk.validate(op[1]) if op[2] == 1 and op[1] % 2 == 0 else blk.validate(op[1], op[2]))))
            elif op[0] == "get":
                vs = blk.getValues(op[1]) if op[2] == 1 and op[1] % 2 == 0 else blk.getValues(op[1], op[2])
                outs.append(("L", [canon(v) for v in vs]))
            elif op[0] == "set":
                blk.setValues(op[1], list(op[2]))
                outs.append(("N",))
            elif op[0] == "setscalar":
                blk.setValues(op[1], op[2])            # non-list value: coerced to [value]
                outs.append(("N",))
            elif op[0] == "setdict":
                blk.setValues(0, dict(op[1]))          # documented dictionary form (sparse blocks)
                outs.append(("N",))
            elif op[0] == "reset":
                blk.reset()
                outs.append(("N",))
            elif op[0] == "iter":
                outs.append(("P", [(int(k), canon(v)) for k, v in list(blk)]))
        except Exception as e:  # noqa: BLE001 — the exception class is the observation
            outs.append(("E", pyexn(e)))
    return outs


def bop_term(op):
    if op[0] == "validate":
        return "BValidate %s %s" % (z(op[1]), z(op[2]))
    if op[0] == "get":
        return "BGet %s %s" % (z(op[1]), z(op[2]))
    if op[0] == "set":
        return "BSet %s %s" % (z(op[1]), zlist(op[2]))
    if op[0] == "setscalar":
        return "BSetScalar %s %s" % (z(op[1]), z(op[2]))
    if op[0] == "setdict":
        return "BSetDict %s" % pairs(op[1])
    return {"reset": "BReset", "iter": "BIter"}[op[0]]


def bout_term(o):
    if o[0] == "B":
        return "OB " + boolean(o[1])
    if o[0] == "L":
        return "OL " + zlist(o[1])
    if o[0] == "P":
        return "OP " + pairs(o[1])
    if o[0] == "N":
        return "ONone"
    return "OExc " + o[1]


def gen_block(r):
    if r.random() < 0.55:
        start = r.choice([0, 1, 2, 3, 5, 100, 65530, r.randrange(0, 70000)])
        size = r.choice([1, 1, 2, 3, 4, 5, 6, 9, r.randrange(1, 40)])
        return "seq", start, [r.choice([0, 1, r.randrange(65536)]) for _ in range(size)]
    base = r.choice([0, 1, 5, 100, 65530])
    keys = []
    k = base
    for _ in range(r.choice([1, 2, 3, 5, 8, 12])):
        keys.append(k)
        k += r.choice([1, 1, 1, 2, 3])
    if r.random() < 0.3:
        r.shuffle(keys)
    return "sp", base, [(k, r.choice([0, 1, r.randrange(65536)])) for k in keys]


def populated(kind, start, values):
    return [start + i for i in range(len(values))] if kind == "seq" else [k for k, _ in values]


def gen_ops(r, kind, start, values, n):
    cells = populated(kind, start, values)
    lo, hi = min(cells), max(cells)
    ops = []
    for _ in range(n):
        a = r.choice([lo - 2, lo - 1, lo, lo + 1, hi - 1, hi, hi + 1, hi + 2, r.choice(cells), r.randrange(lo - 3, hi + 4)])
        c = r.choice([1, 1, 2, 3, len(cells), len(cells) + 1, 0, -1, r.randrange(1, len(cells) + 3)])
        k = r.random()
        if k < 0.3:
            ops.append(("validate", a, c))
        elif k < 0.55:
            ops.append(("get", a, c))
        elif k < 0.85:
            if r.random() < 0.8:   # mostly accepted writes so that the state evolves
                a = r.choice(cells)
                m = 1
                while (a + m) in cells and m < 6 and r.random() < 0.6:
                    m += 1
            else:
                m = max(c, 0)
            form = r.random()
            if form < 0.12:
                ops.append(("setscalar", r.choice(cells), r.randrange(1, 65536)))
            elif form < 0.3 and kind == "sp":
                ks = r.sample(cells, r.choice([1, 1, 2, 3]))
                ops.append(("setdict", [(k, r.randrange(1, 65536)) for k in ks]))
            else:
                ops.append(("set", a, [r.randrange(65536) for _ in range(m)]))
        elif k < 0.92:
            ops.append(("reset",))
        else:
            ops.append(("iter",))
    ops.append(("iter",))
    return ops


def accepted(cells, a, c):
    return c >= 1 and all((a + i) in cells for i in range(c))


def block_case(kind, start, values, ops, label):
    blk = mk_block(kind, start, values)
    outs = run_block_ops(blk, ops)
    cells = set(populated(kind, start, values))
    nontriv = any((op[0] == "get" and accepted(cells, op[1], op[2])) or
                  (op[0] == "set" and accepted(cells, op[1], len(op[2]))) or op[0] in ("setscalar", "setdict") or
                  (op[0] == "validate" and op[2] >= 1) for op in ops)
    term = "(%s, %s, %s)" % (block_term(kind, start, values), lst(bop_term(o) for o in ops), lst(bout_term(o) for o in outs))
    desc = {"block": [kind, start, values], "ops": [list(o) for o in ops], "impl_outputs": [list(o) for o in outs]}
    return Case(term, desc, kind=label, nontrivial=nontriv)


def suite_blocks(tier):
    r = common.rng("C18.blocks")
    cases = []
    # exhaustive small sweep of validate (and get) on sequential and sparse blocks
    for start in range(0, 4):
        for size in range(1, 6):
            vals = [(start * 10 + i) for i in range(size)]
            ops = [("validate", a, c) for a in range(0, 9) for c in range(1, 6)]
            ops += [("get", a, c) for a in range(start, start + size) for c in range(1, start + size - a + 1)]
            cases.append(block_case("seq", start, vals, ops, "sweep-seq"))
            sp = [(start + 2 * i, i + 1) for i in range(size)] + [(start + 1, 99)]
            cases.append(block_case("sp", start, sp, ops, "sweep-sparse"))
    n = 400 if tier == "quick" else 6000
    for _ in range(n):
        kind, start, values = gen_block(r)
        ops = gen_ops(r, kind, start, values, r.choice([2, 4, 6, 10]))
        cases.append(block_case(kind, start, values, ops, "seq" if kind == "seq" else "sparse"))
    return Suite("blocks", IMPORTS, "chk_block code", cases, shard=250)


# ----------------------------------------------------------------------------- slave context

FXS = [1, 2, 3, 4, 5, 6, 15, 16, 22, 23]


def ctx_case(r, label):
    from pymodbus.datastore import ModbusSlaveContext
    nblocks = r.choice([4, 4, 3, 2, 1])
    specs = [gen_block(r) for _ in range(nblocks)]
    blocks = [mk_block(*s) for s in specs]
    slot_idx = {}
    order = list(range(nblocks)) + [r.randrange(nblocks) for _ in range(4 - nblocks)]
    r.shuffle(order)
    for letter, i in zip("dcih", order):
        slot_idx[letter] = i
    zero = r.random() < 0.5
    # an explicit zero_mode keyword must win over the library-wide default, whatever that default is:
    # in a quarter of the cases the global Defaults.ZeroMode is flipped while the context is built
    from pymodbus.constants import Defaults
    saved_default = Defaults.ZeroMode
    flipped = r.random() < 0.25
    try:
        if flipped:
            Defaults.ZeroMode = not saved_default
        ctx = ModbusSlaveContext(di=blocks[slot_idx["d"]], co=blocks[slot_idx["c"]],
                                 ir=blocks[slot_idx["i"]], hr=blocks[slot_idx["h"]], zero_mode=zero)
    finally:
        Defaults.ZeroMode = saved_default
    off = 0 if zero else 1
    ops, outs = [], []
    mapper = {1: "c", 5: "c", 15: "c", 2: "d", 4: "i", 3: "h", 6: "h", 16: "h", 22: "h", 23: "h"}
    nontriv = False
    for _ in range(r.choice([3, 6, 10])):
        fx = r.choice(FXS + [r.choice([0, 7, 8, 43, 255])]) if r.random() < 0.9 else r.choice([0, 7, 24])
        letter = mapper.get(fx, "h")
        kind, start, values = specs[slot_idx[letter]]
        cells = populated(kind, start, values)
        a = r.choice([min(cells) - 2, min(cells) - 1, min(cells), max(cells), max(cells) + 1, r.choice(cells)]) - off
        if r.random() < 0.15:
            a += off
        c = r.choice([1, 1, 2, 3, len(cells), len(cells) + 1, 0])
        k = r.random()
        try:
            if k < 0.3:
                ops.append("CValidate %s %s %s" % (z(fx), z(a), z(c)))
                outs.append("CB " + boolean(bool(ctx.validate(fx, a) if c == 1 and a % 2 == 0 else ctx.validate(fx, a, c))))
            elif k < 0.55:
                ops.append("CGet %s %s %s" % (z(fx), z(a), z(c)))
                vs = ctx.getValues(fx, a) if c == 1 and a % 2 == 0 else ctx.getValues(fx, a, c)
                outs.append("CL " + zlist([canon(v) for v in vs]))
                nontriv = True
            elif k < 0.85:
                vs = [r.randrange(65536) for _ in range(max(c, 1) if r.random() < 0.9 else 0)]
                ops.append("CSet %s %s %s" % (z(fx), z(a), zlist(vs)))
                ctx.setValues(fx, a, vs)
                outs.append("CNone")
                nontriv = True
            elif k < 0.9:
                ops.append("CReset")
                ctx.reset()
                outs.append("CNone")
            else:
                ops.append("CDump")
                outs.append("CD " + lst(pairs([(int(k2), canon(v)) for k2, v in list(b)]) for b in blocks))
        except Exception as e:  # noqa: BLE001
            outs.append("CExc " + pyexn(e))
    ops.append("CDump")
    outs.append("CD " + lst(pairs([(int(k2), canon(v)) for k2, v in list(b)]) for b in blocks))
    slots = lst("(%s, %s)" % (string(l), nat(i)) for l, i in sorted(slot_idx.items()))
    x = "{| cx_zero := %s; cx_slots := %s; cx_blocks := %s |}" % (boolean(zero), slots, lst(block_term(*s) for s in specs))
    term = "(%s, %s, %s)" % (x, lst(ops), lst(outs))
    desc = {"zero_mode": zero, "global_default_flipped_during_construction": flipped, "slots": slot_idx, "blocks": [list(s) for s in specs], "ops": ops, "impl_outputs": outs}
    return Case(term, desc, kind=label, nontrivial=nontriv)


def default_ctx_case(r):
    """ModbusSlaveContext() built WITHOUT blocks and WITHOUT a zero_mode keyword: the default
    tables (create(): 65536 cells from address 0) and the default addressing mode"""
    from pymodbus.datastore import ModbusSlaveContext
    ctx = ModbusSlaveContext()
    ops, outs = [], []
    for _ in range(r.choice([3, 5, 8])):
        fx = r.choice(FXS)
        a = r.choice([0, 1, 2, 65533, 65534, 65535, 65536, r.randrange(0, 65536)])
        c = r.choice([1, 1, 2, 3])
        k = r.random()
        try:
            if k < 0.4:
                ops.append("CValidate %s %s %s" % (z(fx), z(a), z(c)))
                outs.append("CB " + boolean(bool(ctx.validate(fx, a) if c == 1 and a % 2 == 0 else ctx.validate(fx, a, c))))
            elif k < 0.7:
                ops.append("CGet %s %s %s" % (z(fx), z(a), z(c)))
                vs = ctx.getValues(fx, a) if c == 1 and a % 2 == 0 else ctx.getValues(fx, a, c)
                outs.append("CL " + zlist([canon(v) for v in vs]))
            else:
                ok = bool(ctx.validate(fx, a, c))
                if not ok:      # keep the 65536-cell tables their size: only accepted writes
                    ops.append("CValidate %s %s %s" % (z(fx), z(a), z(c)))
                    outs.append("CB false")
                    continue
                vs = [r.randrange(1, 65536) for _ in range(c)]
                ops.append("CSet %s %s %s" % (z(fx), z(a), zlist(vs)))
                ctx.setValues(fx, a, vs)
                outs.append("CNone")
        except Exception as e:  # noqa: BLE001
            outs.append("CExc " + pyexn(e))
    slots = lst("(%s, %s)" % (string(l), nat(i)) for i, l in enumerate("dcih"))
    # the DOCUMENTED defaults, written out (Props/C18.v proves the generated defaults equal them): one-based
    # addressing and four tables of 65536 zero cells from address 0 - so that a changed default is a failing input
    blk = "(BSeq {| sb_addr := 0; sb_vals := repeat 0 (Z.to_nat 65536); sb_def := 0 |})"
    x = "{| cx_zero := false; cx_slots := %s; cx_blocks := [%s; %s; %s; %s] |}" % (slots, blk, blk, blk, blk)
    term = "(%s, %s, %s)" % (x, lst(ops), lst(outs))
    return Case(term, {"default_context": True, "ops": ops, "impl_outputs": outs}, kind="default-ctx", nontrivial=True)


def suite_ctx(tier):
    r = common.rng("C18.ctx")
    n = 300 if tier == "quick" else 5000
    cases = [ctx_case(r, "ctx") for _ in range(n)]
    rd = common.rng("C18.ctx.default")
    cases += [default_ctx_case(rd) for _ in range(24 if tier == "quick" else 200)]
    return Suite("slavectx", IMPORTS, "chk_ctx code", cases, shard=120)


# ----------------------------------------------------------------------------- server context

def srv_case(r):
    from pymodbus.datastore import ModbusServerContext
    toks = [object() for _ in range(4)]
    tid = {id(t): i for i, t in enumerate(toks)}
    single = r.random() < 0.4
    if single:
        srv = ModbusServerContext(slaves=toks[0], single=True)
        init = [(0, 0)]
    else:
        ids = r.sample([0, 1, 2, 17, 246, 247], r.choice([0, 1, 2, 3]))
        d = {u: toks[r.randrange(4)] for u in ids}
        init = [(u, tid[id(c)]) for u, c in d.items()]
        srv = ModbusServerContext(slaves=d, single=False)
    ops, outs = [], []
    for _ in range(r.choice([3, 6, 10])):
        u = r.choice([0, 1, 2, 17, 246, 247, 248, 255, 256, -1, r.randrange(0, 260)])
        k = r.random()
        try:
            if k < 0.35:
                ops.append("SGet " + z(u))
                outs.append("SC " + nat(tid[id(srv[u])]))
            elif k < 0.6:
                c = r.randrange(4)
                ops.append("SSet %s %s" % (z(u), nat(c)))
                srv[u] = toks[c]
                outs.append("SNone")
            elif k < 0.75:
                ops.append("SDel " + z(u))
                del srv[u]
                outs.append("SNone")
            elif k < 0.9:
                ops.append("SContains " + z(u))
                outs.append("SB " + boolean(u in srv))
            else:
                ops.append("SSlaves")
                outs.append("SL " + zlist(srv.slaves()))
        except Exception as e:  # noqa: BLE001
            outs.append("SExc " + pyexn(e))
    ops.append("SSlaves")
    outs.append("SL " + zlist(srv.slaves()))
    s = "{| sv_single := %s; sv_slaves := %s |}" % (boolean(single), lst("(%s, %s)" % (z(u), nat(c)) for u, c in init))
    term = "(%s, %s, %s)" % (s, lst(ops), lst(outs))
    return Case(term, {"single": single, "initial": init, "ops": ops, "impl_outputs": outs},
                kind="single" if single else "multi", nontrivial=True)


def suite_srv(tier):
    r = common.rng("C18.srv")
    n = 300 if tier == "quick" else 5000
    return Suite("serverctx", IMPORTS, "chk_srv code", [srv_case(r) for _ in range(n)], shard=300)


def suites(tier):
    return [suite_blocks(tier), suite_ctx(tier), suite_srv(tier)]


# ----------------------------------------------------------------------------- blocks are values of their own (python side)

def independence():
    """"a write changes exactly those cells and leaves all others unchanged" includes the cells of OTHER blocks: blocks
    built from one initial list object, the caller's list edited after construction, the default tables of one and of
    two slave contexts (sparse blocks keep the caller's dict by design: declared aliasing, not checked here)"""
    from pymodbus.datastore import ModbusSequentialDataBlock, ModbusSlaveContext
    fails, keys = [], []

    def check(name, ok, detail):
        keys.append(name)
        if not ok:
            fails.append({"scenario": name, "detail": detail})
    init = [7] * 12
    a, b = ModbusSequentialDataBlock(0, init), ModbusSequentialDataBlock(100, init)
    a.setValues(3, [1, 2, 3])
    check("two-blocks-one-list", b.getValues(103, 3) == [7, 7, 7] and init == [7] * 12,
          {"other_block": b.getValues(100, 12), "callers_list": list(init)})
    init2 = [5] * 4
    c = ModbusSequentialDataBlock(10, init2)
    init2.append(9)
    init2[0] = 6
    check("caller-edits-list-afterwards", c.getValues(10, 4) == [5] * 4 and not c.validate(10, 5) and c.validate(10, 4),
          {"cells": list(c.values), "validate_past_end": c.validate(10, 5)})
    for zm in (True, False):
        s1, s2 = ModbusSlaveContext(zero_mode=zm), ModbusSlaveContext(zero_mode=zm)
        s1.setValues(5, 20, [1])            # coil 20 of context 1
        s1.setValues(6, 30, [0xBEEF])       # holding register 30 of context 1
        seen = {"s1.di": s1.getValues(2, 20, 1), "s1.ir": s1.getValues(4, 30, 1), "s1.hr@20": s1.getValues(3, 20, 1),
                "s1.co@30": s1.getValues(1, 30, 1), "s2.co": s2.getValues(1, 20, 1), "s2.hr": s2.getValues(3, 30, 1)}
        check("default-tables-zero_mode=%s" % zm, all(v == [0] for v in seen.values()) and s1.getValues(1, 20, 1) == [1]
              and s1.getValues(3, 30, 1) == [0xBEEF], seen)
    return {"evaluations": len(keys), "failures": fails, "broken": [], "samples": fails[:2], "keys": keys}


def extra_checks(tier):
    return {"independence": independence()}


# ----------------------------------------------------------------------------- findings / replay

def classify(suite, desc):
    return None


def shrink(suite, desc):
    from lib import shrink as sh
    if suite != "blocks":
        return None
    kind, start, values = desc["block"]
    values = [tuple(v) for v in values] if kind == "sp" else values
    c = sh.shrink_ops("C18", IMPORTS, "chk_block code", [tuple(o) for o in desc["ops"]],
                      lambda ops: block_case(kind, start, values, ops, "shrunk"))
    return c.desc if c else None


def replay_finding(f):
    """True when the witness still fails on the implementation."""
    w = f["witness"]
    if f["id"] == "F-C18-sparse-reset":
        blk = mk_block("sp", 0, [tuple(p) for p in w["values"]])
        try:
            blk.reset()
            return not (blk.validate(w["validate"][0], w["validate"][1]) is True
                        and sorted(dict(blk)) == sorted(k for k, _ in w["values"]))
        except Exception:  # noqa: BLE001
            return True
    return None


def replay_case(suite, desc):
    import json
    print(json.dumps(desc)[:2000])
    if suite == "blocks":
        kind, start, values = desc["block"]
        values = [tuple(v) for v in values] if kind == "sp" else values
        ops = [tuple(o) for o in desc["ops"]]
        c = block_case(kind, start, values, ops, "replay")
        from lib import coqrun
        r = coqrun.eval_cases("C18_replay", IMPORTS, "chk_block code", [c.term])
        print("now:", c.desc["impl_outputs"], r)
        return bool(r["propfail"] or r["errors"])
    if suite == "independence":
        return bool(independence()["failures"])
    print("replay of suite %s: re-run ./check C18 with VERIF_SEED from the replay file" % suite)
    return True

MANIFEST = {
    "text": ("Universally quantified Coq theorems (Props/C18.v, 24 theorems, all closed under the global context) "
             "about the datastore model instantiated with the arithmetic regenerated from store.py/context.py on "
             "every run: validate <-> all cells populated, read = cells in order, write changes exactly the "
             "addressed cells and not the extent, read-your-writes, reset, refinement to an abstract map over ALL operation histories, one-based offset (also as the default when no zero_mode is given), default table extent 0..65535, unit routing and the "
             "0..247 registration range - for all addresses, counts, block sizes and key sets (unbounded Z / lists). "
             "Tests sample a handful of addresses; the theorems cover every boundary at once."),
    "note": ("Trusted: Coq kernel; the translator's shape matching; the hand-written model of Python list slices and "
             "dicts, validated against the real classes by operation-sequence correspondence evaluated with "
             "vm_compute (model agreement) and by the abstract-map oracle (property) on every run."),
    "design_ref": "DESIGN.md section 8 (C18)",
}
