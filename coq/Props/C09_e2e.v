(* Props/C09_e2e.v — END-TO-END composition for the Modbus/TCP server path.  ONLY statements; the
   proofs (proofs/EndToEnd_*_proofs.v) compose the component theorems
     C06_tcp (framing, every chunking)  C01_decode_conforms / C01_encode_conforms (PDU codec)
     C04_refines (execution)            C03_build_tcp (response ADU)
     the C09/C10 skeleton lemmas (one response per request, tid/uid echo, hosted set stable)
   through adapter lemmas; nothing about the components is re-proved.

   Model side — [tcp_server_run sk cfg eof l chunks] (theories/EndToEnd.v): the EXISTING component
   models glued together: FrTcp.t_recv with the Pdu model's ServerDecoder as its decoder,
   Exec.serve GenExec.code over the datastore model, Server.respond on the GENERATED skeleton [sk]
   of the front-end, Pdu.py_encode + FrTcp.t_build for the response.  [l] = the hosted unit
   contexts (unit id -> datastore), [chunks] = the reads of one connection, [eof] = an empty read
   ends the stream (threaded handler).
   Spec side — theories/CorrE2E.v: a request = transaction id, protocol id, unit id and a spec
   message (PduSpec.msg); [req_adu] its MBAP ADU (FrSpecA.spec_adu_tcp of PduSpec.spec_pdu);
   [spec_run single su qs] executes every request with ExecSpec.spec_exec on the abstract state of
   the unit it addresses, as left by its predecessors, and concatenates
       spec_adu_tcp tid 0 uid (spec_pdu (spec_response_msg response_i))      (normal or exception).

   Quantification: the three TCP front-end skeletons; every configuration (single / multi-unit,
   broadcast_enable, ignore_missing_slaves); every hosted set and datastore layout satisfying the
   C04 invariant [inv] (sequential and sparse blocks, shared tables, zero mode) whose cells hold
   16-bit values; every list of requests FC 1-6, 15, 16, 22, 23 with fields that fit their wire
   widths (any address, any quantity — illegal ones are answered with exceptions), any transaction
   and protocol id, unit ids that are served; EVERY division of the byte stream into reads. *)
From PM.theories Require Import Base Expr Struct FrBaseA FrTcp FrSpecA PduCls PduSpec Pdu Store Exec ExecSpec Server EndToEnd CorrE2E.
From PM.Generated Require Import GenFramerA.
From PM.Generated Require GenStore GenExec GenServer.
From PM.proofs Require Import Exec_proofs Server_proofs EndToEnd_adapt_proofs EndToEnd_spec_proofs EndToEnd_proofs.
Open Scope string_scope.
Open Scope list_scope.
Open Scope Z_scope.

(* the full statement asked for: EVERY well-formed request of the application protocol addressed to a
   served unit (diagnostics, file records, device identification, unassigned codes included) *)
Definition C09_e2e_full_statement : Prop :=
  forall sk cfg eof (l : units slavectx) (su : sunits) (qs : list e2e_req) (chunks : list bytes),
  In sk tcp_fes -> units_rel l su ->
  Forall (fun q => 0 <= q_tid q < 65536 /\ 0 <= q_pid q < 65536 /\ 0 <= q_uid q < 256 /\
                   (exists m, q_body q = QMsg m /\ CorrPdu.msg_is_request m = true /\ spec_wf m = true) /\
                   served sk cfg (u_keys slavectx l) (q_uid q)) qs ->
  concat (eff_chunks eof chunks) = concat (map req_adu qs) ->
  exists l' st',
    tcp_server_run sk cfg eof l chunks = result l' (snd (spec_run (cf_single cfg) su qs)) st' /\
    units_rel l' (fst (spec_run (cf_single cfg) su qs)).

(* PROVED: the data-access function codes and the unassigned ones ([req_ok] / [body_ok]: the body is a
   message of FC 1-6, 15, 16, 22, 23 whose fields fit, or any PDU of at most 253 bytes whose function
   code 1..127 is not in ServerDecoder's table — answered with exception 01, nothing changes).
   Missing w.r.t. the full statement: the request classes whose execute() has no model in Exec.v
   (FC 7, 8, 11, 12, 17, 20, 21, 24, 43) and no abstract semantics in ExecSpec.v; nothing else
   (no hypothesis on chunking, layouts, ids, quantities or the front-end had to be added). *)
Theorem C09_e2e_tcp : forall sk cfg eof (l : units slavectx) (su : sunits) (qs : list e2e_req) (chunks : list bytes),
  In sk tcp_fes ->
  units_rel l su ->                                        (* stores abstract to su; C04 invariant; 16-bit cells *)
  Forall (req_ok sk cfg (u_keys slavectx l)) qs ->         (* ids in range, FC 1-6/15/16/22/23 or unassigned, unit served *)
  concat (eff_chunks eof chunks) = concat (map req_adu qs) ->      (* ANY division into reads *)
  exists l' st',
    tcp_server_run sk cfg eof l chunks = result l' (snd (spec_run (cf_single cfg) su qs)) st' /\
    units_rel l' (fst (spec_run (cf_single cfg) su qs)).
Proof. exact e2e_tcp. Qed.
Print Assumptions C09_e2e_tcp.

(* the same with the abstract states computed from the datastores: hypotheses checkable by evaluation *)
Theorem C09_e2e_tcp_stores : forall sk cfg eof (l : units slavectx) (qs : list e2e_req) (chunks : list bytes),
  In sk tcp_fes ->
  Forall (fun p => store_ok (snd p)) l ->
  Forall (req_ok sk cfg (u_keys slavectx l)) qs ->
  concat (eff_chunks eof chunks) = concat (map req_adu qs) ->
  exists l' st',
    tcp_server_run sk cfg eof l chunks = result l' (snd (spec_run (cf_single cfg) (abs_units l) qs)) st' /\
    units_rel l' (fst (spec_run (cf_single cfg) (abs_units l) qs)).
Proof. exact e2e_tcp_abs. Qed.
Print Assumptions C09_e2e_tcp_stores.

(* ---- the seams, as theorems of their own (adapter lemmas) --------------------------------------- *)

(* C01 -> C04: the decoded request object carries exactly the attributes ExecView.decode_attrs assumes *)
Theorem C09_e2e_decode_attrs : forall m w, wreq_of_msg m = Some w -> spec_wf m = true ->
  exists o r, py_decode true (spec_pdu m) = Ok o /\ obj_fc o = Ok (wfc w) /\
              req_of_obj o = Some r /\ ExecView.decode_attrs w = Ok r.
Proof. exact decode_request. Qed.
Print Assumptions C09_e2e_decode_attrs.

(* … and a PDU with an unassigned function code decodes to IllegalFunctionRequest *)
Theorem C09_e2e_decode_body : forall b w, body_ok b w ->
  exists o r, py_decode true (sreq_pdu b) = Ok o /\ obj_fc o = Ok (wfc w) /\
              req_of_obj o = Some r /\ ExecView.decode_attrs w = Ok r.
Proof. exact decode_body. Qed.
Print Assumptions C09_e2e_decode_body.

(* C04 -> C01: a response whose spec view is s becomes an object that stands for the spec message of s *)
Theorem C09_e2e_response_object : forall o s,
  ExecView.view GenExec.code o = Some s -> spec_wf (spec_response_msg s) = true ->
  exists ro, obj_of_rsp o = Some ro /\ CorrPdu.abs ro = Some (spec_response_msg s) /\
             CorrPdu.mem_cls (class_of ro) CorrPdu.conforming_encode = true /\ exc_code_of ro = sexc_code s.
Proof. exact response_object. Qed.
Print Assumptions C09_e2e_response_object.

(* ExecSpec -> PduSpec: with 16-bit cells every response of the data model is a well-formed message,
   and the invariant is kept *)
Theorem C09_e2e_response_wf : forall m w s, wreq_of_msg m = Some w -> spec_wf m = true -> cells_ok s ->
  spec_wf (spec_response_msg (snd (spec_exec s w))) = true /\ cells_ok (fst (spec_exec s w)).
Proof. intros m w s Hw Hwf Hs. split; [exact (response_wf m w s Hw Hwf Hs)|exact (exec_cells_ok m w s Hw Hwf Hs)]. Qed.
Print Assumptions C09_e2e_response_wf.

(* one delivered request: one response packet, the specified one, and the addressed store steps as the data model *)
Theorem C09_e2e_one_request : forall sk cfg l su q,
  In sk tcp_fes -> units_rel l su -> req_ok sk cfg (u_keys slavectx l) q ->
  exists s s' b l',
    su_get su (spec_key (cf_single cfg) (q_uid q)) = Some s /\
    spec_answer s q = Some (s', b) /\
    handle_one packet_of sk cfg l (delivery_of q) = Ok (l', b) /\
    units_rel l' (su_set su (spec_key (cf_single cfg) (q_uid q)) s') /\
    u_keys slavectx l' = u_keys slavectx l.
Proof. exact handle_one_spec. Qed.
Print Assumptions C09_e2e_one_request.

(* ---- non-vacuity: one context (single mode), three requests — write register 2 := 0x1234 to unit 1,
   read registers 1..3 from unit 17, read coils 8..10 (outside the 10 configured coils), a PDU with the
   unassigned function code 0x41 — cut 3 bytes
   into the first MBAP header, in the middle of the second frame, with an empty read in between
   (asyncio/Twisted style, eof = false).  Evaluated: the model writes exactly the echo, the three
   registers, and exception 0x81/02; the hypotheses of C09_e2e_tcp_stores hold. *)
Definition nv_block : block := BSeq {| sb_addr := 0; sb_vals := [0; 0; 0; 0; 0; 0; 0; 0; 0; 0]; sb_def := 0 |}.
Definition nv_ctx : slavectx :=
  {| cx_zero := true; cx_slots := [("c", 0%nat); ("d", 1%nat); ("h", 2%nat); ("i", 3%nat)];
     cx_blocks := [nv_block; nv_block; nv_block; nv_block] |}.
Definition nv_cfg : scfg := {| cf_single := true; cf_bcast := false; cf_ignore := false |}.
Definition nv_reqs : list e2e_req :=
  [{| q_tid := 4660; q_pid := 0; q_uid := 1; q_body := QMsg (MWriteRegReq 2 4660) |};
   {| q_tid := 2; q_pid := 0; q_uid := 17; q_body := QMsg (MReadHoldingReq 1 3) |};
   {| q_tid := 65535; q_pid := 7; q_uid := 1; q_body := QMsg (MReadCoilsReq 8 3) |};
   {| q_tid := 9; q_pid := 0; q_uid := 1; q_body := QRaw 65 [1; 2]%N |}].
Definition nv_stream : bytes := concat (map req_adu nv_reqs).
Definition nv_chunks : list bytes := [firstn 3 nv_stream; []; firstn 15 (skipn 3 nv_stream); skipn 18 nv_stream].

Example C09_e2e_nonvacuous :
  In GenServer.aio_tcp tcp_fes /\
  Forall (fun p => store_ok (snd p)) [(0, nv_ctx)] /\
  Forall (req_ok GenServer.aio_tcp nv_cfg (u_keys slavectx [(0, nv_ctx)])) nv_reqs /\
  concat (eff_chunks false nv_chunks) = concat (map req_adu nv_reqs) /\
  e_out (tcp_server_run GenServer.aio_tcp nv_cfg false [(0, nv_ctx)] nv_chunks) =
    [18; 52; 0; 0; 0; 6; 1; 6; 0; 2; 18; 52;                    (* echo of the write, tid 0x1234, unit 1 *)
     0; 2; 0; 0; 0; 9; 17; 3; 6; 0; 0; 18; 52; 0; 0;            (* registers 1..3 = 0, 0x1234, 0, unit 17 *)
     255; 255; 0; 0; 0; 3; 1; 129; 2;                           (* exception 02, protocol id 0 *)
     0; 9; 0; 0; 0; 3; 1; 193; 1]%N /\                          (* unassigned function 0x41: exception 01 *)
  snd (spec_run true (abs_units [(0, nv_ctx)]) nv_reqs) =
    e_out (tcp_server_run GenServer.aio_tcp nv_cfg false [(0, nv_ctx)] nv_chunks).
Proof.
  split; [cbv [tcp_fes]; cbn [In]; tauto|].
  split. { constructor; [|constructor]. split.
           - intros t; destruct t; eexists; (split; [reflexivity|cbn; lia]).
           - repeat constructor; unfold u16v; lia. }
  split. { unfold nv_reqs. repeat (apply Forall_cons || apply Forall_nil);
           (split; [cbn; lia|]; split; [cbn; lia|]; split; [cbn; lia|];
            split; [eexists; cbn; repeat split; try reflexivity; lia | split; [reflexivity | cbn; tauto]]). }
  split; vm_compute; [reflexivity|split; reflexivity].
Qed.
