(* ClientE2E_proofs.v — the TCP client END TO END: transaction model (Client.v, generated skeleton) + concrete socket
   framer (FrTcp, generated records) + the client PDU decoder model (Pdu.py_decode_client behind the
   ClientDecoder.decode wrapper, generated tables/layouts) against the SPECIFICATION of the response PDU (PduSpec). *)
From Coq Require Import ZifyBool.
From PM.theories Require Import Base Struct PduCls PduSpec Pdu CorrPdu.
From PM.Generated Require Import GenPdu.
From PM.proofs Require Import Pdu_dec2_proofs Pdu_size_proofs.
From PM.theories Require Import Expr FrBaseA FrTcp FrSpecA.
From PM.Generated Require Import GenFramerA GenClient.
From PM.proofs Require Import FrA_tcp_proofs FrA_tcp_gate_proofs.
From PM.theories Require Import Client CorrClient ClientTcp.
From PM.proofs Require Import Client_proofs ClientTcp_proofs.
Open Scope list_scope.
Open Scope Z_scope.

(* the decoder oracle of the framer, instantiated: ClientDecoder.decode (the wrapper swallows every exception) *)
Definition pdu_dec (p : bytes) : FrBaseA.dres :=
  match py_decode_wrapper false p with
  | Ok (Some o) => FrBaseA.DMsg (match obj_fc o with Ok fc => fc | Raise _ => 0 end)
  | Ok None => FrBaseA.DNone
  | Raise e => FrBaseA.DRaise e
  end.

Lemma pdu_dec_total : forall p e, pdu_dec p <> FrBaseA.DRaise e.
Proof.
  intros p e. unfold pdu_dec, py_decode_wrapper. destruct (py_decode false p) as [o|x]; cbn; discriminate.
Qed.

Lemma spec_pdu_head (m : PduSpec.msg) :
  exists fcb data, spec_pdu m = fcb :: data /\ (128 <= Z.of_N fcb -> length data = 1%nat).
Proof.
  destruct m; cbn [spec_pdu app]; eexists; eexists; (split; [reflexivity|]); intro H; try (cbn in H; lia).
  reflexivity.
Qed.

Theorem e2e_tcp (m : PduSpec.msg) tid c st rq rest :
  msg_is_request m = false -> spec_wf m = true -> conforming_decode m = true -> spec_limits m = true ->
  c_framing c = FTcp -> c_udp c = false -> s_tx st = [] -> c_bcast c && (r_unit rq =? 0) = false ->
  0 <= retries_given c -> 0 <= tid < 65536 -> 0 <= r_unit rq < 256 ->
  let f := {| f_tid := tid; f_pid := 0; f_uid := r_unit rq; f_pdu := spec_pdu m |} in
  exists st' o ob d,
    execute code tstate (tcp_framer pdu_dec) c st rq
      ((if s_conn st then [] else [Nothing])
         ++ attempt true (tcp_script (full_of tstate c st rq) (spec_adu KTcp f)) ++ rest) = (st', o)
    /\ o_res o = RReply {| m_tid := tid; m_uid := r_unit rq;
                           m_fc := match obj_fc ob with Ok fc => fc | Raise _ => 0 end;
                           m_id := pdu_id (spec_pdu m) |}
    /\ py_decode_client (spec_pdu m) = Ok ob          (* the object handed to the caller is this decoding … *)
    /\ class_of ob = spec_class m /\ abs ob = Some d /\ msg_matches m d = true   (* … and it carries the values sent *)
    /\ s_tx st' = [] /\ s_tid st' = next_tid code (s_tid st).
Proof.
  intros Hrq Hwf Hcd Hlim Hfr Hudp Htx Hb Hr Htid Hu f.
  destruct (decode_conforms m Hwf Hcd) as (ob & d & Hdec & Hcls & Habs & Hmm).
  rewrite Hrq in Hdec. cbn [py_decode] in Hdec.
  destruct (spec_pdu_head m) as (fcb & data & Hpdu & Hexc).
  pose proof (spec_pdu_limit m Hlim) as Hlen. unfold PduSpec.len in Hlen.
  assert (Hd : pdu_dec (spec_pdu m) = FrBaseA.DMsg (match obj_fc ob with Ok fc => fc | Raise _ => 0 end)).
  { unfold pdu_dec, py_decode_wrapper. cbn [py_decode]. rewrite Hdec. reflexivity. }
  assert (Hv : valid_frame KTcp pdu_dec (unit_cfg (r_unit rq)) f).
  { split; [|split].
    - subst f. unfold frame_wf, tcp_wf. cbn [f_tid f_pid f_uid f_pdu]. repeat split; lia.
    - subst f. cbn [f_pdu]. rewrite Hd. reflexivity.
    - subst f. unfold spec_accepts. cbn [f_uid unit_cfg c_units]. unfold FrBaseA.zmem at 3. cbn [existsb].
      rewrite Z.eqb_refl. rewrite !orb_true_r. reflexivity. }
  destruct (conformant_reply_tcp pdu_dec pdu_dec_total c st rq f fcb data rest Hfr Hudp Htx Hb Hr eq_refl Hv Hpdu Hexc)
    as (st' & o & A & B & Cc & D).
  exists st', o, ob, d. split; [exact A|]. split.
  - rewrite B. unfold msg_of. subst f. cbn [spec_delivery d_tid d_uid d_pdu f_tid f_uid f_pdu]. rewrite Hd. reflexivity.
  - repeat split; assumption.
Qed.
