"""C10 add-on: configuration wiring (Props/C10_cfg.v) — see props/lib_wiring.py."""
from props import lib_wiring as W

GENERATORS = W.GENERATORS
PROP_FILES = ["C10_cfg"]
CASE_DEPS = W.CASE_DEPS
TRUSTED = W.TRUSTED
ASSUMPTIONS = W.ASSUMPTIONS
suites = W.suites
classify = W.classify
replay_case = W.replay_case

MANIFEST_ADD = {"text": "Add-on Props/C10_cfg.v: the context object handed to a factory or constructor - an EMPTY multi-unit context included, to which units are attached later - is the object the handlers look units up in (`context or ModbusServerContext()` with Python's `or` taken literally; generated fact: no context / block / framer class defines __bool__ or __len__); tied by constructing every server class and calling every factory with an empty multi-unit context.",
                "note": 'Truth values of user-defined subclasses are outside the generated facts (assumption listed).'}
