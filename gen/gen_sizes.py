"""GenSizes.v — reply-size predictions (C14).

  * the body of every `get_response_pdu_size` of the five message modules as one Expr term
    (atoms: self.count, self.read_count, len(self.message), self.message), with the class -> defining
    class resolution (inheritance inside the module) printed as a table;
  * transaction.py: `_set_adu_size` (framer -> base ADU size), `_calculate_response_length`,
    `_calculate_exception_length`, the `min_size` chain and the arithmetic of `_recv`, and the
    `* 2` ASCII rule / Socket exclusion / `if response_pdu_size:` test of `execute`.

Only arithmetic and tables are emitted; the control skeleton around them must have exactly the
shape matched below (fail closed otherwise).  Semantics: theories/Sizes.v.
"""
import ast
from . import core
from .core import Src, ExprTr, coq_z, coq_str, coq_list

MODULES = ["pymodbus/bit_read_message.py", "pymodbus/bit_write_message.py",
           "pymodbus/register_read_message.py", "pymodbus/register_write_message.py",
           "pymodbus/diag_message.py"]
METHOD = "get_response_pdu_size"
FRAMERS = ["ModbusSocketFramer", "ModbusRtuFramer", "ModbusAsciiFramer", "ModbusBinaryFramer", "ModbusTlsFramer"]
FRAMER_EXPR = "self.client.framer"


def strip(stmts):
    return [s for s in stmts if not (core.is_docstring(s) or core.is_log_call(s))]


def text(stmts):
    return "\n".join(ast.unparse(s) for s in strip(stmts))


def norm(code):
    return text(ast.parse(code).body)


class Truthy(ast.NodeTransformer):
    """`if <int expr>:` -> `if <int expr> != 0:` (Python truthiness of an int), so that the
    boolean-typed `if` of ExprTr.straightline accepts `if self.count % 8:`."""

    def visit_If(self, node):
        self.generic_visit(node)
        if isinstance(node.test, ast.BinOp):
            node.test = ast.Compare(left=node.test, ops=[ast.NotEq()], comparators=[ast.Constant(value=0)])
            ast.fix_missing_locations(node)
        return node


def isinstance_names(src, test, subject=FRAMER_EXPR):
    """`isinstance(self.client.framer, X)` / `isinstance(self.client.framer, (X, Y))` -> [names]"""
    if not (isinstance(test, ast.Call) and ast.unparse(test.func) == "isinstance" and len(test.args) == 2
            and not test.keywords and ast.unparse(test.args[0]) == subject):
        src.fail(test, "expected isinstance(%s, <framer class(es)>): %s" % (subject, ast.unparse(test)))
    a = test.args[1]
    elts = a.elts if isinstance(a, ast.Tuple) else [a]
    names = []
    for e in elts:
        if not (isinstance(e, ast.Name) and e.id in FRAMERS):
            src.fail(test, "unknown framer class in %s" % ast.unparse(test))
        names.append(e.id)
    return names


def framer_chain(src, node):
    """if isinstance(..): B1 elif isinstance(..): B2 ... [else: Bn] -> ([(names, body)], else_body|None)"""
    rows = []
    while True:
        if not isinstance(node, ast.If):
            src.fail(node, "expected an if/elif chain over the framer class")
        rows.append((isinstance_names(src, node.test), strip(node.body)))
        if len(node.orelse) == 1 and isinstance(node.orelse[0], ast.If):
            node = node.orelse[0]
            continue
        return rows, (strip(node.orelse) if node.orelse else None)


def single_assign(src, body, target):
    if not (len(body) == 1 and isinstance(body[0], ast.Assign) and len(body[0].targets) == 1
            and ast.unparse(body[0].targets[0]) == target):
        src.fail(body[0] if body else None, "expected a single `%s = <expr>`" % target)
    return body[0].value


def names_list(names):
    return coq_list(coq_str(n) for n in names)


# --------------------------------------------------------------------------- message modules

def class_bases(cls):
    return [b.id for b in cls.bases if isinstance(b, ast.Name)]


def pdu_sizes(D):
    consts_src = Src("pymodbus/constants.py")
    plus = {}
    for n in consts_src.cls("ModbusPlusOperation").body:
        if isinstance(n, ast.Assign) and len(n.targets) == 1 and isinstance(n.targets[0], ast.Name):
            plus["ModbusPlusOperation." + n.targets[0].id] = core.const_int(consts_src, n.value)
    defs, table = [], []
    diag_normalise = None
    for rel in MODULES:
        src = Src(rel)
        classes = {n.name: n for n in src.mod.body if isinstance(n, ast.ClassDef)}
        own = {}
        for cname, cls in classes.items():
            for n in cls.body:
                if isinstance(n, ast.FunctionDef) and n.name == METHOD:
                    own[cname] = n
        for cname, fn in own.items():
            body = strip(fn.body)
            atoms = {"self.count", "self.read_count", "len(self.message)", "self.message"}
            if body and ast.unparse(body[0]) == norm("if not isinstance(self.message, list):\n    self.message = [self.message]"):
                # the prediction first turns a scalar message into a one-element list (a side effect on
                # the request object); len(self.message) below is the length AFTER that step
                if diag_normalise not in (None, cname):
                    src.fail(fn, "more than one class normalises self.message")
                diag_normalise = cname
                body = body[1:]
                atoms = {"len(self.message)"}
            if len(fn.args.args) != 1 or fn.args.vararg or fn.args.kwarg:
                src.fail(fn, "%s.%s: unexpected signature" % (cname, METHOD))
            mod = Truthy().visit(ast.Module(body=body, type_ignores=[]))
            tr = ExprTr(src, atoms, consts=plus)
            txt, isb = tr.straightline(mod.body)
            if isb:
                src.fail(fn, "%s.%s returns a boolean" % (cname, METHOD))
            defs.append("Definition sz_%s : expr :=\n  %s." % (cname, txt))

        def resolve(cname, seen=()):
            if cname in own:
                return cname
            for b in class_bases(classes[cname]):
                if b in classes and b not in seen:
                    r = resolve(b, seen + (cname,))
                    if r:
                        return r
            return None
        for cname in classes:
            r = resolve(cname)
            if r:
                table.append((cname, r))
    if not table:
        raise core.TranslatorFail(MODULES[0], 0, "no get_response_pdu_size found")
    D["diag"] = diag_classes(dict(table))
    D["defs"] = "\n".join(defs)
    D["table"] = "Definition pdu_size_table : list (string * expr) :=\n  [" + \
                 ";\n   ".join("(%s, sz_%s)" % (coq_str(c), r) for c, r in table) + "]."
    D["normalise"] = "Definition normalises_message : list string := %s." % names_list(
        [c for c, r in table if r == diag_normalise])


def diag_classes(resolved):
    """every diagnostic request class of diag_message.py that carries a sub_function_code, in source
    order, as (sub_function_code, class name); each must be registered in factory.py's
    ServerDecoder sub-function table and must resolve to a get_response_pdu_size body."""
    src = Src("pymodbus/diag_message.py")
    fac = Src("pymodbus/factory.py")
    classes = {n.name: n for n in src.mod.body if isinstance(n, ast.ClassDef)}

    def is_request(name, seen=()):
        if name == "DiagnosticStatusRequest":
            return True
        return any(b in classes and b not in seen and is_request(b, seen + (name,)) for b in class_bases(classes[name]))
    registered = set()
    tbl = None
    for n in fac.cls("ServerDecoder").body:
        if isinstance(n, ast.Assign) and len(n.targets) == 1 and ast.unparse(n.targets[0]) == "__sub_function_table":
            tbl = n.value
    if not isinstance(tbl, ast.List):
        fac.fail(fac.cls("ServerDecoder"), "__sub_function_table is not a list literal")
    for e in tbl.elts:
        if not isinstance(e, ast.Name):
            fac.fail(e, "__sub_function_table entry is not a class name")
        registered.add(e.id)
    rows, seen_subs = [], {}
    for name, cls in classes.items():
        if not is_request(name):
            continue
        sub = src.class_attr(name, "sub_function_code")
        if sub is None:
            continue                      # the abstract bases
        code = core.const_int(src, sub)
        if code in seen_subs:
            src.fail(cls, "sub-function 0x%02x used by both %s and %s" % (code, seen_subs[code], name))
        seen_subs[code] = name
        if name not in resolved:
            src.fail(cls, "%s has no get_response_pdu_size" % name)
        if name not in registered:
            src.fail(cls, "%s is not registered in ServerDecoder.__sub_function_table" % name)
        rows.append("(%s, %s)" % (coq_z(code), coq_str(name)))
    for name in registered:
        if name in classes and name not in seen_subs.values():
            src.fail(classes[name], "registered class %s has no sub_function_code" % name)
    return coq_list(rows)


# --------------------------------------------------------------------------- transaction.py

def find_if(src, fn, test_text):
    hits = [n for n in ast.walk(fn) if isinstance(n, ast.If) and ast.unparse(n.test) == test_text]
    if len(hits) != 1:
        src.fail(fn, "expected exactly one `if %s:` in %s (found %d)" % (test_text, fn.name, len(hits)))
    return hits[0]


def transaction(D):
    src = Src("pymodbus/transaction.py")
    TM = "ModbusTransactionManager"
    hs = Src("pymodbus/framer/socket_framer.py")
    hsize = None
    for n in ast.walk(hs.func("ModbusSocketFramer", "__init__")):
        if isinstance(n, ast.Assign) and len(n.targets) == 1 and ast.unparse(n.targets[0]) == "self._hsize":
            hsize = core.const_int(hs, n.value)
    if hsize is None:
        hs.fail(hs.cls("ModbusSocketFramer"), "self._hsize assignment not found")
    D["hsize"] = coq_z(hsize)

    # _set_adu_size
    fn = src.func(TM, "_set_adu_size")
    b = strip(fn.body)
    if len(b) != 1:
        src.fail(fn, "_set_adu_size: expected one if/elif chain")
    rows, els = framer_chain(src, b[0])
    tab = []
    for names, body in rows:
        v = core.const_int(src, single_assign(src, body, "self.base_adu_size"))
        for nm in names:
            tab.append("(%s, %s)" % (coq_str(nm), coq_z(v)))
    if els is None:
        src.fail(fn, "_set_adu_size: missing else")
    D["base_tab"] = coq_list(tab)
    D["base_default"] = coq_z(core.const_int(src, single_assign(src, els, "self.base_adu_size")))

    # _calculate_response_length
    fn = src.func(TM, "_calculate_response_length")
    b = strip(fn.body)
    if [a.arg for a in fn.args.args] != ["self", "expected_pdu_size"]:
        src.fail(fn, "_calculate_response_length: unexpected signature")
    tr = ExprTr(src, {"self.base_adu_size", "expected_pdu_size"})
    if not (len(b) == 1 and isinstance(b[0], ast.If) and text(b[0].body) == "return None"
            and len(strip(b[0].orelse)) == 1 and isinstance(strip(b[0].orelse)[0], ast.Return)):
        src.fail(fn, "_calculate_response_length: expected `if <t>: return None else: return <e>`")
    D["resp_none"] = tr.tr_bool(b[0].test)
    D["resp_len"] = tr.tr(strip(b[0].orelse)[0].value)

    # _calculate_exception_length
    fn = src.func(TM, "_calculate_exception_length")
    b = strip(fn.body)
    if not (len(b) == 2 and ast.unparse(b[1]) == "return None"):
        src.fail(fn, "_calculate_exception_length: expected chain + `return None`")
    rows, els = framer_chain(src, b[0])
    if els is not None:
        src.fail(fn, "_calculate_exception_length: unexpected else")
    tr = ExprTr(src, {"self.base_adu_size"})
    tab = []
    for names, body in rows:
        if not (len(body) == 1 and isinstance(body[0], ast.Return) and body[0].value is not None):
            src.fail(fn, "_calculate_exception_length: expected `return <expr>`")
        tab.append("(%s, %s)" % (names_list(names), tr.tr(body[0].value)))
    D["exc_tab"] = coq_list(tab)

    # execute: the prediction block
    fn = src.func(TM, "execute")
    blk = find_if(src, fn, "not isinstance(self.client.framer, ModbusSocketFramer)")
    inner = strip(blk.body)
    if blk.orelse or len(inner) != 1 or not isinstance(inner[0], ast.If) \
            or ast.unparse(inner[0].test) != "hasattr(request, 'get_response_pdu_size')" or inner[0].orelse:
        src.fail(blk, "execute: expected `if hasattr(request, 'get_response_pdu_size'):` inside the framer test")
    st = strip(inner[0].body)
    if not (len(st) == 3 and ast.unparse(st[0]) == "response_pdu_size = request.get_response_pdu_size()"
            and isinstance(st[1], ast.If) and not st[1].orelse
            and isinstance(st[2], ast.If) and not st[2].orelse
            and ast.unparse(st[2].test) == "response_pdu_size"
            and text(st[2].body) == "expected_response_length = self._calculate_response_length(response_pdu_size)"):
        src.fail(inner[0], "execute: prediction block has an unrecognised shape")
    D["factor_framers"] = names_list(isinstance_names(src, st[1].test))
    tr = ExprTr(src, {"response_pdu_size"})
    D["factor"] = tr.tr(single_assign(src, strip(st[1].body), "response_pdu_size"))
    # the statement before the block must initialise the length to None
    idx = None
    for parent in ast.walk(fn):
        for fld in ("body", "orelse"):
            lst = getattr(parent, fld, None)
            if isinstance(lst, list) and blk in lst:
                idx = (lst, lst.index(blk))
    if idx is None or idx[1] == 0 or ast.unparse(idx[0][idx[1] - 1]) != "expected_response_length = None":
        src.fail(blk, "execute: `expected_response_length = None` must precede the prediction block")
    D["excluded"] = names_list(["ModbusSocketFramer"])

    # _recv
    fn = src.func(TM, "_recv")
    if [a.arg for a in fn.args.args] != ["self", "expected_response_length", "full"]:
        src.fail(fn, "_recv: unexpected signature")
    b = strip(fn.body)
    if not (len(b) >= 5 and ast.unparse(b[0]) == "total = None" and isinstance(b[1], ast.If)
            and ast.unparse(b[1].test) == "not full"
            and text(b[1].orelse) == norm("read_min = b''\ntotal = expected_response_length")
            and ast.unparse(b[2]) == "result = self.client.framer.recvPacket(expected_response_length)"
            and ast.unparse(b[3]) == "result = read_min + result"
            and ast.unparse(b[-1]) == "return result"):
        src.fail(fn, "_recv: outer shape not recognised")
    for extra in b[4:-1]:
        # bookkeeping after the reads: `actual = len(result)`, the logging-only comparison, the state update
        t = ast.unparse(extra)
        ok = t == "actual = len(result)" or (isinstance(extra, ast.If) and (
            (ast.unparse(extra.test) == "total is not None and actual != total" and not strip(extra.body) and not extra.orelse)
            or (ast.unparse(extra.test) == "self.client.state != ModbusTransactionState.PROCESSING_REPLY"
                and text(extra.body) == "self.client.state = ModbusTransactionState.PROCESSING_REPLY" and not extra.orelse)))
        if not ok:
            src.fail(extra, "_recv: unexpected statement after the reads: %s" % t.split("\n")[0])
    nf = strip(b[1].body)
    if not (len(nf) == 5 and ast.unparse(nf[0]) == "exception_length = self._calculate_exception_length()"
            and ast.unparse(nf[2]) == "read_min = self.client.framer.recvPacket(min_size)"
            and isinstance(nf[3], ast.If) and not nf[3].orelse and len(strip(nf[3].body)) == 1
            and isinstance(strip(nf[3].body)[0], ast.Raise)
            and "InvalidMessageReceivedException" in ast.unparse(strip(nf[3].body)[0])
            and isinstance(nf[4], ast.If) and ast.unparse(nf[4].test) == "read_min"
            and text(nf[4].orelse) == "total = expected_response_length"):
        src.fail(b[1], "_recv: `if not full:` block not recognised")
    rows, els = framer_chain(src, nf[1])
    tab = []
    for names, body in rows:
        v = core.const_int(src, single_assign(src, body, "min_size"))
        for nm in names:
            tab.append("(%s, %s)" % (coq_str(nm), coq_z(v)))
    if els is None or ast.unparse(single_assign(src, els, "min_size")) != "expected_response_length":
        src.fail(nf[1], "_recv: min_size chain must end in `else: min_size = expected_response_length`")
    D["min_tab"] = coq_list(tab)
    tr = ExprTr(src, {"len(read_min)", "min_size"})
    D["short_read"] = tr.tr_bool(nf[3].test)

    got = strip(nf[4].body)
    if len(got) != 2:
        src.fail(nf[4], "_recv: expected func_code chain + `if func_code < ..`")
    rows, els = framer_chain(src, got[0])
    fc_last, fc_hex = [], []
    for names, body in rows:
        t = ast.unparse(single_assign(src, body, "func_code"))
        if t == "byte2int(read_min[-1])":
            fc_last += names
        elif t == "int(read_min[3:5], 16)":
            fc_hex += names
        else:
            src.fail(body[0], "_recv: unrecognised function-code extraction: %s" % t)
    D["fc_last"] = names_list(fc_last)
    D["fc_hex"] = names_list(fc_hex)
    D["fc_default"] = coq_z(core.const_int(src, single_assign(src, els, "func_code"))) if els else None
    if D["fc_default"] is None:
        src.fail(got[0], "_recv: func_code chain without else")
    br = got[1]
    tr = ExprTr(src, {"func_code"})
    D["not_error"] = tr.tr_bool(br.test)
    nb = strip(br.body)
    if not (len(nb) == 2 and isinstance(nb[0], ast.If) and not nb[0].orelse
            and isinstance_names(src, nb[0].test) == ["ModbusSocketFramer"]
            and isinstance(nb[1], ast.If) and not nb[1].orelse
            and ast.unparse(nb[1].test) == "expected_response_length is not None"):
        src.fail(br, "_recv: normal-reply branch not recognised")
    sb = strip(nb[0].body)
    if not (len(sb) == 3 and ast.unparse(sb[0]) == "h_size = self.client.framer._hsize"):
        src.fail(nb[0], "_recv: socket branch not recognised")
    UNP = "struct.unpack('>H', read_min[4:6])[0]"
    tr = ExprTr(src, {"h_size", UNP})
    sub = tr.straightline(sb[1:], {"h_size": ('(EAtom "h_size")', False)}, allow_no_return=True, want_subst=True)
    if "expected_response_length" not in sub:
        src.fail(nb[0], "_recv: socket branch does not set expected_response_length")
    D["socket_expected"] = sub["expected_response_length"][0].replace(coq_str(UNP), coq_str("mbap_length"))
    tr = ExprTr(src, {"expected_response_length", "min_size", "exception_length"})
    seed = {"expected_response_length": ('(EAtom "expected_response_length")', False)}
    sub = tr.straightline(strip(nb[1].body), seed, allow_no_return=True, want_subst=True)
    if set(sub) != {"expected_response_length", "total"}:
        src.fail(nb[1], "_recv: normal branch must update expected_response_length and total only")
    D["rest_normal"], D["total_normal"] = sub["expected_response_length"][0], sub["total"][0]
    sub = tr.straightline(strip(br.orelse), seed, allow_no_return=True, want_subst=True)
    if set(sub) != {"expected_response_length", "total"}:
        src.fail(br, "_recv: exception branch must update expected_response_length and total only")
    D["rest_exc"], D["total_exc"] = sub["expected_response_length"][0], sub["total"][0]


def generate():
    D = {}
    pdu_sizes(D)
    transaction(D)
    out = [core.HEADER, "Open Scope list_scope.\n",
           "(* ---- get_response_pdu_size, one term per defining class ---- *)", D["defs"], "",
           "(* concrete class -> the body it inherits *)", D["table"], "",
           "(* classes whose prediction first rewrites a scalar self.message into a one-element list *)",
           D["normalise"], "",
           "(* every diagnostic request class with a sub_function_code (diag_message.py, registered in factory.py) *)",
           "Definition diag_table : list (Z * string) :=\n  %s." % D["diag"], "",
           "(* ---- transaction.py ---- *)",
           "Definition base_adu_table : list (string * Z) := %s." % D["base_tab"],
           "Definition base_adu_default : Z := %s." % D["base_default"],
           "Definition resp_len_none : expr := %s." % D["resp_none"],
           "Definition resp_len : expr := %s." % D["resp_len"],
           "Definition exc_len_table : list (list string * expr) :=\n  %s." % D["exc_tab"],
           "Definition predict_excluded : list string := %s." % D["excluded"],
           "Definition factor_framers : list string := %s." % D["factor_framers"],
           "Definition factor : expr := %s." % D["factor"],
           "Definition min_size_table : list (string * Z) := %s." % D["min_tab"],
           "Definition short_read : expr := %s." % D["short_read"],
           "Definition fc_last_byte : list string := %s." % D["fc_last"],
           "Definition fc_hex_3_5 : list string := %s." % D["fc_hex"],
           "Definition fc_default : Z := %s." % D["fc_default"],
           "Definition not_error : expr := %s." % D["not_error"],
           "Definition socket_hsize : Z := %s." % D["hsize"],
           "Definition socket_expected : expr := %s." % D["socket_expected"],
           "Definition rest_normal : expr := %s." % D["rest_normal"],
           "Definition total_normal : expr := %s." % D["total_normal"],
           "Definition rest_exception : expr := %s." % D["rest_exc"],
           "Definition total_exception : expr := %s." % D["total_exc"], ""]
    return {"GenSizes.v": "\n".join(out)}
