(* Props/C09_e2e_ext.v — the end-to-end composition EXTENDED by the request classes that do not touch
   the datastore.  ONLY statements; proofs in proofs/EndToEndExt_proofs.v.  The earlier theorems
   (C09_e2e_tcp, C09_e2e_ascii, C09_e2e_rtu) are unchanged and remain available.

   Server state = (hosted datastores, control block): theories/EndToEndExt.v plugs ExecOther.serve_other
   (the execute() scripts of FC 7, 8, 11, 12, 17, 20, 21, 24 regenerated into GenExecOther.code, over the
   ModbusControlBlock record of Device.v) into the callback of EndToEnd.v; the control block is ONE
   process-wide object shared by all units.
   Spec side = theories/CorrE2EExt.v: (abstract data model per unit, ONE abstract station);
   [spec_run_x] answers a data-access request with ExecSpec.spec_exec on the addressed unit and a station
   request with ExecOtherSpec.spec_other on the station (whose eight exception-status outputs are this
   device's choice [station_status]); Force Listen Only Mode gets no response.

   [req_ok_x]: a request of C09_e2e_tcp's domain, or a station request of the region in which
   C04_other_refines is proved: FC 7, 11, 12, 17; FC 8 sub-functions 00, 03, 04, 0A-12, 14 with one
   16-bit data word.  [dev_ok] (part of [xrel]): nine 16-bit counters, sixteen flags, comm event counter 0
   and empty event log (the state of a server whose application logs no events; preserved by every request
   of the domain), a server id that fits its field. *)
From PM.theories Require Import Base Expr Struct FrBaseA FrTcp FrSpecA Lrc FrAscii PduCls PduSpec Pdu Store Exec ExecSpec
                                Device ExecOther ExecOtherSpec ExecOtherView Server
                                EndToEnd EndToEndSerial EndToEndExt CorrE2E CorrE2ESerial CorrE2EExt.
From PM.Generated Require Import GenFramerA.
From PM.Generated Require GenStore GenExec GenExecOther GenServer.
From PM.theories Require FrBCommon FrRtu FrSpecB.
From PM.Generated Require GenFramerB.
From PM.proofs Require Import Exec_proofs Server_proofs ExecOther_proofs EndToEnd_adapt_proofs EndToEnd_spec_proofs EndToEnd_proofs
                              EndToEndSerial_proofs EndToEndRtu_proofs EndToEndExt_proofs EndToEndRtuExt_proofs.
From PM.proofs Require FrB_rtu_proofs.
From PM.Props Require C09_e2e.
Open Scope string_scope.
Open Scope list_scope.
Open Scope Z_scope.

Theorem C09_e2e_tcp_ext : forall sk cfg eof (x : xstate) (st : sstate) (qs : list e2e_req) (chunks : list bytes),
  In sk tcp_fes_x ->                                  (* generated skeletons sync_tcp, aio_tcp *)
  xrel x st ->                                        (* stores abstract to the units of st, control block to its station *)
  Forall (req_ok_x sk cfg (x_keys x)) qs ->
  concat (eff_chunks eof chunks) = concat (map req_adu qs) ->        (* ANY division into reads *)
  exists x' fs',
    tcp_server_run_x sk cfg eof x chunks = result x' (snd (spec_run_x tcp_adu (cf_single cfg) st qs)) fs' /\
    xrel x' (fst (spec_run_x tcp_adu (cf_single cfg) st qs)).
Proof. exact e2e_tcp_ext. Qed.
Print Assumptions C09_e2e_tcp_ext.

Theorem C09_e2e_ascii_ext : forall sk cfg (x : xstate) (st : sstate) (qs : list e2e_req) (chunks : list bytes),
  In sk serial_fes -> xrel x st ->
  Forall (item_ok_x KAscii sk cfg (x_keys x) (unit_cfg sk cfg (x_keys x))) qs ->
  concat chunks = concat (map req_adu_ascii qs) ->
  exists x' fs',
    ascii_server_run_x sk cfg x chunks = result x' (snd (spec_run_x ascii_adu (cf_single cfg) st qs)) fs' /\
    xrel x' (fst (spec_run_x ascii_adu (cf_single cfg) st qs)).
Proof. exact e2e_ascii_ext. Qed.
Print Assumptions C09_e2e_ascii_ext.

(* ---- the new seams ------------------------------------------------------------------------------ *)
(* C01 -> C04_other: a station request decodes to the object ExecOtherView.obj_of_wire names *)
Theorem C09_e2e_decode_station : forall m ow, owire_of_msg m = Some ow -> spec_wf m = true ->
  exists q, py_decode true (spec_pdu m) = Ok q /\ obj_of_wire ow = Some q.
Proof. exact decode_station. Qed.
Print Assumptions C09_e2e_decode_station.

(* C04_other -> C01: the response object stands for the spec message of the station's response (or is the
   silent listen-only response), the control block keeps its invariant and steps with the station *)
Theorem C09_e2e_station_step : forall dv sd ow q, dev_rel dv sd -> station_region ow -> obj_of_wire ow = Some q ->
  exists dv' r, e_serve_other dv q = Some (dv', r) /\ (exists rfc, obj_fc r = Ok rfc) /\ exc_code_of r = None /\
    dev_rel dv' (fst (spec_other_step sd ow)) /\
    match other_rsp_msg (snd (spec_other_step sd ow)) with
    | Some mr => obj_respond r = true /\ CorrPdu.abs r = Some mr /\
                 CorrPdu.mem_cls (class_of r) CorrPdu.conforming_encode = true /\
                 (length (spec_pdu mr) <= 300)%nat /\ wfb (spec_pdu mr) = true
    | None => obj_respond r = false
    end.
Proof. exact station_step_rel. Qed.
Print Assumptions C09_e2e_station_step.

(* a request is EITHER a data-access request OR a station request: the two execution models never overlap *)
Theorem C09_e2e_disjoint : forall dv o r, req_of_obj o = Some r -> e_serve_other dv o = None.
Proof. exact data_not_other. Qed.
Print Assumptions C09_e2e_disjoint.

(* framing-independent core of the extension (rejected frames interleaved) *)
Theorem C09_e2e_stream_ext : forall k pk adu, pk_ok pk adu (fun q => spec_delivery k (frame_of q)) ->
  forall sk cfg, fe_ok sk -> k <> KTls -> forall qs x st x0,
  x_keys x = x_keys x0 -> xrel x st ->
  Forall (item_ok_x k sk cfg (x_keys x0) (unit_cfg sk cfg (x_keys x0))) qs ->
  exists x', handle_all_x pk sk cfg x (ref_deliveries k (unit_cfg sk cfg (x_keys x0)) (map frame_of qs))
               = (x', snd (spec_run_x adu (cf_single cfg) st qs), None) /\
             xrel x' (fst (spec_run_x adu (cf_single cfg) st qs)) /\ x_keys x' = x_keys x0.
Proof. exact stream_spec_x. Qed.
Print Assumptions C09_e2e_stream_ext.

(* ---- non-vacuity: single context, control block with BusMessage = 5 and SlaveMessage = 3; nine requests:
   write register, Return Bus Message Count (5), Read Exception Status (outputs 0 and 3 set: 9), Clear
   Counters (to unit 17), Return Bus Message Count (0), Force Listen Only Mode (NO response), Get Comm Event
   Log, Report Server ID ("Pymodbus", running), read the register back; cut 3 bytes into the first header. *)
Definition nvx_dev : device :=
  {| d_counters := [5; 0; 0; 3; 0; 0; 0; 0; 0]; d_diag := repeat false 16; d_events := []; d_listen := false;
     d_delim := [13%N]; d_plus := repeat 0 110; d_ident := [] |}.
Definition nvx_mk (t u : Z) (m : msg) : e2e_req := {| q_tid := t; q_pid := 0; q_uid := u; q_body := QMsg m |}.
Definition nvx_reqs : list e2e_req :=
  [nvx_mk 1 1 (MWriteRegReq 2 4660); nvx_mk 2 1 (MDiagReq 11 [0]); nvx_mk 3 1 MReadExcStatusReq;
   nvx_mk 4 17 (MDiagReq 10 [0]); nvx_mk 5 1 (MDiagReq 11 [0]); nvx_mk 6 1 (MDiagReq 4 [0]);
   nvx_mk 7 1 MCommEventLogReq; nvx_mk 8 1 MReportSlaveIdReq; nvx_mk 9 1 (MReadHoldingReq 2 1)].
Definition nvx_stream : bytes := concat (map req_adu nvx_reqs).
Definition nvx_chunks : list bytes := [firstn 3 nvx_stream; firstn 30 (skipn 3 nvx_stream); skipn 33 nvx_stream].
Definition nvx_x : xstate := {| x_units := [(0, C09_e2e.nv_ctx)]; x_dev := nvx_dev |}.

Example C09_e2e_ext_nonvacuous :
  let sk := GenServer.sync_tcp in let cfg := C09_e2e.nv_cfg in
  In sk tcp_fes_x /\ dev_ok nvx_dev /\
  Forall (req_ok_x sk cfg (x_keys nvx_x)) nvx_reqs /\
  concat (eff_chunks true nvx_chunks) = concat (map req_adu nvx_reqs) /\
  e_out (tcp_server_run_x sk cfg true nvx_x nvx_chunks) =
    [0; 1; 0; 0; 0; 6; 1; 6; 0; 2; 18; 52;                (* write echo *)
     0; 2; 0; 0; 0; 6; 1; 8; 0; 11; 0; 5;                 (* bus message count 5 *)
     0; 3; 0; 0; 0; 3; 1; 7; 9;                           (* exception status 0b00001001 *)
     0; 4; 0; 0; 0; 6; 17; 8; 0; 10; 0; 0;                (* clear counters, echoed *)
     0; 5; 0; 0; 0; 6; 1; 8; 0; 11; 0; 0;                 (* bus message count 0 *)
                                                          (* force listen only: silence *)
     0; 7; 0; 0; 0; 9; 1; 12; 6; 0; 0; 0; 0; 0; 0;        (* event log: status 0, counts 0, no events *)
     0; 8; 0; 0; 0; 12; 1; 17; 9; 80; 121; 109; 111; 100; 98; 117; 115; 255;   (* "Pymodbus", running *)
     0; 9; 0; 0; 0; 5; 1; 3; 2; 18; 52]%N /\              (* register 2 = 0x1234 *)
  snd (spec_run_x tcp_adu true {| ss_units := abs_units (x_units nvx_x); ss_dev := abs_dev nvx_dev |} nvx_reqs) =
    e_out (tcp_server_run_x sk cfg true nvx_x nvx_chunks) /\
  d_listen (x_dev (e_units (tcp_server_run_x sk cfg true nvx_x nvx_chunks))) = true.
Proof.
  cbv zeta. split; [cbv [tcp_fes_x]; cbn [In]; tauto|].
  split. { split; [split; reflexivity|]. split; [cbn [nvx_dev d_counters]; repeat (apply Forall_cons || apply Forall_nil); unfold u16v; lia|].
           split; [reflexivity|]. split; [reflexivity|]. split; [reflexivity|]. change (8 <= 254)%nat. lia. }
  split. { unfold nvx_reqs. repeat (apply Forall_cons || apply Forall_nil).
           - left. repeat split; cbn; try lia; try tauto. eexists; cbn; repeat split; reflexivity.
           - right. repeat split; cbn; try lia; try tauto. eexists; eexists; repeat split; try reflexivity. left; reflexivity.
           - right. repeat split; cbn; try lia; try tauto. eexists; eexists; repeat split; reflexivity.
           - right. repeat split; cbn; try lia; try tauto. eexists; eexists; repeat split; try reflexivity. right; reflexivity.
           - right. repeat split; cbn; try lia; try tauto. eexists; eexists; repeat split; try reflexivity. left; reflexivity.
           - right. repeat split; cbn; try lia; try tauto. eexists; eexists; repeat split; try reflexivity. left; reflexivity.
           - right. repeat split; cbn; try lia; try tauto. eexists; eexists; repeat split; reflexivity.
           - right. repeat split; cbn; try lia; try tauto. eexists; eexists; repeat split; reflexivity.
           - left. repeat split; cbn; try lia; try tauto. eexists; cbn; repeat split; reflexivity. }
  split; [vm_compute; reflexivity|]. split; [vm_compute; reflexivity|]. split; vm_compute; reflexivity.
Qed.

(* ---- RTU framing: [rtu_item_ok_x] = a data-access request message of the ten kinds or a station request of
   the proved region, addressed to a served unit — or such a message to a unit the filter rejects (skipped;
   as in C09_e2e_rtu a skipped frame needs a size rule: the station requests have the fixed rules 4 and 8 of
   the generated table, C09_e2e_rtu_station_size) *)
Theorem C09_e2e_rtu_ext : forall sk cfg (x : xstate) (st : sstate) (qs : list e2e_req) (chunks : list bytes),
  In sk serial_fes -> xrel x st ->
  Forall (rtu_item_ok_x sk cfg (x_keys x) (unit_cfg sk cfg (x_keys x))) qs ->
  concat chunks = concat (map req_adu_rtu qs) ->
  exists x' fs',
    rtu_server_run_x sk cfg x chunks = result x' (snd (spec_run_x rtu_adu (cf_single cfg) st qs)) fs' /\
    xrel x' (fst (spec_run_x rtu_adu (cf_single cfg) st qs)).
Proof. exact e2e_rtu_ext. Qed.
Print Assumptions C09_e2e_rtu_ext.

Theorem C09_e2e_rtu_station_size : forall m ow u, owire_of_msg m = Some ow -> spec_wf m = true -> wfb (u :: spec_pdu m) = true ->
  exists fc data, spec_pdu m = fc :: data /\
    FrB_rtu_proofs.simple_rule (FrBCommon.lookup_rule GenFramerB.server_decoder (FrBCommon.zb fc)) = true /\
    FrBCommon.frame_size (FrBCommon.lookup_rule GenFramerB.server_decoder (FrBCommon.zb fc)) (FrSpecB.spec_adu_rtu u (spec_pdu m))
      = Ok (FrBCommon.zlen (FrSpecB.spec_adu_rtu u (spec_pdu m))).
Proof. exact rtu_station_size. Qed.
Print Assumptions C09_e2e_rtu_station_size.

(* non-vacuity: the request list of C09_e2e_ext_nonvacuous over RTU, one byte per read for the first frame *)
Definition nvxr_stream : bytes := concat (map req_adu_rtu nvx_reqs).
Definition nvxr_chunks : list bytes := map (fun b => [b]) (firstn 8 nvxr_stream) ++ [[]; skipn 8 nvxr_stream].

Example C09_e2e_rtu_ext_nonvacuous :
  let sk := GenServer.sync_serial in let cfg := C09_e2e.nv_cfg in let x := nvx_x in
  Forall (rtu_item_ok_x sk cfg (x_keys x) (unit_cfg sk cfg (x_keys x))) nvx_reqs /\
  concat nvxr_chunks = concat (map req_adu_rtu nvx_reqs) /\
  snd (spec_run_x rtu_adu true {| ss_units := abs_units (x_units x); ss_dev := abs_dev (x_dev x) |} nvx_reqs) =
    e_out (rtu_server_run_x sk cfg x nvxr_chunks) /\
  length (e_out (rtu_server_run_x sk cfg x nvxr_chunks)) = 69%nat.
Proof.
  cbv zeta. split.
  { unfold nvx_reqs. repeat (apply Forall_cons || apply Forall_nil);
      (split; [cbn; lia|]; split; [reflexivity|]).
    - split; [left; eexists; eexists; repeat split; reflexivity|]. left. repeat split; cbn; try lia; tauto.
    - split; [right; eexists; eexists; repeat split; try reflexivity; left; reflexivity|]. left. repeat split; cbn; try lia; tauto.
    - split; [right; eexists; eexists; repeat split; reflexivity|]. left. repeat split; cbn; try lia; tauto.
    - split; [right; eexists; eexists; repeat split; try reflexivity; right; reflexivity|]. left. repeat split; cbn; try lia; tauto.
    - split; [right; eexists; eexists; repeat split; try reflexivity; left; reflexivity|]. left. repeat split; cbn; try lia; tauto.
    - split; [right; eexists; eexists; repeat split; try reflexivity; left; reflexivity|]. left. repeat split; cbn; try lia; tauto.
    - split; [right; eexists; eexists; repeat split; reflexivity|]. left. repeat split; cbn; try lia; tauto.
    - split; [right; eexists; eexists; repeat split; reflexivity|]. left. repeat split; cbn; try lia; tauto.
    - split; [left; eexists; eexists; repeat split; reflexivity|]. left. repeat split; cbn; try lia; tauto. }
  split; [vm_compute; reflexivity|]. split; vm_compute; reflexivity.
Qed.
