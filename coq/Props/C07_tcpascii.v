(* Props/C07_tcpascii.v — placeholder header; statements are added below. *)
From PM.theories Require Import Base Expr Struct FrBaseA Lrc FrTcp FrAscii FrTls FrSpecA.
From PM.Generated Require Import GenFramerA.
From PM.proofs Require Import FrA_lrc_proofs FrA_stream_proofs.
Open Scope list_scope.
Open Scope Z_scope.

Theorem C07_lrc_sum_zero : forall bs : bytes, (bsum bs + spec_lrc bs) mod 256 = 0.
Proof. exact spec_lrc_sum. Qed.
Print Assumptions C07_lrc_sum_zero.
