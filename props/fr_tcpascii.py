"""Framer properties C03 / C06 / C07 / C11 — the half for the socket (TCP/MBAP), ASCII and TLS
framers and the LRC.  Contract: props/_split.py.

Every case drives the REAL framer classes in-process with the REAL decoders wrapped in a
recording proxy; the recorded (pdu bytes -> decode outcome) table, the chunks fed and what
was observed after every processIncomingPacket call (deliveries as (pdu bytes, tid, pid,
uid), escaped exception class, read-only _buffer/_header) form one Coq term, judged inside
Coq by CorrFrA.chk_* : (model == implementation, spec-side property oracle).
"""
import itertools
import json

from lib import common
from lib.main import Case, Suite
from lib.pyx import pyexn

GENERATORS = ["framer_tcpascii"]
PROP_FILES = {"C03": ["C03_tcpascii"], "C06": ["C06_tcpascii"], "C07": ["C07_tcpascii"], "C11": ["C11_tcpascii"]}
CASE_DEPS = ["theories/CorrFrA.vo", "Generated/GenFramerA.vo"]
IMPORTS = ("From PM.theories Require Import Base Expr Struct FrBaseA Lrc FrTcp FrAscii FrTls FrSpecA CorrFrA.\n"
           "From PM.Generated Require Import GenFramerA.\nOpen Scope string_scope.")

RULE = {
    "C03": ("[tcp/ascii/tls] buildPacket of real request/response objects (every payload byte value 0..255 incl. "
            "':' CR LF '{' '}', unit ids {0,1,17,247,255,random}, tids {0,1,65535,random}, out-of-range header "
            "fields) compared with the spec ADU; the packet handed whole to a fresh receiver under every unit-filter "
            "configuration; computeLRC/checkLRC on all strings of length <= 1, a sweep of length 2 and random "
            "strings up to 300 bytes; exception responses for refused function codes across 1..127 (implemented and not: "
            "0x09, 0x0A, 0x41, 0x64, 0x7F ...) x exception codes 1..11, built and handed whole to a fresh receiver with an "
            "oracle that does not ask the decoder whether they are valid.  non-trivial = the header fields are in range / the frame decodes"),
    "C06": ("[tcp/ascii] streams of 1-4 mixed valid frames (both decoder directions) cut into chunks: ALL cut sets "
            "of streams <= 14 bytes, every single cut and every double cut of longer streams, random k-cuts, "
            "byte-at-a-time, empty reads interspersed; frames at the size extremes (PDU 1, 2, 252, 253 bytes) cut behind the "
            "header, in the middle and just before the end; exception-response frames (also for unimplemented functions) cut "
            "everywhere and in streams, judged independently of the decoder; unit filter varied (single, listed, 0/0xFF, foreign unit "
            "in the stream).  distinct = distinct (stream, chunking, filter)"),
    "C07": ("[tcp/ascii] valid frames of several message types corrupted by every single-bit flip, double-bit flips "
            "(all for frames <= 24 bytes in the thorough tier, sampled otherwise), byte substitution at every "
            "position, deletion / insertion / truncation at every offset, alone or preceded / followed by valid "
            "frames, in one read or split; every delivery must be justified by a span of the input whose "
            "integrity check holds and, on TCP, whose PDU has exactly the length its function code defines (reference "
            "receiver in Coq); a_lenfield: the MBAP length field alone corrupted (every single-bit flip of its two bytes, "
            "+1, +8, +16, -1) followed by one and two valid frames in the same and in later reads, both directions"),
    "C11": ("[ascii] garbage prefixes (random bytes, delimiter runs, bad-LRC frames, abandoned partial frames, "
            "foreign-unit frames, lenient-hex look-alikes, valid-LRC frames the decoder rejects) followed by 70+ "
            "valid frames (> 2 maximum-size frames of traffic), one per read / several per read / all in one read; "
            "every frame starting more than 2*513 bytes after the garbage must be delivered and the backlog stay "
            "<= 513 + read size; a_handlers: the REAL sync ModbusSingleRequestHandler (fake serial port) and the asyncio "
            "datagram handler with the ASCII framer - garbage that makes processIncomingPacket raise (cut-short request with "
            "matching LRC, undecodable PDU, empty PDU) or not (bad LRC, non-hex, partial), then 70+ valid requests one / "
            "several per read: every request later than 2*513 bytes after the garbage must be ANSWERED on the port; "
            "per-read behaviour compared with the reset-on-exception model a_recv_h"),
}
TRUSTED = [
    "[tcp/ascii/tls] hand-modelled, tied by correspondence only: bytes.find, slicing with negative indices, "
    "binascii.a2b_hex/b2a_hex, int(two bytes, 16), '%02x' formatting, bytes.upper, the try/except ValueError of "
    "ASCII checkFrame, struct pack/unpack (Struct.v), the statement order inside each helper",
    "[tcp/ascii/tls] generated from source on every run (Generated/GenFramerA.v): _hsize, delimiters, header dict "
    "literals, every slice bound and comparison of checkFrame/advanceFrame/getFrame/isFrameReady, struct formats and "
    "arguments of buildPacket, populateResult field map, the branch skeleton of processIncomingPacket (compared with "
    "the skeleton the model implements), the default of `single`, the 0/0xFF literals of _validate_unit_id, "
    "computeLRC/checkLRC expressions",
    "[tcp/ascii/tls] the PDU decoder is an oracle: a Section variable in the theorems, the recorded behaviour of the "
    "real ServerDecoder/ClientDecoder in the correspondence cases",
]
ASSUMPTIONS = [
    "[tcp/ascii/tls] decoder.decode is a function of the PDU bytes (checked: the recording proxy reports any PDU "
    "decoded twice with different outcomes)",
    "[tcp/ascii/tls] the callback does not raise and does not touch the framer (in the a_handlers suite the callback is the real handler.execute)",
]
MANIFEST_PART = {
    "C03": {"text": ("Socket/ASCII/TLS half: Coq theorems (Props/C03_tcpascii.v) over the models instantiated with "
                     "the code regenerated from the framer sources: computeLRC = two's complement of the byte sum "
                     "for all byte strings; buildPacket = the spec ADU for all tids 0..65535, units 0..255 and all "
                     "PDUs (MBAP, ':'+upper hex+LRC+CR LF, bare PDU); a whole packet given to a fresh receiver is "
                     "delivered exactly once with tid/pid/uid preserved. Tests feed two literal frames; the theorems "
                     "quantify over every header value and payload."),
            "note": ("Trusted: Coq kernel, translator shape matching, hand model of find/hex/int glue (validated by "
                     "correspondence on every run), decoder as oracle.")},
    "C06": {"text": ("Socket/ASCII half: FULL chunking independence proved for both framers (C06_ascii, C06_tcp): for "
                     "ALL streams mixing frames for served and foreign units and ALL chunk lists (any cut position, "
                     "empty reads), exactly the frames of the accepted units are delivered, in order, and no call "
                     "raises; correspondence over all cut sets of short streams, single/double/random cuts of long "
                     "ones and frames at the size extremes."),
            "note": ("Formerly open, now fixed and their witnesses must pass: TCP 1..7-byte buffer -> "
                     "_process(error=True); foreign-unit frame resets the read.")},
    "C07": {"text": ("Socket/ASCII half: gate theorems from ANY receiver state: whenever ASCII checkFrame accepts, the "
                     "buffer holds ':' hex.. CR LF whose two LRC characters equal the specification LRC of the decoded "
                     "bytes and the header carries exactly those values (C07_gate_ascii); whenever the socket "
                     "checkFrame accepts, the MBAP length is >= 2 and the PDU is exactly the next len-1 buffered bytes "
                     "(C07_gate_tcp); a change of any single byte / hex character breaks the LRC equation "
                     "(C07_lrc_single_char); LOOP LEVEL: every element of the delivery list of a receive call, from any state, "
                     "is justified by such a span of buffer++chunk (C07_deliveries_ascii, C07_deliveries_tcp - no "
                     "exception left since the socket framer's error path is gone). Every bit flip, substitution, deletion, insertion and truncation of real "
                     "frames is replayed against the code and judged by a reference receiver written in Coq."),
            "note": ("Open: F-C07-tcp-wrong-length-pdu-accepted - the socket framer checks no PDU length and several decode() "
                     "methods tolerate trailing/missing bytes (C07_deliveries_tcp_pdu_len_partial / C07_tcp_pdu_len_refuted). "
                     "Fixed (witness must pass): TCP error path delivered a bogus message from a 1..7-byte buffer.")},
    "C11": {"text": ("ASCII half: from the synchronised state every read of whole frames, one or several per read, any mix of "
                     "served and foreign units, delivers exactly the accepted ones and ends synchronised (C11_after_sync_ascii); arbitrary cutting never loses a frame "
                     "(C11_backlog_ascii); the scan loop terminates from any state on any input "
                     "(C11_no_fuel_out_ascii); a raising call followed by the handlers' reset is synchronised "
                     "(C11_recover_ascii_handler); from ANY state (arbitrary garbage) one read of valid frames ends "
                     "synchronised AND delivers all of them unless it raises (C11_recover_ascii_partial; C11_recover_ascii with the handler "
                     "reset, no hypothesis). Garbage prefixes of eight kinds followed by 70+ valid frames are "
                     "replayed against the code: every frame later than two maximum-size frames after the garbage must "
                     "be delivered, backlog bounded - at the bare framer AND through the real serial-style handlers "
                     "(sync ModbusSingleRequestHandler, asyncio datagram handler), where every such request must be "
                     "answered and the per-read behaviour equals the reset-on-exception model a_recv_h."),
            "note": ("Open: a valid-LRC frame whose PDU the decoder rejects stays buffered forever at the bare framer "
                     "(C11_ascii_stuck_refuted) - the only hypothesis of C11_recover_ascii_partial.")},
}

KINDS = {"tcp": "KTcp", "ascii": "KAscii", "tls": "KTls"}


# ----------------------------------------------------------------------------- printing

def hx(b):
    return '(hx "%s")' % bytes(b).hex().upper()


def z(n):
    n = int(n)
    return "(%d)" % n if n < 0 else "%d" % n


def lst(items):
    return "[" + "; ".join(items) + "]"


def cfg_term(units, single):
    return "(cf %s %s)" % (lst(z(u) for u in units), "None" if single is None else "(Some %s)" % ("true" if single else "false"))


def dres_term(o):
    if o[0] == "M":
        return "(DMsg %s)" % z(o[1])
    if o[0] == "N":
        return "DNone"
    return "(DRaise %s)" % o[1]


def table_term(tbl):
    return lst("(%s, %s)" % (hx(k), dres_term(v)) for k, v in tbl.items())


def deliv_term(d):
    return "(dv %s %s %s %s)" % (hx(d[0]), z(d[1]), z(d[2]), z(d[3]))


def obs_term(o):
    return "(ob %s %s %s %s)" % (lst(deliv_term(d) for d in o["ds"]),
                                 "None" if o["exc"] is None else "(Some %s)" % o["exc"],
                                 hx(o["buf"]), lst(z(v) for v in o["hdr"]))


def frame_term(f):
    return "(fr %s %s %s %s)" % (z(f[0]), z(f[1]), z(f[2]), hx(f[3]))


# ----------------------------------------------------------------------------- spec helpers (python side: input construction only)

def lrc(b):
    return (-sum(b)) & 0xff


def adu(kind, f):
    tid, pid, uid, pdu = f
    if kind == "tcp":
        return tid.to_bytes(2, "big") + pid.to_bytes(2, "big") + (len(pdu) + 1).to_bytes(2, "big") + bytes([uid]) + pdu
    if kind == "ascii":
        body = bytes([uid]) + pdu
        return b":" + (body + bytes([lrc(body)])).hex().upper().encode() + b"\r\n"
    return pdu


# ----------------------------------------------------------------------------- driving the implementation

class RecDecoder:
    """records decode(pdu) outcomes; forwards lookupPduClass"""

    def __init__(self, real):
        self.real, self.table, self.objs, self.inconsistent = real, {}, {}, False

    def _note(self, key, out):
        if key in self.table and self.table[key] != out:
            self.inconsistent = True
        self.table.setdefault(key, out)

    def decode(self, data):
        key = bytes(data)
        try:
            r = self.real.decode(data)
        except Exception as e:  # noqa: BLE001
            self._note(key, ("E", pyexn(e)))
            raise
        if r is None:
            self._note(key, ("N",))
        else:
            self._note(key, ("M", int(r.function_code)))
            self.objs[id(r)] = (key, r)
        return r

    def lookupPduClass(self, fc):
        return self.real.lookupPduClass(fc)


def mk_framer(kind, direction):
    from pymodbus.factory import ServerDecoder, ClientDecoder
    from pymodbus.framer.socket_framer import ModbusSocketFramer
    from pymodbus.framer.ascii_framer import ModbusAsciiFramer
    from pymodbus.framer.tls_framer import ModbusTlsFramer
    dec = RecDecoder(ServerDecoder() if direction == "server" else ClientDecoder())
    cls = {"tcp": ModbusSocketFramer, "ascii": ModbusAsciiFramer, "tls": ModbusTlsFramer}[kind]
    return cls(dec), dec


def view_header(kind, h):
    if kind == "tcp":
        return [int(h["tid"]), int(h["pid"]), int(h["len"]), int(h["uid"])]
    if kind == "ascii":
        l = h["lrc"]
        return [-1 if isinstance(l, str) else int(l), int(h["len"]), int(h["uid"])]
    return [0] * len(h)


def feed(kind, direction, units, single, chunks):
    """returns (observations, decode table, indices of calls that took _process(error=True), ok)"""
    fr, dec = mk_framer(kind, direction)
    errcalls = []
    cur = [0]
    if hasattr(fr, "_process"):
        orig = fr._process

        def spy(callback, error=False):
            if error:
                errcalls.append(cur[0])
            return orig(callback, error=error) if error else orig(callback)
        fr._process = spy
    obs = []
    for i, ch in enumerate(chunks):
        cur[0] = i
        got = []

        def cb(r):
            key, _ = dec.objs.get(id(r), (None, None))
            got.append((key if key is not None else b"\xff\xff\xff\xff", int(r.transaction_id), int(r.protocol_id), int(r.unit_id)))
        exc = None
        try:
            if single is None:
                fr.processIncomingPacket(bytes(ch), cb, list(units))
            else:
                fr.processIncomingPacket(bytes(ch), cb, list(units), single=single)
        except Exception as e:  # noqa: BLE001 — the class of the escaping exception is the observation
            exc = pyexn(e)
        obs.append({"ds": got, "exc": exc, "buf": bytes(fr._buffer), "hdr": view_header(kind, fr._header)})
    return obs, dec.table, errcalls, not dec.inconsistent


# ----------------------------------------------------------------------------- messages

def messages(direction, r, small=False):
    """a list of real message objects of the given direction with random field values"""
    from pymodbus import bit_read_message as brm, bit_write_message as bwm, register_read_message as rrm
    from pymodbus import register_write_message as rwm, other_message as om, pdu
    w = lambda: r.choice([0, 1, 0xff, 0x0d0a, 0x3a3a, 0x7b7d, 0xffff, r.randrange(65536)])  # noqa: E731
    if direction == "server":
        out = [brm.ReadCoilsRequest(w(), r.randrange(1, 2000)), rrm.ReadHoldingRegistersRequest(w(), r.randrange(1, 125)),
               rrm.ReadInputRegistersRequest(w(), 1), bwm.WriteSingleCoilRequest(w(), r.choice([True, False])),
               rwm.WriteSingleRegisterRequest(w(), w()), om.ReadExceptionStatusRequest(), om.ReportSlaveIdRequest(),
               om.GetCommEventCounterRequest(),
               rwm.WriteMultipleRegistersRequest(w(), [w() for _ in range(r.choice([1, 2, 3, 8] if not small else [1, 2]))]),
               bwm.WriteMultipleCoilsRequest(w(), [r.random() < 0.5 for _ in range(r.choice([1, 8, 9, 17]))]),
               rwm.MaskWriteRegisterRequest(w(), w(), w())]
    else:
        out = [brm.ReadCoilsResponse([r.random() < 0.5 for _ in range(r.choice([1, 8, 9, 24]))]),
               rrm.ReadHoldingRegistersResponse([w() for _ in range(r.choice([1, 2, 3, 8] if not small else [1, 2]))]),
               rrm.ReadInputRegistersResponse([w()]), bwm.WriteSingleCoilResponse(w(), r.choice([True, False])),
               rwm.WriteSingleRegisterResponse(w(), w()), rwm.WriteMultipleRegistersResponse(w(), r.randrange(1, 123)),
               bwm.WriteMultipleCoilsResponse(w(), r.randrange(1, 1968)), om.ReadExceptionStatusResponse(r.randrange(256)),
               om.GetCommEventCounterResponse(w()), pdu.ExceptionResponse(r.choice([1, 3, 5, 16]), r.choice([1, 2, 3, 4])),
               rwm.MaskWriteRegisterResponse(w(), w(), w())]
    return out


def short_message(direction, n):
    """a message whose PDU has exactly n bytes (n in 1, 2, 3, 5)"""
    from pymodbus import other_message as om, register_read_message as rrm, pdu
    if direction == "server":
        return {1: om.ReportSlaveIdRequest(), 5: rrm.ReadHoldingRegistersRequest(1, 2)}[n]
    return {2: om.ReadExceptionStatusResponse(0x55), 3: om.GetCommEventCounterResponse(7) if False else pdu.ExceptionResponse(3, 2),
            5: __import__("pymodbus.register_write_message", fromlist=["x"]).WriteSingleRegisterResponse(1, 2)}[n]


def extreme_messages(direction, r):
    """(label, message object or None, pdu bytes) at the size extremes: PDU length 1, 2, 252, 253.
    (The client decoder accepts no 1-byte PDU; the 2-byte request is a raw ReadExceptionStatus + 1 byte.)"""
    from pymodbus import file_message as fm, other_message as om, register_write_message as rwm
    from pymodbus import register_read_message as rrm, bit_read_message as brm, bit_write_message as bwm, pdu
    w = lambda: r.choice([0x3a0d, 0x0d0a, 0x7b7d, 0xffff, 0, r.randrange(65536)])  # noqa: E731
    if direction == "server":
        ms = [("len1-slaveid", om.ReportSlaveIdRequest()), ("len1-excstatus", om.ReadExceptionStatusRequest()),
              ("len1-evcounter", om.GetCommEventCounterRequest()), ("len1-evlog", om.GetCommEventLogRequest()),
              ("len252-wmr123", rwm.WriteMultipleRegistersRequest(w(), [w() for _ in range(123)])),
              ("len253-wfr122", fm.WriteFileRecordRequest([fm.FileRecord(file_number=1, record_number=2,
                                                            record_data=bytes(r.randrange(256) for _ in range(244)))])),
              ("len253-wmc1976", bwm.WriteMultipleCoilsRequest(w(), [r.random() < 0.5 for _ in range(1976)]))]
        out = [(l, m, pdu_of(m)) for l, m in ms] + [("len2-raw", None, bytes([0x07, r.randrange(256)]))]
    else:
        ms = [("len2-excstatus", om.ReadExceptionStatusResponse(r.randrange(256))), ("len2-exception", pdu.ExceptionResponse(3, 2)),
              ("len252-rhr125", rrm.ReadHoldingRegistersResponse([w() for _ in range(125)])),
              ("len253-rc2008", brm.ReadCoilsResponse([r.random() < 0.5 for _ in range(2008)])),
              ("len253-slaveid250", om.ReportSlaveIdResponse(bytes(r.randrange(256) for _ in range(250))))]
        out = [(l, m, pdu_of(m)) for l, m in ms]
    for l, m, p in out:
        want = int(l[3:l.index("-")])
        assert len(p) == want, (l, len(p))
    return out


def key_cuts(kind, n):
    """cut positions behind the header, in the middle and just before the end of an n-byte frame"""
    hdr = [1, 6, 7, 8, 9] if kind == "tcp" else [1, 2, 3, 5]
    tail = [n - 3, n - 2, n - 1]
    return sorted(set(c for c in hdr + [n // 2] + tail if 0 < c < n))


def pdu_of(m):
    return bytes([m.function_code & 0xff]) + m.encode()


def rand_frame(r, direction, uid=None, small=False):
    m = r.choice(messages(direction, r, small))
    u = r.choice([0, 1, 17, 247, 255, r.randrange(256)]) if uid is None else uid
    return (r.choice([0, 1, 65535, r.randrange(65536)]), r.choice([0, 0, 0, r.randrange(65536)]), u, pdu_of(m))


def cut(stream, cuts):
    cuts = sorted(cuts)
    out, prev = [], 0
    for c in cuts:
        out.append(stream[prev:c])
        prev = c
    out.append(stream[prev:])
    return out


# ----------------------------------------------------------------------------- C03

def build_case(kind, m, tid, pid, uid, label):
    fr, _ = mk_framer(kind, "server")
    m.transaction_id, m.protocol_id, m.unit_id = tid, pid, uid
    data = m.encode()
    try:
        impl = ("Ok", fr.buildPacket(m))
    except Exception as e:  # noqa: BLE001
        impl = ("Raise", pyexn(e))
    it = "(Ok %s)" % hx(impl[1]) if impl[0] == "Ok" else "(Raise %s)" % impl[1]
    term = "(%s, %s, %s, %s, %s, %s, %s)" % (KINDS[kind], z(tid), z(pid), z(uid), z(m.function_code), hx(data), it)
    desc = {"framer": kind, "class": type(m).__name__, "tid": tid, "pid": pid, "uid": uid, "fc": m.function_code,
            "data": data.hex(), "impl": [impl[0], impl[1].hex() if impl[0] == "Ok" else impl[1]]}
    return Case(term, desc, kind="%s:%s" % (kind, label), nontrivial=impl[0] == "Ok")


def suite_build(tier):
    from pymodbus import register_write_message as rwm, register_read_message as rrm
    r = common.rng("a_build")
    cases = []
    n = 1 if tier == "quick" else 12
    for kind in KINDS:
        for direction in ("server", "client"):
            for _ in range(n):
                for m in messages(direction, r):
                    for uid in (0, 1, 17, 247, 255, r.randrange(256)):
                        tid = r.choice([0, 1, 65535, r.randrange(65536)])
                        cases.append(build_case(kind, m, tid, r.choice([0, 0, r.randrange(65536)]), uid, direction))
            # every payload byte value
            for base in range(0, 256, 8):
                vals = [((base + i) << 8) | ((base + i) ^ 0x5a if i % 2 else (base + i)) for i in range(8)]
                m = rwm.WriteMultipleRegistersRequest(base, vals) if direction == "server" else rrm.ReadHoldingRegistersResponse(vals)
                cases.append(build_case(kind, m, base * 257, 0, base, "bytes"))
        # size extremes: PDU length 1, 2, 252, 253
        for direction in ("server", "client"):
            for label, m, _ in extreme_messages(direction, r):
                if m is not None:
                    cases.append(build_case(kind, m, r.choice([0, 65535, r.randrange(65536)]), 0, r.choice([0, 1, 247, 255]), label))
        # exception responses for implemented and unimplemented functions, all exception codes
        from pymodbus.pdu import ExceptionResponse
        for fc, code in exception_pdus(r, tier):
            cases.append(build_case(kind, ExceptionResponse(fc, code), r.choice([0, 65535, r.randrange(65536)]), 0, r.choice([1, 247, 255]), "exception"))
        # header fields out of range
        for tid, pid, uid in ((65536, 0, 1), (-1, 0, 1), (1, 65536, 1), (1, 0, 256), (1, 0, -1), (70000, 0, 300)):
            cases.append(build_case(kind, rrm.ReadHoldingRegistersRequest(1, 1), tid, pid, uid, "range"))
    return Suite("a_build", IMPORTS, "chk_build", cases, shard=400)


def suite_lrc(tier):
    from pymodbus.utilities import computeLRC, checkLRC
    r = common.rng("a_lrc")
    strings = [b""] + [bytes([i]) for i in range(256)]
    strings += [bytes([i, j]) for i in range(0, 256, 5 if tier == "quick" else 1) for j in ((0, 1, 127, 128, 255, (i * 7) % 256) if tier == "quick" else range(256))]
    strings += [bytes(r.randrange(256) for _ in range(r.choice([3, 4, 7, 16, 64, 255, 256, 257, 300]))) for _ in range(300 if tier == "quick" else 5000)]
    strings += [b"\xff" * 300, b"\x00" * 300, b"\x80" * 256]
    cases = []
    for s in strings:
        v = computeLRC(s)
        ck = r.choice([v, v, (v + 1) & 0xff, (v - 1) & 0xff, r.randrange(256), 256 + v, -v])
        res = bool(checkLRC(s, ck))
        term = "(%s, %s, %s, %s)" % (hx(s), z(v), z(ck), "true" if res else "false")
        cases.append(Case(term, {"bytes": s.hex(), "lrc": v, "check": ck, "result": res}, kind="len%d" % min(len(s), 3)))
    return Suite("a_lrc", IMPORTS, "chk_lrc", cases, shard=1500)


def feed_case(kind, direction, units, single, frames, chunks, label, suite_chk="c06"):
    obs, tbl, errcalls, ok = feed(kind, direction, units, single, chunks)
    # make sure the table knows every frame of the stream (the oracle asks whether it is a valid message)
    fr, dec = mk_framer(kind, direction)
    for f in frames:
        if f[3] not in tbl:
            try:
                dec.decode(f[3])
            except Exception:  # noqa: BLE001
                pass
            tbl[f[3]] = dec.table[f[3]]
    term = "(%s, %s, %s, %s, %s, %s)" % (KINDS[kind], cfg_term(units, single), table_term(tbl),
                                         lst(frame_term(f) for f in frames), lst(hx(c) for c in chunks),
                                         lst(obs_term(o) for o in obs))
    desc = {"framer": kind, "decoder": direction, "units": list(units), "single": single,
            "frames": [[f[0], f[1], f[2], f[3].hex()] for f in frames], "chunks": [bytes(c).hex() for c in chunks],
            "error_path_calls": errcalls, "impl": summarize(obs), "label": label, "decoder_consistent": ok}
    nontriv = any(o["ds"] for o in obs)
    return Case(term, desc, kind="%s:%s:%s" % (kind, direction, label), nontrivial=nontriv)


def summarize(obs):
    return [{"delivered": [[d[0].hex(), d[1], d[2], d[3]] for d in o["ds"]], "exc": o["exc"], "buflen": len(o["buf"]), "hdr": o["hdr"]}
            for o in obs]


def filter_variants(uid, r):
    other = (uid + 1) % 256 if (uid + 1) % 256 not in (0, 255) else 7
    if other == uid:
        other = 9
    return [([uid], False), ([uid], None), ([other, uid], False), ([0], False), ([255, other], False), ([other], True),
            ([other], False)]


def suite_whole(tier):
    r = common.rng("a_whole")
    cases = []
    reps = 1 if tier == "quick" else 8
    for kind in KINDS:
        for direction in ("server", "client"):
            for _ in range(reps):
                for m in messages(direction, r):
                    uid = r.choice([0, 1, 17, 247, 255, r.randrange(256)])
                    f = (r.choice([0, 1, 65535, r.randrange(65536)]), r.choice([0, 0, r.randrange(65536)]), uid, pdu_of(m))
                    if kind != "tcp":
                        f = (0, 0, uid if kind == "ascii" else 0, f[3])
                    for units, single in filter_variants(uid, r)[: (7 if tier != "quick" else 7)]:
                        if kind == "tls" and single is False:
                            label = "tls-multi-unit"
                        else:
                            label = "whole"
                        cases.append(feed_case(kind, direction, units, single, [f], [adu(kind, f)], label))
            for label, _, p in extreme_messages(direction, r):
                uid = r.choice([1, 17, 247, 255])
                f = (r.choice([0, 65535, r.randrange(65536)]), 0, uid, p) if kind == "tcp" else (0, 0, uid if kind == "ascii" else 0, p)
                for units, single in ([uid], False), ([uid], None), ([9], True):
                    lab = "tls-multi-unit" if (kind == "tls" and single is False) else "whole-" + label
                    cases.append(feed_case(kind, direction, units, single, [f], [adu(kind, f)], lab))
    return Suite("a_whole", IMPORTS, "chk_c06", cases, shard=150)


EXC_FCS = [1, 2, 3, 4, 5, 6, 7, 8, 0x09, 0x0A, 11, 12, 15, 16, 17, 20, 21, 22, 23, 24, 43, 0x41, 0x64, 0x7F]


def exception_pdus(r, tier):
    """[fc | 0x80, code] for refused function codes across 1..127 (implemented or not) and exception codes 1..11"""
    fcs = EXC_FCS + [r.randrange(1, 128) for _ in range(4 if tier == "quick" else 40)]
    out = []
    for i, fc in enumerate(fcs):
        codes = {1 + (i % 11), 1 + ((i * 7 + 3) % 11)} if tier == "quick" else range(1, 12)
        out += [(fc, code) for code in sorted(codes)]
    return out


def suite_exc_whole(tier):
    """exception responses (client direction) for implemented AND unimplemented functions: built by the
    framer, and the whole packet handed to a fresh receiver; oracle independent of the decoder's verdict"""
    r = common.rng("a_exc_whole")
    cases = []
    for kind in KINDS:
        for fc, code in exception_pdus(r, tier):
            uid = r.choice([1, 17, 247, 255])
            p = bytes([fc | 0x80, code])
            f = (r.choice([0, 1, 65535, r.randrange(65536)]), 0, uid, p) if kind == "tcp" else (0, 0, uid if kind == "ascii" else 0, p)
            units, single = r.choice([([uid], False), ([uid], None), ([9], True)]) if kind != "tls" else ([uid], None)
            cases.append(feed_case(kind, "client", units, single, [f], [adu(kind, f)], "exc-%s" % ("impl" if fc in (1, 2, 3, 4, 5, 6, 7, 8, 11, 12, 15, 16, 17, 20, 21, 22, 23, 24, 43) else "unimpl")))
    return Suite("a_exc_whole", IMPORTS, "chk_c06x", cases, shard=300)


def suite_exc_cuts(tier):
    """exception-response frames cut everywhere (all cut sets of the 9-byte TCP frame; all single and sampled
    multi cuts of the 11-character ASCII frame) and mixed into longer streams"""
    r = common.rng("a_exc_cuts")
    cases = []
    for kind in ("tcp", "ascii"):
        picks = [(0x09, 1), (0x41, 4), (0x7F, 11), (0x03, 2)] + ([] if tier == "quick" else exception_pdus(r, "quick"))
        for fc, code in picks:
            uid = r.choice([1, 17, 247])
            mk = (lambda pdu: (r.choice([1, 0x1234, 65535]), 0, uid, pdu)) if kind == "tcp" else (lambda pdu: (0, 0, uid, pdu))
            f = mk(bytes([fc | 0x80, code]))
            a = adu(kind, f)
            n = len(a)
            cuts = list(all_cut_sets(n)) if (kind == "tcp" and (fc, code) == picks[0]) or tier != "quick" and n <= 11 else \
                [()] + [(c,) for c in range(1, n)] + [tuple(sorted(r.sample(range(1, n), k))) for k in (2, 3, 5) for _ in range(8)] + [tuple(range(1, n))]
            for cs in cuts:
                cases.append(feed_case(kind, "client", [uid], False, [f], cut(a, cs), "exc-cuts"))
            # a stream of exception responses for different refused functions
            frames = [mk(bytes([g | 0x80, c])) for g, c in r.sample(exception_pdus(r, "quick"), 3)] + [f]
            st = b"".join(adu(kind, x) for x in frames)
            for _ in range(10 if tier == "quick" else 60):
                k = r.randrange(1, 6)
                cases.append(feed_case(kind, "client", [uid], False, frames, cut(st, sorted(r.sample(range(1, len(st)), k))), "exc-stream"))
            cases.append(feed_case(kind, "client", [uid], False, frames, [st], "exc-stream"))
    return Suite("a_exc_cuts", IMPORTS, "chk_c06x", cases, shard=300)


# ----------------------------------------------------------------------------- C06

def all_cut_sets(n):
    for k in range(n):
        for cs in itertools.combinations(range(1, n), k):
            yield cs


def suite_cuts_small(tier):
    """ALL cut sets of single-frame streams of at most 12 (quick) / 14 (thorough) bytes"""
    r = common.rng("a_cuts_small")
    cases = []
    plans = [("tcp", "server", 1), ("tcp", "client", 2), ("ascii", "server", 1), ("ascii", "client", 2)]
    if tier != "quick":
        plans += [("tcp", "server", 5), ("tcp", "client", 5), ("tcp", "client", 3), ("ascii", "client", 3)]
    else:
        plans += [("tcp", "server", 5)]
    for kind, direction, n in plans:
        m = short_message(direction, n)
        uid = r.choice([1, 17, 247])
        f = (r.choice([1, 0x1234, 65535]), 0, uid, pdu_of(m)) if kind == "tcp" else (0, 0, uid, pdu_of(m))
        stream = adu(kind, f)
        if len(stream) > 14:
            continue
        for cs in all_cut_sets(len(stream)):
            units, single = r.choice([([uid], False), ([uid, 3], False), ([9], True)])
            cases.append(feed_case(kind, direction, units, single, [f], cut(stream, cs), "allcuts%d" % len(stream)))
    return Suite("a_cuts_small", IMPORTS, "chk_c06", cases, shard=400)


def suite_cuts_multi(tier):
    r = common.rng("a_cuts_multi")
    cases = []
    nstreams = 3 if tier == "quick" else 10
    for kind in ("tcp", "ascii"):
        for direction in ("server", "client"):
            for si in range(nstreams):
                nf = r.choice([2, 3, 4]) if si else 2
                uid = r.choice([1, 17, 247, 255, 0])
                foreign = si % 3 == 2
                frames = []
                fj = r.randrange(nf)
                for j in range(nf):
                    u = uid
                    if foreign and (j == fj or r.random() < 0.4):
                        u = (uid + 5) % 250 + 1
                    f = rand_frame(r, direction, u, small=True)
                    frames.append(f if kind == "tcp" else (0, 0, f[2], f[3]))
                units, single = ([uid], False) if foreign else r.choice([([uid], False), ([uid, 3], None), ([4], True)])
                if foreign and uid in (0, 255):
                    units = [1]
                stream = b"".join(adu(kind, f) for f in frames)
                n = len(stream)

                def add(cs, label, empties=False):
                    chunks = cut(stream, cs)
                    if empties:
                        out = []
                        for c in chunks:
                            if r.random() < 0.4:
                                out.append(b"")
                            out.append(c)
                        if r.random() < 0.5:
                            out.append(b"")
                        chunks = out
                    cases.append(feed_case(kind, direction, units, single, frames, chunks, label + ("-foreign" if foreign else "")))
                add((), "whole")
                for c in range(1, n):
                    add((c,), "single")
                doubles = list(itertools.combinations(range(1, n), 2))
                if si > 0 or tier == "quick":
                    doubles = r.sample(doubles, min(len(doubles), 150 if tier == "quick" else 1500))
                for cs in doubles:
                    add(cs, "double")
                for _ in range(60 if tier == "quick" else 600):
                    k = r.randrange(3, min(n, 12))
                    add(tuple(sorted(r.sample(range(1, n), k))), "kcuts", empties=r.random() < 0.5)
                add(tuple(range(1, n)), "bytewise")
                add(tuple(range(1, n)), "bytewise-empties", empties=True)
    return Suite("a_cuts_multi", IMPORTS, "chk_c06", cases, shard=300)


def suite_cuts_extreme(tier):
    """frames at the size extremes (PDU 1, 2, 252, 253 bytes) cut behind the header, in the middle and just
    before the end; alone and next to a small frame"""
    r = common.rng("a_cuts_extreme")
    cases = []
    for kind in ("tcp", "ascii"):
        for direction in ("server", "client"):
            for label, _, p in extreme_messages(direction, r):
                uid = r.choice([1, 17, 247])
                mk = (lambda pdu: (r.choice([1, 0x1234, 65535]), 0, uid, pdu)) if kind == "tcp" else (lambda pdu: (0, 0, uid, pdu))
                f = mk(p)
                small = mk(rand_frame(r, direction, uid, small=True)[3])
                units, single = r.choice([([uid], False), ([uid, 3], None), ([9], True)])
                a = adu(kind, f)
                n = len(a)
                ks = key_cuts(kind, n)
                cuts = [()] + [(c,) for c in ks] + [(x, y) for x in ks for y in ks if x < y and (x <= 9 and y >= n // 2 or x == n // 2)]
                if tier != "quick":
                    cuts += [tuple(sorted(r.sample(range(1, n), min(n - 1, k)))) for k in (3, 5, 9) for _ in range(10)]
                for cs in cuts:
                    cases.append(feed_case(kind, direction, units, single, [f], cut(a, cs), "extreme-" + label))
                # next to a small frame: cuts inside the extreme frame's body, at the joint and in the neighbour
                for frames in ([f, small], [small, f], [f, f]):
                    st = b"".join(adu(kind, x) for x in frames)
                    first = len(adu(kind, frames[0]))
                    pts = sorted(set(c for c in [first - 1, first, first + 1, first + 8, first // 2, first + (len(st) - first) // 2, len(st) - 1]
                                     if 0 < c < len(st)))
                    for c in pts:
                        cases.append(feed_case(kind, direction, units, single, frames, cut(st, (c,)), "extreme2-" + label))
                    cases.append(feed_case(kind, direction, units, single, frames, cut(st, (pts[0], pts[-1])), "extreme2-" + label))
    return Suite("a_cuts_extreme", IMPORTS, "chk_c06", cases, shard=60)


# ----------------------------------------------------------------------------- C07

def spec_pdu_len(direction, pdu):
    """PDU length defined by the function code (python copy of FrSpecA.spec_pdu_len; used by classify only)"""
    if not pdu:
        return None
    fc = pdu[0]

    def counted(pos, base):
        return base + pdu[pos] if pos < len(pdu) else base
    if direction == "server":
        if fc in (1, 2, 3, 4, 5, 6):
            return 5
        if fc in (7, 11, 12, 17):
            return 1
        if fc in (15, 16):
            return counted(5, 6)
        if fc in (20, 21):
            return counted(1, 2)
        return {22: 7, 24: 3}.get(fc, counted(9, 10) if fc == 23 else None)
    if fc >= 128:
        return 2
    if fc in (1, 2, 3, 4, 12, 17, 20, 21, 23):
        return counted(1, 2)
    if fc in (5, 6, 11, 15, 16):
        return 5
    return {7: 2, 22: 7}.get(fc)


# decoders that accept a PDU longer / shorter than its function code defines (open finding).  STATIC sets, obtained once by
# probing the unchanged tree with 40 000 random wrong-length PDUs per function code and direction (two seeds, same result);
# FC 16 tolerates a short body because its decode loops over the QUANTITY (0 registers -> nothing read), not the byte count.
TOLERANT_LONG = {"server": {7, 11, 12, 17, 15, 16, 20, 21, 23}, "client": {1, 2, 3, 4, 7, 12, 17, 20, 21, 23} | set(range(128, 256))}
TOLERANT_SHORT = {"server": {15, 16, 20, 21}, "client": {1, 2, 17, 20, 21, 23}}


def length_region(desc):
    """True if every delivered PDU of inconsistent length lies in the region of the open finding"""
    bad = []
    for o in desc["impl"]:
        for d in o["delivered"]:
            pdu = bytes.fromhex(d[0])
            n = spec_pdu_len(desc["decoder"], pdu)
            if n is not None and n != len(pdu):
                bad.append((pdu[0], len(pdu) > n))
    if not bad:
        return False
    return all(fc in (TOLERANT_LONG if longer else TOLERANT_SHORT)[desc["decoder"]] for fc, longer in bad)


def corrupt_case(kind, direction, units, single, chunks, label, info):
    obs, tbl, errcalls, ok = feed(kind, direction, units, single, chunks)
    term = "(%s, %s, %s, %s, %s, %s)" % (KINDS[kind], "true" if direction == "server" else "false", cfg_term(units, single),
                                         table_term(tbl), lst(hx(c) for c in chunks), lst(obs_term(o) for o in obs))
    desc = {"framer": kind, "decoder": direction, "units": list(units), "single": single,
            "chunks": [bytes(c).hex() for c in chunks], "error_path_calls": errcalls, "impl": summarize(obs),
            "label": label, "info": info, "decoder_consistent": ok}
    return Case(term, desc, kind="%s:%s:%s" % (kind, direction, label), nontrivial=True)


def corruptions(r, frame, tier, kind):
    """(label, corrupted bytes) for one valid frame"""
    n = len(frame)
    out = []
    for bit in range(8 * n):
        b = bytearray(frame)
        b[bit // 8] ^= 1 << (bit % 8)
        out.append(("flip1", bytes(b)))
    pairs = list(itertools.combinations(range(8 * n), 2))
    if not (tier != "quick" and n <= 24):
        pairs = r.sample(pairs, min(len(pairs), 120 if tier == "quick" else 3000))
    for a, c in pairs:
        b = bytearray(frame)
        b[a // 8] ^= 1 << (a % 8)
        b[c // 8] ^= 1 << (c % 8)
        out.append(("flip2", bytes(b)))
    special = [0x3a, 0x0d, 0x0a, 0x20, 0x2b, 0x2d, 0x30, 0x46, 0x66, 0x47, 0x00, 0xff, 0x80, 0x7b, 0x7d]
    for i in range(n):
        vals = range(256) if tier != "quick" else set(special[:6] + [r.randrange(256) for _ in range(3)] + ([frame[i] ^ 0x20] if kind == "ascii" else []))
        for v in vals:
            if v != frame[i]:
                out.append(("subst", frame[:i] + bytes([v]) + frame[i + 1:]))
    for i in range(n):
        out.append(("delete", frame[:i] + frame[i + 1:]))
        out.append(("truncate", frame[:i]))
    for i in range(n + 1):
        for v in ((r.choice(special), r.randrange(256)) if tier == "quick" else special + [r.randrange(256)]):
            out.append(("insert", frame[:i] + bytes([v]) + frame[i:]))
    return out


def corruptions_big(r, frame, tier, kind):
    """sampled corruptions of a long frame: header / length field / middle / tail are always hit"""
    n = len(frame)
    key = sorted(set([0, 1, 2, 3, 4, 5, 6, 7, 8, 9, n // 2, n - 5, n - 4, n - 3, n - 2, n - 1]) & set(range(n)))
    k = 1 if tier == "quick" else 6
    out = []
    bits = sorted(set([8 * i + j for i in key[:8] for j in (0, 7)] + r.sample(range(8 * n), 12 * k * k)))
    for bit in bits:
        b = bytearray(frame)
        b[bit // 8] ^= 1 << (bit % 8)
        out.append(("flip1", bytes(b)))
    for _ in range(12 * k * k):
        a, c = r.sample(range(8 * n), 2)
        b = bytearray(frame)
        b[a // 8] ^= 1 << (a % 8)
        b[c // 8] ^= 1 << (c % 8)
        out.append(("flip2", bytes(b)))
    special = [0x3a, 0x0d, 0x0a, 0x20, 0x2b, 0x2d, 0x00, 0xff, 0x80]
    for i in key + r.sample(range(n), 4 * k):
        for v in (r.choice(special), r.randrange(256)):
            if v != frame[i]:
                out.append(("subst", frame[:i] + bytes([v]) + frame[i + 1:]))
        out.append(("delete", frame[:i] + frame[i + 1:]))
        out.append(("truncate", frame[:i]))
        out.append(("insert", frame[:i] + bytes([r.choice(special)]) + frame[i:]))
    out.append(("extend", frame + bytes([r.randrange(256)])))
    out.append(("extend", frame + frame[:9]))
    return out


def suite_corrupt(tier):
    r = common.rng("a_corrupt")
    cases = []
    for kind in ("tcp", "ascii"):
        for direction in ("server", "client"):
            msgs = messages(direction, r, small=True)
            picks = [(type(m).__name__, pdu_of(m)) for m in r.sample(msgs, 2 if tier == "quick" else 6)]
            ext = extreme_messages(direction, r)
            if tier == "quick":       # one frame of each extreme size
                seen, e2 = set(), []
                for l, _, p in r.sample(ext, len(ext)):
                    if len(p) not in seen and len(p) != 252:
                        seen.add(len(p))
                        e2.append((l, None, p))
                ext = e2
            picks += [(l, p) for l, _, p in ext]
            if kind == "ascii":
                # frames whose check value is 0x00 / 0xFF / 0x80 (a placeholder or default compared with a parsed field
                # coincides with the true value once in 256): the value byte is chosen so that the LRC comes out so
                for want in (0x00, 0xFF, 0x80):
                    picks.append(("WriteSingleRegister-lrc%02x" % want, ("lrc", want)))
            for cname, the_pdu in picks:
                uid = r.choice([1, 17, 247])
                if isinstance(the_pdu, tuple) and the_pdu[0] == "lrc":
                    body = bytes([6, 0, 0x10, 0])
                    x = (-(uid + sum(body)) - the_pdu[1]) & 0xFF
                    the_pdu = body + bytes([x])
                tid = r.choice([1, 0x8001, 0x0102, 0xfffe])
                f = (tid, 0, uid, the_pdu) if kind == "tcp" else (0, 0, uid, the_pdu)
                frame = adu(kind, f)
                g1 = rand_frame(r, direction, uid, small=True)
                g2 = rand_frame(r, direction, uid, small=True)
                if kind != "tcp":
                    g1, g2 = (0, 0, uid, g1[3]), (0, 0, uid, g2[3])
                before, after = adu(kind, g1), adu(kind, g2)
                for label, bad in (corruptions(r, frame, tier, kind) if len(frame) <= 40 else corruptions_big(r, frame, tier, kind)):
                    ctx = r.choice(["alone", "alone", "before", "after", "both"])
                    pre = before if ctx in ("before", "both") else b""
                    post = after if ctx in ("after", "both") else b""
                    how = r.choice(["one", "one", "per-part", "split"])
                    if how == "one":
                        chunks = [pre + bad + post]
                    elif how == "per-part":
                        chunks = [c for c in (pre, bad, post) if c] or [b""]
                    else:
                        s = pre + bad + post
                        c = r.randrange(0, len(s) + 1)
                        chunks = [s[:c], s[c:]]
                    units, single = r.choice([([uid], False), ([uid], False), ([3], True), ([0], False)])
                    cases.append(corrupt_case(kind, direction, units, single, chunks, label,
                                              {"frame": frame.hex(), "context": ctx, "class": cname}))
                # the INTACT twin of the frame first, on the same receiver (one request polled over and over): having
                # just accepted these very header / check bytes must not open the gate for a copy whose body was hit
                if len(frame) <= 40:
                    r2 = common.rng("a_corrupt.twin.%s.%s.%s" % (kind, direction, cname))
                    hits = [(l, b) for l, b in corruptions(r2, frame, "quick", kind) if l in ("flip1", "subst")]
                    for label, bad in r2.sample(hits, min(len(hits), 24 if tier == "quick" else 200)):
                        chunks = r2.choice([[frame, bad], [frame + bad], [frame, frame, bad + after]])
                        cases.append(corrupt_case(kind, direction, [uid], False, chunks, "twin-" + label,
                                                  {"frame": frame.hex(), "context": "twin", "class": cname}))
    return Suite("a_corrupt", IMPORTS, "chk_c07", cases, shard=120)


def suite_corpus(tier):
    """committed corpus (corpus/C07_tcpascii.json): inputs that once escaped classification; runs first in every tier"""
    import os
    path = os.path.join(common.CORPUS, "C07_tcpascii.json")
    cases = []
    if os.path.exists(path):
        for e in json.load(open(path)):
            cases.append(corrupt_case("tcp", e["decoder"], e["units"], e["single"], [bytes.fromhex(c) for c in e["chunks"]],
                                      e["label"], {"origin": e.get("origin", "")}))
    return Suite("a_corpus", IMPORTS, "chk_c07", cases, shard=50)


def suite_lenfield(tier):
    """TCP: the MBAP length field corrupted (every single-bit flip of its two bytes, +1, +8, +16, -1) while
    the PDU is intact, FOLLOWED by one and two valid frames in the same and in later reads"""
    r = common.rng("a_lenfield")
    cases = []
    for direction in ("server", "client"):
        msgs = messages(direction, r, small=True)
        if tier == "quick":
            msgs = msgs[:]          # every message class of the direction once
        for m in msgs:
            uid = r.choice([1, 17, 247])
            f = (r.choice([1, 0x0102, 0xfffe]), 0, uid, pdu_of(m))
            frame = adu("tcp", f)
            ln = len(f[3]) + 1
            variants = [ln ^ (1 << b) for b in range(16)] + [ln + 1, ln + 8, ln + 16, ln - 1]
            if tier == "quick":
                variants = [ln ^ (1 << b) for b in (0, 1, 2, 3, 4, 8)] + [ln + 1, ln + 8, ln + 16, ln - 1] if m is not msgs[0] else variants
            for v in variants:
                if not 0 <= v < 65536:
                    continue
                bad = frame[:4] + v.to_bytes(2, "big") + frame[6:]
                g = [adu("tcp", rand_frame(r, direction, uid, small=True)) for _ in range(2)]
                for nfollow in (1, 2):
                    tail = g[:nfollow]
                    for how in ("same-read", "later-reads"):
                        chunks = [bad + b"".join(tail)] if how == "same-read" else [bad] + tail
                        units, single = r.choice([([uid], False), ([3], True)])
                        cases.append(corrupt_case("tcp", direction, units, single, chunks, "lenfield-%s" % how,
                                                  {"frame": frame.hex(), "length_field": v, "class": type(m).__name__}))
    return Suite("a_lenfield", IMPORTS, "chk_c07", cases, shard=150)


# ----------------------------------------------------------------------------- C11 (ASCII)

def garbage(r, direction, uid, kindsel):
    good = adu("ascii", (0, 0, uid, rand_frame(r, direction, uid, small=True)[3]))
    if kindsel == "random":
        return bytes(r.randrange(256) for _ in range(r.choice([1, 2, 5, 20, 80])))
    if kindsel == "printable":
        return bytes(r.choice(b":\r\n0123456789ABCDEFabcdef +-xG") for _ in range(r.choice([1, 3, 10, 40, 120])))
    if kindsel == "delims":
        return r.choice([b":", b"::", b"\r\n", b":\r\n", b"\r", b"\n", b":\r", b"::::\r\n\r\n", b":00\r\n", b":0000\r\n"][:8]) * r.choice([1, 2, 5])
    if kindsel == "badlrc":
        b = bytearray(good)
        i = r.randrange(1, len(b) - 2)
        b[i] = r.choice(b"0123456789ABCDEF".replace(bytes([b[i]]), b""))
        return bytes(b)
    if kindsel == "partial":
        return good[:r.randrange(1, len(good))]
    if kindsel == "foreign":
        return adu("ascii", (0, 0, (uid + 3) % 200 + 1, rand_frame(r, direction, uid, small=True)[3]))
    if kindsel == "lenient":
        b = bytearray(good)
        i = r.choice([1, 2, len(b) - 4, len(b) - 3])
        b[i] = r.choice(b" +-\t")
        return bytes(b)
    if kindsel == "undecodable":
        pdu = r.choice([bytes([0x03, 0x00]), bytes([0x50, 0x01]), bytes([0x10, 0, 1])]) if direction == "server" \
            else r.choice([bytes([0x50, 0x01, 2]), bytes([0x63])])
        return adu("ascii", (0, 0, uid, pdu))
    raise ValueError(kindsel)


GARBAGE_KINDS = ["random", "printable", "delims", "badlrc", "partial", "foreign", "lenient", "undecodable"]


def suite_resync(tier):
    r = common.rng("a_resync")
    cases = []
    reps = 3 if tier == "quick" else 12
    for direction in ("server", "client"):
        for gk in GARBAGE_KINDS:
            for rep in range(reps):
                for mode in ("one-per-read", "several-per-read", "all-in-one", "split-reads"):
                    uid = r.choice([1, 17, 247])
                    g = b"".join(garbage(r, direction, uid, gk if i == 0 else r.choice(GARBAGE_KINDS[:7])) for i in range(r.choice([1, 1, 2, 3])))
                    if gk != "undecodable" and rep % 2:
                        g = g  # keep
                    frames = []
                    total = 0
                    while total < 2 * 513 + 150 or len(frames) < 70:
                        f = (0, 0, uid, rand_frame(r, direction, uid, small=(len(frames) % 4 != 0))[3])
                        if rep == 0 and len(frames) in (0, 40):      # maximum-size frames: first after the garbage, and late
                            f = (0, 0, uid, r.choice([e for e in extreme_messages(direction, r) if len(e[2]) >= 252])[2])
                        frames.append(f)
                        total += len(adu("ascii", f))
                    adus = [adu("ascii", f) for f in frames]
                    gchunks = [g] if r.random() < 0.6 else cut(g, sorted(set(r.randrange(0, len(g) + 1) for _ in range(2))))
                    glue = r.random() < 0.4 or (gk == 'foreign' and rep % 2 == 0)   # garbage arrives in the same read as the first frames
                    if mode == "one-per-read":
                        reads = list(adus)
                    elif mode == "several-per-read":
                        reads, i = [], 0
                        while i < len(adus):
                            k = r.choice([1, 2, 3, 5])
                            reads.append(b"".join(adus[i:i + k]))
                            i += k
                    elif mode == "split-reads":
                        # the valid traffic as a continuous stream cut where the reads happen to end (a slow line, or
                        # recv(n) on a busy one): frames arrive in pieces long after the garbage
                        s, reads, i = b"".join(adus), [], 0
                        step = r.choice([5, 16, 64])
                        while i < len(s):
                            k = step if r.random() < 0.5 else r.randrange(1, 2 * step + 1)
                            reads.append(s[i:i + k])
                            i += k
                    else:
                        reads = [b"".join(adus)]
                    if glue:
                        chunks = gchunks[:-1] + [gchunks[-1] + reads[0]] + reads[1:]
                    else:
                        chunks = gchunks + reads
                    units, single = r.choice([([uid], False), ([uid], False), ([5], True)])
                    obs, tbl, errcalls, ok = feed("ascii", direction, units, single, chunks)
                    fr, dec = mk_framer("ascii", direction)
                    for f in frames:
                        if f[3] not in tbl:
                            try:
                                dec.decode(f[3])
                            except Exception:  # noqa: BLE001
                                pass
                            tbl[f[3]] = dec.table[f[3]]
                    term = "(%s, %s, %s, %s, %s, %s)" % (cfg_term(units, single), table_term(tbl), z(len(g)),
                                                         lst(frame_term(f) for f in frames), lst(hx(c) for c in chunks),
                                                         lst(obs_term(o) for o in obs))
                    desc = {"framer": "ascii", "decoder": direction, "units": units, "single": single, "garbage": g.hex(),
                            "garbage_kind": gk, "mode": mode, "glued": glue, "frames": [f[3].hex() for f in frames], "uid": uid,
                            "chunks": [c.hex() for c in chunks],
                            "delivered_total": sum(len(o["ds"]) for o in obs), "excs": sorted(set(o["exc"] for o in obs if o["exc"])),
                            "decoder_consistent": ok}
                    cases.append(Case(term, desc, kind="%s:%s:%s" % (direction, gk, mode), nontrivial=desc["delivered_total"] > 0))
    return Suite("a_resync", IMPORTS, "chk_c11", cases, shard=8)


# ----------------------------------------------------------------------------- C11 through the real serial-style handlers

def drive_handler(frontend, uid, reads):
    """Drive the REAL handler (sync ModbusSingleRequestHandler on a fake serial port / asyncio datagram handler)
    with the ASCII framer.  Returns (observations per read, decode table, answered deliveries, escaped)."""
    import asyncio
    import types
    import warnings
    from pymodbus.factory import ServerDecoder
    from pymodbus.framer.ascii_framer import ModbusAsciiFramer
    from props import lib_server
    lib_server.reset_mcb()
    context, _units = lib_server.mk_context(False, [(uid, "ok")])
    dec = RecDecoder(ServerDecoder())
    server = types.SimpleNamespace(context=context, framer=ModbusAsciiFramer, decoder=dec, threads=[],
                                   ignore_missing_slaves=False, broadcast_enable=False, active_connections={})
    obs, answered, escaped = [], [], []
    cur = {"ds": [], "exc": None, "pending": None}

    def hook(h):
        real_pip = h.framer.processIncomingPacket
        real_exec = h.execute

        def pip(*a, **kw):
            try:
                return real_pip(*a, **kw)
            except Exception as e:  # noqa: BLE001 — observation; re-raised unchanged for the handler to deal with
                cur["exc"] = pyexn(e)
                raise
        h.framer.processIncomingPacket = pip

        def execute(request, *addr):
            key, _ = dec.objs.get(id(request), (b"\xff\xff", None))
            d = (key, int(request.transaction_id), int(request.protocol_id), int(request.unit_id))
            cur["ds"].append(d)
            cur["pending"] = d
            try:
                return real_exec(request, *addr)
            finally:
                cur["pending"] = None
        h.execute = execute

    def wrote(_data):
        if cur["pending"] is not None:
            answered.append(cur["pending"])

    def snapshot(h):
        obs.append({"ds": cur["ds"], "exc": cur["exc"], "buf": bytes(h.framer._buffer), "hdr": view_header("ascii", h.framer._header)})
        cur["ds"], cur["exc"] = [], None

    try:
        if frontend == "sync_serial":
            from pymodbus.server import sync
            h = sync.ModbusSingleRequestHandler.__new__(sync.ModbusSingleRequestHandler)
            state = {"n": 0}

            class Port:
                def recv(self, n):
                    if state["n"] > 0:
                        snapshot(h)             # the previous read has been handled (incl. the except block)
                    if state["n"] < len(reads):
                        state["n"] += 1
                        return reads[state["n"] - 1]
                    h.running = False
                    return b""

                def send(self, data):
                    wrote(data)
                    return len(data)
            h.request, h.client_address, h.server = Port(), ("serial", 0), server
            h.setup()
            hook(h)
            try:
                h.handle()
            except Exception as e:  # noqa: BLE001 — an exception escaping handle() ends the serial server
                escaped.append(pyexn(e) if pyexn(e) != "OtherExc" else type(e).__name__)
            h.finish()
        else:
            from pymodbus.server import async_io as aio

            class T:
                def get_extra_info(self, k):
                    return ("127.0.0.1", 5020)

                def sendto(self, data, addr=None):
                    wrote(data)

                def write(self, data):
                    wrote(data)

                def close(self):
                    pass

            async def main():
                with warnings.catch_warnings():
                    warnings.simplefilter("ignore")
                    h = aio.ModbusDisconnectedRequestHandler(server)
                    h.connection_made(T())
                hook(h)
                for rd in reads:
                    h.datagram_received(rd, ("127.0.0.1", 40000))
                    for _ in range(4):
                        await asyncio.sleep(0)
                    if h.handler_task is None or h.handler_task.done():
                        escaped.append("handler-task-ended")
                        break
                    snapshot(h)
                h.connection_lost(None)
                await asyncio.sleep(0)
                if h.handler_task is not None and h.handler_task.done() and not h.handler_task.cancelled():
                    h.handler_task.exception()
            asyncio.run(main())
    finally:
        lib_server.reset_mcb()
    return obs, dec.table, answered, escaped, not dec.inconsistent


RAISING_GARBAGE = ["cutshort", "undecodable", "emptypdu", "badlrc", "nonhex", "partial", "printable"]


def handler_garbage(r, uid, kindsel):
    if kindsel == "cutshort":      # a request cut short whose LRC still matches: the server decoder raises struct.error
        return adu("ascii", (0, 0, uid, r.choice([bytes([3]), bytes([3, 0]), bytes([6, 0, 1, 0]), bytes([16, 0, 0, 0, 1, 2, 0])])))
    if kindsel == "undecodable":
        return adu("ascii", (0, 0, uid, r.choice([bytes([1, 0, 0]), bytes([5, 0]), bytes([22, 0, 1])])))
    if kindsel == "emptypdu":      # ':<uid><lrc>' — an empty PDU: IndexError in the decoder
        return adu("ascii", (0, 0, uid, b""))
    if kindsel == "nonhex":
        return b":" + bytes(r.choice(b"GHXYZ xyz+-") for _ in range(r.choice([4, 8, 14]))) + b"\r\n"
    return garbage(r, "server", uid, kindsel)


def suite_handlers(tier):
    """garbage that makes the ASCII framer raise (and garbage that does not), then 70+ valid requests one / several
    per read, through the real sync serial handler and the asyncio datagram handler"""
    from pymodbus.register_read_message import ReadHoldingRegistersRequest, ReadInputRegistersRequest
    from pymodbus.register_write_message import WriteSingleRegisterRequest, WriteMultipleRegistersRequest
    from pymodbus.bit_read_message import ReadCoilsRequest
    r = common.rng("a_handlers")
    cases = []
    reps = 3 if tier == "quick" else 12
    for frontend in ("sync_serial", "aio_udp"):
        for gk in RAISING_GARBAGE:
            for rep in range(reps):
                for mode in ("one-per-read", "several-per-read"):
                    uid = r.choice([1, 17, 247])
                    g = b"".join(handler_garbage(r, uid, gk if i == 0 else r.choice(RAISING_GARBAGE)) for i in range(r.choice([1, 1, 2])))
                    frames, total = [], 0
                    while total < 2 * 513 + 150 or len(frames) < 70:
                        m = r.choice([ReadHoldingRegistersRequest(r.randrange(8), 1 + r.randrange(2)), ReadInputRegistersRequest(0, 1),
                                      WriteSingleRegisterRequest(r.randrange(9), r.randrange(65536)), ReadCoilsRequest(0, 8),
                                      WriteMultipleRegistersRequest(r.randrange(7), [r.randrange(65536) for _ in range(r.choice([1, 2]))]),
                                      ReadHoldingRegistersRequest(50, 2)])          # the last one is answered with an exception response
                        f = (0, 0, uid, pdu_of(m))
                        frames.append(f)
                        total += len(adu("ascii", f))
                    adus = [adu("ascii", f) for f in frames]
                    if mode == "one-per-read":
                        reads = list(adus)
                    else:
                        reads, i = [], 0
                        while i < len(adus):
                            k = r.choice([1, 2, 3, 5])
                            reads.append(b"".join(adus[i:i + k]))
                            i += k
                    glue = frontend == "sync_serial" and r.random() < 0.3
                    chunks = [g + reads[0]] + reads[1:] if glue else [g] + reads
                    obs, tbl, answered, escaped, ok = drive_handler(frontend, uid, chunks)
                    fr, dec = mk_framer("ascii", "server")
                    for f in frames:
                        if f[3] not in tbl:
                            try:
                                dec.decode(f[3])
                            except Exception:  # noqa: BLE001
                                pass
                            tbl[f[3]] = dec.table[f[3]]
                    term = "(%s, %s, %s, %s, %s, %s, %s)" % (cfg_term([uid], False), table_term(tbl), z(len(g)),
                                                             lst(frame_term(f) for f in frames), lst(hx(c) for c in chunks),
                                                             lst(obs_term(o) for o in obs) if obs else "(@nil obs)",
                                                             lst(deliv_term(d) for d in answered) if answered else "(@nil delivery)")
                    desc = {"frontend": frontend, "framer": "ascii", "uid": uid, "garbage": g.hex(), "garbage_kind": gk, "mode": mode,
                            "glued": glue, "chunks": [c.hex() for c in chunks], "requests": len(frames), "reads_handled": len(obs),
                            "delivered": sum(len(o["ds"]) for o in obs), "answered": len(answered),
                            "raised_in_framer": [o["exc"] for o in obs if o["exc"]][:3], "escaped_handler": escaped,
                            "decoder_consistent": ok}
                    cases.append(Case(term, desc, kind="%s:%s:%s" % (frontend, gk, mode), nontrivial=len(answered) > 0))
    return Suite("a_handlers", IMPORTS, "chk_c11h", cases, shard=6)


# ----------------------------------------------------------------------------- contract

def suites_for(pid, tier):
    if pid == "C03":
        return [suite_build(tier), suite_lrc(tier), suite_whole(tier), suite_exc_whole(tier)]
    if pid == "C06":
        return [suite_cuts_small(tier), suite_cuts_multi(tier), suite_cuts_extreme(tier), suite_exc_cuts(tier)]
    if pid == "C07":
        return [suite_corpus(tier), suite_corrupt(tier), suite_lenfield(tier)]
    if pid == "C11":
        return [suite_resync(tier), suite_handlers(tier)]
    return []


def _frames_pos(desc):
    """start/end offsets of the frames of a valid stream"""
    pos, out = 0, []
    for f in desc.get("frames", []):
        a = adu(desc["framer"], (f[0], f[1], f[2], bytes.fromhex(f[3])))
        out.append((pos, pos + len(a), f))
        pos += len(a)
    return out


def _accepts(desc, uid):
    single = desc["single"]
    if single is None:
        single = desc["framer"] == "tls"
    return bool(single) or 0 in desc["units"] or 255 in desc["units"] or uid in desc["units"]


def _foreign_reset_region(desc):
    """a frame for a unit that is not accepted completes in a read that carries further bytes"""
    ends = list(itertools.accumulate(len(c) // 2 for c in desc["chunks"]))
    for s, e, f in _frames_pos(desc):
        if not _accepts(desc, f[2]):
            read_end = next((x for x in ends if x >= e), None)
            if read_end is not None and read_end > e:
                return True
    return False


def classify_for(pid, suite, desc):
    if not suite.startswith("a_"):
        return None
    fr = desc.get("framer")
    if pid == "C03":
        if suite == "a_whole" and fr == "tls" and desc["single"] is False and not (0 in desc["units"] or 255 in desc["units"]):
            return "F-C03-tls-multi-unit-keyerror"
        return None
    if pid == "C06":
        return None          # the former regions (1..7-byte TCP buffer, foreign-unit reset) are fixed: nothing is absorbed
    if pid == "C07":
        if fr == "tcp" and length_region(desc):
            return "F-C07-tcp-wrong-length-pdu-accepted"
        return None          # the former region (_process(error=True)) is fixed
    if pid == "C11":
        if suite == "a_handlers":
            return None          # through the handlers (reset on exception) nothing is known to fail
        if desc.get("excs"):
            return "F-C11-ascii-undecodable-frame-stuck"
        return None
    return None


def _first_bad_call(desc):
    """index of the first call whose outcome differs from the one-frame-per-read reference"""
    ends = list(itertools.accumulate(len(c) // 2 for c in desc["chunks"]))
    fp = _frames_pos(desc)
    done = 0
    for i, o in enumerate(desc["impl"]):
        exp = [f for s, e, f in fp if e <= ends[i] and _accepts(desc, f[2])]
        done += len(o["delivered"])
        got_ok = o["exc"] is None and done == len(exp)
        if not got_ok:
            return i
    return None


def _c11_foreign_region(desc):
    """the garbage holds a complete frame for a foreign unit and its read carries further bytes"""
    g = bytes.fromhex(desc["garbage"])
    ends = list(itertools.accumulate(len(c) // 2 for c in desc["chunks"]))
    i = 0
    while True:
        s = g.find(b":", i)
        if s < 0:
            return False
        e = g.find(b"\r\n", s)
        if e < 0:
            return False
        body = g[s + 1:e]
        try:
            raw = bytes.fromhex(body.decode("ascii"))
            okf = len(raw) >= 2 and lrc(raw[:-1]) == raw[-1] and len(body) % 2 == 0
        except (ValueError, UnicodeDecodeError):
            okf = False
        if okf and not _accepts(desc, raw[0]):
            read_end = next((x for x in ends if x >= e + 2), None)
            if read_end is not None and read_end > e + 2:
                return True
        i = s + 1


FINDING_WITNESS = {}


def replay_finding_for(pid, f):
    w = f.get("witness") or {}
    if not f["id"].startswith(("F-C03-tls", "F-C06-tcp", "F-C06-foreign", "F-C07-tcp", "F-C11-ascii", "F-C11-foreign")):
        return None
    try:
        chunks = [bytes.fromhex(c) for c in w["chunks"]]
        obs, tbl, errcalls, ok = feed(w["framer"], w["decoder"], w["units"], w["single"], chunks)
    except Exception:  # noqa: BLE001
        return None
    exp = [tuple([bytes.fromhex(d[0])] + d[1:]) for d in w["expect_delivered"]]
    got = [d for o in obs for d in o["ds"]]
    bad = got != exp or any(o["exc"] for o in obs)
    return bool(bad)


def replay_case_for(pid, suite, desc):
    if not suite.startswith("a_"):
        return None
    print(json.dumps(desc)[:3000])
    from lib import coqrun
    if suite in ("a_whole", "a_cuts_small", "a_cuts_multi", "a_cuts_extreme", "a_exc_whole", "a_exc_cuts"):
        frames = [(f[0], f[1], f[2], bytes.fromhex(f[3])) for f in desc["frames"]]
        c = feed_case(desc["framer"], desc["decoder"], desc["units"], desc["single"], frames,
                      [bytes.fromhex(x) for x in desc["chunks"]], "replay")
        r = coqrun.eval_cases("A_replay", IMPORTS, "chk_c06x" if suite.startswith("a_exc") else "chk_c06", [c.term])
    elif suite in ("a_corrupt", "a_lenfield", "a_corpus"):
        c = corrupt_case(desc["framer"], desc["decoder"], desc["units"], desc["single"],
                         [bytes.fromhex(x) for x in desc["chunks"]], "replay", {})
        r = coqrun.eval_cases("A_replay", IMPORTS, "chk_c07", [c.term])
    else:
        print("replay of suite %s: re-run ./check %s with the seed recorded in the replay file" % (suite, pid))
        return True
    print("now:", json.dumps(c.desc.get("impl"))[:1500], r)
    return bool(r["propfail"] or r["errors"])
