(* FrA_tls_proofs.v — the TLS framer model instantiated with [GenFramerA.tls]. *)
From PM.theories Require Import Base Expr Struct FrBaseA FrTls FrSpecA.
From PM.Generated Require Import GenFramerA.
From PM.proofs Require Import Struct_proofs.
From Coq Require Import ZifyBool.
Open Scope list_scope.
Open Scope Z_scope.

Lemma tls_skel_ok : s_skel tls = tls_skel_expected.
Proof. reflexivity. Qed.

Theorem tls_build_spec fc data : 0 <= fc < 256 -> s_build tls fc data = Ok (spec_adu_tls (Z.to_N fc :: data)).
Proof.
  intros Hf. unfold s_build. change (s_build_big tls) with true. change (s_build_fmt tls) with [FB].
  cbn [s_build_args tls map]. change (eval _ (EAtom "message.function_code")) with fc.
  cbn [pack]. unfold pack1, in_range. cbn [fsigned fwidth]. change (pow256 1) with 256.
  replace ((0 <=? fc) && (fc <? 256)) with true by lia.
  unfold to_unsigned. replace (fc <? 0) with false by lia. cbn [le_bytes rev app bind].
  replace (fc mod 256) with fc by (apply eq_sym, Z.mod_small; lia). reflexivity.
Qed.

Lemma tls_ready buf : s_isready tls buf = (Z.of_nat (length buf) >? 0).
Proof.
  change (s_isready tls buf) with (z2b (b2z (Z.of_nat (length buf) >? 0))).
  destruct (Z.of_nat (length buf) >? 0); reflexivity.
Qed.

Lemma tls_check buf : s_check tls buf = (Z.of_nat (length buf) >? 0) && (Z.of_nat (length buf) - 0 >=? 1).
Proof.
  unfold s_check. rewrite tls_ready.
  change (beval (senv tls buf) (s_cf_complete tls)) with (z2b (b2z (Z.of_nat (length buf) - 0 >=? 1))).
  destruct (Z.of_nat (length buf) - 0 >=? 1); reflexivity.
Qed.

(* the whole PDU given to a fresh receiver: delivered when the unit filter does not look at a unit id *)
Theorem tls_whole_frame dec c pdu fc :
  (1 <= length pdu)%nat -> dec pdu = DMsg fc ->
  single_of (s_single_default tls) c || zmem 0 (c_units c) || zmem 255 (c_units c) = true ->
  s_recv base tls dec c [] pdu = ([], [{| d_pdu := pdu; d_tid := 0; d_pid := 0; d_uid := 0 |}], Done).
Proof.
  intros Hl Hdec Hacc. unfold s_recv. cbn [app]. rewrite tls_ready, tls_check.
  replace (Z.of_nat (length pdu) >? 0) with true by lia.
  replace (Z.of_nat (length pdu) - 0 >=? 1) with true by lia. cbn [andb].
  unfold validate_unit. destruct (single_of (s_single_default tls) c).
  - change (eval (senv tls pdu) (s_get_lo tls)) with 0. unfold pyfrom, norm_idx. cbn [Z.ltb Z.compare Z.to_nat Nat.min skipn].
    rewrite Hdec. reflexivity.
  - cbn [orb] in Hacc. cbn [v_any base existsb]. rewrite orb_false_r, Hacc.
    change (eval (senv tls pdu) (s_get_lo tls)) with 0. unfold pyfrom, norm_idx. cbn [Z.ltb Z.compare Z.to_nat Nat.min skipn].
    rewrite Hdec. reflexivity.
Qed.

(* known finding #22: with single=False and neither 0 nor 0xFF listed, the filter reads
   self._header['uid'], which the TLS framer never sets *)
Theorem tls_keyerror dec c pdu :
  (1 <= length pdu)%nat -> c_single c = Some false -> zmem 0 (c_units c) = false -> zmem 255 (c_units c) = false ->
  s_recv base tls dec c [] pdu = (pdu, [], Exc KeyError).
Proof.
  intros Hl Hs H0 H255. unfold s_recv. cbn [app]. rewrite tls_ready, tls_check.
  replace (Z.of_nat (length pdu) >? 0) with true by lia.
  replace (Z.of_nat (length pdu) - 0 >=? 1) with true by lia. cbn [andb].
  unfold validate_unit, single_of. rewrite Hs. cbn [v_any base existsb]. rewrite H0, H255. reflexivity.
Qed.
