#!/bin/bash
# tools/seedtest.sh <patch.diff> <Cxx> [more property ids…]
#   applies the patch to a private worktree of /repo, runs ./check for the given properties from a private
#   copy of /verif against it, prints the verdict lines, and removes both.
patch="$(readlink -f "$1")"; shift
n="st$$"
d=$(/verif/tools/scratch.sh "$n") || exit 2
if ! git -C "$d/repo" apply "$patch"; then echo "PATCH DOES NOT APPLY"; /verif/tools/scratch.sh "$n" --rm; exit 2; fi
for p in "$@"; do
  echo "== $p against $(basename "$(dirname "$patch")")/$(basename "$patch")"
  ( cd "$d/verif" && VERIF_REPO="$d/repo" timeout 1800 ./check "$p" --tier "${TIER:-quick}" 2>&1 | grep -E "VIOLATION|KNOWN-FINDING|^$p:|NOTE|FATAL|Traceback" )
  echo "exit=$?"
  ls "$d/verif/replays/$p" 2>/dev/null | head -1 | while read f; do python3 - "$d/verif/replays/$p/$f" <<'PY'
import json,sys
r=json.load(open(sys.argv[1]))
print("  verdict:", r.get("verdict"))
for k in ("failing","no_longer_checks"):
    for x in (r.get(k) or [])[:3]:
        print("  ", k, json.dumps(x)[:400])
PY
  done
done
/verif/tools/scratch.sh "$n" --rm
