(* C14 add-on — the model's standing assumption "objects are independent values" is tied to the source:
   every piece of state that instances or calls could share (class-level mutable attributes, mutable
   parameter defaults, module-level mutable objects, `global` rebinding, writes to class attributes
   from methods — Generated/GenShared.v, regenerated on every run) in the files C14 is anchored in, and
   in the base modules every property leans on, is one of the audited entries of theories/SharedAudit.v
   (never mutated, or process-wide by design and modelled as such). *)
From Coq Require Import List String.
From PM.theories Require Import Base SharedAudit.
From PM.Generated Require Import GenShared.
From PM.proofs Require Import Shared_proofs.
Import ListNotations.
Open Scope string_scope.
Open Scope list_scope.

Theorem C14_shared_state_audited : forall e, In e shared_state ->
  relevant anchors common_files "C14" e = true -> mem_entry e audited = true.
Proof. intros e. apply (shared_entries_audited "C14" e). rewrite all_pids_are. cbn. tauto. Qed.
Print Assumptions C14_shared_state_audited.

Theorem C14_shared_state_none_unaudited : unaudited_for shared_state anchors common_files "C14" = [].
Proof. apply shared_ok. rewrite all_pids_are. cbn. tauto. Qed.
Print Assumptions C14_shared_state_none_unaudited.

(* the audit is not stale: every audited entry still exists in the source *)
Example C14_shared_nonvacuous : forallb (fun e => mem_entry e shared_state) audited = true /\ (20 <= length shared_state)%nat.
Proof. split; [exact audited_all_present | vm_compute; repeat constructor]. Qed.
Print Assumptions C14_shared_nonvacuous.
