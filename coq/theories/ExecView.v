(* ExecView.v — the bridge between the wire-level vocabulary of ExecSpec.v (requests as
   PDU fields, responses as spec shapes) and the Python-object vocabulary of Exec.v
   (decoded request attribute records, response class + constructor arguments).

   * [view]: a model response as the spec-level response shape, through the GENERATED
     response-class -> function_code table.
   * [decode_attrs]: which attributes ServerDecoder.decode leaves in the request object for
     the ten data-access classes.  HAND-MODELLED (the decode step itself is property C01);
     tied to the implementation by the correspondence check only: every case carries the
     attributes dumped from the really decoded object and they are compared with this
     function's result.
   No proofs in this file. *)
From PM.theories Require Import Base Expr Store Exec ExecSpec.
Open Scope string_scope.
Open Scope list_scope.
Open Scope Z_scope.

Definition view (X : exec_code) (o : rsp) : option srsp :=
  match o with
  | Exc fc code => Some (SExc fc code)
  | Rsp cls args =>
      match assoc_str (x_resp_fc X) cls with
      | None => None
      | Some fc =>
          match args with
          | [VL v] =>
              if (fc =? 1) || (fc =? 2) || (fc =? 3) || (fc =? 4) || (fc =? 23)
              then Some (SRead fc v) else None
          | [VZ a; VZ v] =>
              if (fc =? 5) || (fc =? 6) then Some (SEcho1 fc a v)
              else if (fc =? 15) || (fc =? 16) then Some (SEchoN fc a v) else None
          | [VZ a; VZ am; VZ om] => if fc =? 22 then Some (SMask a am om) else None
          | _ => None
          end
      end
  end.

(* `for idx in range(0, 2*n, 2): struct.unpack('>H', data[idx:idx+2])` — a short slice raises *)
Fixpoint take_words (n : nat) (data : list Z) : res (list Z) :=
  match n with
  | O => Ok []
  | S k => match data with
           | hi :: lo :: t => do r <- take_words k t; Ok ((hi * 256 + lo) :: r)
           | _ => Raise StructError
           end
  end.

(* attributes after ServerDecoder.decode(pdu); quantities/byte counts come from unsigned
   wire fields, so they are >= 0 in every real run (Z.to_nat is exact there) *)
Definition decode_attrs (w : wreq) : res req :=
  match w with
  | WRead t a n =>
      Ok {| r_fc := read_fc t; r_address := a; r_count := n; r_value := 0; r_byte_count := 0;
            r_and_mask := 0; r_or_mask := 0; r_read_address := 0; r_read_count := 0;
            r_write_address := 0; r_write_count := 0; r_write_byte_count := 0;
            r_values := []; r_write_registers := [] |}
  | WWriteCoil a word =>                       (* self.value = (value == ModbusStatus.On) *)
      Ok {| r_fc := 5; r_address := a; r_count := 0; r_value := b2z (word =? 65280); r_byte_count := 0;
            r_and_mask := 0; r_or_mask := 0; r_read_address := 0; r_read_count := 0;
            r_write_address := 0; r_write_count := 0; r_write_byte_count := 0;
            r_values := []; r_write_registers := [] |}
  | WWriteReg a v =>
      Ok {| r_fc := 6; r_address := a; r_count := 0; r_value := v; r_byte_count := 0;
            r_and_mask := 0; r_or_mask := 0; r_read_address := 0; r_read_count := 0;
            r_write_address := 0; r_write_count := 0; r_write_byte_count := 0;
            r_values := []; r_write_registers := [] |}
  | WWriteCoils a n bc data =>                 (* the wire quantity is NOT kept: values = bits[:count] *)
      Ok {| r_fc := 15; r_address := a; r_count := 0; r_value := 0; r_byte_count := bc;
            r_and_mask := 0; r_or_mask := 0; r_read_address := 0; r_read_count := 0;
            r_write_address := 0; r_write_count := 0; r_write_byte_count := 0;
            r_values := firstn (Z.to_nat n) (bits_of_bytes data); r_write_registers := [] |}
  | WWriteRegs a n bc data =>                  (* reads `count` words whatever the byte count says *)
      do vs <- take_words (Z.to_nat n) data;
      Ok {| r_fc := 16; r_address := a; r_count := n; r_value := 0; r_byte_count := bc;
            r_and_mask := 0; r_or_mask := 0; r_read_address := 0; r_read_count := 0;
            r_write_address := 0; r_write_count := 0; r_write_byte_count := 0;
            r_values := vs; r_write_registers := [] |}
  | WMask a am om =>
      Ok {| r_fc := 22; r_address := a; r_count := 0; r_value := 0; r_byte_count := 0;
            r_and_mask := am; r_or_mask := om; r_read_address := 0; r_read_count := 0;
            r_write_address := 0; r_write_count := 0; r_write_byte_count := 0;
            r_values := []; r_write_registers := [] |}
  | WRWM ra rn wa wn wbc data =>               (* reads ceil(write_byte_count / 2) words *)
      do vs <- take_words (Z.to_nat ((wbc + 1) / 2)) data;
      Ok {| r_fc := 23; r_address := 0; r_count := 0; r_value := 0; r_byte_count := 0;
            r_and_mask := 0; r_or_mask := 0; r_read_address := ra; r_read_count := rn;
            r_write_address := wa; r_write_count := wn; r_write_byte_count := wbc;
            r_values := []; r_write_registers := vs |}
  | WOther fc => Ok (req0 fc)
  end.
