"""C13 add-on: inventory of state shared between instances / calls in the anchored sources (Props/C13_shared.v,
gen/gen_shared.py, coq/theories/SharedAudit.v) — ties the models' assumption that objects are independent values."""
GENERATORS = ["shared"]
PROP_FILES = ["C13_shared"]
TRUSTED = ["generated from source: inventory of class-level mutable attributes, mutable defaults, module-level mutable "
           "objects, global rebinding and class-attribute writes in the anchored files (GenShared.v); the audited list "
           "(SharedAudit.v) was read against the source by hand"]
MANIFEST_ADD = {"text": "Add-on Props/C13_shared.v: every piece of state that instances or calls could share in the anchored "
                        "files is an audited entry (the models treat objects as independent values).", "note": ""}


def suites(tier):
    return []
