(* CorrStore.v — executable harness side of the correspondence check for the datastore
   model: operation sequences, their outputs, the comparison against what the real
   classes returned, and the PROPERTY oracle (an abstract map address -> value). *)
From PM.theories Require Import Base Expr Store.
Open Scope list_scope.
Open Scope Z_scope.

Inductive bop :=
| BValidate (a c : Z) | BGet (a c : Z) | BSet (a : Z) (vs : list Z) | BReset | BIter
| BSetScalar (a v : Z)               (* setValues(a, v) with a non-list v: coerced to [v] *)
| BSetDict (kvs : list (Z * Z)).     (* sparse block only: setValues(_, {k: v, …}) *)

Inductive bout :=
| OB (b : bool) | OL (l : list Z) | OP (l : list (Z * Z)) | ONone | OExc (e : pyexn).

Definition pair_eqb (p q : Z * Z) : bool := (fst p =? fst q) && (snd p =? snd q).

Definition bout_eqb (x y : bout) : bool :=
  match x, y with
  | OB a, OB b => Bool.eqb a b
  | OL a, OL b => list_eqb Z.eqb a b
  | OP a, OP b => list_eqb pair_eqb a b
  | ONone, ONone => true
  | OExc a, OExc b => pyexn_eqb a b
  | _, _ => false
  end.

Section WithCode.
Variable C : store_code.

Definition step_block (b : block) (o : bop) : block * bout :=
  match o with
  | BValidate a c => (b, OB (blk_validate C b a c))
  | BGet a c => (b, match blk_get C b a c with Ok l => OL l | Raise e => OExc e end)
  | BSet a vs => (blk_set C b a vs, ONone)
  | BSetScalar a v => (blk_set C b a [v], ONone)
  | BSetDict kvs =>
      (match b with
       | BSp s => BSp {| sp_vals := fold_left (fun d kv => d_set d (fst kv) (snd kv)) kvs (sp_vals s); sp_def := sp_def s |}
       | BSeq _ => b            (* not generated for sequential blocks *)
       end, ONone)
  | BReset => (blk_reset b, ONone)
  | BIter => (b, OP (blk_iter b))
  end.

Fixpoint run_block (b : block) (ops : list bop) : list bout :=
  match ops with
  | [] => []
  | o :: t => let '(b', out) := step_block b o in out :: run_block b' t
  end.

(* ---- property oracle: the block is a finite map; nothing else is assumed.
   [None] as state means "an operation the property does not constrain happened"
   (e.g. a write to a range that validate rejects) and ends the checking. *)

Definition spec_state := dict.

Definition spec_of_block (b : block) : spec_state := blk_iter b.

Definition spec_accepts (s : spec_state) (a c : Z) : bool :=
  (1 <=? c) && forallb (d_mem s) (zrange a (Z.to_nat c)).

Fixpoint spec_get (s : spec_state) (ks : list Z) : list Z :=
  match ks with
  | [] => []
  | k :: t => match d_get s k with Some v => v :: spec_get s t | None => spec_get s t end
  end.

Fixpoint spec_set (s : spec_state) (a : Z) (vs : list Z) : spec_state :=
  match vs with [] => s | v :: t => spec_set (d_set s a v) (a + 1) t end.

Definition same_cells (s : spec_state) (l : list (Z * Z)) : bool :=
  Nat.eqb (length s) (length l) &&
  forallb (fun kv => option_eqb Z.eqb (d_get s (fst kv)) (Some (snd kv))) l.

Fixpoint prop_block (dflt : Z) (s : spec_state) (ops : list bop) (outs : list bout) : bool :=
  match ops, outs with
  | [], [] => true
  | o :: ops', out :: outs' =>
      match o with
      | BValidate a c =>
          (if 1 <=? c then bout_eqb out (OB (spec_accepts s a c)) else true)
          && prop_block dflt s ops' outs'
      | BGet a c =>
          (if spec_accepts s a c then bout_eqb out (OL (spec_get s (zrange a (Z.to_nat c)))) else true)
          && prop_block dflt s ops' outs'
      | BSet a vs =>
          if spec_accepts s a (Z.of_nat (length vs))
          then bout_eqb out ONone && prop_block dflt (spec_set s a vs) ops' outs'
          else true      (* unconstrained: stop *)
      | BSetScalar a v =>
          if spec_accepts s a 1
          then bout_eqb out ONone && prop_block dflt (spec_set s a [v]) ops' outs'
          else true
      | BSetDict kvs =>
          (* the dictionary form writes the named cells; constrained when every key is populated *)
          if forallb (fun kv => d_mem s (fst kv)) kvs
          then bout_eqb out ONone &&
               prop_block dflt (fold_left (fun d kv => d_set d (fst kv) (snd kv)) kvs s) ops' outs'
          else true
      | BReset =>
          bout_eqb out ONone && prop_block dflt (map (fun kv => (fst kv, dflt)) s) ops' outs'
      | BIter =>
          (match out with OP l => same_cells s l | _ => false end) && prop_block dflt s ops' outs'
      end
  | _, _ => false
  end.

Definition blk_default (b : block) : Z :=
  match b with BSeq s => sb_def s | BSp s => sp_def s end.

(* one case = (block, ops, outputs observed on the implementation);
   result = (model agrees, property holds of the observed outputs) *)
Definition chk_block (c : block * list bop * list bout) : bool * bool :=
  let '(b, ops, outs) := c in
  (list_eqb bout_eqb (run_block b ops) outs,
   prop_block (blk_default b) (spec_of_block b) ops outs).

(* ---- slave context ---- *)

Inductive cop :=
| CValidate (fx a c : Z) | CGet (fx a c : Z) | CSet (fx a : Z) (vs : list Z) | CReset
| CDump.                                  (* list(block) of every distinct block *)

Inductive cout :=
| CB (b : bool) | CL (l : list Z) | CNone | CExc (e : pyexn) | CD (l : list (list (Z * Z))).

Definition cout_eqb (x y : cout) : bool :=
  match x, y with
  | CB a, CB b => Bool.eqb a b
  | CL a, CL b => list_eqb Z.eqb a b
  | CNone, CNone => true
  | CExc a, CExc b => pyexn_eqb a b
  | CD a, CD b => list_eqb (list_eqb pair_eqb) a b
  | _, _ => false
  end.

Definition step_ctx (x : slavectx) (o : cop) : slavectx * cout :=
  match o with
  | CValidate fx a c => (x, match cx_validate C x fx a c with Ok b => CB b | Raise e => CExc e end)
  | CGet fx a c => (x, match cx_get C x fx a c with Ok l => CL l | Raise e => CExc e end)
  | CSet fx a vs => match cx_set C x fx a vs with Ok x' => (x', CNone) | Raise e => (x, CExc e) end
  | CReset => (cx_reset x, CNone)
  | CDump => (x, CD (map blk_iter (cx_blocks x)))
  end.

Fixpoint run_ctx (x : slavectx) (ops : list cop) : list cout :=
  match ops with
  | [] => []
  | o :: t => let '(x', out) := step_ctx x o in out :: run_ctx x' t
  end.

(* property oracle for the context: table of fx -> letter per the Modbus data model,
   one-based offset unless zero mode; each block an abstract map as above *)
Definition spec_letter (fx : Z) : option string :=
  if (fx =? 1) || (fx =? 5) || (fx =? 15) then Some "c"%string
  else if fx =? 2 then Some "d"%string
  else if fx =? 4 then Some "i"%string
  else if (fx =? 3) || (fx =? 6) || (fx =? 16) || (fx =? 22) || (fx =? 23) then Some "h"%string
  else None.

Definition spec_blk (x : slavectx) (st : list spec_state) (fx : Z) : option (nat * spec_state) :=
  match spec_letter fx with
  | None => None
  | Some l => match assoc_str (cx_slots x) l with
              | None => None
              | Some i => match nth_error st i with Some s => Some (i, s) | None => None end
              end
  end.

Fixpoint prop_ctx (x : slavectx) (dflts : list Z) (st : list spec_state) (ops : list cop) (outs : list cout) : bool :=
  let off := if cx_zero x then 0 else 1 in
  match ops, outs with
  | [], [] => true
  | o :: ops', out :: outs' =>
      match o with
      | CValidate fx a c =>
          match spec_blk x st fx with
          | Some (_, s) => (if 1 <=? c then cout_eqb out (CB (spec_accepts s (a + off) c)) else true)
          | None => true
          end && prop_ctx x dflts st ops' outs'
      | CGet fx a c =>
          match spec_blk x st fx with
          | Some (_, s) => if spec_accepts s (a + off) c
                           then cout_eqb out (CL (spec_get s (zrange (a + off) (Z.to_nat c)))) else true
          | None => true
          end && prop_ctx x dflts st ops' outs'
      | CSet fx a vs =>
          match spec_blk x st fx with
          | Some (i, s) => if spec_accepts s (a + off) (Z.of_nat (length vs))
                           then cout_eqb out CNone &&
                                prop_ctx x dflts (set_nth st i (spec_set s (a + off) vs)) ops' outs'
                           else true
          | None => true
          end
      | CReset =>
          cout_eqb out CNone &&
          prop_ctx x dflts (map (fun ds => map (fun kv => (fst kv, fst ds)) (snd ds)) (combine dflts st)) ops' outs'
      | CDump =>
          match out with
          | CD ls => Nat.eqb (length ls) (length st) &&
                     forallb (fun sl => same_cells (fst sl) (snd sl)) (combine st ls)
          | _ => false
          end && prop_ctx x dflts st ops' outs'
      end
  | _, _ => false
  end.

Definition chk_ctx (c : slavectx * list cop * list cout) : bool * bool :=
  let '(x, ops, outs) := c in
  (list_eqb cout_eqb (run_ctx x ops) outs,
   prop_ctx x (map blk_default (cx_blocks x)) (map blk_iter (cx_blocks x)) ops outs).

(* ---- server context ---- *)

Inductive sop := SGet (u : Z) | SSet (u : Z) (c : nat) | SDel (u : Z) | SContains (u : Z) | SSlaves.
Inductive sout := SC (c : nat) | SB (b : bool) | SL (l : list Z) | SNone | SExc (e : pyexn).

Definition sout_eqb (x y : sout) : bool :=
  match x, y with
  | SC a, SC b => Nat.eqb a b
  | SB a, SB b => Bool.eqb a b
  | SL a, SL b => list_eqb Z.eqb a b
  | SNone, SNone => true
  | SExc a, SExc b => pyexn_eqb a b
  | _, _ => false
  end.

Definition step_srv (s : srvctx) (o : sop) : srvctx * sout :=
  match o with
  | SGet u => (s, match sv_getitem C s u with Ok c => SC c | Raise e => SExc e end)
  | SSet u c => match sv_setitem C s u c with Ok s' => (s', SNone) | Raise e => (s, SExc e) end
  | SDel u => match sv_delitem C s u with Ok s' => (s', SNone) | Raise e => (s, SExc e) end
  | SContains u => (s, SB (sv_contains s u))
  | SSlaves => (s, SL (sv_slaves_list s))
  end.

Fixpoint run_srv (s : srvctx) (ops : list sop) : list sout :=
  match ops with
  | [] => []
  | o :: t => let '(s', out) := step_srv s o in out :: run_srv s' t
  end.

(* property oracle: single mode routes every id to the only context; multi mode routes
   exactly the registered ids; registration outside 0..247 is refused; no-such-slave
   otherwise.  State: the registered map. *)
Fixpoint prop_srv (single : bool) (m : list (Z * nat)) (ops : list sop) (outs : list sout) : bool :=
  match ops, outs with
  | [], [] => true
  | o :: ops', out :: outs' =>
      match o with
      | SGet u =>
          let want := if single then match m with (_, c) :: _ => SC c | [] => SExc NoSuchSlaveExc end
                      else match assoc_z m u with Some c => SC c | None => SExc NoSuchSlaveExc end in
          sout_eqb out want && prop_srv single m ops' outs'
      | SSet u c =>
          if single then
            sout_eqb out SNone && prop_srv single (match m with (k, _) :: t => (k, c) :: t | [] => [(0, c)] end) ops' outs'
          else if (0 <=? u) && (u <=? 247)
               then sout_eqb out SNone && prop_srv single (az_set m u c) ops' outs'
               else sout_eqb out (SExc NoSuchSlaveExc) && prop_srv single m ops' outs'
      | SDel u =>
          if single then true     (* deleting in single mode: not constrained by the property *)
          else match assoc_z m u with
               | Some _ => sout_eqb out SNone && prop_srv single (az_del m u) ops' outs'
               | None => (match out with SExc _ => true | _ => false end) && prop_srv single m ops' outs'
               end
      | SContains u =>
          (if single then true
           else sout_eqb out (SB (match assoc_z m u with Some _ => true | None => false end)))
          && prop_srv single m ops' outs'
      | SSlaves =>
          (match out with SL l => list_eqb Z.eqb l (map fst m) | _ => false end)
          && prop_srv single m ops' outs'
      end
  | _, _ => false
  end.

Definition chk_srv (c : srvctx * list sop * list sout) : bool * bool :=
  let '(s, ops, outs) := c in
  (list_eqb sout_eqb (run_srv s ops) outs, prop_srv (sv_single s) (sv_slaves s) ops outs).

End WithCode.

