"""C10 — Requests act only on the addressed unit; broadcast acts on all."""
import struct

from lib import common
from lib.main import Case, Suite
from props import lib_server as L
from props import c09

ID = "C10"
GENERATORS = ["server"]
PROP_FILE = "C10"
CASE_DEPS = ["theories/CorrServer.vo", "Generated/GenServer.vo"]
RULE = ("serve: histories on a LIVE server object: delivered requests interleaved with edits of the hosted set between reads "
        "(del context[u], context[u] = new slave context, re-registering a deleted id, replacing an object in place; 5 "
        "enumerated histories x broadcast x ignore per front-end x framing, plus 1-3 random edits in 40% of the random "
        "multi-unit scenarios, never before the first read, followed by broadcast and unicast requests), judged against the "
        "routing table on the hosted set at the time of each request; otherwise the C09 request-sequence generator biased to multi-unit contexts (hosted sets [1] [1,2] [0] [0,1] "
        "[1,2,247] [17] [247] [2,1,17] [255] [0,247] [1,255] [3,2,1,0] + random ids; healthy / raising datastores), "
        "unit ids {0,1,2,17,247,255} + hosted + random 0..255, all flag combinations, on every front-end x framing "
        "combination (enumerated).  filter: exhaustive product front-end x framing (socket on all seven; RTU, ASCII, "
        "binary on stream handlers) x hosted set x unit id {0,1,2,9,17,247,255} x single x broadcast_enable with one real frame each.  values (python side): final register/coil tables of "
        "every unit against the tables predicted from the delivered writes.  aliasing (python side): units built from one shared initial list / dict "
        "object per table kind, from default 65536-cell tables, or with one block object shared by two tables of a unit; one "
        "write FC 5/6/15/16/22/23 to one unit through 8 front-end x framing combinations; full table dumps of all units "
        "before/after.  Non-trivial = at least one request "
        "delivered; distinct = distinct Coq case terms.")
TRUSTED = c09.TRUSTED
ASSUMPTIONS = c09.ASSUMPTIONS + [
    "hosted units are distinct context objects (two unit ids sharing one ModbusSlaveContext alias each other by construction)",
    "the hosted set is a dict (no duplicate keys): theorems about broadcast assume NoDup of the key list",
]
IMPORTS = c09.IMPORTS
CHK = "chk_c10 code frontends"
_BROKEN = []


CHK_STORES = "chk_c10_stores code frontends"
CHK_OUTS = "chk_c10_outs"      # spec side only: independent of the generated code


def suites_serve(tier):
    """the same observed histories judged twice, independently: which units executed what (stores), and what was
    sent for absent units and broadcasts (outputs) — a known defect of one aspect cannot absorb a failure of the other"""
    s, broken = c09.suite_serve(tier, stream="C10.serve", chk=CHK_STORES, multi_bias=0.8, edit_prob=0.4)
    _BROKEN[:] = broken
    outs = [Case(c.term, c.desc, kind=c.kind, nontrivial=False) for c in s.cases]
    return [s, Suite("serveout", IMPORTS, CHK_OUTS, outs, shard=s.shard)]


R3 = bytes([3]) + struct.pack(">HH", 0, 1)
FILTER_UIDS = [0, 1, 2, 9, 17, 247, 255]
FILTER_COMBOS = [(fe, "socket") for fe in L.FRONTENDS] + [("sync_serial", "rtu"), ("sync_serial", "ascii"), ("aio_tcp", "ascii"),
                                                           ("sync_tcp", "binary"), ("tw_tcp", "binary")]


def filter_pdu(fr, uid):
    """a read request; for binary framing one whose frame holds no '{' / '}' between the delimiters"""
    for a in range(0, L.NREG):
        pdu = bytes([3]) + struct.pack(">HH", a, 1)
        if fr != "binary" or L.binary_clean(uid, pdu):
            return pdu
    raise RuntimeError("no clean binary frame for unit %d" % uid)


def filter_scenario(fe, fr, single, bcast, hosted, uid):
    return {"fe": fe, "framer": fr, "cfg": {"single": single, "bcast": bcast, "ignore": False},
            "hosted": [[0, "ok"]] if single else [[u, "ok"] for u in hosted],
            "reqs": [{"label": "r3", "pdu": filter_pdu(fr, uid).hex(), "uid": uid, "tid": 7, "listen": False}],
            "groups": [[0]], "mode": "filter", "direct": False}


def filter_observe(sc):
    rec = L.run_scenario(sc)
    if rec.delivered:
        return "FDelivered"
    if "TypeError" in rec.escaped:
        return "FRaised TypeError"
    if rec.escaped:
        return "FRaised OtherExc"
    return "FDropped"


def filter_case(sc):
    obs = filter_observe(sc)
    hosted = [u for u, _ in sc["hosted"]]
    term = '{| f_fe := "%s"%%string; f_cfg := %s; f_hosted := %s; f_uid := %s; f_obs := %s |}' % (
        sc["fe"], L.cfg_term(sc["cfg"]), L._l(L._z(u) for u in hosted), L._z(sc["reqs"][0]["uid"]), obs)
    return Case(term, {"scenario": sc, "observed": obs}, kind="%s/%s" % (sc["fe"], sc["framer"]),
                nontrivial=(obs == "FDelivered"), key=term + sc["framer"])


def suite_filter(tier):
    cases = []
    for fe, fr in FILTER_COMBOS:
        tw = fe.startswith("tw_")
        for single in (False, True):
            for bcast in ((False,) if tw else (False, True)):
                for hosted in (L.HOSTED if not single else [[0]]):
                    for uid in FILTER_UIDS:
                        cases.append(filter_case(filter_scenario(fe, fr, single, bcast, hosted, uid)))
    return Suite("filter", IMPORTS, "chk_filter code frontends", cases, shard=300)


def suites(tier):
    return suites_serve(tier) + [suite_filter(tier)]


# ----------------------------------------------------------------------------- python side: real table contents

def expected_tables(sc, rec):
    cfg = sc["cfg"]
    kinds = {u: k for u, k in sc["hosted"]}
    hosted = [u for u, _ in rec.units]
    tabs = {u: {"h": [0] * L.NREG, "c": [0] * L.NREG} for u in hosted}
    for d in rec.delivered:
        w = d["write"]
        if not w:
            continue
        letter, a, vals = w
        if not (0 <= a and a + len(vals) <= L.NREG):
            continue                                    # rejected by validate: exception 02, nothing written
        if cfg["single"]:
            targets = hosted
        elif cfg["bcast"] and d["uid"] == 0:
            targets = hosted
        else:
            targets = [d["uid"]] if d["uid"] in hosted else []
        for u in targets:
            if kinds[u] == "ok":
                tabs[u][letter][a:a + len(vals)] = vals
    return tabs


def values_check(tier):
    r = common.rng("C10.values")
    n = 40 if tier == "quick" else 400
    fails, keys, scs = [], [], []
    for fe, fr in L.COMBOS:
        for _ in range(n):
            sc = L.gen_scenario(r, fe, fr, multi_bias=0.8)
            rec = L.run_scenario(sc)
            exp = expected_tables(sc, rec)
            ok = all(list(rec.after[u][3]) == exp[u]["h"] and list(rec.after[u][1]) == exp[u]["c"]
                     and not any(rec.after[u][0]) and not any(rec.after[u][2]) for u, _ in rec.units)
            scs.append(sc)
            keys.append(repr(sc))
            if not ok:
                fails.append({"scenario": sc, "observed": L.observation(rec),
                              "tables": {str(u): [list(t) for t in rec.after[u]] for u, _ in rec.units}})
    return {"evaluations": len(scs), "failures": fails, "broken": list(_BROKEN),
            "samples": [{"scenario": s} for s in scs[:2]], "keys": keys}


def tls_multi_unit():
    """TLS framer called with single=False: _validate_unit_id reads self._header['uid'], which the TLS header lacks"""
    from pymodbus.framer.tls_framer import ModbusTlsFramer
    from pymodbus.factory import ServerDecoder
    fr = ModbusTlsFramer(ServerDecoder(), client=None)
    got = []
    try:
        fr.processIncomingPacket(bytes([6]) + struct.pack(">HH", 1, 7), got.append, [1, 2], single=False)
    except KeyError:
        return True
    return False


# ----------------------------------------------------------------------------- python side: storage aliasing between units

ALIAS_FES = [("sync_tcp", "socket"), ("sync_udp", "socket"), ("sync_serial", "rtu"), ("sync_serial", "ascii"),
             ("aio_tcp", "socket"), ("aio_udp", "socket"), ("tw_tcp", "socket"), ("tw_udp", "socket")]
ALIAS_MODES = ["shared-list", "shared-dict", "default", "twin-tables"]
ALIAS_FCS = [5, 6, 15, 16, 22, 23]
NCELL = 12


def alias_context(mode, zero_mode, twin):
    """-> (ModbusServerContext, [(uid, slave)], {uid: set of table-letter pairs that legitimately alias})
    shared-list : every unit's four sequential blocks are initialised from ONE list object per table kind
                  (a module-level power-on table reused by a make_slave() helper)
    shared-dict : sparse blocks over ONE dict object per table kind - DECLARED aliasing (a sparse block keeps the caller's
                  dict by design): all of them are one block; a write through any is visible through all, nothing else
    default     : ModbusSlaveContext() with its default 65536-cell tables
    twin-tables : unit 1 deliberately uses the SAME block object for two of its tables (legitimate aliasing:
                  only those two tables may change together); the other units are built from fresh lists"""
    from pymodbus.datastore import ModbusSlaveContext, ModbusServerContext, ModbusSequentialDataBlock, ModbusSparseDataBlock
    power = {"d": [i % 2 for i in range(NCELL)], "c": [(i // 2) % 2 for i in range(NCELL)],
             "i": [100 + i for i in range(NCELL)], "h": [200 + i for i in range(NCELL)]}
    legit = {}
    units = {}
    ids = [1, 2] if mode == "default" else [1, 2, 3]
    if mode == "shared-dict":
        pdict = {k: dict(enumerate(v)) for k, v in power.items()}
    for u in ids:
        if mode == "shared-list":
            units[u] = ModbusSlaveContext(di=ModbusSequentialDataBlock(0, power["d"]), co=ModbusSequentialDataBlock(0, power["c"]),
                                          ir=ModbusSequentialDataBlock(0, power["i"]), hr=ModbusSequentialDataBlock(0, power["h"]),
                                          zero_mode=zero_mode)
        elif mode == "shared-dict":
            units[u] = ModbusSlaveContext(di=ModbusSparseDataBlock(pdict["d"]), co=ModbusSparseDataBlock(pdict["c"]),
                                          ir=ModbusSparseDataBlock(pdict["i"]), hr=ModbusSparseDataBlock(pdict["h"]),
                                          zero_mode=zero_mode)
        elif mode == "default":
            units[u] = ModbusSlaveContext()
        else:
            blocks = {k: ModbusSequentialDataBlock(0, list(v)) for k, v in power.items()}
            if u == 1:
                blocks[twin[1]] = blocks[twin[0]]
                legit[u] = {frozenset(twin)}
            units[u] = ModbusSlaveContext(di=blocks["d"], co=blocks["c"], ir=blocks["i"], hr=blocks["h"], zero_mode=zero_mode)
    return ModbusServerContext(slaves=units, single=False), list(units.items()), legit


def pack_bits(bits):
    out = bytearray((len(bits) + 7) // 8)
    for i, b in enumerate(bits):
        if b:
            out[i // 8] |= 1 << (i % 8)
    return bytes(out)


def alias_write(r, fc, limit):
    """-> (pdu, table letter, wire address, f(old cells) -> new cells)"""
    n = {5: 1, 6: 1, 15: r.choice([8, 16]) if limit > 20 else 8, 16: r.choice([1, 2, 3]), 22: 1, 23: r.choice([1, 2])}[fc]
    a = r.choice([0, 1, limit - n, r.randrange(0, limit - n + 1)])
    if fc == 5:
        on = r.random() < 0.5
        return bytes([5]) + struct.pack(">HH", a, 0xFF00 if on else 0), "c", a, lambda old: [1 if on else 0]
    if fc == 6:
        v = r.randrange(1, 65536)
        return bytes([6]) + struct.pack(">HH", a, v), "h", a, lambda old: [v]
    if fc == 15:
        bits = [r.randrange(2) for _ in range(n)]
        return bytes([15]) + struct.pack(">HHB", a, n, n // 8) + pack_bits(bits), "c", a, lambda old: bits
    if fc == 16:
        vs = [r.randrange(65536) for _ in range(n)]
        return bytes([16]) + struct.pack(">HHB", a, n, 2 * n) + b"".join(struct.pack(">H", v) for v in vs), "h", a, lambda old: vs
    if fc == 22:
        am, om = r.randrange(65536), r.randrange(65536)
        return bytes([22]) + struct.pack(">HHH", a, am, om), "h", a, lambda old: [((old[0] & am) | (om & ~am)) & 0xFFFF]
    vs = [r.randrange(65536) for _ in range(n)]
    return (bytes([23]) + struct.pack(">HHHHB", 0, 1, a, n, 2 * n) + b"".join(struct.pack(">H", v) for v in vs)), "h", a, lambda old: vs


def table_cells(table, lo, n):
    """cells lo..lo+n-1 of a dumped table (sequential: index = address, the blocks start at 0; sparse: pairs)"""
    if table and isinstance(table[0], tuple):
        d = dict(table)
        return [d[lo + i] for i in range(n)]
    return list(table[lo:lo + n])


def with_cells(table, lo, cells):
    if table and isinstance(table[0], tuple):
        d = dict(table)
        for i, v in enumerate(cells):
            d[lo + i] = v
        return tuple(sorted(d.items()))
    t = list(table)
    t[lo:lo + len(cells)] = cells
    return tuple(t)


def alias_one(sc):
    """one write to `target` through a real front-end, then a read of the same cells on `other`; judged on the FULL
    table dumps of ALL units before/after"""
    r = common.rng("C10.alias.case.%d" % sc["n"])
    fe, fr, mode, fc = sc["fe"], sc["framer"], sc["mode"], sc["fc"]
    zero_mode = sc["zero_mode"] if mode != "default" else False
    off = 0 if zero_mode else 1
    holder = {}

    def make():
        ctx, units, legit = alias_context(mode, zero_mode, sc["twin"])
        holder["legit"] = legit
        return ctx, units
    limit = (65536 if mode == "default" else NCELL) - off
    pdu, letter, a, effect = alias_write(r, fc, limit)
    target, other = sc["target"], sc["other"]
    n_guess = 16
    rpdu = lambda cnt: bytes([1 if letter == "c" else 3]) + struct.pack(">HH", a, cnt)
    # number of cells written is known only after applying the effect to the old cells: compute from a dry run
    dry_ctx, dry_units, _ = alias_context(mode, zero_mode, sc["twin"])
    dry = {u: L.dump(s) for u, s in dry_units}
    idx = "dcih".index(letter)
    new_cells = effect(table_cells(dry[target][idx], a + off, 1))
    cnt = len(new_cells)
    frames = [L.adu(fr, 0x0101, target, pdu), L.adu(fr, 0x0102, other, rpdu(cnt))]
    reads = [(f, i + 1) for i, f in enumerate(frames)] if fe in L.DATAGRAM else frames
    rec = L.run(fe, fr, {"single": False, "bcast": False, "ignore": False}, [], reads,
                make_context=make)
    before, after = dry, {u: L.dump(s) for u, s in rec.units}
    why = []
    if len(rec.delivered) != 2 or not rec.delivered[0]["results"] or rec.delivered[0]["results"][0][1][0] != "ok" \
            or rec.delivered[0]["results"][0][1][1] != fc:
        return None, rec, ["write not accepted (not judged here)"]
    legit = holder["legit"].get(target, set())
    for u in before:
        for k, name in enumerate("dcih"):
            exp = before[u][k]
            if u == target and (name == letter or frozenset((name, letter)) in legit):
                exp = with_cells(before[u][k], a + off, new_cells)
            if mode == "shared-dict" and name == letter:
                # DECLARED aliasing: a sparse block keeps the caller's dict, so all blocks built from the same dict object
                # are ONE block - the write is visible through every unit's table of that kind, and through nothing else
                exp = with_cells(before[u][k], a + off, new_cells)
            if after[u][k] != exp:
                why.append("unit %d table %s differs from the expected contents" % (u, name))
    # the other unit's read response still shows its own (power-on) cells
    res = rec.delivered[1]["results"]
    old = table_cells(before[other][idx], a + off, cnt)
    if mode == "shared-dict":
        old = list(new_cells)          # same storage: the other unit reads what was just written
    want = (bytes([(cnt + 7) // 8]) + pack_bits(old)) if letter == "c" else \
        (bytes([2 * cnt]) + b"".join(struct.pack(">H", v) for v in old))
    if not res or res[0][1][0] != "ok" or res[0][1][4] != want:
        why.append("unit %d read response does not show its own cells" % other)
    return not why, rec, why


def alias_scenarios(tier):
    r = common.rng("C10.alias")
    out = []
    reps = 1 if tier == "quick" else 6
    n = 0
    for _ in range(reps):
        for mode in ALIAS_MODES:
            for fc in ALIAS_FCS:
                for fe, fr in ALIAS_FES:
                    ids = [1, 2] if mode == "default" else [1, 2, 3]
                    target = 1 if mode == "twin-tables" and r.random() < 0.7 else r.choice(ids)
                    other = r.choice([u for u in ids if u != target])
                    n += 1
                    out.append({"fe": fe, "framer": fr, "mode": mode, "fc": fc, "target": target, "other": other,
                                "zero_mode": r.random() < 0.5, "twin": r.choice([["c", "d"], ["h", "i"], ["d", "c"], ["i", "h"]]),
                                "n": (common.seed() << 20) + n})
    return out


def alias_check(tier):
    fails, keys, skipped = [], [], 0
    scs = alias_scenarios(tier)
    for sc in scs:
        ok, rec, why = alias_one(sc)
        if ok is None:
            skipped += 1
            continue
        keys.append(repr(sorted(sc.items())))
        if not ok:
            fails.append({"scenario": sc, "why": why})
    broken = ["aliasing check: %d of %d writes were not accepted by the server" % (skipped, len(scs))] if skipped > len(scs) // 10 else []
    return {"evaluations": len(scs) - skipped, "failures": fails, "broken": broken,
            "samples": [{"scenario": s_} for s_ in scs[:2]], "keys": keys}


def extra_checks(tier):
    return {"values": values_check(tier), "aliasing": alias_check(tier)}


# ----------------------------------------------------------------------------- findings

def _bcast_with_failure(desc):
    sc = desc["scenario"]
    if not sc["cfg"]["bcast"] or sc["fe"].startswith("tw_"):
        return False
    for d in desc["observed"]["delivered"]:
        if d["uid"] == 0 and any(r[1][0] == "raise" for r in d["results"]):
            return True
    return False


def _logs_if_broadcast_stops(desc):
    """per-unit execution logs the property's routing table predicts on the current hosted set, EXCEPT that a broadcast
    walk ends at the first unit on which request.execute raised (the region of F-C10-broadcast-stops-at-failing-unit)"""
    sc, ob = desc["scenario"], desc["observed"]
    cfg = sc["cfg"]
    by_tag = {d["tag"]: d for d in ob["delivered"]}
    cur = [[0, []]] if cfg["single"] else [[u, []] for u, _ in sc["hosted"]]
    for kind, x in ob["timeline"]:
        if kind == "del":
            cur = [e for e in cur if e[0] != x]
        elif kind == "set":
            hit = [e for e in cur if e[0] == x]
            if hit:
                hit[0][1] = []
            else:
                cur.append([x, []])
        else:
            d = by_tag[x]
            raised = {u for u, r in d["results"] if r[0] == "raise"}
            if cfg["bcast"] and d["uid"] == 0 and not sc["fe"].startswith("tw_"):
                for e in cur:
                    e[1].append(x)
                    if e[0] in raised:
                        break
            elif cfg["single"]:
                cur[0][1].append(x)
            else:
                for e in cur:
                    if e[0] == d["uid"]:
                        e[1].append(x)
    return [[u, log] for u, log in cur]


def classify(suite, desc):
    sc = desc.get("scenario")
    if sc is None:
        return None
    if suite == "serveout":
        return None        # no open finding is about what is sent for a broadcast or an absent unit
    if suite == "serve":
        # covered only if the ONLY deviation of the stores aspect is "units behind the first raising unit of a broadcast
        # were not executed"; what was sent is judged by the separate suite `serveout`
        ob = desc["observed"]
        if _bcast_with_failure(desc) and not ob["changed_unaddressed"] and \
                _logs_if_broadcast_stops(desc) == [[u, ob["logs"][str(u)]] for u in ob["hosted_now"]]:
            return "F-C10-broadcast-stops-at-failing-unit"
        return None
    if suite == "aliasing":
        return None
    if suite == "values":
        if _bcast_with_failure(desc):
            return "F-C10-broadcast-stops-at-failing-unit"
        return None
    if suite == "filter":
        # F-C10-twisted-udp-dead (/repo b36db33) and F-C10-sync-udp-broadcast-not-delivered (/repo 168efb6) are fixed:
        # every failure of the unit-filter product is reported
        return None
    return None


def replay_finding(f):
    w = f["witness"]
    if f["id"] == "F-C10-tls-multi-unit-keyerror":
        return tls_multi_unit()
    sc = c09._witness_scenario(w)
    if f["id"] == "F-C10-twisted-udp-dead":
        return filter_observe(sc) != "FDelivered"      # fixed: the frame for the hosted unit must reach _execute
    if f["id"] == "F-C10-sync-udp-broadcast-not-delivered":
        return filter_observe(sc) != "FDelivered"      # fixed: the unit-0 datagram must reach execute
    if f["id"] == "F-C10-broadcast-stops-at-failing-unit":
        rec = L.run_scenario(sc)
        return rec.logs[w["skipped_unit"]] == [] and rec.after[w["skipped_unit"]] == rec.before[w["skipped_unit"]]
    return None


def replay_case(suite, desc):
    import json
    from lib import coqrun
    sc = desc["scenario"]
    if suite in ("serve", "serveout"):
        c, bad = c09.make_case(sc)
        r = coqrun.eval_cases("C10_replay", IMPORTS, CHK_STORES if suite == "serve" else CHK_OUTS, [c.term])
        print(json.dumps(c.desc["observed"])[:1500], r)
        return bool(r["propfail"] or r["errors"] or r["disagree"])
    if suite == "filter":
        c = filter_case(sc)
        r = coqrun.eval_cases("C10_replay", IMPORTS, "chk_filter code frontends", [c.term])
        print(c.desc["observed"], r)
        return bool(r["propfail"] or r["errors"] or r["disagree"])
    if suite == "aliasing":
        ok, rec, why = alias_one(sc)
        print(why)
        return ok is False
    if suite == "values":
        rec = L.run_scenario(sc)
        exp = expected_tables(sc, rec)
        print(json.dumps(L.observation(rec))[:1500])
        return not all(list(rec.after[u][3]) == exp[u]["h"] and list(rec.after[u][1]) == exp[u]["c"] for u, _ in rec.units)
    return True


def shrink(suite, desc):
    if suite == "serve":
        return c09.shrink_serve(CHK_STORES, desc, "C10_shrink")
    if suite == "serveout":
        return c09.shrink_serve(CHK_OUTS, desc, "C10_shrink")
    return None


MANIFEST = {
    "text": ("Coq theorems (Props/C10.v) about the execute path and the framer unit filter interpreted from the skeletons "
             "regenerated from the three server modules and framer/__init__.py on every run, for every unit id, every "
             "hosted set (arbitrary association list over an arbitrary store type), every flag combination and every "
             "request effect: a request changes only the addressed unit's store; an absent unit changes nothing and is "
             "answered by silence or exactly exception 0x0B; broadcast executes once on every hosted unit and sends "
             "nothing; unit 0 is ordinary without broadcast; single mode routes every id to the one context; closed form "
             "of _validate_unit_id on each front-end's unit list.  Unit-0 frames reach execute on every front-end that has broadcast_enable; "
             "the Twisted UDP entry point filters exactly like the asyncio datagram handler.  Refuted by witness: broadcast when a datastore raises.  test_server_context checks dict access only."),
    "note": ("Trusted: Coq kernel; translator shape matching; hand-written try/except/for semantics in Server.respond, tied "
             "to the seven real front-ends by correspondence (per-unit execution logs, table dumps, sent messages; exhaustive "
             "unit-filter product with real frames) evaluated with vm_compute; real table contents checked python-side."),
    "design_ref": "DESIGN.md section 8 (C10)",
}
