"""C19 — Payload builder and decoder agree for every byte and word order."""
import math

from lib import common
from lib.coqrun import z, zlist, nat, boolean, lst
from lib.main import Case, Suite
from lib.pyx import pyexn

ID = "C19"
GENERATORS = ["payload"]
PROP_FILES = ["C19", "C19_floats"]
PROP_FILE = "C19"
CASE_DEPS = ["theories/CorrPayload.vo", "Generated/GenPayload.vo"]
RULE = ("typed value sequences of length 0..8 (each of the 13 value types; integers from {min, min+1, -1, 0, 1, "
        "0x7f.., 0x80.., max-1, max, distinct-byte patterns, random}; float bit patterns from {+-0, smallest/largest "
        "subnormal, smallest normal, 1.0, max finite, +-inf, random non-NaN}; bit groups of 0/1/3/7/8/9/16/24/random "
        "bits; byte strings of length 0/1/2/3/5/random incl. bytes >= 0x80), every sequence run under all four "
        "byte-order x word-order pairs, transported as raw payload, as registers (to_registers -> fromRegisters) and "
        "as coils; ~5% of the sequences carry one out-of-range integer (malformed stream: builder must raise, model "
        "must agree, property silent); plus a decoder-only suite on arbitrary byte strings (runs past the end). "
        "A case is non-trivial when the sequence is non-empty and in the domain of the property; distinct = "
        "distinct (orders, values)")
TRUSTED = [
    "outside the model: Python float <-> IEEE-754 bit pattern (struct 'e'/'f'/'d'); floats travel as bit patterns "
    "computed by the harness's own ldexp/frexp codec, never by struct; NaN patterns are not exercised",
    "hand-modelled, tied by correspondence and pinned verbatim by the translator: pack_bitstring / unpack_bitstring / "
    "make_byte_string (utilities.py); Python slicing, range(), str.lower(), struct (theories/Struct.v)",
    "generated from source on every run (Generated/GenPayload.v): WC table, Endian constants, the shape, format "
    "character, struct prefix, pointer increment and slice width of every add_* / decode_* method, the constants of "
    "_pack_words / _unpack_words (network prefix, // 2, '!{}H', the Endian constant that triggers reversed(), the "
    "per-word 'H'), of build (pad byte, % 2, chunk width/step), to_registers / fromRegisters formats, "
    "to_coils / fromCoils",
]
ASSUMPTIONS = [
    "strings are byte strings (add_string of a text str encodes it as UTF-8 and decode_string returns bytes; not modelled)",
    "the decoder's caller knows the type sequence: one decode_bits() per byte of a bit group, decode_string(len)",
    "bit groups are recovered up to zero padding to a whole byte (exactly, when the group has 8k bits)",
    "builder constructed with repack=False (the default); byte/word orders are Endian.Big / Endian.Little (not Auto)",
]

IMPORTS = ("From PM.theories Require Import Base Struct Payload CorrPayload.\n"
           "From PM.Generated Require Import GenPayload.")

KINDS = ["U8", "U16", "U32", "U64", "I8", "I16", "I32", "I64", "F16", "F32", "F64"]
BITS = {"U8": 8, "U16": 16, "U32": 32, "U64": 64, "I8": 8, "I16": 16, "I32": 32, "I64": 64,
        "F16": 16, "F32": 32, "F64": 64}
TAG = {"U8": "8bit_uint", "U16": "16bit_uint", "U32": "32bit_uint", "U64": "64bit_uint",
       "I8": "8bit_int", "I16": "16bit_int", "I32": "32bit_int", "I64": "64bit_int",
       "F16": "16bit_float", "F32": "32bit_float", "F64": "64bit_float"}
FLOAT_LAYOUT = {16: (5, 10), 32: (8, 23), 64: (11, 52)}
ORDERS = [("Big", "Big"), ("Big", "Little"), ("Little", "Big"), ("Little", "Little")]


# ----------------------------------------------------------------------------- independent IEEE codec

def bits_to_float(w, n):
    eb, mb = FLOAT_LAYOUT[n]
    sign = w >> (n - 1)
    e = (w >> mb) & ((1 << eb) - 1)
    m = w & ((1 << mb) - 1)
    bias = (1 << (eb - 1)) - 1
    if e == (1 << eb) - 1:
        x = math.inf if m == 0 else math.nan
    elif e == 0:
        x = math.ldexp(m, 1 - bias - mb)
    else:
        x = math.ldexp(m + (1 << mb), e - bias - mb)
    return -x if sign else x


def float_to_bits(x, n):
    """bit pattern of a float that is exactly representable in binary<n>; -1 if it is not (never equal
    to an expected pattern); NaN -> canonical quiet NaN"""
    if not isinstance(x, float):
        return -1
    eb, mb = FLOAT_LAYOUT[n]
    bias = (1 << (eb - 1)) - 1
    if x != x:
        return (((1 << eb) - 1) << mb) | (1 << (mb - 1))
    sign = 1 if math.copysign(1.0, x) < 0 else 0
    a = abs(x)
    if a == math.inf:
        body = ((1 << eb) - 1) << mb
    elif a == 0.0:
        body = 0
    else:
        fr, ex = math.frexp(a)          # a = fr * 2**ex, 0.5 <= fr < 1
        E = ex - 1                       # a = (2 fr) * 2**E, 1 <= 2 fr < 2
        if E < 1 - bias:
            mant = math.ldexp(a, -(1 - bias - mb))
            if mant != int(mant) or not (0 < mant < (1 << mb)):
                return -1
            body = int(mant)
        else:
            mant = math.ldexp(a, mb - E) - (1 << mb)
            if mant != int(mant) or not (0 <= mant < (1 << mb)) or E + bias >= (1 << eb) - 1:
                return -1
            body = ((E + bias) << mb) | int(mant)
    return (sign << (n - 1)) | body


# ----------------------------------------------------------------------------- driving the implementation

def endian(name):
    from pymodbus.constants import Endian
    return getattr(Endian, name)


def py_value(v):
    k, x = v
    if k in ("F16", "F32", "F64"):
        return bits_to_float(x, BITS[k])
    if k == "Bits":
        return [bool(b) for b in x]
    if k == "Str":
        return bytes(x)
    return x


def type_of(v):
    k, x = v
    if k == "Bits":
        return ("Bits", (len(x) + 7) // 8)
    if k == "Str":
        return ("Str", len(x))
    return (k,)


def decode_all(dec, tys):
    """('ok', [values]) or ('exc', name)"""
    out = []
    try:
        raw = []
        for t in tys:
            if t[0] == "Bits":
                bits = []
                for _ in range(t[1]):
                    got = dec.decode_bits()
                    bits += got
                    # what an application may do with the list it was handed (observation already copied): edit it in
                    # place — it must be the caller's own list, not a row of some table the next decode reads again
                    if isinstance(got, list):
                        got.reverse()
                        got.append(True)
                raw.append(("Bits", bits))
            elif t[0] == "Str":
                raw.append(("Str", dec.decode_string(t[1])))
            else:
                raw.append((t[0], getattr(dec, "decode_" + TAG[t[0]])()))
    except Exception as e:  # noqa: BLE001 — the exception class is the observation
        return ("exc", pyexn(e))
    for k, x in raw:
        if k == "Bits":
            out.append(("Bits", [1 if b else 0 for b in x]))
        elif k == "Str":
            out.append(("Str", list(bytes(x)) if isinstance(x, (bytes, bytearray)) else [-1]))
        elif k[0] == "F":
            out.append((k, float_to_bits(x, BITS[k])))
        else:
            out.append((k, x if isinstance(x, int) and not isinstance(x, bool) else -(1 << 70)))
    return ("ok", out)


_REUSED = {}


def run_impl(bo, wo, vals, repack=False, reuse=False, rejected=None):
    """reuse: ONE builder object per (byte order, word order, repack) serves all such cases, emptied with its own
    reset() before each — what a polling application does; reset() must leave nothing of the previous payload
    behind (its values, or anything derived from them).  The decoder is likewise rewound with reset() and read again."""
    from pymodbus.payload import BinaryPayloadBuilder, BinaryPayloadDecoder
    tys = [type_of(v) for v in vals if rejected is None or in_domain([v])]
    obs = {}
    try:
        if reuse:
            b = _REUSED.get((bo, wo, repack))
            if b is None:
                b = _REUSED[(bo, wo, repack)] = BinaryPayloadBuilder(byteorder=endian(bo), wordorder=endian(wo), repack=repack)
            b.reset()
        else:
            b = BinaryPayloadBuilder(byteorder=endian(bo), wordorder=endian(wo), repack=repack)
        for v in vals:
            k = v[0]
            try:
                if k == "Bits":
                    b.add_bits(py_value(v))
                elif k == "Str":
                    b.add_string(py_value(v))
                else:
                    getattr(b, "add_" + TAG[k])(py_value(v))
            except Exception:  # noqa: BLE001
                if rejected is None:
                    raise
                rejected.append(v)      # the application catches the error and carries on with the same builder
        s = b.to_string()
        obs["bytes"] = ("ok", list(s))
    except Exception as e:  # noqa: BLE001
        x = ("exc", pyexn(e))
        return {"bytes": x, "regs": x, "dec_raw": x, "dec_regs": x, "coils": x, "dec_coils": x}
    dd = BinaryPayloadDecoder(s, byteorder=endian(bo), wordorder=endian(wo))
    obs["dec_raw"] = decode_all(dd, tys)
    if reuse:
        try:
            dd.reset()
            again = decode_all(dd, tys)
        except Exception as e:  # noqa: BLE001
            again = ("exc", pyexn(e))
        if again != obs["dec_raw"]:
            obs["dec_raw"] = again          # the second reading is what gets judged
    try:
        regs = b.to_registers()
        obs["regs"] = ("ok", [int(r) for r in regs])
    except Exception as e:  # noqa: BLE001
        x = ("exc", pyexn(e))
        obs.update({"regs": x, "dec_regs": x, "coils": x, "dec_coils": x})
        return obs
    try:
        d = BinaryPayloadDecoder.fromRegisters(regs, byteorder=endian(bo), wordorder=endian(wo))
        obs["dec_regs"] = decode_all(d, tys)
    except Exception as e:  # noqa: BLE001
        obs["dec_regs"] = ("exc", pyexn(e))
    try:
        coils = b.to_coils()
        obs["coils"] = ("ok", [1 if c else 0 for c in coils])
    except Exception as e:  # noqa: BLE001
        x = ("exc", pyexn(e))
        obs.update({"coils": x, "dec_coils": x})
        return obs
    try:
        d = BinaryPayloadDecoder.fromCoils(coils, byteorder=endian(bo), wordorder=endian(wo))
        obs["dec_coils"] = decode_all(d, tys)
    except Exception as e:  # noqa: BLE001
        obs["dec_coils"] = ("exc", pyexn(e))
    return obs


# ----------------------------------------------------------------------------- Coq terms

def blist(bits):
    return "[" + "; ".join("true" if b else "false" for b in bits) + "]"


def value_term(v):
    k, x = v
    if k == "Bits":
        return "Bits " + blist(x)
    if k == "Str":
        return "Str (bz %s)" % zlist(x)
    return "%s %s" % (k, z(x))


def res_term(r, f):
    return ("Ok " + f(r[1])) if r[0] == "ok" else ("Raise " + r[1])


def values_term(vs):
    return lst(value_term(v) for v in vs)


def ty_term(t):
    if t[0] == "Bits":
        return "TBits %s" % nat(t[1])
    if t[0] == "Str":
        return "TStr %s" % nat(t[1])
    return "TNum K%s" % t[0]


def case_term(bo, wo, repack, vals, obs):
    return "(PC %s %s %s %s (%s) (%s) (%s) (%s) (%s) (%s))" % (
        bo, wo, boolean(repack), values_term(vals),
        res_term(obs["bytes"], lambda b: "(bz %s)" % zlist(b)),
        res_term(obs["regs"], zlist),
        res_term(obs["dec_raw"], values_term),
        res_term(obs["dec_regs"], values_term),
        res_term(obs["coils"], blist),
        res_term(obs["dec_coils"], values_term))


# ----------------------------------------------------------------------------- generators

def in_range(k, x):
    n = BITS[k]
    if k[0] == "I":
        return -(1 << (n - 1)) <= x < (1 << (n - 1))
    return 0 <= x < (1 << n)


def gen_int(r, k):
    n = BITS[k]
    pat = 0x1122334455667788 >> (64 - n)
    pat2 = 0xFEDCBA9876543210 >> (64 - n)
    if k[0] == "U":
        pool = [0, 1, (1 << (n - 1)) - 1, 1 << (n - 1), (1 << n) - 2, (1 << n) - 1, pat, pat2, 0xFF, 0xFF << (n - 8)]
        return r.choice(pool) if r.random() < 0.55 else r.randrange(1 << n)
    lo, hi = -(1 << (n - 1)), (1 << (n - 1)) - 1
    pool = [lo, lo + 1, -2, -1, 0, 1, hi - 1, hi, pat, pat2 - (1 << n), -pat, -256, -129, -128, 127, 128]
    pool = [p for p in pool if lo <= p <= hi]
    return r.choice(pool) if r.random() < 0.55 else r.randrange(lo, hi + 1)


def gen_float_bits(r, k):
    n = BITS[k]
    eb, mb = FLOAT_LAYOUT[n]
    emax = (1 << eb) - 1
    bias = (1 << (eb - 1)) - 1
    pool = [0, 1, (1 << mb) - 1, 1 << mb, bias << mb, ((emax - 1) << mb) | ((1 << mb) - 1), emax << mb,
            (bias << mb) | (0x123456789ABCD >> (52 - mb))]
    if r.random() < 0.6:
        body = r.choice(pool)
    else:
        body = (r.randrange(0, emax) << mb) | r.randrange(1 << mb)      # exponent < all-ones: never NaN
    return (r.randrange(2) << (n - 1)) | body


def gen_value(r):
    c = r.random()
    if c < 0.70:
        k = r.choice(KINDS)
        return (k, gen_float_bits(r, k) if k[0] == "F" else gen_int(r, k))
    if c < 0.85:
        n = r.choice([0, 1, 3, 7, 8, 8, 9, 16, 16, 24, r.randrange(0, 21)])
        mode = r.random()
        if mode < 0.15:
            return ("Bits", [1] * n)
        if mode < 0.25:
            return ("Bits", [0] * n)
        return ("Bits", [r.randrange(2) for _ in range(n)])
    n = r.choice([0, 1, 2, 3, 5, r.randrange(0, 10)])
    return ("Str", [r.choice([0, 0x41, 0x7f, 0x80, 0xff, r.randrange(256)]) for _ in range(n)])


def gen_bad_int(r):
    k = r.choice([x for x in KINDS if x[0] != "F"])
    n = BITS[k]
    if k[0] == "U":
        return (k, r.choice([-1, 1 << n, (1 << n) + 5, -(1 << n)]))
    return (k, r.choice([1 << (n - 1), -(1 << (n - 1)) - 1, 1 << n]))


def gen_sequence(r, malformed):
    n = r.choice([0, 1, 1, 2, 3, 4, 5, 6, 8])
    vals = [gen_value(r) for _ in range(n)]
    if malformed:
        vals.insert(r.randrange(len(vals) + 1), gen_bad_int(r))
    return vals


def in_domain(vals):
    return all(v[0] in ("Bits", "Str") or in_range(v[0], v[1]) for v in vals)


def payload_case(bo, wo, vals, label=None, repack=False, reuse=False, recover=False):
    """recover: values outside their type's range are REJECTED by their add_* call (struct.error), the application
    catches that and goes on adding to the same builder; a rejected add must leave nothing behind, so what is built
    is judged as the payload of the accepted values alone"""
    if recover:
        rej = []
        obs = run_impl(bo, wo, vals, repack=repack, reuse=reuse, rejected=rej)
        if len(rej) != len([v for v in vals if not in_domain([v])]):
            obs = dict(obs, bytes=("exc", "ValueError"))       # an out-of-range value was NOT rejected
        vals = [v for v in vals if in_domain([v])]
        label = label or ("%s/%s:recover" % (bo, wo))
    else:
        obs = run_impl(bo, wo, vals, repack=repack, reuse=reuse)
    dom = in_domain(vals)
    desc = {"byteorder": bo, "wordorder": wo, "repack": repack, "values": [[v[0], v[1]] for v in vals],
            "impl": {k: list(v) for k, v in obs.items()}, "reused_builder": reuse}
    kind = label or ("%s/%s:%s%s%s" % (bo, wo, "domain" if dom else "malformed", "+repack" if repack else "",
                                       "+reused" if reuse else ""))
    return Case(case_term(bo, wo, repack, vals, obs), desc, kind=kind, nontrivial=dom and len(vals) > 0,
                key=(bo, wo, repack, reuse, repr(vals)))


FIXED = [
    [("U32", 0x11223344)], [("U64", 0x1122334455667788)], [("I32", -2)], [("I64", -0x0102030405060708)],
    [("F32", 0x3F800000)], [("F64", 0x3FF0000000000000)], [("F16", 0x3C00)], [("F32", 0x00000001)], [("F64", 0x7FF0000000000000)],
    [("U8", 0x12), ("U8", 0x34)], [("U8", 1)], [("U16", 0x1234), ("U8", 7)], [("Str", [0x61, 0x62, 0x63])],
    [("Bits", [1, 0, 1])], [("Bits", [1] * 16)], [],
    [("U8", 1), ("U16", 2), ("U32", 3), ("U64", 4), ("I8", -1), ("I16", -2), ("I32", -3), ("I64", -4),
     ("F32", 0x3FA00000), ("F64", 0xC01B000000000000), ("Str", [ord(c) for c in "test"]), ("Bits", [0, 1, 0, 1, 0, 1, 0, 1])],
]


def suite_payload(tier):
    r = common.rng("C19.payload")
    cases = []
    for vals in FIXED:
        for bo, wo in ORDERS:
            cases.append(payload_case(bo, wo, vals))
    # every type alone at its extremes, all four orders (enumerated, not drawn)
    for k in KINDS:
        n = BITS[k]
        if k[0] == "F":
            eb, mb = FLOAT_LAYOUT[n]
            xs = [0, 1 << (n - 1), 1, (1 << mb) - 1, 1 << mb, ((1 << eb) - 1) << mb, (1 << (n - 1)) | (((1 << eb) - 1) << mb),
                  (((1 << eb) - 2) << mb) | ((1 << mb) - 1)]
        elif k[0] == "U":
            xs = [0, 1, (1 << n) - 1, 1 << (n - 1)]
        else:
            xs = [-(1 << (n - 1)), -1, 0, (1 << (n - 1)) - 1]
        for x in xs:
            for bo, wo in ORDERS:
                cases.append(payload_case(bo, wo, [(k, x)]))
                cases.append(payload_case(bo, wo, [(k, x)], reuse=True))    # same builder as the previous extreme
    n = 2500 if tier == "quick" else 20000
    for i in range(n):
        vals = gen_sequence(r, malformed=(r.random() < 0.05))
        for bo, wo in ORDERS:
            cases.append(payload_case(bo, wo, vals))
        if not in_domain(vals) or i % 50 == 0:
            # a rejected add in the middle, the builder used on: 64-bit and 32-bit values around it in every order
            mixed = list(vals) if not in_domain(vals) else vals + [gen_bad_int(r)] + [gen_value(r)]
            mixed.insert(0, r.choice([("U64", 0x1122334455667788), ("I64", -2), ("U32", 7), ("U16", 0x1234)]))
            mixed.append(r.choice([("I64", -0x0102030405060708), ("U64", 1), ("I16", -2)]))
            mixed.insert(r.randrange(1, len(mixed)), r.choice([("U64", -1), ("U64", 1 << 64), ("I64", 1 << 63), ("I64", -(1 << 63) - 1)]))
            for bo, wo in ORDERS:
                cases.append(payload_case(bo, wo, mixed, recover=True))
        if i % 5 == 0 and in_domain(vals):
            # one builder reused through reset(): the previous payload had as many fields (all of other values), or one more
            other = [gen_value(r) for _ in vals]
            for bo, wo in ORDERS:
                payload_case(bo, wo, other + ([gen_value(r)] if i % 10 == 0 else []), reuse=True)
                cases.append(payload_case(bo, wo, vals, reuse=True))
    # builder option repack=True (non-default, outside the property): model agreement only
    for i in range(40 if tier == "quick" else 1000):
        vals = gen_sequence(r, malformed=False)
        for bo, wo in ORDERS:
            cases.append(payload_case(bo, wo, vals, repack=True))
    return Suite("payload", IMPORTS, "chk_payload code", cases, shard=320 if tier == "quick" else 500)


def decode_case(r):
    from pymodbus.payload import BinaryPayloadDecoder
    bo, wo = r.choice(ORDERS)
    payload = [r.randrange(256) for _ in range(r.choice([0, 1, 2, 3, 4, 7, 8, 9, 12, 16]))]
    tys = []
    for _ in range(r.choice([1, 1, 2, 3, 4])):
        c = r.random()
        if c < 0.7:
            tys.append((r.choice([k for k in KINDS if k[0] != "F"]),))
        elif c < 0.85:
            tys.append(("Bits", r.choice([0, 1, 2, 3])))
        else:
            tys.append(("Str", r.choice([0, 1, 2, 5])))
    res = decode_all(BinaryPayloadDecoder(bytes(payload), byteorder=endian(bo), wordorder=endian(wo)), tys)
    term = "(DC %s %s %s (bz %s) (%s))" % (bo, wo, lst(ty_term(t) for t in tys), zlist(payload), res_term(res, values_term))
    desc = {"byteorder": bo, "wordorder": wo, "types": [list(t) for t in tys], "payload": payload, "impl": list(res)}
    return Case(term, desc, kind="decode:" + res[0], nontrivial=res[0] == "ok", key=term)


def suite_decode(tier):
    r = common.rng("C19.decode")
    n = 400 if tier == "quick" else 8000
    return Suite("decoder", IMPORTS, "chk_decode code", [decode_case(r) for _ in range(n)], shard=400)


def suites(tier):
    return [suite_payload(tier), suite_decode(tier)]


# ----------------------------------------------------------------------------- findings / replay

def classify(suite, desc):
    return None


def replay_finding(f):
    return None


def shrink(suite, desc):
    """drop values one at a time while the case still fails its Coq check"""
    if suite != "payload":
        return desc
    from lib import coqrun
    vals = [tuple(v) for v in desc["values"]]
    bo, wo = desc["byteorder"], desc["wordorder"]

    def fails(vs):
        c = payload_case(bo, wo, vs)
        res = coqrun.eval_cases("C19_shrink", IMPORTS, "chk_payload code", [c.term])
        return bool(res["propfail"])
    changed = True
    while changed and len(vals) > 1:
        changed = False
        for i in range(len(vals)):
            cand = vals[:i] + vals[i + 1:]
            if fails(cand):
                vals, changed = cand, True
                break
    return payload_case(bo, wo, vals).desc


def replay_case(suite, desc):
    import json
    from lib import coqrun
    print(json.dumps(desc)[:2000])
    if suite == "payload":
        vals = [tuple(v) for v in desc["values"]]
        reuse = desc.get("reused_builder", False)
        if reuse:
            # the builder's previous payload: as many fields of the same types, other values
            prev = [(k, [1 - b for b in x]) if k == "Bits" else (k, [(c + 1) % 256 for c in x]) if k == "Str"
                    else (k, x ^ 1) for k, x in vals]
            payload_case(desc["byteorder"], desc["wordorder"], prev, repack=desc.get("repack", False), reuse=True)
        c = payload_case(desc["byteorder"], desc["wordorder"], vals, repack=desc.get("repack", False), reuse=reuse)
        res = coqrun.eval_cases("C19_replay", IMPORTS, "chk_payload code", [c.term])
        print("now:", c.desc["impl"], res)
        return bool(res["propfail"] or res["errors"])
    print("suite %s has no property oracle (model agreement only); re-run ./check C19" % suite)
    return True


MANIFEST = {
    "text": ("Universally quantified Coq theorems (Props/C19.v: 17, all closed under the global context; Props/C19_floats.v: the "
             "Flocq float-value corollary, with the classical axioms of the real-number library) about the payload "
             "model instantiated with the tables and constants regenerated from payload.py / constants.py on every "
             "run: for every sequence of typed values over the full range of each type (any length, no bound), every "
             "byte-order x word-order pair, the decoder configured with the same orders returns exactly the values "
             "that were added and ends at the end of the payload, both on the raw payload and through "
             "to_registers -> fromRegisters (odd lengths: the single zero pad byte is proved irrelevant); the register "
             "image of every 2k-byte value is the conventional one (network order; word reversal; per-word byte swap); "
             "two's-complement lemmas for the signed types. The existing tests compare one fixed payload per byte "
             "order with a literal; the theorems cover the whole value x order product at once."),
    "note": ("Trusted: Coq kernel; the translator's shape matching; Struct.v's model of struct.pack/unpack and the hand "
             "model of pack_bitstring/unpack_bitstring and slicing, validated on every run by differential "
             "correspondence (vm_compute) against the real classes on generated sequences x 4 order pairs x "
             "bytes/registers/coils. Floats are IEEE bit patterns in the model; Python float <-> bits is outside it "
             "(the harness uses its own frexp/ldexp codec; NaN not exercised)."),
    "design_ref": "DESIGN.md section 8 (C19)",
}
