(* WaitData_proofs.v — termination, bound and result of the serial client's polling loop. *)
From Coq Require Import ZArith List Bool Lia ZifyBool.
From PM.theories Require Import Base WaitData.
From PM.Generated Require Import GenWaitData.
Open Scope Z_scope.
Ltac Zify.zify_post_hook ::= Z.to_euclidean_division_equations.

Lemma code_is_spec : GenWaitData.code = spec_code.
Proof. reflexivity. Qed.

Section Loop.
  Variable obs : nat -> Z.
  Local Notation C := spec_code.

  (* invariant along the loop: elapsed = k * sleep *)
  Lemma wait_loop_bounded : forall fuel t k size more,
    0 <= t ->
    (Z.to_nat (t / 10000 + 2 - Z.of_nat k) <= fuel)%nat ->
    Z.of_nat k <= t / 10000 + 1 ->
    exists s n, wait_loop C fuel (Some t) obs k (Z.of_nat k * 10000) size more = Some (s, n) /\
                (k <= n)%nat /\ Z.of_nat n <= t / 10000 + 1.
  Proof.
    induction fuel as [|f IH]; intros t k size more Ht Hf Hk.
    - exfalso. lia.
    - cbn [wait_loop]. unfold cond. cbn [wc_le C spec_code].
      destruct (Z.of_nat k * 10000 <=? t) eqn:E; cbn [negb].
      + destruct (beval (wc_break spec_code) more (obs k) size) eqn:Eb.
        * exists size, (S k). split; [reflexivity|]. split; [lia|]. lia.
        * cbn [wc_sleep_us spec_code].
          replace (Z.of_nat k * 10000 + 10000) with (Z.of_nat (S k) * 10000) by lia.
          destruct (IH t (S k) (if beval (wc_update spec_code) more (obs k) size then obs k else size)
                       (if beval (wc_update spec_code) more (obs k) size then true else more) Ht) as [s [n [H1 [H2 H3]]]].
          -- lia.
          -- lia.
          -- exists s, n. split; [exact H1|]. split; lia.
      + exists size, k. split; [reflexivity|]. split; lia.
  Qed.

  (* with a non-zero timeout the loop ends, whatever the line does, after at most timeout/sleep + 1 polls *)
  Theorem wait_terminates : forall t, 0 <= t ->
    exists s n, wait_for_data C (Z.to_nat (t / 10000 + 2)) (Some t) obs = Some (s, n) /\
                Z.of_nat n <= max_polls C t.
  Proof.
    intros t Ht. unfold wait_for_data.
    destruct (wait_loop_bounded (Z.to_nat (t / 10000 + 2)) t 0 0 false Ht) as [s [n [H1 [_ H3]]]].
    - cbn. lia.
    - cbn. lia.
    - exists s, n. split; [exact H1|]. unfold max_polls. cbn [wc_sleep_us C spec_code]. exact H3.
  Qed.

  (* more fuel changes nothing once the loop has ended *)
  Lemma wait_loop_fuel_mono : forall fuel timeout k el size more r,
    wait_loop C fuel timeout obs k el size more = Some r ->
    forall fuel', (fuel <= fuel')%nat -> wait_loop C fuel' timeout obs k el size more = Some r.
  Proof.
    induction fuel as [|f IH]; intros timeout k el size more r H fuel' Hle; [discriminate|].
    destruct fuel' as [|f']; [lia|]. cbn [wait_loop] in *.
    destruct (negb (cond C timeout el)); [exact H|].
    destruct (beval (wc_break C) more (obs k) size); [exact H|].
    apply IH; [exact H | lia].
  Qed.

  (* the size handed to socket.read is 0 or a value in_waiting really showed at some poll *)
  Lemma wait_loop_observed : forall fuel timeout k el size more s n,
    wait_loop C fuel timeout obs k el size more = Some (s, n) ->
    (size = 0 \/ exists j, (j < k)%nat /\ size = obs j) ->
    s = 0 \/ exists j, (j < n)%nat /\ s = obs j.
  Proof.
    induction fuel as [|f IH]; intros timeout k el size more s n H Hs; [discriminate|].
    cbn [wait_loop] in H.
    destruct (negb (cond C timeout el)).
    - inversion H; subst. exact Hs.
    - destruct (beval (wc_break C) more (obs k) size).
      + inversion H; subst. destruct Hs as [Hs|[j [Hj Hs]]]; [left; exact Hs | right; exists j; split; [lia | exact Hs]].
      + apply IH in H; [exact H|].
        destruct (beval (wc_update C) more (obs k) size).
        * right. exists k. split; [lia | reflexivity].
        * destruct Hs as [Hs|[j [Hj Hs]]]; [left; exact Hs | right; exists j; split; [lia | exact Hs]].
  Qed.

  Theorem wait_result_observed : forall fuel timeout s n,
    wait_for_data C fuel timeout obs = Some (s, n) ->
    s = 0 \/ exists j, (j < n)%nat /\ s = obs j.
  Proof. intros fuel timeout s n H. apply (wait_loop_observed _ _ _ _ _ _ _ _ H). left. reflexivity. Qed.

End Loop.

(* a silent line and no timeout (None or 0): the loop never ends — F-C13-serial-timeout0-wait-for-data-hangs *)
Theorem wait_unbounded_silent_never_returns : forall fuel,
  wait_for_data spec_code fuel None (fun _ => 0) = None.
Proof.
  intros fuel. unfold wait_for_data.
  assert (H : forall f k el, wait_loop spec_code f None (fun _ => 0) k el 0 false = None).
  { induction f as [|f IH]; intros k el; [reflexivity|]. cbn. apply IH. }
  apply H.
Qed.

(* data that arrives and then stops growing ends the wait at once, timeout or not: the reply of a
   healthy slave (first poll empty, then n bytes, then still n bytes) is read as n bytes after 3 polls *)
Theorem wait_stable_data_returns : forall timeout n, 0 < n ->
  (match timeout with Some t => 20000 <= t | None => True end) ->
  wait_for_data spec_code 4 timeout (fun k => match k with O => 0 | _ => n end) = Some (n, 3%nat).
Proof.
  intros timeout n Hn Ht. unfold wait_for_data. cbn [wait_loop].
  assert (Hc : forall e, 0 <= e <= 20000 -> cond spec_code timeout e = true).
  { intros e He. unfold cond. destruct timeout as [t|]; [|reflexivity]. cbn. lia. }
  rewrite (Hc 0) by lia. cbn [negb]. cbn [beval wc_break wc_update spec_code andb orb negb].
  replace (0 =? 0) with true by reflexivity. cbn [negb andb orb].
  cbn [wc_sleep_us spec_code]. rewrite (Hc (0 + 10000)) by lia. cbn [negb].
  replace (n =? 0) with false by lia. cbn [negb andb orb].
  rewrite (Hc (0 + 10000 + 10000)) by lia. cbn [negb].
  replace (n =? n) with true by lia. cbn [negb andb orb]. reflexivity.
Qed.
