(* Exec_fault_proofs.v — part 4: datastores that raise.
   [faulty_ops] makes the k-th datastore call (validate / getValues / setValues) raise when
   the k-th entry of the plan is [true].  The theorems hold for EVERY script (they are
   about the interpreter and the server wrapper: an exception is never caught inside
   execute, the wrapper turns it into doException(SlaveFailure)); the exception code and
   the fc|0x80 expression are the generated ones. *)
From PM.theories Require Import Base Expr Store Exec ExecSpec ExecView.
From PM.Generated Require Import GenStore GenExec.
From PM.proofs Require Import Store_proofs Exec_proofs Exec_req_proofs Exec_hist_proofs.
Open Scope string_scope.
Open Scope list_scope.
Open Scope Z_scope.

Definition faulty : ctxops fstore := faulty_ops SC.

Definition any_true (l : list bool) : bool := existsb (fun b => b) l.

(* what a faulty run is, relative to the fault-free run on the same store *)
Definition fault_spec (st st' : fstore) (out : res rsp) (stdres : slavectx * res rsp) : Prop :=
  exists used, fs_plan st = used ++ fs_plan st' /\
    (any_true used = true -> out = Raise OtherExc) /\
    (any_true used = false -> stdres = (fs_ctx st', out)) /\
    (forall p, fs_plan st = true :: p -> fs_ctx st' = fs_ctx st).

Lemma fault_spec_nocall st out : fault_spec st st out (fs_ctx st, out).
Proof.
  exists []. split; [reflexivity|]. split; [discriminate|]. split; [reflexivity|]. reflexivity.
Qed.

(* one non-faulting call [false :: t] (or an exhausted plan) followed by a run that satisfies the spec *)
Lemma fault_spec_step c t st' out stdres :
  fault_spec {| fs_ctx := c; fs_plan := t |} st' out stdres ->
  forall c0, fault_spec {| fs_ctx := c0; fs_plan := false :: t |} st' out stdres.
Proof.
  intros (used & Hp & H1 & H2 & _) c0. exists (false :: used). cbn [fs_plan app] in *.
  split; [rewrite Hp; reflexivity|]. split; [exact H1|]. split; [exact H2|]. intros p Hd. discriminate Hd.
Qed.

Lemma fault_spec_nil c st' out stdres :
  fault_spec {| fs_ctx := c; fs_plan := [] |} st' out stdres ->
  forall c0, fault_spec {| fs_ctx := c0; fs_plan := [] |} st' out stdres.
Proof.
  intros (used & Hp & H1 & H2 & _) c0. exists used. cbn [fs_plan] in *.
  split; [exact Hp|]. split; [exact H1|]. split; [exact H2|]. intros p Hd. discriminate Hd.
Qed.

Lemma fault_spec_now c t stdres :
  fault_spec {| fs_ctx := c; fs_plan := true :: t |} {| fs_ctx := c; fs_plan := t |} (Raise OtherExc) stdres.
Proof.
  exists [true]. split; [reflexivity|]. split; [reflexivity|]. split; [discriminate|]. reflexivity.
Qed.

Theorem run_faulty : forall sc r st sl ll,
  fault_spec st (fst (run XC faulty sc r st sl ll)) (snd (run XC faulty sc r st sl ll))
             (run XC std sc r (fs_ctx st) sl ll).
Proof.
  induction sc as [|s k IH]; intros r st sl ll.
  - cbn. apply fault_spec_nocall.
  - destruct s; cbn [run].
    + apply IH.
    + destruct (beval (req_env r sl) c); [apply fault_spec_nocall|apply IH].
    + destruct st as [c [|[|] t]]; cbn [faulty faulty_ops std std_ops o_validate fault_pop fs_plan fs_ctx].
      * destruct (cx_validate SC c _ _ _) as [[|]|]; cbn [fst snd]; try apply fault_spec_nocall.
        apply (IH r {| fs_ctx := c; fs_plan := [] |}).
      * apply fault_spec_now.
      * destruct (cx_validate SC c _ _ _) as [[|]|]; cbn [fst snd];
          try (apply (fault_spec_step c t); apply fault_spec_nocall).
        apply (fault_spec_step c t). apply (IH r {| fs_ctx := c; fs_plan := t |}).
    + destruct st as [c [|[|] t]]; cbn [faulty faulty_ops std std_ops o_get fault_pop fs_plan fs_ctx].
      * destruct (cx_get SC c _ _ _); cbn [fst snd]; try apply fault_spec_nocall.
        apply (IH r {| fs_ctx := c; fs_plan := [] |}).
      * apply fault_spec_now.
      * destruct (cx_get SC c _ _ _); cbn [fst snd];
          try (apply (fault_spec_step c t); apply fault_spec_nocall).
        apply (fault_spec_step c t). apply (IH r {| fs_ctx := c; fs_plan := t |}).
    + destruct st as [c [|[|] t]]; cbn [faulty faulty_ops std std_ops o_get fault_pop fs_plan fs_ctx].
      * destruct (cx_get SC c _ _ _) as [[|h l]|]; cbn [fst snd]; try apply fault_spec_nocall.
        apply (IH r {| fs_ctx := c; fs_plan := [] |}).
      * apply fault_spec_now.
      * destruct (cx_get SC c _ _ _) as [[|h l]|]; cbn [fst snd];
          try (apply (fault_spec_step c t); apply fault_spec_nocall).
        apply (fault_spec_step c t). apply (IH r {| fs_ctx := c; fs_plan := t |}).
    + destruct (eval_lexpr r sl ll vs) as [l|e]; [|apply fault_spec_nocall].
      destruct st as [c [|[|] t]]; cbn [faulty faulty_ops std std_ops o_set fault_pop fs_plan fs_ctx].
      * destruct (cx_set SC c _ _ _) as [c'|]; cbn [fst snd]; try apply fault_spec_nocall.
        apply (fault_spec_nil c'). apply (IH r {| fs_ctx := c'; fs_plan := [] |}).
      * apply fault_spec_now.
      * destruct (cx_set SC c _ _ _) as [c'|]; cbn [fst snd];
          try (apply (fault_spec_step c t); apply fault_spec_nocall).
        apply (fault_spec_step c' t). apply (IH r {| fs_ctx := c'; fs_plan := t |}).
    + destruct (eval_rargs r sl ll args); apply fault_spec_nocall.
Qed.

(* the server-level statement *)
Theorem datastore_failure c plan r st' o :
  serve XC faulty {| fs_ctx := c; fs_plan := plan |} r = (st', o) ->
  exists used, plan = used ++ fs_plan st' /\
    (* a datastore call raised  =>  exception 04 carrying fc | 0x80 *)
    (any_true used = true -> o = Exc (Z.lor (r_fc r) 128) 4) /\
    (* no datastore call raised  =>  exactly the fault-free behaviour *)
    (any_true used = false -> serve XC std c r = (fs_ctx st', o)) /\
    (* the very first datastore call raised  =>  the store is untouched *)
    (forall p, plan = true :: p -> fs_ctx st' = c).
Proof.
  unfold serve. destruct (dispatch XC (r_fc r)) as [cls sc| |].
  - unfold run_script.
    pose proof (run_faulty sc r {| fs_ctx := c; fs_plan := plan |} [] []) as (used & Hp & H1 & H2 & H3).
    destruct (run XC faulty sc r {| fs_ctx := c; fs_plan := plan |} [] []) as [st1 out].
    cbn [fst snd fs_plan fs_ctx] in *. intros Hs.
    exists used. destruct out as [rp|e]; injection Hs as <- <-.
    + split; [exact Hp|]. split; [intros Hu; specialize (H1 Hu); discriminate H1|].
      split; [intros Hu; rewrite (H2 Hu); reflexivity|exact H3].
    + split; [exact Hp|]. split; [intros _; reflexivity|].
      split; [intros Hu; rewrite (H2 Hu); reflexivity|exact H3].
  - intros Hs. injection Hs as <- <-. exists []. cbn. split; [reflexivity|]. split; [discriminate|]. split; reflexivity.
  - intros Hs. injection Hs as <- <-. exists []. cbn. split; [reflexivity|]. split; [discriminate|]. split; reflexivity.
Qed.

(* refutation of "exception => nothing changed" for a failure AFTER the write: FC5 on a coil
   that is ON, value OFF, the third datastore call (the read-back getValues) raises:
   exception 04, and the coil is now OFF *)
Theorem failure_after_write_refuted :
  let r := req_of (WWriteCoil 0 0) in
  let '(st', o) := serve XC faulty {| fs_ctx := ctx1 1; fs_plan := [false; false; true] |} r in
  o = Exc 133 4 /\ cx_get SC (ctx1 1) 1 0 1 = Ok [1] /\ cx_get SC (fs_ctx st') 1 0 1 = Ok [0].
Proof. vm_compute. repeat split. Qed.
