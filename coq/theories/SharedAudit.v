(* SharedAudit.v — the audited inventory of state shared between instances or calls.

   All models of this development treat Python objects as independent values.  Generated/GenShared.v
   lists every place in the anchored sources where that could be false (class-level mutable
   attributes, mutable parameter defaults, module-level mutable objects, `global` rebinding, writes
   to class attributes from methods).  Each entry below was read against the source and is either
   never mutated, or process-wide BY DESIGN and modelled as such (the harness resets it between
   cases).  Anything not listed here makes Props/Cxx_shared.v fail for the properties anchored in
   the file: the property is then no longer shown for a tree whose instances may share state. *)
From PM.theories Require Import Base.
Open Scope string_scope.
Open Scope list_scope.

Definition entry := (string * string * string * string)%type.

Definition audited : list entry :=
  [ (* read-only table of lambdas over the identity, consulted by DeviceInformationFactory.get (pinned by gen_devinfo) *)
    ("pymodbus/device.py", "DeviceInformationFactory", "__lookup", "class-attr");
    (* network-management access list of the process-wide control block; no property reads it *)
    ("pymodbus/device.py", "ModbusAccessControl", "__nmstable", "class-attr");
    (* event log of the ModbusControlBlock SINGLETON: process-wide by design, modelled so in ExecOther.v, reset by the harness *)
    ("pymodbus/device.py", "ModbusControlBlock", "__events", "class-attr");
    (* counters of the control-block singleton (template dict copied in __init__; names read-only) *)
    ("pymodbus/device.py", "ModbusCountersHandler", "__data", "class-attr");
    ("pymodbus/device.py", "ModbusCountersHandler", "__names", "class-attr");
    (* the device identity is ONE class-level dict shared by all ModbusDeviceIdentification instances: process-wide,
       modelled as a single identity in DevInfo.v; the C12/C20 harnesses record update() calls instead of values *)
    ("pymodbus/device.py", "ModbusDeviceIdentification", "__data", "class-attr");
    ("pymodbus/device.py", "ModbusDeviceIdentification", "__names", "class-attr");
    (* Modbus Plus statistics template of the control-block singleton *)
    ("pymodbus/device.py", "ModbusPlusStatistics", "__data", "class-attr");
    (* the decoders' class tables are lists of classes only READ by __init__, which builds per-instance dictionaries
       (GenWiring.decoder_facts, C12_custom_functions_stay_local) *)
    ("pymodbus/factory.py", "ClientDecoder", "__function_table", "class-attr");
    ("pymodbus/factory.py", "ClientDecoder", "__sub_function_table", "class-attr");
    ("pymodbus/factory.py", "ServerDecoder", "__function_table", "class-attr");
    ("pymodbus/factory.py", "ServerDecoder", "__sub_function_table", "class-attr");
    (* function code -> table name; written only by ModbusSlaveContext.register for CUSTOM codes, the ten data-access
       codes are pre-filled and never rebound (GenTables.fx_mapper is the constant the models use) *)
    ("pymodbus/interfaces.py", "IModbusSlaveContext", "__fx_mapper", "class-attr");
    (* Singleton.__new__ : the ModbusControlBlock singleton itself *)
    ("pymodbus/interfaces.py", "cls", "_inst", "class-write");
    (* read-only width table of the payload builder/decoder (GenPayload) *)
    ("pymodbus/payload.py", "<module>", "WC", "module-attr");
    (* custom_functions=[] : only iterated, never mutated (GenWiring pins the loop) *)
    ("pymodbus/server/async_io.py", "StartSerialServer", "custom_functions", "mutable-default");
    ("pymodbus/server/async_io.py", "StartTcpServer", "custom_functions", "mutable-default");
    ("pymodbus/server/async_io.py", "StartTlsServer", "custom_functions", "mutable-default");
    ("pymodbus/server/async_io.py", "StartUdpServer", "custom_functions", "mutable-default");
    ("pymodbus/server/asynchronous.py", "StartSerialServer", "custom_functions", "mutable-default");
    ("pymodbus/server/asynchronous.py", "StartTcpServer", "custom_functions", "mutable-default");
    ("pymodbus/server/asynchronous.py", "StartUdpServer", "custom_functions", "mutable-default");
    ("pymodbus/server/sync.py", "StartSerialServer", "custom_functions", "mutable-default");
    ("pymodbus/server/sync.py", "StartTcpServer", "custom_functions", "mutable-default");
    ("pymodbus/server/sync.py", "StartTlsServer", "custom_functions", "mutable-default");
    ("pymodbus/server/sync.py", "StartUdpServer", "custom_functions", "mutable-default") ].

Definition entry_eqb (a b : entry) : bool :=
  let '(a1, a2, a3, a4) := a in let '(b1, b2, b3, b4) := b in
  String.eqb a1 b1 && String.eqb a2 b2 && String.eqb a3 b3 && String.eqb a4 b4.

Definition mem_entry (e : entry) (l : list entry) : bool := existsb (entry_eqb e) l.

Fixpoint mem_str (k : string) (l : list string) : bool :=
  match l with [] => false | h :: t => if String.eqb h k then true else mem_str k t end.

Fixpoint assoc_files (pid : string) (l : list (string * list string)) : list string :=
  match l with [] => [] | (p, fs) :: t => if String.eqb p pid then fs else assoc_files pid t end.

(* the files property pid leans on: its anchors and the common base modules *)
Definition relevant (A : list (string * list string)) (common : list string) (pid : string) (e : entry) : bool :=
  let '(f, _, _, _) := e in mem_str f (assoc_files pid A) || mem_str f common.

Definition unaudited_for (S : list entry) (A : list (string * list string)) (common : list string) (pid : string) : list entry :=
  filter (fun e => relevant A common pid e && negb (mem_entry e audited)) S.
