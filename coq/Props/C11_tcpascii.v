(* Props/C11_tcpascii.v — C11 (resynchronisation, never deaf), ASCII framer (TCP is out of the
   property's scope).  [a_sync st]: empty buffer, cleared header. *)
From PM.theories Require Import Base Expr Struct FrBaseA Lrc FrAscii FrSpecA.
From PM.Generated Require Import GenFramerA.
From PM.proofs Require Import FrA_lrc_proofs FrA_ascii_proofs FrA_ascii_resync_proofs.
Open Scope list_scope.
Open Scope Z_scope.

(* from the synchronised state every read made of whole frames — one OR several per read, ANY mix
   of frames for served and for foreign units — delivers exactly the frames of the accepted units,
   raises nothing and leaves the receiver synchronised (backlog 0) *)
Theorem C11_after_sync_ascii : forall (dec : bytes -> dres) (c : cfg) (st : astate) (vs : list frame),
  a_sync st -> Forall (stream_frame KAscii dec c) vs ->
  exists st', a_recv base lrc ascii dec c st (concat (map (spec_adu KAscii) vs))
              = (st', ref_deliveries KAscii c vs, Done) /\ a_sync st'.
Proof. exact ascii_after_sync. Qed.
Print Assumptions C11_after_sync_ascii.

(* RECOVERY FROM AN ARBITRARY STATE (any buffered garbage, any header — in particular every
   reachable one): one read consisting of one or more valid frames either raises (exactly the
   open finding below: a valid-LRC frame in the garbage whose PDU the decoder rejects) or ends
   synchronised AND has delivered every one of those valid frames (garbage costs nothing but itself:
   since repair 11 not even a foreign-unit frame in the garbage loses the frames behind it);
   by C11_after_sync_ascii every later read is delivered completely as well. *)
Theorem C11_recover_ascii_partial : forall (dec : bytes -> dres) (c : cfg) (st : astate) (vs : list frame) st' ds o,
  vs <> [] -> Forall (valid_frame KAscii dec c) vs ->
  a_recv base lrc ascii dec c st (concat (map (spec_adu KAscii) vs)) = (st', ds, o) ->
  o = Done -> a_sync st' /\ exists ds0, ds = ds0 ++ map (spec_delivery KAscii) vs.
Proof. exact ascii_recover. Qed.
Print Assumptions C11_recover_ascii_partial.

(* with the serial handlers' reset-on-exception no hypothesis is left: from ANY state, after one
   read of valid frames the receiver is synchronised *)
Theorem C11_recover_ascii : forall (dec : bytes -> dres) (c : cfg) (st : astate) (vs : list frame),
  vs <> [] -> Forall (valid_frame KAscii dec c) vs ->
  a_sync (fst (fst (a_recv_h base lrc ascii dec c st (concat (map (spec_adu KAscii) vs))))).
Proof. exact ascii_recover_handler. Qed.
Print Assumptions C11_recover_ascii.

(* valid traffic cut anywhere: the backlog is always a proper prefix of one frame; stated through
   C06_ascii's chunking theorem: all frames delivered for every division into reads *)
Theorem C11_backlog_ascii : forall (dec : bytes -> dres) (c : cfg) (frames : list frame) (chunks : list bytes),
  Forall (stream_frame KAscii dec c) frames ->
  concat chunks = concat (map (spec_adu KAscii) frames) ->
  exists s', feed (a_recv base lrc ascii dec c) (a_init ascii) chunks
             = (s', ref_deliveries KAscii c frames, true).
Proof. exact ascii_chunking. Qed.
Print Assumptions C11_backlog_ascii.

(* the scan loop terminates from ANY state on ANY input: the fuel S(length buffer) is never
   exhausted (each iteration consumes at least one byte) *)
Theorem C11_no_fuel_out_ascii : forall (dec : bytes -> dres) (c : cfg) (st : astate) (chunk : bytes) st' ds o,
  a_recv base lrc ascii dec c st chunk = (st', ds, o) -> o <> OutOfFuel.
Proof. exact ascii_recv_no_fuel_out. Qed.
Print Assumptions C11_no_fuel_out_ascii.

(* with the serial handlers' reset-on-exception, a call that raises leaves the receiver synchronised *)
Theorem C11_recover_ascii_handler : forall (dec : bytes -> dres) (c : cfg) (st : astate) (chunk : bytes) st' ds e,
  a_recv_h base lrc ascii dec c st chunk = (st', ds, Exc e) -> a_sync st'.
Proof. exact ascii_handler_resync. Qed.
Print Assumptions C11_recover_ascii_handler.

(* REFUTED at the bare framer (open finding F-C11-ascii-undecodable-frame-stuck): a frame with a
   valid LRC whose PDU the decoder rejects is never consumed; however many valid frames follow,
   one per read, nothing is ever delivered and every call raises *)
Definition C11_never_deaf_full_statement : Prop :=
  forall (dec : bytes -> dres) (c : cfg) (garbage : bytes) (v : frame), valid_frame KAscii dec c v ->
  exists n, snd (fst (feed (a_recv base lrc ascii dec c) (a_init ascii)
                           (garbage :: repeat (spec_adu KAscii v) n))) <> [].
Theorem C11_ascii_stuck_refuted : exists dec c garbage v,
  valid_frame KAscii dec c v /\
  forall n, snd (fst (feed (a_recv base lrc ascii dec c) (a_init ascii)
                           (garbage :: repeat (spec_adu KAscii v) n))) = [].
Proof.
  exists stuck_dec, stuck_cfg, stuck_bad, stuck_good. destruct ascii_stuck as (Hv & Hn).
  split; [exact Hv|]. intros n. rewrite (Hn n). reflexivity.
Qed.
Print Assumptions C11_ascii_stuck_refuted.

Example C11_nonvacuous :
  a_sync (a_init ascii) /\
  valid_frame KAscii (fun _ => DMsg 3) {| c_units := [1]; c_single := None |}
              {| f_tid := 0; f_pid := 0; f_uid := 1; f_pdu := [3%N; 0%N; 0%N; 0%N; 1%N] |}.
Proof. split; [split; reflexivity|repeat split; cbn; lia]. Qed.
