(* Props/C07_rtubin.v — C07, RTU / binary half: corrupted frames are never delivered.
   ONLY statements. *)
From PM.theories Require Import Base Expr Struct FrBCode Crc FrBCommon FrRtu FrBin FrSpecB.
From PM.Generated Require Import GenFramerB.
From PM.proofs Require Import Crc_proofs.
Open Scope list_scope.
Open Scope N_scope.

(* checkCRC accepts exactly the byte-swapped bitwise CRC-16/Modbus: the gate of both framers
   compares against the independent (spec) checksum, for every byte string *)
Theorem C07_check_is_bitwise_crc : forall bs k, wfb bs = true ->
  py_check_crc bs k = Ok (Z.of_N (swap16 (crc16_bitwise bs)) =? k)%Z.
Proof. exact py_check_crc_spec. Qed.
Print Assumptions C07_check_is_bitwise_crc.
