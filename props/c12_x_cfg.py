"""C12 add-on: configuration wiring (Props/C12_cfg.v) — see props/lib_wiring.py."""
from props import lib_wiring as W

GENERATORS = W.GENERATORS
PROP_FILES = ["C12_cfg"]
CASE_DEPS = W.CASE_DEPS
TRUSTED = W.TRUSTED
ASSUMPTIONS = W.ASSUMPTIONS
suites = W.suites
classify = W.classify
replay_case = W.replay_case
extra_checks = W.extra_checks

MANIFEST_ADD = {"text": "Add-on Props/C12_cfg.v: C12_entry_point_serves_user_value / C12_constructor_serves_user_value (every role the handlers read - context, framer, handler class, flags, identity - from every factory and constructor, with Python's `or` taken literally), C12_custom_functions_stay_local (custom functions are registered on the built server's decoder; both decoders build their lookup tables per instance), C12_entry_points_covered; python-side: two servers in one process, a custom function registered on one, its frame sent to the other (IllegalFunction, store untouched).",
                "note": "Python's keyword binding, kwargs.pop and truthiness are hand-modelled in Wiring.v and tied by correspondence."}
