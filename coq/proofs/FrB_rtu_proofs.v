(* FrB_rtu_proofs.v — lemmas about the RTU framer model (theories/FrRtu.v) instantiated
   with the regenerated constants: closed forms of the generated expressions, Python
   slicing facts, the size oracle's lower bound, buildPacket = spec ADU, the delivery
   gate, whole-frame delivery, chunked delivery and resynchronisation. *)
From Coq Require Import ZifyBool.
From PM.theories Require Import Base Expr Struct FrBCode Crc FrBCommon FrRtu FrSpecB.
From PM.Generated Require Import GenFramerB.
From PM.proofs Require Import Struct_proofs Crc_proofs.
Open Scope list_scope.
Open Scope Z_scope.

Ltac Zify.zify_post_hook ::= Z.to_euclidean_division_equations.

(* ------------------------------------------------------------------ closed forms of the generated data
   (these are the lemmas that stop compiling when rtu_framer.py / utilities.py change a
   slice bound, a comparison or a constant) *)

Lemma rc_ready_closed n :
  beval (env_of [("len(self._buffer)"%string, n); ("self._hsize"%string, rc_hsize rtu)]) (rc_ready rtu) = (n >? 1).
Proof. unfold beval. cbn. destruct (n >? 1); reflexivity. Qed.

Lemma rc_ready2_closed n l :
  beval (env_of [("len(self._buffer)"%string, n); ("self._header['len']"%string, l)]) (rc_ready2 rtu) = (n >=? l).
Proof. unfold beval. cbn. destruct (n >=? l); reflexivity. Qed.

Lemma rc_chk_data_hi_closed f : e1 "frame_size" f (rc_chk_data_hi rtu) = f - 2. Proof. reflexivity. Qed.
Lemma rc_chk_crc_lo_closed f : e1 "frame_size" f (rc_chk_crc_lo rtu) = f - 2. Proof. reflexivity. Qed.
Lemma rc_chk_crc_hi_closed f : e1 "frame_size" f (rc_chk_crc_hi rtu) = f. Proof. reflexivity. Qed.
Lemma rc_chk_crc_val_closed a b :
  eval (env_of [("byte2int(crc[0])"%string, a); ("byte2int(crc[1])"%string, b)]) (rc_chk_crc_val rtu) = Z.shiftl a 8 + b.
Proof. reflexivity. Qed.
Lemma rc_get_start_closed : e1 "self._hsize" (rc_hsize rtu) (rc_get_start rtu) = 1. Proof. reflexivity. Qed.
Lemma rc_get_end_closed l : e1 "self._header['len']" l (rc_get_end rtu) = l - 2. Proof. reflexivity. Qed.
Lemma rc_get_cond_closed e : beval (env_of [("end"%string, e)]) (rc_get_cond rtu) = (e >? 0).
Proof. unfold beval. cbn. destruct (e >? 0); reflexivity. Qed.
Lemma rc_adv_closed l : e1 "self._header['len']" l (rc_adv rtu) = l. Proof. reflexivity. Qed.
Lemma cc_rtu_size_closed b p :
  eval (env_of [("byte2int(data[byte_count_pos])"%string, b); ("byte_count_pos"%string, p)]) (cc_rtu_size GenFramerB.crc) = b + p + 3.
Proof. reflexivity. Qed.
Lemma rc_fmts : rc_hdr_fmt rtu = ">BB"%string /\ rc_crc_fmt rtu = ">H"%string.
Proof. split; reflexivity. Qed.

(* ------------------------------------------------------------------ lists and Python slices *)

Lemma zlen_app {A} (a b : list A) : zlen (a ++ b) = zlen a + zlen b.
Proof. unfold zlen. rewrite app_length. lia. Qed.

Lemma zlen_nonneg {A} (a : list A) : 0 <= zlen a.
Proof. unfold zlen. lia. Qed.

Lemma firstn_app_exact {A} (a b : list A) n : n = length a -> firstn n (a ++ b) = a.
Proof. intros ->. rewrite firstn_app, Nat.sub_diag, firstn_all. cbn. apply app_nil_r. Qed.

Lemma skipn_app_exact {A} (a b : list A) n : n = length a -> skipn n (a ++ b) = b.
Proof. intros ->. rewrite skipn_app, Nat.sub_diag, skipn_all. reflexivity. Qed.

(* l[a:b] of x ++ y ++ z with |x| = a, |x ++ y| = b *)
Lemma pyslice_mid {A} (x y z : list A) a b :
  a = zlen x -> b = zlen x + zlen y ->
  pyslice (x ++ y ++ z) (Some a) (Some b) = y.
Proof.
  intros -> ->. unfold pyslice, norm_idx.
  pose proof (zlen_nonneg x). pose proof (zlen_nonneg y). pose proof (zlen_nonneg z).
  fold (zlen (x ++ y ++ z)). rewrite !zlen_app.
  replace (zlen x <? 0) with false by lia. replace (zlen x + zlen y <? 0) with false by lia.
  rewrite !Z.min_l by lia.
  rewrite skipn_app_exact by (unfold zlen; lia).
  apply firstn_app_exact. unfold zlen. lia.
Qed.

Lemma pyslice_prefix {A} (x z : list A) b : b = zlen x -> pyslice (x ++ z) None (Some b) = x.
Proof.
  intros ->. unfold pyslice, norm_idx. pose proof (zlen_nonneg x). pose proof (zlen_nonneg z).
  fold (zlen (x ++ z)). rewrite zlen_app.
  replace (zlen x <? 0) with false by lia. rewrite Z.min_l by lia.
  cbn [Z.to_nat skipn]. apply firstn_app_exact. unfold zlen. lia.
Qed.

Lemma pyslice_suffix {A} (x z : list A) a : a = zlen x -> pyslice (x ++ z) (Some a) None = z.
Proof.
  intros ->. unfold pyslice, norm_idx. pose proof (zlen_nonneg x). pose proof (zlen_nonneg z).
  fold (zlen (x ++ z)). rewrite zlen_app.
  replace (zlen x <? 0) with false by lia. rewrite Z.min_l by lia.
  rewrite skipn_app_exact by (unfold zlen; lia).
  apply firstn_all2. unfold zlen. lia.
Qed.

(* a slice [a:b] with 0 <= a that has at least b - a elements: the list is long enough and
   splits around the slice *)
Lemma pyslice_full {A} (l : list A) a b :
  0 <= a <= b -> Z.of_nat (length (pyslice l (Some a) (Some b))) >= b - a -> b - a > 0 ->
  exists x y z, l = x ++ y ++ z /\ zlen x = a /\ zlen y = b - a /\ pyslice l (Some a) (Some b) = y.
Proof.
  intros Hab Hlen Hpos.
  assert (Hb : b <= zlen l).
  { unfold pyslice, norm_idx in Hlen. fold (zlen l) in Hlen.
    replace (a <? 0) with false in Hlen by lia. replace (b <? 0) with false in Hlen by lia.
    rewrite firstn_length, skipn_length in Hlen. unfold zlen in *. lia. }
  exists (firstn (Z.to_nat a) l), (firstn (Z.to_nat (b - a)) (skipn (Z.to_nat a) l)),
         (skipn (Z.to_nat (b - a)) (skipn (Z.to_nat a) l)).
  assert (Hx : zlen (firstn (Z.to_nat a) l) = a) by (unfold zlen in *; rewrite firstn_length; lia).
  assert (Hy : zlen (firstn (Z.to_nat (b - a)) (skipn (Z.to_nat a) l)) = b - a)
    by (unfold zlen in *; rewrite firstn_length, skipn_length; lia).
  assert (Hl : l = firstn (Z.to_nat a) l ++ firstn (Z.to_nat (b - a)) (skipn (Z.to_nat a) l)
                   ++ skipn (Z.to_nat (b - a)) (skipn (Z.to_nat a) l))
    by (rewrite (firstn_skipn (Z.to_nat (b - a))), firstn_skipn; reflexivity).
  split; [exact Hl|]. split; [exact Hx|]. split; [exact Hy|].
  rewrite Hl at 1. apply pyslice_mid; lia.
Qed.

Lemma py_index_nth {A} (l : list A) i x : py_index l i = Ok x -> 0 <= i ->
  nth_error l (Z.to_nat i) = Some x /\ i < zlen l.
Proof.
  unfold py_index. intros H Hi. fold (zlen l) in H.
  replace (i <? 0) with false in H by lia.
  destruct ((i <? 0) || (zlen l <=? i))%bool eqn:E; [discriminate|].
  destruct (nth_error l (Z.to_nat i)) eqn:N; [|discriminate]. inversion H. subst. split; [reflexivity|lia].
Qed.

Lemma py_index_app_head {A} (x : A) (t : list A) : py_index (x :: t) 0 = Ok x.
Proof. unfold py_index. cbn [length]. replace (0 <? 0) with false by lia.
  replace ((0 <? 0) || (Z.of_nat (S (length t)) <=? 0))%bool with false by lia. reflexivity. Qed.

Lemma py_index_ok {A} (l : list A) i x : 0 <= i -> nth_error l (Z.to_nat i) = Some x -> py_index l i = Ok x.
Proof.
  intros Hi N. unfold py_index.
  assert (Z.to_nat i < length l)%nat by (apply nth_error_Some; congruence).
  replace (i <? 0) with false by lia.
  replace ((i <? 0) || (Z.of_nat (length l) <=? i))%bool with false by lia.
  rewrite N. reflexivity.
Qed.

Lemma py_index_short {A} (l : list A) i : zlen l <= i -> py_index l i = Raise IndexError.
Proof.
  intros H. unfold py_index. fold (zlen l). pose proof (zlen_nonneg l).
  replace (i <? 0) with false by lia.
  replace ((i <? 0) || (zlen l <=? i))%bool with true by lia. reflexivity.
Qed.

Lemma wfb_app a b : wfb (a ++ b) = wfb a && wfb b.
Proof. unfold wfb. apply forallb_app. Qed.

Lemma nth_error_wfb l i b : wfb l = true -> nth_error l i = Some b -> (b < 256)%N.
Proof.
  intros Hw Hn. apply nth_error_In in Hn. unfold wfb in Hw. rewrite forallb_forall in Hw.
  apply Hw in Hn. unfold byteb in Hn. lia.
Qed.

(* ------------------------------------------------------------------ the size oracle never returns less than 4
   (checked rule by rule on the regenerated tables of both decoders) *)

Definition rule_ge4 (r : size_rule) : bool :=
  match r with
  | RFixed n => 4 <=? n
  | RByteCount p => 1 <=? p
  | RFifo hi lo e => false           (* handled separately below *)
  | RMei start cnt step tail => (4 <=? start + tail) && (0 <=? step)
  | RNone => true
  end.

Lemma parse_BB : parse_fmt ">BB" = Some (true, [FB; FB]). Proof. reflexivity. Qed.
Lemma parse_B : parse_fmt ">B" = Some (true, [FB]). Proof. reflexivity. Qed.
Lemma parse_H : parse_fmt ">H" = Some (true, [FH]). Proof. reflexivity. Qed.

Lemma unpack_BB_nonneg bs l : unpack_s ">BB" bs = Ok l -> Forall (fun v => 0 <= v) l.
Proof.
  unfold unpack_s. rewrite parse_BB. unfold unpack.
  destruct (Nat.eqb (length bs) (fmt_size [FB; FB])) eqn:E; [|discriminate].
  intros H. inversion H. subst. clear H.
  destruct bs as [|a [|b [|c t]]]; cbn in E; try discriminate.
  cbn. repeat constructor; unfold unpack1, of_unsigned; cbn; lia.
Qed.

Lemma mei_loop_ge n : forall buffer size step r, 0 <= step ->
  mei_loop n buffer size step = Ok r -> size <= r.
Proof.
  induction n as [|n IH]; intros buffer size step r Hs H; cbn in H.
  - inversion H. lia.
  - destruct (unpack_s ">BB" (pyslice buffer (Some size) (Some (size + 2)))) as [l|] eqn:U; [|discriminate].
    cbn [bind] in H. apply unpack_BB_nonneg in U.
    destruct l as [|a [|b [|c t]]]; try discriminate.
    inversion U as [|? ? _ U']. inversion U' as [|? ? Hb _]. subst.
    apply IH in H; lia.
Qed.

Lemma frame_size_ge4 r data n : rule_ge4 r = true -> frame_size r data = Ok n -> 4 <= n.
Proof.
  destruct r as [k|p|hi lo e|start cnt step tail|]; cbn [rule_ge4 frame_size]; intros Hr H.
  - inversion H. lia.
  - destruct (py_index data p) as [b|] eqn:E; [|discriminate]. cbn [bind] in H.
    rewrite cc_rtu_size_closed in H. inversion H. unfold zb. lia.
  - discriminate.
  - destruct (py_index data cnt) as [c|]; [|discriminate]. cbn [bind] in H.
    destruct (mei_loop (N.to_nat c) data start step) as [s|] eqn:M; [|discriminate]. cbn [bind] in H.
    inversion H. apply mei_loop_ge in M; lia.
  - discriminate.
Qed.

(* semantic form, so that the one RFifo rule of the client table is covered too *)
Definition rule_sem (r : size_rule) : Prop := forall data n, frame_size r data = Ok n -> 4 <= n.

Lemma rule_sem_of_bool r : rule_ge4 r = true -> rule_sem r.
Proof. intros H data n. apply frame_size_ge4. exact H. Qed.

Lemma rule_sem_fifo hi lo s k : 0 <= s -> 4 <= k ->
  rule_sem (RFifo hi lo (EBin Add (EBin Add (EBin Shl (EAtom "hi_byte") (EInt s)) (EAtom "lo_byte")) (EInt k))).
Proof.
  intros Hs Hk data n H. cbn [frame_size] in H.
  destruct (py_index data hi) as [h|]; [|discriminate]. cbn [bind] in H.
  destruct (py_index data lo) as [l|]; [|discriminate]. cbn [bind] in H.
  cbn in H. inversion H.
  assert (0 <= Z.shiftl (zb h) s) by (apply Z.shiftl_nonneg; unfold zb; lia).
  unfold zb in *. lia.
Qed.

Definition rows_sem (dc : decoder_code) : Prop :=
  Forall (fun r => rule_sem (cr_rule r)) (dc_classes dc) /\ rule_sem (dc_default dc).

Lemma lookup_rows_sem rows fc : forall acc r,
  Forall (fun r => rule_sem (cr_rule r)) rows ->
  (forall a, acc = Some a -> rule_sem a) ->
  lookup_rows rows fc acc = Some r -> rule_sem r.
Proof.
  induction rows as [|row t IH]; intros acc r Hall Hacc H; cbn in *.
  - apply Hacc. exact H.
  - inversion Hall as [|? ? H1 H2]. subst.
    eapply IH; [exact H2| |exact H].
    intros a Ha. destruct (cr_fc row =? fc); [inversion Ha; subst; exact H1 | apply Hacc; exact Ha].
Qed.

Lemma lookup_rule_sem dc fc : rows_sem dc -> rule_sem (lookup_rule dc fc).
Proof.
  unfold rows_sem, lookup_rule. intros [H1 H2].
  destruct (lookup_rows (dc_classes dc) fc None) eqn:E; [|exact H2].
  eapply lookup_rows_sem; [exact H1| |exact E]. intros a Ha. discriminate.
Qed.

Ltac rule_tac := first [ apply rule_sem_of_bool; reflexivity | apply rule_sem_fifo; lia ].

Lemma tables_sem : rows_sem server_decoder /\ rows_sem client_decoder.
Proof. split; (split; [cbn [dc_classes server_decoder client_decoder]; repeat (constructor; [cbn [cr_rule]; rule_tac|]); constructor | cbn; rule_tac]). Qed.

(* a decoder table all of whose size rules return at least 4 (true of both regenerated tables and
   of any sub-table of them) *)
Definition known_rules (dc : decoder_code) : Prop := rows_sem dc.

Lemma known_server : known_rules server_decoder. Proof. exact (proj1 tables_sem). Qed.
Lemma known_client : known_rules client_decoder. Proof. exact (proj2 tables_sem). Qed.

Lemma size_ge4 dc fc data n : known_rules dc ->
  frame_size (lookup_rule dc fc) data = Ok n -> 4 <= n.
Proof. intros Hk H. eapply lookup_rule_sem; [exact Hk|exact H]. Qed.

(* ------------------------------------------------------------------ buildPacket *)

Lemma pack_BB u f : (u < 256)%N -> (f < 256)%N -> pack_s ">BB" [Z.of_N u; Z.of_N f] = Ok [u; f].
Proof.
  intros Hu Hf. unfold pack_s. rewrite parse_BB. cbn [pack].
  unfold pack1. cbn [fsigned fwidth].
  assert (Hr : forall x, (x < 256)%N -> in_range FB (Z.of_N x) = true)
    by (intros x Hx; unfold in_range; cbn; lia).
  rewrite !Hr by assumption. cbn [bind].
  unfold to_unsigned. replace (Z.of_N u <? 0) with false by lia. replace (Z.of_N f <? 0) with false by lia.
  cbn [le_bytes rev app].
  replace (Z.to_N (Z.of_N u mod 256)) with u by lia. replace (Z.to_N (Z.of_N f mod 256)) with f by lia.
  reflexivity.
Qed.

Lemma pack_H_swapped c : (c < 65536)%N ->
  pack_s ">H" [Z.of_N (swap16 c)] = Ok [crc_lo c; crc_hi c].
Proof.
  intros Hc. unfold pack_s. rewrite parse_H.
  rewrite swap16_bytes by exact Hc.
  pose proof (crc_lo_lt c). pose proof (crc_hi_lt c Hc).
  rewrite pack_H_be16 by lia. unfold be16.
  f_equal. f_equal; [|f_equal]; lia.
Qed.

(* buildPacket = unit + PDU + CRC-16 low byte first, for every unit id, function code, payload *)
Theorem rtu_build_spec uid fc data : (uid < 256)%N -> (fc < 256)%N -> wfb data = true ->
  rtu_build (Z.of_N uid) (Z.of_N fc) data = Ok (spec_adu_rtu uid (fc :: data)).
Proof.
  intros Hu Hf Hw. unfold rtu_build. destruct rc_fmts as [-> ->].
  rewrite pack_BB by assumption. cbn [bind app].
  assert (Hw' : wfb (uid :: fc :: data) = true).
  { cbn [wfb forallb]. fold (wfb data). rewrite Hw. unfold byteb. lia. }
  rewrite py_crc_bitwise by exact Hw'. cbn [bind].
  rewrite pack_H_swapped by (apply crc16_lt; exact Hw'). cbn [bind].
  reflexivity.
Qed.

Lemma rtu_build_bad_unit uid fc data : ~ (0 <= uid < 256) -> rtu_build uid fc data = Raise StructError.
Proof.
  intros H. unfold rtu_build. destruct rc_fmts as [-> _].
  unfold pack_s. rewrite parse_BB. cbn [pack]. unfold pack1.
  replace (in_range FB uid) with false by (unfold in_range; cbn; lia). reflexivity.
Qed.

(* ------------------------------------------------------------------ what checkFrame = True means *)

Lemma crc_val_bytes c0 c1 k : (c0 < 256)%N -> (c1 < 256)%N -> (k < 65536)%N ->
  (Z.of_N (swap16 k) =? Z.shiftl (zb c0) 8 + zb c1) = true -> k = (c0 + 256 * c1)%N.
Proof.
  intros H0 H1 Hk H. rewrite swap16_bytes in H by exact Hk.
  pose proof (crc_lo_lt k). pose proof (crc_hi_lt k Hk). pose proof (crc_lo_hi k Hk).
  rewrite Z.shiftl_mul_pow2 in H by lia. unfold zb in H. change (2 ^ 8) with 256 in H. lia.
Qed.

(* populateHeader succeeded *)
Lemma rtu_populate_ok cfg st st1 : rtu_populate cfg st = (st1, None) ->
  exists u fc size, py_index (r_buf st) 0 = Ok u /\ py_index (r_buf st) 1 = Ok fc /\
    frame_size (lookup_rule (cf_rules cfg) (zb fc)) (r_buf st) = Ok size /\
    r_buf st1 = r_buf st /\ h_uid (r_hdr st1) = Some (zb u) /\ h_len (r_hdr st1) = Some size.
Proof.
  unfold rtu_populate. intros H.
  destruct (py_index (r_buf st) 0) as [u|] eqn:E0; [|inversion H].
  destruct (py_index (r_buf st) 1) as [fc|] eqn:E1; [|inversion H].
  destruct (frame_size (lookup_rule (cf_rules cfg) (zb fc)) (r_buf st)) as [size|] eqn:Es; [|inversion H].
  inversion H. subst st1. exists u, fc, size. cbn [r_buf r_hdr h_uid h_len]. repeat split; auto.
Qed.

(* checkFrame returned True: the buffer starts with a frame whose (spec) CRC is right *)
Lemma rtu_check_true cfg st st2 : known_rules (cf_rules cfg) -> wfb (r_buf st) = true ->
  rtu_check cfg st = (st2, Ok true) ->
  exists u body c0 c1 rest,
    r_buf st = (u :: body) ++ [c0; c1] ++ rest /\ r_buf st2 = r_buf st /\
    h_uid (r_hdr st2) = Some (zb u) /\ h_len (r_hdr st2) = Some (zlen (u :: body) + 2) /\
    (1 <= length body)%nat /\
    crc16_bitwise (u :: body) = (c0 + 256 * c1)%N.
Proof.
  intros Hk Hw. unfold rtu_check, rtu_check_body.
  destruct (rtu_populate cfg st) as [st1 [e|]] eqn:P.
  { destruct (caught_by_check e); intros H; inversion H. }
  apply rtu_populate_ok in P. destruct P as (u & fc & size & I0 & I1 & Fs & Hb & Hu & Hl).
  rewrite Hl. rewrite rc_chk_data_hi_closed, rc_chk_crc_lo_closed, rc_chk_crc_hi_closed.
  pose proof (size_ge4 _ _ _ _ Hk Fs) as H4.
  destruct (py_index (pyslice (r_buf st1) (Some (size - 2)) (Some size)) 0) as [c0|] eqn:C0;
    [|destruct (caught_by_check _); intros H; inversion H].
  destruct (py_index (pyslice (r_buf st1) (Some (size - 2)) (Some size)) 1) as [c1|] eqn:C1;
    [|destruct (caught_by_check _); intros H; inversion H].
  rewrite rc_chk_crc_val_closed.
  apply py_index_nth in C1; [|lia]. destruct C1 as [N1 L1].
  apply py_index_nth in C0; [|lia]. destruct C0 as [N0 _].
  destruct (pyslice_full (r_buf st1) (size - 2) size) as (x & y & z & Hsplit & Hx & Hy & Hs);
    [lia | unfold zlen in L1; lia | lia |].
  rewrite Hs in N0, N1.
  destruct y as [|y0 [|y1 [|y2 y']]]; try (unfold zlen in Hy; cbn in Hy; lia).
  cbn in N0, N1. inversion N0. inversion N1. subst y0 y1. clear N0 N1.
  rewrite Hsplit at 1. rewrite (pyslice_prefix x ([c0; c1] ++ z)) by lia.
  rewrite Hb in Hsplit.
  assert (Hwx : wfb x = true /\ (c0 < 256)%N /\ (c1 < 256)%N).
  { rewrite Hsplit in Hw. rewrite wfb_app in Hw. apply andb_prop in Hw. destruct Hw as [Hw1 Hw2].
    cbn in Hw2. unfold byteb in Hw2. split; [exact Hw1|]. lia. }
  destruct Hwx as (Hwx & Hc0 & Hc1).
  rewrite py_check_crc_spec by exact Hwx.
  destruct (Z.of_N (swap16 (crc16_bitwise x)) =? Z.shiftl (zb c0) 8 + zb c1) eqn:K;
    intros H; inversion H. subst st2.
  apply crc_val_bytes in K; try assumption; [|apply crc16_lt; exact Hwx].
  destruct x as [|u' body].
  { unfold zlen in Hx. cbn in Hx. lia. }
  assert (u' = u).
  { rewrite Hsplit in I0. rewrite <- app_comm_cons in I0. rewrite py_index_app_head in I0. congruence. }
  subst u'.
  exists u, body, c0, c1, z. repeat split; try assumption.
  - rewrite Hl. f_equal. lia.
  - unfold zlen in Hx. cbn [length] in Hx. lia.
Qed.

(* ------------------------------------------------------------------ C07: the delivery gate *)

Lemma rtu_ready_buf cfg st : r_buf (fst (rtu_ready cfg st)) = r_buf st.
Proof.
  unfold rtu_ready.
  destruct (beval _ (rc_ready rtu)); [|reflexivity].
  destruct (hdr_is_empty (r_hdr st)).
  - unfold rtu_populate.
    destruct (py_index (r_buf st) 0) as [u|[]]; cbn; try reflexivity;
    try (destruct (h_len _); reflexivity);
    try (destruct (py_index (r_buf st) 1) as [fc|[]]; cbn; try reflexivity;
         try (destruct (frame_size _ _) as [sz|[]]; cbn; try reflexivity;
              try (destruct (hdr_is_empty _); [reflexivity|]; try (destruct (h_len _); reflexivity)))).
    all: try (destruct (hdr_is_empty _); [reflexivity|]; destruct (h_len _); reflexivity).
  - cbn. destruct (hdr_is_empty (r_hdr st)); [reflexivity|]. destruct (h_len (r_hdr st)); reflexivity.
Qed.

Lemma crc_split c0 c1 : (c0 < 256)%N -> (c1 < 256)%N ->
  crc_lo (c0 + 256 * c1) = c0 /\ crc_hi (c0 + 256 * c1) = c1.
Proof.
  intros H0 H1. unfold crc_lo, crc_hi. change 255%N with (N.ones 8).
  rewrite N.land_ones, N.shiftr_div_pow2. change (2 ^ 8)%N with 256%N. split; lia.
Qed.

Lemma crc_ok_app body lo hi : crc16_bitwise body = (lo + 256 * hi)%N -> crc_ok (body ++ [lo; hi]) = true.
Proof.
  intros H. unfold crc_ok. rewrite app_length. cbn [length].
  replace (length body + 2 - 2)%nat with (length body) by lia.
  rewrite skipn_app_exact, firstn_app_exact by reflexivity. rewrite H, N.eqb_refl.
  replace (2 <=? length body + 2)%nat with true by (symmetry; apply Nat.leb_le; lia). reflexivity.
Qed.

Lemma spec_rx_rtu_app u pdu c0 c1 : crc16_bitwise (u :: pdu) = (c0 + 256 * c1)%N -> (1 <= length pdu)%nat ->
  spec_rx_rtu ((u :: pdu) ++ [c0; c1]) = Some (pdu, u).
Proof.
  intros Hc Hl. unfold spec_rx_rtu. cbn [app].
  change (u :: pdu ++ [c0; c1]) with ((u :: pdu) ++ [c0; c1]). rewrite (crc_ok_app _ _ _ Hc).
  cbn [app length]. rewrite app_length. cbn [length].
  replace (4 <=? S (length pdu + 2))%nat with true by (symmetry; apply Nat.leb_le; lia).
  cbn [andb]. replace (length pdu + 2 - 2)%nat with (length pdu) by lia.
  rewrite firstn_app_exact by reflexivity. reflexivity.
Qed.

(* ------------------------------------------------------------------ one loop iteration after checkFrame = True *)

Lemma wfb_firstn n l : wfb l = true -> wfb (firstn n l) = true.
Proof. revert n. induction l as [|x t IH]; intros [|n] H; cbn in *; try reflexivity. apply andb_prop in H. destruct H as [H1 H2]. rewrite H1, IH by exact H2. reflexivity. Qed.

Lemma wfb_skipn n l : wfb l = true -> wfb (skipn n l) = true.
Proof. revert n. induction l as [|x t IH]; intros [|n] H; cbn in *; try reflexivity; try exact H. apply andb_prop in H. apply IH. tauto. Qed.

(* _process / advanceFrame on the state checkFrame leaves behind *)
Lemma rtu_process_spec cfg st2 u body c0 c1 rest :
  r_buf st2 = (u :: body) ++ [c0; c1] ++ rest -> h_uid (r_hdr st2) = Some (zb u) ->
  h_len (r_hdr st2) = Some (zlen (u :: body) + 2) -> (1 <= length body)%nat ->
  rtu_process cfg st2 =
    match cf_dec cfg body with
    | DMsg => ({| r_buf := rest; r_hdr := hdr_empty |}, [(body, zb u)], FOk)
    | DNone => (st2, [], FExn ModbusIOExc)
    | DRaise e => (st2, [], FExn e)
    | DMissing => (st2, [], FMissing)
    end /\
  rtu_advance st2 = {| r_buf := rest; r_hdr := hdr_empty |}.
Proof.
  intros Hb Hu Hl Hn.
  assert (A : rtu_advance st2 = {| r_buf := rest; r_hdr := hdr_empty |}).
  { unfold rtu_advance. rewrite Hl, rc_adv_closed, Hb. rewrite app_assoc.
    rewrite pyslice_suffix by (rewrite zlen_app; reflexivity). reflexivity. }
  split; [|exact A].
  unfold rtu_process, rtu_get_frame. rewrite Hl, rc_get_start_closed, rc_get_end_closed, rc_get_cond_closed.
  replace (zlen (u :: body) + 2 - 2) with (zlen [u] + zlen body) by (unfold zlen; cbn [length]; lia).
  rewrite Hb. change ((u :: body) ++ [c0; c1] ++ rest) with ([u] ++ body ++ ([c0; c1] ++ rest)).
  rewrite pyslice_mid by reflexivity.
  replace (zlen [u] + zlen body >? 0) with true by (unfold zlen; cbn [length]; lia).
  destruct (cf_dec cfg body); try reflexivity. rewrite Hu, A. reflexivity.
Qed.

Lemma rtu_ready_true_len cfg st st1 : rtu_ready cfg st = (st1, Ok true) -> (2 <= length (r_buf st))%nat.
Proof.
  unfold rtu_ready. rewrite rc_ready_closed. destruct (zlen (r_buf st) >? 1) eqn:E; [|intros H; discriminate H].
  intros _. unfold zlen in E. lia.
Qed.

Lemma rtu_ready_buf' cfg st st1 r : rtu_ready cfg st = (st1, r) -> r_buf st1 = r_buf st.
Proof. intros H. pose proof (rtu_ready_buf cfg st) as B. rewrite H in B. exact B. Qed.

(* ------------------------------------------------------------------ the while loop has enough fuel *)
Lemma rtu_loop_fuel cfg : known_rules (cf_rules cfg) -> forall fuel st acc,
  wfb (r_buf st) = true -> (length (r_buf st) + 1 <= fuel)%nat ->
  snd (rtu_loop fuel cfg st acc) <> FOutOfFuel.
Proof.
  intros Hk. induction fuel as [|k IH]; intros st acc Hw Hf; [lia|]. cbn [rtu_loop].
  destruct (rtu_ready cfg st) as [st1 [[|]|e]] eqn:R; try (cbn [snd]; discriminate).
  pose proof (rtu_ready_buf' _ _ _ _ R) as B1. pose proof (rtu_ready_true_len _ _ _ R) as L2.
  destruct (rtu_check cfg st1) as [st2 [[|]|e]] eqn:C; try (cbn [snd]; discriminate).
  - apply rtu_check_true in C; [|exact Hk|rewrite B1; exact Hw].
    destruct C as (u & body & c0 & c1 & rest & Hsplit & Hb2 & Hu & Hl & Hlen & _).
    assert (Hb2' : r_buf st2 = (u :: body) ++ [c0; c1] ++ rest) by (rewrite Hb2; exact Hsplit).
    destruct (rtu_process_spec cfg st2 u body c0 c1 rest Hb2' Hu Hl Hlen) as [P A].
    assert (Hwr : wfb rest = true).
    { rewrite B1 in Hsplit. rewrite Hsplit in Hw. rewrite !wfb_app in Hw. apply andb_prop in Hw. destruct Hw as [_ Hw]. apply andb_prop in Hw. tauto. }
    assert (Hlr : (length rest + 1 <= k)%nat).
    { rewrite B1 in Hsplit. rewrite Hsplit in Hf. rewrite !app_length in Hf. cbn [length] in Hf. lia. }
    destruct (validate_unit cfg _) as [[|]|e]; try (cbn [snd]; discriminate).
    + rewrite P. destruct (cf_dec cfg body); try (cbn [snd]; discriminate). apply IH; assumption.
    + rewrite A. apply IH; assumption.
  - destruct (r_buf st2); [|cbn [snd]; discriminate]. apply IH; [reflexivity|cbn [rtu_reset r_buf length]; lia].
Qed.

Theorem rtu_recv_no_fuel_out cfg st chunk : known_rules (cf_rules cfg) -> wfb (r_buf st ++ chunk) = true ->
  snd (rtu_recv cfg st chunk) <> FOutOfFuel.
Proof. intros Hk Hw. unfold rtu_recv. apply rtu_loop_fuel; [exact Hk|exact Hw|cbn [r_buf]; lia]. Qed.

(* ------------------------------------------------------------------ C07: the delivery gate, for the whole drain loop *)
Definition rtu_justified (buf : bytes) (d : delivered) : Prop :=
  exists u pre rest, buf = pre ++ spec_adu_rtu u (fst d) ++ rest /\ snd d = Z.of_N u /\
                     crc_ok (spec_adu_rtu u (fst d)) = true /\ spec_rx_rtu (spec_adu_rtu u (fst d)) = Some (fst d, u).

Lemma rtu_justified_shift pre buf d : rtu_justified buf d -> rtu_justified (pre ++ buf) d.
Proof. intros (u & p & r & E & H). exists u, (pre ++ p), r. rewrite E, <- app_assoc. split; [reflexivity|exact H]. Qed.

Lemma rtu_loop_gate cfg : known_rules (cf_rules cfg) -> forall fuel st acc st' ds x,
  wfb (r_buf st) = true -> rtu_loop fuel cfg st acc = (st', ds, x) ->
  exists new, ds = acc ++ new /\ forall d, In d new -> rtu_justified (r_buf st) d.
Proof.
  intros Hk. induction fuel as [|k IH]; intros st acc st' ds x Hw H; cbn [rtu_loop] in H.
  { inversion H. exists []. split; [rewrite app_nil_r; reflexivity|intros ? []]. }
  assert (Stop : forall s y, (s, acc, y) = (st', ds, x) -> exists new, ds = acc ++ new /\ forall d, In d new -> rtu_justified (r_buf st) d).
  { intros s y E. inversion E. exists []. split; [rewrite app_nil_r; reflexivity|intros ? []]. }
  destruct (rtu_ready cfg st) as [st1 [[|]|e]] eqn:R; try (eapply Stop; exact H).
  pose proof (rtu_ready_buf' _ _ _ _ R) as B1.
  destruct (rtu_check cfg st1) as [st2 [[|]|e]] eqn:C; try (eapply Stop; exact H).
  - apply rtu_check_true in C; [|exact Hk|rewrite B1; exact Hw].
    destruct C as (u & body & c0 & c1 & rest & Hsplit & Hb2 & Hu & Hl & Hlen & Hcrc).
    assert (Hb2' : r_buf st2 = (u :: body) ++ [c0; c1] ++ rest) by (rewrite Hb2; exact Hsplit).
    destruct (rtu_process_spec cfg st2 u body c0 c1 rest Hb2' Hu Hl Hlen) as [P A].
    rewrite B1 in Hsplit.
    assert (Hws : wfb (u :: body) = true /\ (c0 < 256)%N /\ (c1 < 256)%N /\ wfb rest = true).
    { rewrite Hsplit in Hw. rewrite !wfb_app in Hw. apply andb_prop in Hw. destruct Hw as [H1 Hw]. apply andb_prop in Hw. destruct Hw as [H2 H3].
      cbn in H2. unfold byteb in H2. repeat split; try assumption; lia. }
    destruct Hws as (Hwb & H0 & H1 & Hwr).
    destruct (crc_split c0 c1 H0 H1) as [Elo Ehi].
    assert (Espec : spec_adu_rtu u body = (u :: body) ++ [c0; c1]).
    { unfold spec_adu_rtu, with_crc. rewrite Hcrc, Elo, Ehi. reflexivity. }
    assert (Hbuf : r_buf st = spec_adu_rtu u body ++ rest) by (rewrite Hsplit, Espec, <- app_assoc; reflexivity).
    assert (Jd : rtu_justified (r_buf st) (body, zb u)).
    { exists u, [], rest. cbn [fst snd app]. split; [exact Hbuf|]. split; [reflexivity|].
      split; [rewrite Espec; apply crc_ok_app; exact Hcrc | rewrite Espec; apply spec_rx_rtu_app; assumption]. }
    assert (Shift : forall d, rtu_justified rest d -> rtu_justified (r_buf st) d)
      by (intros d J; rewrite Hbuf; apply rtu_justified_shift; exact J).
    destruct (validate_unit cfg _) as [[|]|e]; try (eapply Stop; exact H).
    + rewrite P in H. destruct (cf_dec cfg body).
      * apply IH in H; [|exact Hwr]. destruct H as (new & -> & Hj). cbn [r_buf] in Hj.
        exists ((body, zb u) :: new). split; [rewrite <- app_assoc; reflexivity|].
        intros d [<-|Hin]; [exact Jd | apply Shift, Hj, Hin].
      * inversion H. exists []. split; [reflexivity|intros ? []].
      * inversion H. exists []. split; [reflexivity|intros ? []].
      * inversion H. exists []. split; [reflexivity|intros ? []].
    + rewrite A in H. apply IH in H; [|exact Hwr]. destruct H as (new & -> & Hj). cbn [r_buf] in Hj.
      exists new. split; [reflexivity|]. intros d Hin. apply Shift, Hj, Hin.
  - destruct (r_buf st2) eqn:E2; [|eapply Stop; exact H].
    apply IH in H; [|reflexivity]. destruct H as (new & -> & Hj). exists new. split; [reflexivity|].
    intros d Hin. destruct (Hj d Hin) as (u & pre & rest & E & _). cbn [rtu_reset r_buf] in E.
    exfalso. symmetry in E. apply app_eq_nil in E. destruct E as [_ E]. apply app_eq_nil in E. destruct E as [E _].
    unfold spec_adu_rtu, with_crc in E. cbn [app] in E. discriminate E.
Qed.

(* every delivery of a call is justified by a span of the buffered bytes that is exactly the spec
   ADU of the delivered (pdu, unit): for EVERY receiver state, header content and chunk *)
Theorem rtu_gate cfg st chunk st' ds x :
  known_rules (cf_rules cfg) -> wfb (r_buf st ++ chunk) = true ->
  rtu_recv cfg st chunk = (st', ds, x) ->
  forall pdu uid, In (pdu, uid) ds ->
    exists u pre rest, r_buf st ++ chunk = pre ++ spec_adu_rtu u pdu ++ rest /\ uid = Z.of_N u /\
                       crc_ok (spec_adu_rtu u pdu) = true /\ spec_rx_rtu (spec_adu_rtu u pdu) = Some (pdu, u).
Proof.
  intros Hk Hw R pdu uid Hin. unfold rtu_recv in R.
  apply (rtu_loop_gate cfg Hk) in R; [|exact Hw]. destruct R as (new & -> & Hj). cbn [app] in Hin.
  exact (Hj (pdu, uid) Hin).
Qed.

(* ------------------------------------------------------------------ C03 / C06: valid traffic *)

(* size rules that depend on the function code and at most one byte-count byte *)
Definition simple_rule (r : size_rule) : bool :=
  match r with RFixed _ => true | RByteCount p => 0 <=? p | _ => false end.

Lemma simple_rule_ext r f n q : simple_rule r = true -> frame_size r f = Ok n -> frame_size r (f ++ q) = Ok n.
Proof.
  destruct r as [k|p| | |]; cbn [simple_rule frame_size]; try discriminate; intros Hs H; [exact H|].
  destruct (py_index f p) as [b|] eqn:E; [|discriminate]. cbn [bind] in H.
  apply py_index_nth in E; [|lia]. destruct E as [N L].
  assert (E2 : py_index (f ++ q) p = Ok b).
  { apply py_index_ok; [lia|]. rewrite nth_error_app1; [exact N | unfold zlen in L; lia]. }
  rewrite E2. exact H.
Qed.

Lemma simple_rule_prefix r f n b q : simple_rule r = true -> frame_size r f = Ok n -> f = b ++ q ->
  frame_size r b = Raise IndexError \/ frame_size r b = Ok n.
Proof.
  destruct r as [k|p| | |]; cbn [simple_rule frame_size]; try discriminate; intros Hs H Hf; [right; exact H|].
  destruct (py_index f p) as [x|] eqn:E; [|discriminate]. cbn [bind] in H.
  apply py_index_nth in E; [|lia]. destruct E as [N L].
  destruct (Z_lt_ge_dec p (zlen b)) as [Hlt|Hge].
  - right. subst f. rewrite nth_error_app1 in N by (unfold zlen in Hlt; lia).
    assert (E2 : py_index b p = Ok x) by (apply py_index_ok; [lia | exact N]).
    rewrite E2. exact H.
  - left. rewrite py_index_short by lia. reflexivity.
Qed.

(* [valid_frame cfg a u pdu]: a well-formed frame for unit u whose size rule is right for it;
   a = true: the unit filter accepts it and the decoder accepts the PDU (it must be delivered);
   a = false: the unit filter rejects it (it must be skipped, silently) *)
Record valid_frame (cfg : fcfg) (a : bool) (u : N) (pdu : bytes) : Prop := {
  vf_wfb : wfb (u :: pdu) = true;
  vf_dec : a = true -> cf_dec cfg pdu = DMsg;
  vf_unit : validate_unit cfg (Some (zb u)) = Ok a;
  vf_fc : exists fc data, pdu = fc :: data /\
          simple_rule (lookup_rule (cf_rules cfg) (zb fc)) = true /\
          frame_size (lookup_rule (cf_rules cfg) (zb fc)) (spec_adu_rtu u pdu) = Ok (zlen (spec_adu_rtu u pdu))
}.

(* the header is one that lets the receiver wait for frame f: {} , the initial dict, or a
   header already populated with f's length *)
Definition hdr_waiting (f : bytes) (h : rhdr) : Prop :=
  h = hdr_empty \/ h = r_hdr rtu_init \/ (hdr_is_empty h = false /\ h_len h = Some (zlen f)).

Lemma spec_adu_rtu_shape u pdu : wfb (u :: pdu) = true ->
  exists lo hi, spec_adu_rtu u pdu = (u :: pdu) ++ [lo; hi] /\ (lo < 256)%N /\ (hi < 256)%N /\
                crc16_bitwise (u :: pdu) = (lo + 256 * hi)%N.
Proof.
  intros Hw. unfold spec_adu_rtu, with_crc. pose proof (crc16_lt _ Hw) as Hc.
  exists (crc_lo (crc16_bitwise (u :: pdu))), (crc_hi (crc16_bitwise (u :: pdu))).
  split; [reflexivity|]. split; [apply crc_lo_lt|]. split; [apply crc_hi_lt; exact Hc|].
  symmetry. apply crc_lo_hi. exact Hc.
Qed.

Lemma rc_init_hdr : r_hdr rtu_init = {| h_uid := Some 0; h_len := Some 0; h_crc := Some [48; 48; 48; 48]%N |}.
Proof. reflexivity. Qed.

(* populateHeader on a buffer that starts with the valid frame f *)
Lemma rtu_populate_complete cfg a u pdu q h : valid_frame cfg a u pdu ->
  exists c, rtu_populate cfg {| r_buf := spec_adu_rtu u pdu ++ q; r_hdr := h |} =
    ({| r_buf := spec_adu_rtu u pdu ++ q;
        r_hdr := {| h_uid := Some (zb u); h_len := Some (zlen (spec_adu_rtu u pdu)); h_crc := Some c |} |}, None).
Proof.
  intros [Hw Hd Hu (fc & data & Hp & Hs & Hsz)]. subst pdu.
  destruct (spec_adu_rtu_shape u (fc :: data) Hw) as (lo & hi & Esp & _).
  unfold rtu_populate. cbn [r_buf r_hdr].
  assert (E0 : py_index (spec_adu_rtu u (fc :: data) ++ q) 0 = Ok u) by (rewrite Esp; reflexivity || apply py_index_app_head).
  assert (E1 : py_index (spec_adu_rtu u (fc :: data) ++ q) 1 = Ok fc).
  { rewrite Esp. apply py_index_ok; [lia|reflexivity]. }
  rewrite E0, E1. rewrite (simple_rule_ext _ _ _ q Hs Hsz). eexists. reflexivity.
Qed.

(* ITERATION A: the buffer starts with a complete valid frame: one iteration of the loop
   delivers it (or skips it when its unit is not served) and continues on what follows *)
Lemma rtu_loop_complete cfg k h a u pdu q acc :
  valid_frame cfg a u pdu -> hdr_waiting (spec_adu_rtu u pdu) h -> wfb q = true ->
  rtu_loop (S k) cfg {| r_buf := spec_adu_rtu u pdu ++ q; r_hdr := h |} acc =
  rtu_loop k cfg {| r_buf := q; r_hdr := hdr_empty |} (acc ++ if a then [(pdu, zb u)] else []).
Proof.
  intros V Hh Hwq.
  pose proof V as [Hw Hd Hu (fc & data & Hp & Hs & Hsz)].
  destruct (spec_adu_rtu_shape u pdu Hw) as (lo & hi & Esp & Hlo & Hhi & Hcrc).
  set (f := spec_adu_rtu u pdu) in *.
  assert (Hlen : zlen f = zlen (u :: pdu) + 2) by (rewrite Esp, zlen_app; reflexivity).
  assert (Hf4 : 4 <= zlen f) by (rewrite Hlen; subst pdu; unfold zlen; cbn [length]; lia).
  cbn [rtu_loop].
  (* isFrameReady *)
  assert (R : exists h1, rtu_ready cfg {| r_buf := f ++ q; r_hdr := h |} =
                         ({| r_buf := f ++ q; r_hdr := h1 |}, Ok true)).
  { unfold rtu_ready. cbn [r_buf r_hdr]. rewrite rc_ready_closed.
    pose proof (zlen_nonneg q). rewrite zlen_app.
    replace (zlen f + zlen q >? 1) with true by lia.
    destruct Hh as [Hh | [Hh | [Hne Hl]]].
    - rewrite Hh. cbn [hdr_is_empty hdr_empty h_uid h_len h_crc].
      destruct (rtu_populate_complete cfg a u pdu q hdr_empty V) as [c P]. fold f in P. rewrite P.
      cbn [hdr_is_empty h_uid h_len h_crc r_hdr]. eexists. rewrite (rc_ready2_closed (zlen f + zlen q) (zlen f)).
      replace (zlen f + zlen q >=? zlen f) with true by lia. reflexivity.
    - rewrite Hh, rc_init_hdr. cbn [hdr_is_empty h_uid h_len h_crc r_hdr]. eexists. rewrite (rc_ready2_closed (zlen f + zlen q) 0).
      replace (zlen f + zlen q >=? 0) with true by lia. reflexivity.
    - rewrite Hne. destruct h as [hu hl hc]. cbn [h_len] in Hl. subst hl.
      cbn [hdr_is_empty h_uid h_len h_crc r_hdr] in *. rewrite Hne. cbn [h_len]. eexists. rewrite (rc_ready2_closed (zlen f + zlen q) (zlen f)).
      replace (zlen f + zlen q >=? zlen f) with true by lia. reflexivity. }
  destruct R as [h1 R]. rewrite R.
  (* checkFrame *)
  assert (C : exists c, rtu_check cfg {| r_buf := f ++ q; r_hdr := h1 |} =
      ({| r_buf := f ++ q; r_hdr := {| h_uid := Some (zb u); h_len := Some (zlen f); h_crc := Some c |} |}, Ok true)).
  { unfold rtu_check, rtu_check_body.
    destruct (rtu_populate_complete cfg a u pdu q h1 V) as [c P]. fold f in P. rewrite P.
    cbn [r_hdr h_len r_buf]. rewrite rc_chk_data_hi_closed, rc_chk_crc_lo_closed, rc_chk_crc_hi_closed.
    exists c. rewrite !Hlen. rewrite Esp. rewrite <- !app_assoc.
    rewrite (pyslice_prefix (u :: pdu) ([lo; hi] ++ q)) by lia.
    rewrite (pyslice_mid (u :: pdu) [lo; hi] q) by (unfold zlen; cbn [length]; lia).
    rewrite py_index_app_head.
    assert (E2 : py_index [lo; hi] 1 = Ok hi) by (apply py_index_ok; [lia | reflexivity]). rewrite E2.
    rewrite rc_chk_crc_val_closed, py_check_crc_spec by exact Hw.
    rewrite swap16_bytes by (apply crc16_lt; exact Hw).
    rewrite Hcrc. destruct (crc_split lo hi Hlo Hhi) as [-> ->].
    rewrite Z.shiftl_mul_pow2 by lia. change (2 ^ 8) with 256. unfold zb.
    replace (Z.of_N (256 * lo + hi) =? Z.of_N lo * 256 + Z.of_N hi) with true by lia.
    reflexivity. }
  destruct C as [c C]. rewrite C. cbn [r_hdr h_uid]. rewrite Hu.
  (* _process / advanceFrame *)
  destruct (rtu_process_spec cfg {| r_buf := f ++ q; r_hdr := {| h_uid := Some (zb u); h_len := Some (zlen f); h_crc := Some c |} |}
              u pdu lo hi q) as [P A].
  { cbn [r_buf]. rewrite Esp, <- app_assoc. reflexivity. }
  { reflexivity. }
  { cbn [r_hdr h_len]. rewrite Hlen. reflexivity. }
  { subst pdu. cbn [length]. lia. }
  destruct a.
  - rewrite P, (Hd eq_refl). reflexivity.
  - rewrite A, app_nil_r. reflexivity.
Qed.

(* the size oracle of the simple classes is stable under extension and never mistakes a
   strict prefix for a complete frame *)
Theorem simple_rule_oracle r f q : simple_rule r = true -> frame_size r f = Ok (zlen f) ->
  frame_size r (f ++ q) = Ok (zlen f) /\
  (forall b q', f = b ++ q' -> frame_size r b = Raise IndexError \/ frame_size r b = Ok (zlen f)).
Proof.
  intros Hs H. split; [apply simple_rule_ext; assumption|].
  intros b q' Hf. eapply simple_rule_prefix; eassumption.
Qed.

(* any call in which a length-complete candidate fails its CRC leaves the receiver in the
   synchronised state (empty buffer, empty header) *)
Lemma rtu_check_false_resets cfg st st2 : rtu_check cfg st = (st2, Ok false) ->
  (r_buf st2 = [] /\ r_hdr st2 = hdr_empty) \/ r_buf st2 = r_buf st.
Proof.
  unfold rtu_check, rtu_check_body.
  destruct (rtu_populate cfg st) as [st1 [e|]] eqn:P.
  - unfold rtu_populate in P.
    destruct (py_index (r_buf st) 0); [|inversion P; subst; destruct (caught_by_check e); intros H; inversion H; subst; right; reflexivity].
    destruct (py_index (r_buf st) 1); [|inversion P; subst; destruct (caught_by_check e); intros H; inversion H; subst; right; reflexivity].
    destruct (frame_size _ _); inversion P; subst. destruct (caught_by_check e); intros H; inversion H; subst; right; reflexivity.
  - apply rtu_populate_ok in P. destruct P as (u & fc & size & _ & _ & _ & Hb & _ & Hl). rewrite Hl.
    destruct (py_index _ 0); [|destruct (caught_by_check _); intros H; inversion H; subst; right; exact Hb].
    destruct (py_index _ 1); [|destruct (caught_by_check _); intros H; inversion H; subst; right; exact Hb].
    destruct (py_check_crc _ _) as [[|]|e]; [intros H; inversion H| |destruct (caught_by_check _); intros H; inversion H; subst; right; exact Hb].
    intros H. inversion H. subst. left. split; reflexivity.
Qed.

Lemma pyslice_len_le {A} (l : list A) a b : 0 <= a -> Z.of_nat (length (pyslice l (Some a) (Some b))) <= Z.max 0 (zlen l - a).
Proof.
  intros Ha. unfold pyslice, norm_idx. fold (zlen l). replace (a <? 0) with false by lia.
  rewrite firstn_length, skipn_length. unfold zlen. lia.
Qed.

(* ITERATION B: the buffered bytes are a strict prefix of a valid frame: the loop ends, nothing is
   delivered, nothing is raised, the bytes stay buffered and the header still waits for it *)
Lemma rtu_loop_incomplete cfg k h a u pdu b q acc :
  valid_frame cfg a u pdu -> hdr_waiting (spec_adu_rtu u pdu) h ->
  spec_adu_rtu u pdu = b ++ q -> q <> [] ->
  exists h', rtu_loop (S k) cfg {| r_buf := b; r_hdr := h |} acc = ({| r_buf := b; r_hdr := h' |}, acc, FOk) /\
             hdr_waiting (spec_adu_rtu u pdu) h'.
Proof.
  intros V Hh Hf Hq.
  pose proof V as [Hw Hd Hu (fc & data & Hp & Hs & Hsz)].
  destruct (spec_adu_rtu_shape u pdu Hw) as (lo & hi & Esp & _).
  set (f := spec_adu_rtu u pdu) in *.
  assert (Hlt : zlen b < zlen f).
  { rewrite Hf, zlen_app. destruct q; [congruence|]. unfold zlen. cbn [length]. lia. }
  cbn [rtu_loop]. unfold rtu_ready. cbn [r_buf r_hdr]. rewrite rc_ready_closed.
  destruct (zlen b >? 1) eqn:Hb1.
  2: { exists h. split; [reflexivity|exact Hh]. }
  assert (Hb2 : exists b', b = u :: fc :: b').
  { subst pdu. rewrite Esp in Hf. destruct b as [|x [|y b']]; try (unfold zlen in Hb1; cbn in Hb1; lia).
    cbn in Hf. inversion Hf. subst. eexists. reflexivity. }
  destruct Hb2 as [b' Eb].
  assert (I0 : py_index b 0 = Ok u) by (rewrite Eb; apply py_index_app_head).
  assert (I1 : py_index b 1 = Ok fc) by (rewrite Eb; apply py_index_ok; [lia|reflexivity]).
  pose proof (simple_rule_prefix _ _ _ b q Hs Hsz Hf) as Hsize.
  assert (Pop : forall h0, (exists h1, rtu_populate cfg {| r_buf := b; r_hdr := h0 |} = ({| r_buf := b; r_hdr := h1 |}, Some IndexError))
                       \/ (exists c, rtu_populate cfg {| r_buf := b; r_hdr := h0 |} =
                             ({| r_buf := b; r_hdr := {| h_uid := Some (zb u); h_len := Some (zlen f); h_crc := Some c |} |}, None))).
  { intros h0. unfold rtu_populate. cbn [r_buf r_hdr]. rewrite I0, I1.
    destruct Hsize as [-> | ->]; [left|right]; eexists; reflexivity. }
  destruct Hh as [Hh | [Hh | [Hne Hl]]].
  - (* header {} *)
    rewrite Hh. cbn [hdr_is_empty hdr_empty h_uid h_len h_crc].
    destruct (Pop hdr_empty) as [[h1 P] | [c P]]; rewrite P.
    + exists hdr_empty. split; [reflexivity|left; reflexivity].
    + cbn [hdr_is_empty h_uid h_len h_crc r_hdr]. rewrite (rc_ready2_closed (zlen b) (zlen f)).
      replace (zlen b >=? zlen f) with false by lia.
      eexists. split; [reflexivity|]. right. right. split; reflexivity.
  - (* the initial header: ready (len 0), checkFrame fails with IndexError, header := {} , break *)
    rewrite Hh, rc_init_hdr. cbn [hdr_is_empty h_uid h_len h_crc r_hdr].
    rewrite (rc_ready2_closed (zlen b) 0). pose proof (zlen_nonneg b).
    replace (zlen b >=? 0) with true by lia.
    unfold rtu_check, rtu_check_body.
    destruct (Pop {| h_uid := Some 0; h_len := Some 0; h_crc := Some [48; 48; 48; 48]%N |}) as [[h1 P] | [c P]]; rewrite P.
    + cbn [caught_by_check r_buf]. rewrite Eb. exists hdr_empty. split; [reflexivity|left; reflexivity].
    + cbn [r_hdr h_len r_buf]. rewrite rc_chk_crc_lo_closed, rc_chk_crc_hi_closed.
      pose proof (pyslice_len_le b (zlen f - 2) (zlen f)) as Hsl.
      assert (H4 : 4 <= zlen f) by (rewrite Esp, zlen_app; subst pdu; unfold zlen; cbn [length]; lia).
      specialize (Hsl ltac:(lia)).
      destruct (py_index (pyslice b (Some (zlen f - 2)) (Some (zlen f))) 0) as [c0|e0] eqn:C0.
      * rewrite (py_index_short _ 1) by (unfold zlen at 1; lia).
        cbn [caught_by_check r_buf]. rewrite Eb. exists hdr_empty. split; [reflexivity|left; reflexivity].
      * assert (e0 = IndexError).
        { unfold py_index in C0. destruct (_ || _)%bool; [congruence|]. destruct (nth_error _ _); congruence. }
        subst e0. cbn [caught_by_check r_buf]. rewrite Eb. exists hdr_empty. split; [reflexivity|left; reflexivity].
  - (* header already populated for this frame *)
    rewrite Hne. destruct h as [hu hl hc]. cbn [h_len] in Hl. subst hl.
    cbn [r_hdr hdr_is_empty h_uid h_len h_crc] in *. rewrite Hne. cbn [h_len].
    rewrite (rc_ready2_closed (zlen b) (zlen f)). replace (zlen b >=? zlen f) with false by lia.
    eexists. split; [reflexivity|]. right. right. split; [exact Hne|reflexivity].
Qed.

Lemma rtu_loop_empty cfg k h acc :
  rtu_loop (S k) cfg {| r_buf := []; r_hdr := h |} acc = ({| r_buf := []; r_hdr := h |}, acc, FOk).
Proof. cbn [rtu_loop]. unfold rtu_ready. cbn [r_buf]. rewrite rc_ready_closed. reflexivity. Qed.

(* ------------------------------------------------------------------ C06: full chunking independence *)

(* a frame of the stream: (accepted by the unit filter?, (unit, PDU)) *)
Definition frame := (bool * (N * bytes))%type.
Definition adu_of (f : frame) : bytes := spec_adu_rtu (fst (snd f)) (snd (snd f)).
Definition msg_of (f : frame) : list delivered := if fst f then [(snd (snd f), zb (fst (snd f)))] else [].
Definition vf (cfg : fcfg) (f : frame) : Prop := valid_frame cfg (fst f) (fst (snd f)) (snd (snd f)).
Definition stream (fs : list frame) : bytes := flat_map adu_of fs.
Definition msgs (fs : list frame) : list delivered := flat_map msg_of fs.

(* q is a strict prefix of the next frame (empty when there is none) *)
Definition tail_ok (q : bytes) (nxt : list frame) : Prop :=
  match nxt with [] => q = [] | f :: _ => exists q', adu_of f = q ++ q' /\ q' <> [] end.

Definition hdr_for (nxt : list frame) (h : rhdr) : Prop :=
  match nxt with [] => True | f :: _ => hdr_waiting (adu_of f) h end.

Lemma adu_wfb cfg f : vf cfg f -> wfb (adu_of f) = true.
Proof.
  destruct f as [a [u p]]. unfold vf, adu_of. cbn [fst snd]. intros [Hw _ _ _].
  destruct (spec_adu_rtu_shape u p Hw) as (lo & hi & Esp & Hlo & Hhi & _).
  rewrite Esp, wfb_app, Hw. cbn. unfold byteb. lia.
Qed.

Lemma stream_wfb cfg fs : Forall (vf cfg) fs -> wfb (stream fs) = true.
Proof.
  induction 1 as [|f t V _ IH]; [reflexivity|]. unfold stream. cbn [flat_map]. fold (stream t).
  rewrite wfb_app, (adu_wfb cfg f V), IH. reflexivity.
Qed.

Lemma tail_wfb cfg q nxt : Forall (vf cfg) nxt -> tail_ok q nxt -> wfb q = true.
Proof.
  destruct nxt as [|f t]; cbn [tail_ok]; intros Hall Hs; [subst; reflexivity|].
  destruct Hs as (q' & E & _). inversion Hall as [|? ? V _]. subst.
  pose proof (adu_wfb cfg f V) as W. rewrite E, wfb_app in W. apply andb_prop in W. tauto.
Qed.

Lemma adu_nonempty f : (1 <= length (adu_of f))%nat.
Proof. unfold adu_of, spec_adu_rtu, with_crc. rewrite app_length. cbn [length]. lia. Qed.

Lemma stream_len fs : (length fs <= length (stream fs))%nat.
Proof.
  induction fs as [|f t IH]; [cbn; lia|]. unfold stream. cbn [flat_map length]. fold (stream t).
  rewrite app_length. pose proof (adu_nonempty f). lia.
Qed.

(* the loop drains every complete frame at the head of the buffer and stops at the incomplete tail *)
Lemma rtu_loop_drain cfg : forall fs fuel nxt q h acc,
  Forall (vf cfg) fs -> Forall (vf cfg) nxt -> tail_ok q nxt ->
  hdr_for (fs ++ nxt) h -> (length fs < fuel)%nat ->
  exists h', rtu_loop fuel cfg {| r_buf := stream fs ++ q; r_hdr := h |} acc
             = ({| r_buf := q; r_hdr := h' |}, acc ++ msgs fs, FOk) /\ hdr_for nxt h'.
Proof.
  induction fs as [|f fs IH]; intros fuel nxt q h acc Hfs Hnxt Ht Hh Hf.
  - destruct fuel as [|k]; [lia|]. cbn [stream flat_map app msgs]. rewrite app_nil_r.
    destruct nxt as [|[a [u p]] t].
    + cbn in Ht. subst q. exists h. split; [apply rtu_loop_empty|exact I].
    + destruct Ht as (q' & E & Hq'). inversion Hnxt as [|? ? V _]. subst.
      unfold adu_of in E. cbn [fst snd] in E. unfold vf in V. cbn [fst snd] in V.
      destruct (rtu_loop_incomplete cfg k h a u p q q' acc V Hh E Hq') as (h' & R & Hw).
      exists h'. split; [exact R|exact Hw].
  - destruct fuel as [|k]; [cbn in Hf; lia|].
    inversion Hfs as [|? ? V Hfs']. subst. destruct f as [a [u p]]. unfold vf in V. cbn [fst snd] in V.
    unfold stream. cbn [flat_map]. fold (stream fs). unfold adu_of at 1. cbn [fst snd]. rewrite <- app_assoc.
    rewrite (rtu_loop_complete cfg k h a u p (stream fs ++ q) acc V).
    + destruct (IH k nxt q hdr_empty (acc ++ (if a then [(p, zb u)] else [])) Hfs' Hnxt Ht) as (h' & R & Hw).
      * destruct (fs ++ nxt) as [|g t]; [exact I|left; reflexivity].
      * cbn [length] in Hf. lia.
      * exists h'. split; [|exact Hw]. rewrite R. unfold msgs. cbn [flat_map]. unfold msg_of at 2. cbn [fst snd].
        rewrite <- app_assoc. reflexivity.
    + exact Hh.
    + rewrite wfb_app, (stream_wfb cfg fs Hfs'), (tail_wfb cfg q nxt Hnxt Ht). reflexivity.
Qed.

(* a prefix s of the byte stream of frames R splits into whole frames and a strict prefix *)
Lemma stream_split : forall (R : list frame) s t, stream R = s ++ t ->
  exists R1 R2 q, R = R1 ++ R2 /\ s = stream R1 ++ q /\ tail_ok q R2 /\ stream R2 = q ++ t.
Proof.
  induction R as [|f R IH]; intros s t H.
  - cbn in H. symmetry in H. apply app_eq_nil in H. destruct H as [-> ->].
    exists [], [], []. repeat split; reflexivity.
  - unfold stream in H. cbn [flat_map] in H. fold (stream R) in H.
    destruct (app_eq_app _ _ _ _ H) as (l & [[E1 E2] | [E1 E2]]).
    + destruct l as [|x l].
      * rewrite app_nil_r in E1. cbn [app] in E2. subst t.
        destruct (IH [] (stream R) eq_refl) as (R1 & R2 & q & ER & Es & Ht & E3).
        exists (f :: R1), R2, q. split; [rewrite ER; reflexivity|].
        split; [unfold stream; cbn [flat_map]; fold (stream R1); rewrite <- E1, <- app_assoc, <- Es, app_nil_r; reflexivity|].
        split; [exact Ht|exact E3].
      * exists [], (f :: R), s. split; [reflexivity|]. split; [reflexivity|].
        split; [exists (x :: l); split; [exact E1|discriminate]|].
        unfold stream. cbn [flat_map]. fold (stream R). rewrite E1, E2, <- app_assoc. reflexivity.
    + destruct (IH l t E2) as (R1 & R2 & q & ER & Es & Ht & E3).
      exists (f :: R1), R2, q. split; [rewrite ER; reflexivity|].
      split; [unfold stream; cbn [flat_map]; fold (stream R1); rewrite E1, Es, app_assoc; reflexivity|].
      split; [exact Ht|exact E3].
Qed.

Fixpoint rtu_feed_dels (cfg : fcfg) (st : rstate) (chunks : list bytes) : list delivered * list fexit :=
  match chunks with
  | [] => ([], [])
  | c :: t => let '(st1, ds, x) := rtu_recv cfg st c in
              let '(ds', xs) := rtu_feed_dels cfg st1 t in (ds ++ ds', x :: xs)
  end.

(* CHUNKING INDEPENDENCE: however the byte stream of valid frames is cut into reads (any number
   of cuts, any positions, empty reads, several frames per read), exactly the frames of served
   units are delivered, in order, and no call raises.  [b] = bytes already buffered. *)
Theorem rtu_chunked cfg : forall chunks R b st,
  r_buf st = b -> Forall (vf cfg) R -> tail_ok b R -> hdr_for R (r_hdr st) ->
  stream R = b ++ concat chunks ->
  rtu_feed_dels cfg st chunks = (msgs R, map (fun _ => FOk) chunks).
Proof.
  induction chunks as [|c cs IH]; intros R b st Hb Hall Ht Hh Hs.
  - cbn [concat] in Hs. rewrite app_nil_r in Hs. destruct R as [|f R]; [reflexivity|].
    exfalso. destruct Ht as (q' & E & Hq'). unfold stream in Hs. cbn [flat_map] in Hs. rewrite E, <- app_assoc in Hs.
    rewrite <- (app_nil_r b) in Hs at 2. apply app_inv_head in Hs. apply app_eq_nil in Hs. destruct Hs as [Hs _]. exact (Hq' Hs).
  - cbn [concat] in Hs. rewrite app_assoc in Hs.
    destruct (stream_split R (b ++ c) (concat cs) Hs) as (R1 & R2 & q & ER & Es & Ht2 & E3).
    subst R. apply Forall_app in Hall. destruct Hall as [H1 H2].
    cbn [rtu_feed_dels]. unfold rtu_recv. rewrite Hb, Es.
    destruct (rtu_loop_drain cfg R1 (S (S (length (stream R1 ++ q)))) R2 q (r_hdr st) [] H1 H2 Ht2 Hh) as (h' & RL & Hw).
    { pose proof (stream_len R1). rewrite app_length. lia. }
    cbn [r_buf] in RL |- *. rewrite RL. cbn [app].
    rewrite (IH R2 q {| r_buf := q; r_hdr := h' |} eq_refl H2 Ht2 Hw E3).
    unfold msgs. rewrite flat_map_app. reflexivity.
Qed.

Lemma tail_ok_nil R : tail_ok [] R.
Proof.
  destruct R as [|f R]; [reflexivity|]. exists (adu_of f). split; [reflexivity|].
  pose proof (adu_nonempty f). intro E. rewrite E in H. cbn in H. lia.
Qed.

(* from a synchronised receiver (empty buffer; header {} or the initial dict) *)
Theorem rtu_chunked_sync cfg chunks R st :
  r_buf st = [] -> (r_hdr st = hdr_empty \/ r_hdr st = r_hdr rtu_init) ->
  Forall (vf cfg) R -> concat chunks = stream R ->
  rtu_feed_dels cfg st chunks = (msgs R, map (fun _ => FOk) chunks).
Proof.
  intros Hb Hh Hall Hs. apply (rtu_chunked cfg chunks R [] st Hb Hall (tail_ok_nil R)).
  - destruct R as [|f R]; [exact I|]. destruct Hh as [-> | ->]; [left|right; left]; reflexivity.
  - rewrite Hs. reflexivity.
Qed.

(* whole frame to a fresh receiver *)
Theorem rtu_whole_frame cfg u pdu : valid_frame cfg true u pdu ->
  rtu_recv cfg rtu_init (spec_adu_rtu u pdu) = ({| r_buf := []; r_hdr := hdr_empty |}, [(pdu, zb u)], FOk).
Proof.
  intros V. unfold rtu_recv. cbn [r_buf rtu_init app].
  rewrite <- (app_nil_r (spec_adu_rtu u pdu)) at 2.
  rewrite (rtu_loop_complete cfg _ (r_hdr rtu_init) true u pdu [] [] V); [|right; left; reflexivity|reflexivity].
  destruct (length (spec_adu_rtu u pdu ++ [])) eqn:L; [rewrite app_nil_r in L; unfold spec_adu_rtu, with_crc in L; rewrite app_length in L; cbn in L; lia|].
  apply rtu_loop_empty.
Qed.

Example valid_frame_example :
  let cfg := {| cf_dec := fun _ => DMsg; cf_rules := server_decoder; cf_units := [1]; cf_single := false |} in
  valid_frame cfg true 1 [3; 0; 1; 0; 2]%N /\ valid_frame cfg true 1 [16; 0; 1; 0; 1; 2; 123; 125]%N /\
  valid_frame cfg false 9 [3; 0; 1; 0; 2]%N.
Proof.
  cbv zeta. repeat split; try reflexivity; try (intro; reflexivity); try (intro HH; discriminate HH).
  - exists 3%N, [0; 1; 0; 2]%N. repeat split; vm_compute; reflexivity.
  - exists 16%N, [0; 1; 0; 1; 2; 123; 125]%N. repeat split; vm_compute; reflexivity.
  - exists 3%N, [0; 1; 0; 2]%N. repeat split; vm_compute; reflexivity.
Qed.

(* ------------------------------------------------------------------ C03: the size oracle on well-shaped frames *)
Theorem size_oracle_shape r f :
  (r = RFixed (zlen f)) \/
  (exists p b, r = RByteCount p /\ 0 <= p /\ nth_error f (Z.to_nat p) = Some b /\ zb b = zlen f - p - 3) ->
  frame_size r f = Ok (zlen f).
Proof.
  intros [-> | (p & b & -> & Hp & Hn & Hb)]; [reflexivity|].
  cbn [frame_size]. rewrite (py_index_ok f p b Hp Hn). cbn [bind]. rewrite cc_rtu_size_closed. f_equal. lia.
Qed.


(* ------------------------------------------------------------------ C07 composition: gate + detection
   a corrupted frame handed to an empty receiver: nothing is delivered whose frame has the
   extent of the original (a delivery can only stem from a span of different length, i.e. when
   the corruption changed the extent computed from function code / byte count) *)
Theorem rtu_no_delivery_same_extent cfg st frame' st' ds x :
  known_rules (cf_rules cfg) -> r_buf st = [] -> wfb frame' = true -> crc_ok frame' = false ->
  rtu_recv cfg st frame' = (st', ds, x) ->
  forall pdu uid, In (pdu, uid) ds -> forall u, uid = Z.of_N u -> length (spec_adu_rtu u pdu) <> length frame'.
Proof.
  intros Hk Hb Hw Hbad R pdu uid Hin u Hu Hlen.
  destruct (rtu_gate cfg st frame' st' ds x Hk) with (pdu := pdu) (uid := uid) as (u' & pre & rest & Hsplit & Hu' & Hok & _);
    [rewrite Hb; exact Hw | exact R | exact Hin |].
  assert (u' = u) by lia. subst u'.
  rewrite Hb in Hsplit. cbn [app] in Hsplit.
  assert (pre = [] /\ rest = []).
  { apply (f_equal (@length N)) in Hsplit. rewrite !app_length in Hsplit.
    destruct pre, rest; cbn [length] in Hsplit; try (split; reflexivity); lia. }
  destruct H as [-> ->]. cbn [app] in Hsplit. rewrite app_nil_r in Hsplit. rewrite <- Hsplit in Hok. congruence.
Qed.

(* ------------------------------------------------------------------ C11: explicit recovery / backlog bound, server decoder table *)

(* on the request table every size rule is total once 11 bytes are buffered and never
   returns more than 268 = 255 + 10 + 3 (byte count at position 10: Read/Write Multiple) *)
Definition rule_tot_b (r : size_rule) : bool :=
  match r with
  | RFixed k => (4 <=? k) && (k <=? 268)
  | RByteCount p => (1 <=? p) && (p <=? 10)
  | _ => false
  end.

Definition rule_tot (r : size_rule) : Prop :=
  forall data, wfb data = true -> 11 <= zlen data -> exists n, frame_size r data = Ok n /\ 4 <= n <= 268.

Lemma rule_tot_of_bool r : rule_tot_b r = true -> rule_tot r.
Proof.
  destruct r as [k|p| | |]; cbn [rule_tot_b]; try discriminate; intros Hb data Hw Hl.
  - exists k. split; [reflexivity|lia].
  - cbn [frame_size].
    destruct (nth_error data (Z.to_nat p)) as [b|] eqn:N.
    + rewrite (py_index_ok data p b) by (try lia; exact N). cbn [bind]. rewrite cc_rtu_size_closed.
      pose proof (nth_error_wfb _ _ _ Hw N). eexists. split; [reflexivity|]. unfold zb. lia.
    + apply nth_error_None in N. unfold zlen in Hl. lia.
Qed.

Lemma lookup_rows_P (P : size_rule -> Prop) rows fc : forall acc r,
  Forall (fun row => P (cr_rule row)) rows -> (forall a, acc = Some a -> P a) ->
  lookup_rows rows fc acc = Some r -> P r.
Proof.
  induction rows as [|row t IH]; intros acc r Hall Hacc H; cbn in *.
  - apply Hacc. exact H.
  - inversion Hall as [|? ? H1 H2]. subst.
    eapply IH; [exact H2| |exact H].
    intros a Ha. destruct (cr_fc row =? fc); [inversion Ha; subst; exact H1 | apply Hacc; exact Ha].
Qed.

Lemma lookup_rule_P (P : size_rule -> Prop) dc fc :
  Forall (fun row => P (cr_rule row)) (dc_classes dc) -> P (dc_default dc) -> P (lookup_rule dc fc).
Proof.
  intros H1 H2. unfold lookup_rule.
  destruct (lookup_rows (dc_classes dc) fc None) eqn:E; [|exact H2].
  eapply lookup_rows_P; [exact H1| |exact E]. intros a Ha. discriminate.
Qed.

Lemma server_rules_tot fc : rule_tot (lookup_rule server_decoder fc).
Proof.
  apply lookup_rule_P.
  - assert (H : forallb (fun row => rule_tot_b (cr_rule row)) (dc_classes server_decoder) = true) by (vm_compute; reflexivity).
    rewrite forallb_forall in H. apply Forall_forall. intros row Hin. apply rule_tot_of_bool. apply H. exact Hin.
  - apply rule_tot_of_bool. reflexivity.
Qed.

Definition hdr_bounded (h : rhdr) : Prop :=
  hdr_is_empty h = true \/ exists n, h_len h = Some n /\ n <= 268.

Lemma rtu_populate_total cfg buf h : cf_rules cfg = server_decoder -> wfb buf = true -> 11 <= zlen buf ->
  exists u n c, rtu_populate cfg {| r_buf := buf; r_hdr := h |} =
    ({| r_buf := buf; r_hdr := {| h_uid := Some (zb u); h_len := Some n; h_crc := Some c |} |}, None) /\ 4 <= n <= 268.
Proof.
  intros Hr Hw Hl. unfold rtu_populate. cbn [r_buf r_hdr].
  destruct buf as [|u [|fc t]]; try (unfold zlen in Hl; cbn in Hl; lia).
  rewrite py_index_app_head.
  assert (E1 : py_index (u :: fc :: t) 1 = Ok fc) by (apply py_index_ok; [lia|reflexivity]).
  rewrite E1, Hr.
  destruct (server_rules_tot (zb fc) (u :: fc :: t) Hw Hl) as (n & Hn & Hb). rewrite Hn.
  exists u, n. eexists. split; [reflexivity|exact Hb].
Qed.

Lemma split_at2 {A} (l : list A) a : 0 <= a -> a + 2 <= zlen l ->
  exists x c0 c1 z, l = x ++ [c0; c1] ++ z /\ zlen x = a.
Proof.
  intros Ha Hl.
  pose proof (firstn_skipn (Z.to_nat a) l) as E.
  assert (L : (2 <= length (skipn (Z.to_nat a) l))%nat) by (rewrite skipn_length; unfold zlen in Hl; lia).
  destruct (skipn (Z.to_nat a) l) as [|c0 [|c1 z]]; cbn in L; try lia.
  exists (firstn (Z.to_nat a) l), c0, c1, z. split; [symmetry; exact E|].
  unfold zlen in *. rewrite firstn_length. lia.
Qed.

Lemma pyslice_from_len' {A} (l : list A) k : 0 <= k ->
  Z.of_nat (length (pyslice l (Some k) None)) = Z.max 0 (zlen l - k).
Proof.
  intros Hk. unfold pyslice, norm_idx. fold (zlen l). replace (k <? 0) with false by lia.
  rewrite firstn_length, skipn_length. unfold zlen. lia.
Qed.

Lemma server_rule_b fc : rule_tot_b (lookup_rule server_decoder fc) = true.
Proof.
  apply (lookup_rule_P (fun r => rule_tot_b r = true)); [|reflexivity].
  assert (H : forallb (fun row => rule_tot_b (cr_rule row)) (dc_classes server_decoder) = true) by (vm_compute; reflexivity).
  rewrite forallb_forall in H. apply Forall_forall. exact H.
Qed.

Lemma rule_max_of_bool r data n : rule_tot_b r = true -> wfb data = true -> frame_size r data = Ok n -> n <= 268.
Proof.
  destruct r as [k|p| | |]; cbn [rule_tot_b frame_size]; try discriminate; intros Hb Hw H.
  - inversion H. lia.
  - destruct (py_index data p) as [b|] eqn:E; [|discriminate]. cbn [bind] in H. rewrite cc_rtu_size_closed in H.
    apply py_index_nth in E; [|lia]. destruct E as [Nn _]. pose proof (nth_error_wfb _ _ _ Hw Nn).
    inversion H. unfold zb. lia.
Qed.

(* the header bound is an invariant of the request-direction receiver: it holds initially and
   after every call that returns normally (after an exception the handlers reset the framer) *)
Lemma hdr_bounded_init : hdr_bounded (r_hdr rtu_init).
Proof. right. exists 0. split; [reflexivity|lia]. Qed.

Lemma hdr_bounded_empty : hdr_bounded hdr_empty.
Proof. left. reflexivity. Qed.

(* with 268 bytes buffered isFrameReady cannot say "not yet" *)
Lemma rtu_ready_long cfg buf h : cf_rules cfg = server_decoder -> wfb buf = true -> hdr_bounded h ->
  268 <= zlen buf -> exists h1, rtu_ready cfg {| r_buf := buf; r_hdr := h |} = ({| r_buf := buf; r_hdr := h1 |}, Ok true).
Proof.
  intros Hr Hw Hh Hl. unfold rtu_ready. cbn [r_buf r_hdr]. rewrite rc_ready_closed. replace (zlen buf >? 1) with true by lia.
  destruct Hh as [He | (n & Hn & Hb)].
  - rewrite He. destruct (rtu_populate_total cfg buf h Hr Hw ltac:(lia)) as (u & n & c & P & Hn). rewrite P.
    cbn [hdr_is_empty h_uid h_len h_crc r_hdr]. eexists. rewrite (rc_ready2_closed (zlen buf) n).
    replace (zlen buf >=? n) with true by lia. reflexivity.
  - assert (Hne : hdr_is_empty h = false) by (unfold hdr_is_empty; rewrite Hn; destruct (h_uid h); reflexivity).
    rewrite Hne. cbn [r_hdr]. rewrite Hne, Hn. eexists. rewrite (rc_ready2_closed (zlen buf) n).
    replace (zlen buf >=? n) with true by lia. reflexivity.
Qed.

(* ... and checkFrame cannot say "incomplete": it accepts, or the CRC fails and everything is dropped *)
Lemma rtu_check_long cfg buf h st2 r : cf_rules cfg = server_decoder -> wfb buf = true -> 268 <= zlen buf ->
  rtu_check cfg {| r_buf := buf; r_hdr := h |} = (st2, r) -> r = Ok true \/ (r = Ok false /\ r_buf st2 = []).
Proof.
  intros Hr Hw Hl. unfold rtu_check, rtu_check_body.
  destruct (rtu_populate_total cfg buf h Hr Hw ltac:(lia)) as (u & s & c & P & Hs). rewrite P.
  cbn [r_hdr h_len r_buf]. rewrite rc_chk_data_hi_closed, rc_chk_crc_lo_closed, rc_chk_crc_hi_closed.
  destruct (split_at2 buf (s - 2) ltac:(lia) ltac:(lia)) as (xs & c0 & c1 & z & Eb & Hx).
  rewrite Eb. rewrite (pyslice_prefix xs ([c0; c1] ++ z)) by lia.
  rewrite (pyslice_mid xs [c0; c1] z) by (unfold zlen in *; cbn [length]; lia).
  rewrite py_index_app_head.
  assert (E2 : py_index [c0; c1] 1 = Ok c1) by (apply py_index_ok; [lia | reflexivity]). rewrite E2.
  assert (Hwx : wfb xs = true) by (rewrite Eb, wfb_app in Hw; apply andb_prop in Hw; tauto).
  rewrite rc_chk_crc_val_closed, py_check_crc_spec by exact Hwx.
  destruct (Z.of_N (swap16 (crc16_bitwise xs)) =? Z.shiftl (zb c0) 8 + zb c1); intros H; inversion H.
  - left. reflexivity.
  - right. split; reflexivity.
Qed.

(* isFrameReady keeps the header bounded whenever it returns normally *)
Lemma rtu_ready_bounded cfg st st1 b : cf_rules cfg = server_decoder -> wfb (r_buf st) = true ->
  hdr_bounded (r_hdr st) -> rtu_ready cfg st = (st1, Ok b) -> hdr_bounded (r_hdr st1).
Proof.
  intros Hr Hw Hh. unfold rtu_ready.
  destruct (beval _ (rc_ready rtu)); [|intros R; inversion R; subst; exact Hh].
  destruct (hdr_is_empty (r_hdr st)) eqn:He.
  - destruct (rtu_populate cfg st) as [sp [e|]] eqn:P.
    + destruct e; intros R; inversion R; subst; apply hdr_bounded_empty.
    + pose proof P as P'. apply rtu_populate_ok in P'. destruct P' as (u & fc & size & _ & _ & Fs & _ & _ & Hl).
      rewrite Hr in Fs.
      pose proof (rule_max_of_bool _ _ _ (server_rule_b (zb fc)) Hw Fs) as Hm.
      destruct (hdr_is_empty (r_hdr sp)); [intros R; inversion R; subst; right; exists size; split; assumption|].
      rewrite Hl. intros R. inversion R. subst. right. exists size. split; assumption.
  - rewrite He. destruct (h_len (r_hdr st)); intros R; inversion R; subst; exact Hh.
Qed.

(* RECOVERY / BACKLOG BOUND (request direction).  For EVERY buffer content (any garbage, any
   number of frames per read) and every pending bounded header: a call that returns normally
   leaves fewer than 268 = 255 + 10 + 3 bytes buffered (the largest extent the request-table size
   oracle can return) and a bounded header again.  Hence the backlog never exceeds 267 bytes
   however the traffic arrives, and a candidate frame never waits for more than 268 bytes: it is
   delivered (justified, rtu_gate), skipped, or dropped with everything behind it. *)
Lemma rtu_loop_backlog cfg : cf_rules cfg = server_decoder -> forall fuel st acc st' ds,
  wfb (r_buf st) = true -> hdr_bounded (r_hdr st) ->
  rtu_loop fuel cfg st acc = (st', ds, FOk) -> zlen (r_buf st') < 268 /\ hdr_bounded (r_hdr st').
Proof.
  intros Hr. assert (Hk : known_rules (cf_rules cfg)) by (rewrite Hr; exact known_server).
  induction fuel as [|k IH]; intros st acc st' ds Hw Hh H; cbn [rtu_loop] in H; [discriminate H|].
  destruct (rtu_ready cfg st) as [st1 [[|]|e]] eqn:R; try discriminate H.
  - pose proof (rtu_ready_buf' _ _ _ _ R) as B1. pose proof (rtu_ready_bounded _ _ _ _ Hr Hw Hh R) as Hb1.
    destruct (rtu_check cfg st1) as [st2 [[|]|e]] eqn:C; try discriminate H.
    + apply rtu_check_true in C; [|exact Hk|rewrite B1; exact Hw].
      destruct C as (u & body & c0 & c1 & rest & Hsplit & Hb2 & Hu & Hl & Hlen & _).
      assert (Hb2' : r_buf st2 = (u :: body) ++ [c0; c1] ++ rest) by (rewrite Hb2; exact Hsplit).
      destruct (rtu_process_spec cfg st2 u body c0 c1 rest Hb2' Hu Hl Hlen) as [P A].
      assert (Hwr : wfb rest = true).
      { rewrite B1 in Hsplit. rewrite Hsplit in Hw. rewrite !wfb_app in Hw. apply andb_prop in Hw. destruct Hw as [_ Hw]. apply andb_prop in Hw. tauto. }
      destruct (validate_unit cfg _) as [[|]|e]; try discriminate H.
      * rewrite P in H. destruct (cf_dec cfg body); try discriminate H.
        apply IH in H; [exact H|exact Hwr|apply hdr_bounded_empty].
      * rewrite A in H. apply IH in H; [exact H|exact Hwr|apply hdr_bounded_empty].
    + destruct (r_buf st2) as [|y t] eqn:E2.
      * apply IH in H; [exact H|reflexivity|apply hdr_bounded_empty].
      * inversion H. subst. cbn [r_buf r_hdr]. split; [|apply hdr_bounded_empty].
        destruct (rtu_check_false_resets _ _ _ C) as [[E _] | E]; [rewrite E in E2; discriminate E2|].
        destruct (Z_lt_ge_dec (zlen (r_buf st1)) 268) as [Hlt|Hge]; [rewrite <- E2, E; exact Hlt|].
        exfalso. destruct st1 as [b1 h1]. cbn [r_buf] in *.
        destruct (rtu_check_long cfg b1 h1 st2 (Ok false) Hr ltac:(rewrite B1; exact Hw) ltac:(lia) C) as [F | [_ F]];
          [discriminate F | rewrite F in E2; discriminate E2].
  - inversion H. subst. pose proof (rtu_ready_buf' _ _ _ _ R) as B1.
    split; [|exact (rtu_ready_bounded _ _ _ _ Hr Hw Hh R)].
    destruct (Z_lt_ge_dec (zlen (r_buf st)) 268) as [Hlt|Hge]; [rewrite B1; exact Hlt|].
    exfalso. destruct st as [b0 h0]. cbn [r_buf r_hdr] in *.
    destruct (rtu_ready_long cfg b0 h0 Hr Hw Hh ltac:(lia)) as [h1 R']. rewrite R' in R. discriminate R.
Qed.

Theorem rtu_recover_server cfg st chunk st' ds :
  cf_rules cfg = server_decoder -> wfb (r_buf st ++ chunk) = true -> hdr_bounded (r_hdr st) ->
  rtu_recv cfg st chunk = (st', ds, FOk) -> zlen (r_buf st') < 268 /\ hdr_bounded (r_hdr st').
Proof.
  intros Hr Hw Hh R. unfold rtu_recv in R.
  eapply (rtu_loop_backlog cfg Hr); [| |exact R]; cbn [r_buf r_hdr]; assumption.
Qed.
