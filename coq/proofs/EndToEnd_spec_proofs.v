(* EndToEnd_spec_proofs.v — ADAPTER LEMMAS, part 2: facts about the SPEC side that the composition
   needs and that no component development states, because each is about the seam between two of
   them: the abstract data model (ExecSpec, C04/C05) hands VALUES to the PDU layer (PduSpec, C01).

   * [cells_ok]: every configured cell holds a 16-bit value.  C04 needs no such invariant (its
     statements compare values, they never encode them); C01_encode_conforms needs every register
     of a response to fit its wire width.  The invariant is preserved by every data-access request
     ([exec_cells_ok]) and makes every response of the data model a well-formed spec message
     ([response_wf]). *)
From PM.theories Require Import Base Expr Struct FrBaseA FrSpecA PduCls PduSpec Pdu CorrPdu Store Exec ExecSpec ExecView Server EndToEnd CorrE2E.
From PM.proofs Require Import Pdu_bits_proofs Pdu_proofs Pdu_more_proofs Exec_proofs Exec_req_proofs EndToEnd_adapt_proofs.
From Coq Require Import ZifyBool.
Open Scope list_scope.
Open Scope Z_scope.
Ltac Zify.zify_post_hook ::= Z.to_euclidean_division_equations.

Definition u16v (v : Z) : Prop := 0 <= v < 65536.

Definition cells_ok (s : astate) : Prop := forall b k v, a_cell s b k = Some v -> u16v v.

Lemma cells_ok_aeq s s' : aeq s s' -> cells_ok s -> cells_ok s'.
Proof. intros [_ Hc] H b k v Hv. rewrite <- Hc in Hv. exact (H b k v Hv). Qed.

(* ---- bit arithmetic of the mask write ------------------------------------------------------ *)
Lemma u16_high_bit x n : u16v x -> 16 <= n -> Z.testbit x n = false.
Proof.
  intros [H0 H1] Hn. destruct (Z.eq_dec x 0) as [->|Hx]; [apply Z.testbit_0_l|].
  apply Z.bits_above_log2; [lia|]. apply Z.lt_le_trans with 16; [|lia].
  apply Z.log2_lt_pow2; [lia|]. change (2 ^ 16) with 65536. lia.
Qed.

Lemma high_bits_u16 r : 0 <= r -> (forall n, 16 <= n -> Z.testbit r n = false) -> u16v r.
Proof.
  intros H0 Hb. assert (E : r = r mod 2 ^ 16).
  { apply Z.bits_inj'. intros n Hn. destruct (Z_lt_le_dec n 16) as [Hl|Hg].
    - now rewrite Z.mod_pow2_bits_low by lia.
    - rewrite Z.mod_pow2_bits_high by lia. now apply Hb. }
  pose proof (Z.mod_pos_bound r (2 ^ 16) eq_refl) as Hm. change (2 ^ 16) with 65536 in *. unfold u16v. lia.
Qed.

Lemma mask_result_u16 cur am om : u16v cur -> u16v am -> u16v om -> u16v (mask_result cur am om).
Proof.
  intros Hc Ha Ho. unfold mask_result. apply high_bits_u16.
  - apply Z.lor_nonneg. split; apply Z.land_nonneg; left; [apply Hc|apply Ho].
  - intros n Hn. rewrite Z.lor_spec, !Z.land_spec.
    rewrite (u16_high_bit cur n Hc Hn), (u16_high_bit om n Ho Hn). reflexivity.
Qed.

(* ---- values read from and written to the data model -------------------------------------- *)
Lemma read_u16 s t a n : cells_ok s -> Forall u16v (read s t a n).
Proof.
  intros H. unfold read. apply Forall_forall. intros v Hv. apply in_map_iff in Hv as (k & <- & _).
  unfold cell. destruct (a_cell s (a_slot s t) k) as [x|] eqn:E; [exact (H _ _ _ E)|unfold u16v; lia].
Qed.

Lemma read_length s t a n : length (read s t a n) = Z.to_nat n.
Proof. unfold read. rewrite map_length. apply zrange_length. Qed.

Lemma forall_all_u16 l : Forall u16v l -> all_u16 l = true.
Proof.
  intros H. unfold all_u16. apply forallb_forall. intros v Hv.
  rewrite Forall_forall in H. specialize (H v Hv). unfold u16v in H. unfold is_u16. lia.
Qed.

Lemma all_u16_forall l : all_u16 l = true -> Forall u16v l.
Proof.
  intros H. unfold all_u16 in H. rewrite forallb_forall in H. apply Forall_forall. intros v Hv.
  specialize (H v Hv). unfold is_u16 in H. unfold u16v. lia.
Qed.

Lemma write_cells_ok s t a vs : cells_ok s -> Forall u16v vs -> cells_ok (write s t a vs).
Proof.
  intros H Hv b k v. unfold write. cbn [a_cell].
  destruct (Nat.eqb b (a_slot s t)); [|apply H].
  destruct ((a <=? k) && (k <? a + Z.of_nat (length vs))); [|apply H].
  intros E. apply nth_error_In in E. rewrite Forall_forall in Hv. exact (Hv v E).
Qed.

Lemma bits_u16 data : Forall u16v (bits_of_bytes data).
Proof.
  apply Forall_forall. intros v Hv. unfold bits_of_bytes in Hv. apply in_flat_map in Hv as (b & _ & Hb).
  unfold bits_of_byte in Hb. apply in_map_iff in Hb as (i & <- & _). unfold u16v. destruct (Z.testbit b i); lia.
Qed.

Lemma forall_firstn {A} (P : A -> Prop) n l : Forall P l -> Forall P (firstn n l).
Proof.
  intros H. revert n. induction H as [|x l Hx Hl IH]; intros n; destruct n; cbn [firstn]; constructor; auto.
Qed.

Lemma words_data rs : all_u16 rs = true ->
  firstn (length rs) (words_of_bytes (zbytes (words rs))) = rs.
Proof.
  intros H. destruct (take_words_spec _ _ _ (take_words_words rs H)) as [E _]. now symmetry.
Qed.

(* ---- the invariant is preserved, the response is a well-formed message -------------------- *)
Lemma lor128 k : 0 <= k < 128 -> Z.lor k 128 - 128 = k.
Proof. intros H. rewrite lor_offset by assumption. lia. Qed.

Lemma exc_wf k code : 1 <= k < 128 -> 0 <= code < 256 -> spec_wf (MException (Z.lor k 128 - 128) code) = true.
Proof. intros Hk Hc. rewrite lor128 by lia. cbn [spec_wf]. unfold is_u8. lia. Qed.

Lemma outcome_code s w c : spec_outcome s w = Some c -> 0 <= c < 256.
Proof.
  destruct w; cbn [spec_outcome]; intros H;
  repeat match type of H with
         | (if ?b then _ else _) = _ => destruct b
         | (let _ := _ in _) = _ => cbv zeta in H
         | Some _ = Some _ => injection H as <-
         | None = Some _ => discriminate H
         end; lia.
Qed.

Lemma wfc_range m w : wreq_of_msg m = Some w -> 1 <= wfc w < 128.
Proof. destruct m; cbn [wreq_of_msg]; intros H; try discriminate H; injection H as <-; cbn [wfc read_fc]; lia. Qed.

Theorem exec_cells_ok m w s : wreq_of_msg m = Some w -> spec_wf m = true -> cells_ok s ->
  cells_ok (fst (spec_exec s w)).
Proof.
  intros Hw Hwf Hs. unfold spec_exec. destruct (spec_outcome s w) as [c|]; [exact Hs|].
  destruct m; unfold wreq_of_msg in Hw; try discriminate Hw; injection Hw as <-; cbn [spec_apply fst]; try exact Hs.
  - apply write_cells_ok; [exact Hs|]. constructor; [|constructor]. unfold u16v. destruct on; cbn; lia.
  - apply write_cells_ok; [exact Hs|]. cbn [spec_wf] in Hwf. unfold is_u16 in Hwf. constructor; [|constructor]. unfold u16v. lia.
  - apply write_cells_ok; [exact Hs|]. apply forall_firstn, bits_u16.
  - apply write_cells_ok; [exact Hs|]. cbn [spec_wf] in Hwf. split_andb Hwf.
    unfold len. rewrite Nat2Z.id, words_data by assumption. now apply all_u16_forall.
  - apply write_cells_ok; [exact Hs|]. cbn [spec_wf] in Hwf. unfold is_u16 in Hwf. constructor; [|constructor].
    apply mask_result_u16; unfold u16v; try lia.
    unfold cell. destruct (a_cell s (a_slot s Holding) addr) as [x|] eqn:E; [exact (Hs _ _ _ E)|unfold u16v; lia].
  - apply write_cells_ok; [exact Hs|]. cbn [spec_wf] in Hwf. split_andb Hwf.
    unfold len. rewrite Nat2Z.id, words_data by assumption. now apply all_u16_forall.
Qed.

Lemma bits_rsp_wf n (vals : list Z) : 1 <= n <= 2000 -> length vals = Z.to_nat n ->
  is_u8 (bit_byte_count (len (map coil_on vals))) = true.
Proof. intros Hn Hl. unfold len. rewrite map_length, Hl. unfold is_u8, bit_byte_count. lia. Qed.

Lemma regs_rsp_wf n (vals : list Z) : 1 <= n <= 125 -> length vals = Z.to_nat n -> Forall u16v vals ->
  is_u8 (2 * len vals) && all_u16 vals = true.
Proof. intros Hn Hl Hv. rewrite (forall_all_u16 _ Hv). unfold len. rewrite Hl. unfold is_u8. lia. Qed.

Theorem response_wf m w s : wreq_of_msg m = Some w -> spec_wf m = true -> cells_ok s ->
  spec_wf (spec_response_msg (snd (spec_exec s w))) = true.
Proof.
  intros Hw Hwf Hs. pose proof (wfc_range m w Hw) as Hfc. unfold spec_exec.
  destruct (spec_outcome s w) as [c|] eqn:Eo.
  { cbn [snd spec_response_msg]. apply exc_wf; [exact Hfc|]. exact (outcome_code _ _ _ Eo). }
  destruct m; unfold wreq_of_msg in Hw; try discriminate Hw; injection Hw as <-;
    cbn [spec_apply snd spec_response_msg read_fc]; cbn [spec_outcome] in Eo; cbn [spec_wf] in Hwf.
  - destruct (negb (in_range 1 qty 2000)) eqn:E; [discriminate Eo|]. unfold in_range in E.
    cbn [Z.eqb Pos.eqb spec_wf]. apply bits_rsp_wf with qty; [lia|apply read_length].
  - destruct (negb (in_range 1 qty 2000)) eqn:E; [discriminate Eo|]. unfold in_range in E.
    cbn [Z.eqb Pos.eqb spec_wf]. apply bits_rsp_wf with qty; [lia|apply read_length].
  - destruct (negb (in_range 1 qty 125)) eqn:E; [discriminate Eo|]. unfold in_range in E.
    cbn [Z.eqb Pos.eqb spec_wf]. apply regs_rsp_wf with qty; [lia|apply read_length|now apply read_u16].
  - destruct (negb (in_range 1 qty 125)) eqn:E; [discriminate Eo|]. unfold in_range in E.
    cbn [Z.eqb Pos.eqb spec_wf]. apply regs_rsp_wf with qty; [lia|apply read_length|now apply read_u16].
  - cbn [Z.eqb Pos.eqb spec_wf]. exact Hwf.
  - cbn [Z.eqb Pos.eqb spec_wf]. exact Hwf.
  - cbn [Z.eqb Pos.eqb spec_wf]. split_andb Hwf. now rewrite Hwf, Hwf1.
  - cbn [Z.eqb Pos.eqb spec_wf]. split_andb Hwf. rewrite Hwf. unfold is_u8 in Hwf1. unfold is_u16. cbn [andb]. lia.
  - cbn [spec_wf]. exact Hwf.
  - match type of Eo with (if ?b then _ else _) = _ => destruct b eqn:E; [discriminate Eo|] end. unfold in_range in E.
    cbn [Z.eqb Pos.eqb spec_wf]. apply regs_rsp_wf with rqty; [lia|apply read_length|].
    apply read_u16. split_andb Hwf. apply write_cells_ok; [exact Hs|].
    unfold len. rewrite Nat2Z.id, words_data by assumption. now apply all_u16_forall.
Qed.

(* ---- the same for request bodies (unassigned function codes included: exception 01, no change) ---- *)
Theorem body_response_wf b w s : body_ok b w -> cells_ok s ->
  spec_wf (spec_response_msg (snd (spec_exec s w))) = true /\ cells_ok (fst (spec_exec s w)).
Proof.
  destruct b as [m|fc rest]; cbn [body_ok].
  - intros [Hw Hwf] Hs. split; [exact (response_wf m w s Hw Hwf Hs)|exact (exec_cells_ok m w s Hw Hwf Hs)].
  - intros (-> & Hfc & _ & _) Hs. unfold spec_exec. cbn [spec_outcome fst snd wfc spec_response_msg].
    split; [apply exc_wf; lia|exact Hs].
Qed.
