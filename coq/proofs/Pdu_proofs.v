(* Pdu_proofs.v — basic lemmas tying the struct model to the specification's primitive
   encodings, and encode conformance (C01) class family by class family. *)
From PM.theories Require Import Base Struct PduCls PduSpec Pdu CorrPdu.
From PM.Generated Require Import GenPdu.
From PM.proofs Require Import Struct_proofs Pdu_bits_proofs.
From Coq Require Import ZifyBool.
Open Scope string_scope.
Open Scope list_scope.
Open Scope Z_scope.
Ltac Zify.zify_post_hook ::= Z.to_euclidean_division_equations.

(* ---- struct.pack of in-range fields = the specification's big-endian encodings ------------ *)

Lemma pack1_H v : is_u16 v = true -> pack1 true FH v = Ok (u16 v).
Proof.
  intros H. unfold is_u16 in H. unfold pack1, in_range. cbn [fsigned fwidth].
  change (pow256 2) with 65536. replace ((0 <=? v) && (v <? 65536)) with true by lia.
  unfold to_unsigned. replace (v <? 0) with false by lia.
  cbn [le_bytes rev app]. unfold u16. replace (v / 256 mod 256) with (v / 256) by lia. reflexivity.
Qed.

Lemma pack1_B v : is_u8 v = true -> pack1 true FB v = Ok (u8 v).
Proof.
  intros H. unfold is_u8 in H. unfold pack1, in_range. cbn [fsigned fwidth].
  change (pow256 1) with 256. replace ((0 <=? v) && (v <? 256)) with true by lia.
  unfold to_unsigned. replace (v <? 0) with false by lia.
  cbn [le_bytes rev app]. unfold u8. replace (v mod 256) with v by lia. reflexivity.
Qed.

Lemma pack1_H_raises v : is_u16 v = false -> pack1 true FH v = Raise StructError.
Proof.
  intros H. apply pack1_raises. unfold is_u16 in H. unfold in_range. cbn [fsigned fwidth].
  change (pow256 2) with 65536. exact H.
Qed.

Lemma pack1_B_raises v : is_u8 v = false -> pack1 true FB v = Raise StructError.
Proof.
  intros H. apply pack1_raises. unfold is_u8 in H. unfold in_range. cbn [fsigned fwidth].
  change (pow256 1) with 256. exact H.
Qed.

Lemma pack_cons big c fs v vs :
  pack big (c :: fs) (v :: vs) = (do b <- pack1 big c v; do r <- pack big fs vs; Ok (b ++ r)).
Proof. reflexivity. Qed.

Lemma pack_nil big : pack big [] [] = Ok [].
Proof. reflexivity. Qed.

(* rewrite a pack of in-range H/B fields into spec bytes; in-range facts come from the context *)
Ltac pk_simpl :=
  unfold int2byte; unfold pk;
  repeat (rewrite pack_cons ||
          rewrite pack_nil ||
          (rewrite pack1_H by (assumption || reflexivity)) ||
          (rewrite pack1_B by (assumption || reflexivity)) ||
          cbn [bind]).

Lemma enc_words_spec l : all_u16 l = true -> enc_words l = Ok (words l).
Proof.
  induction l as [|v t IH]; intros H; [reflexivity|].
  cbn [all_u16 forallb] in H. apply andb_true_iff in H as [Hv Ht].
  cbn [enc_words]. pk_simpl. rewrite IH by exact Ht. cbn [bind].
  unfold words. cbn [flat_map]. now rewrite app_nil_r.
Qed.

Lemma enc_u8s_spec l : all_u8 l = true -> enc_u8s l = Ok (flat_map u8 l).
Proof.
  induction l as [|v t IH]; intros H; [reflexivity|].
  cbn [all_u8 forallb] in H. apply andb_true_iff in H as [Hv Ht].
  cbn [enc_u8s]. pk_simpl. rewrite IH by exact Ht. cbn [bind flat_map]. now rewrite app_nil_r.
Qed.

Lemma zlen_len {A} (l : list A) : zlen l = len l.
Proof. reflexivity. Qed.

(* split a conjunction of boolean facts in hypothesis H into named pieces *)
Ltac split_andb H :=
  repeat match type of H with
         | (_ && _) = true => let H1 := fresh H in apply andb_true_iff in H as [H H1]; try split_andb H1
         end.

(* [abs o = Some m] gives [abs_raw o = Some m] and [spec_wf m = true] *)
Lemma abs_inv o m : abs o = Some m -> abs_raw o = Some m /\ spec_wf m = true.
Proof.
  unfold abs. destruct (abs_raw o) as [m'|]; [|discriminate].
  destruct (spec_wf m') eqn:E; [|discriminate]. intros H. injection H as <-. split; [reflexivity|exact E].
Qed.

(* ---- evaluating the generated tables at a concrete class -------------------------------- *)

Ltac tab :=
  repeat match goal with
  | |- context [fc_of ?c] => is_constructor c; let x := eval vm_compute in (fc_of c) in change (fc_of c) with x
  | |- context [assoc_cls ?c enc_layouts] => is_constructor c; let x := eval vm_compute in (assoc_cls c enc_layouts) in change (assoc_cls c enc_layouts) with x
  | |- context [assoc_cls ?c dec_layouts] => is_constructor c; let x := eval vm_compute in (assoc_cls c dec_layouts) in change (assoc_cls c dec_layouts) with x
  | |- context [cls_eqb ?c ?d] => is_constructor c; is_constructor d; let x := eval vm_compute in (cls_eqb c d) in change (cls_eqb c d) with x
  | |- context [is_request ?c] => is_constructor c; let x := eval vm_compute in (is_request c) in change (is_request c) with x
  end.

Ltac open_pdu := unfold py_pdu, obj_fc, class_of, py_encode, encode_st, fst; tab; cbn [bind].
Ltac fin_pdu := cbn [spec_pdu bind fst]; rewrite ?app_nil_r; try reflexivity.

Lemma cls_eqb_true c d : cls_eqb c d = true -> c = d.
Proof. destruct c; destruct d; intros H; try reflexivity; discriminate H. Qed.

Lemma cls_eqb_refl c : cls_eqb c c = true.
Proof. unfold cls_eqb. apply N.eqb_refl. Qed.

(* ---- C01: encode conformance, family by family ------------------------------------------ *)

Lemma enc_conf_fixed c a m : abs (OFixed c a) = Some m -> py_pdu (OFixed c a) = Ok (spec_pdu m).
Proof.
  intros H. apply abs_inv in H as [Hr Hw].
  destruct c; cbn [abs_raw] in Hr; try discriminate Hr;
  unfold at2, at3 in Hr;
  repeat match type of Hr with context [assoc_str ?k a] => destruct (assoc_str k a) eqn:? ; try discriminate Hr end;
  try (match type of Hr with context [?s =? 14] => destruct (s =? 14) eqn:E14; [apply Z.eqb_eq in E14; subst s|discriminate Hr] end);
  try discriminate Hr;
  injection Hr as <-; cbn [spec_wf] in Hw; split_andb Hw;
  open_pdu; unfold enc_fixed; tab; cbn [bind attr_values];
  repeat match goal with E : assoc_str _ a = Some _ |- _ => rewrite E; clear E end; cbn [bind];
  pk_simpl; fin_pdu.
Qed.

Lemma enc_conf_empty c m : abs (OEmpty c) = Some m -> py_pdu (OEmpty c) = Ok (spec_pdu m).
Proof.
  intros H. apply abs_inv in H as [Hr Hw].
  destruct c; cbn [abs_raw] in Hr; try discriminate Hr; injection Hr as <-; open_pdu; reflexivity.
Qed.

Lemma enc_conf_bits c bits bc m : abs (OBitsRsp c bits bc) = Some m -> py_pdu (OBitsRsp c bits bc) = Ok (spec_pdu m).
Proof.
  intros H. apply abs_inv in H as [Hr Hw].
  destruct c; cbn [abs_raw] in Hr; try discriminate Hr; injection Hr as <-; cbn [spec_wf] in Hw;
  open_pdu; rewrite py_pack_spec; unfold zlen; rewrite spec_pack_bits_length; pk_simpl; fin_pdu.
Qed.

Lemma enc_conf_regs c regs m : abs (ORegsRsp c regs) = Some m -> py_pdu (ORegsRsp c regs) = Ok (spec_pdu m).
Proof.
  intros H. apply abs_inv in H as [Hr Hw].
  destruct c; cbn [abs_raw] in Hr; try discriminate Hr; injection Hr as <-; cbn [spec_wf] in Hw; split_andb Hw;
  open_pdu; replace (zlen regs * 2) with (2 * len regs) by (unfold zlen, len; lia);
  pk_simpl; rewrite enc_words_spec by assumption; fin_pdu.
Qed.

Lemma coil_word_u16 v : is_u16 (coil_word v) = true.
Proof. destruct v; reflexivity. Qed.
Lemma coil_word_spec v : u16 (coil_word v) = on_word v.
Proof. destruct v; reflexivity. Qed.

Lemma enc_conf_coil c a v m : abs (OCoil c a v) = Some m -> py_pdu (OCoil c a v) = Ok (spec_pdu m).
Proof.
  intros H. apply abs_inv in H as [Hr Hw]. pose proof (coil_word_u16 v) as Hc.
  destruct c; cbn [abs_raw] in Hr; try discriminate Hr; injection Hr as <-; cbn [spec_wf] in Hw;
  open_pdu; pk_simpl; rewrite coil_word_spec; fin_pdu.
Qed.

Lemma enc_conf_writereg a v m : abs (OWriteRegReq a v) = Some m -> py_pdu (OWriteRegReq a v) = Ok (spec_pdu m).
Proof.
  intros H. apply abs_inv in H as [Hr Hw]. cbn [abs_raw] in Hr. injection Hr as <-. cbn [spec_wf] in Hw. split_andb Hw.
  open_pdu. pk_simpl. fin_pdu.
Qed.

Lemma enc_conf_writecoils a vals bc m :
  abs (OWriteCoilsReq a vals bc) = Some m -> py_pdu (OWriteCoilsReq a vals bc) = Ok (spec_pdu m).
Proof.
  intros H. apply abs_inv in H as [Hr Hw]. cbn [abs_raw] in Hr. injection Hr as <-. cbn [spec_wf] in Hw. split_andb Hw.
  unfold bit_byte_count in *. open_pdu. rewrite !zlen_len. pk_simpl. rewrite py_pack_spec. fin_pdu.
Qed.

Lemma enc_conf_writeregs a vals cnt bc m :
  abs (OWriteRegsReq a vals cnt bc) = Some m -> py_pdu (OWriteRegsReq a vals cnt bc) = Ok (spec_pdu m).
Proof.
  intros H. apply abs_inv in H as [Hr Hw]. cbn [abs_raw] in Hr.
  destruct ((cnt =? zlen vals) && (bc =? 2 * zlen vals)) eqn:E; [|discriminate Hr].
  injection Hr as <-. cbn [spec_wf] in Hw. split_andb Hw. split_andb E.
  apply Z.eqb_eq in E, E0. subst cnt bc. rewrite !zlen_len in *.
  assert (Hc : is_u16 (len vals) = true) by (unfold is_u16, is_u8, len in *; lia).
  open_pdu. pk_simpl. rewrite enc_words_spec by assumption. fin_pdu.
Qed.

Lemma enc_conf_rw ra rc wa regs wc wbc m :
  abs (ORWReq ra rc wa regs wc wbc) = Some m -> py_pdu (ORWReq ra rc wa regs wc wbc) = Ok (spec_pdu m).
Proof.
  intros H. apply abs_inv in H as [Hr Hw]. cbn [abs_raw] in Hr.
  destruct ((wc =? zlen regs) && (wbc =? 2 * zlen regs)) eqn:E; [|discriminate Hr].
  injection Hr as <-. cbn [spec_wf] in Hw. split_andb Hw. split_andb E.
  apply Z.eqb_eq in E, E0. subst wc wbc. rewrite !zlen_len in *.
  assert (Hc : is_u16 (len regs) = true) by (unfold is_u16, is_u8, len in *; lia).
  open_pdu. pk_simpl. rewrite enc_words_spec by assumption. fin_pdu.
Qed.

Lemma enc_conf_excstatus s m : abs (OExcStatusRsp s) = Some m -> py_pdu (OExcStatusRsp s) = Ok (spec_pdu m).
Proof.
  intros H. apply abs_inv in H as [Hr Hw]. cbn [abs_raw] in Hr. injection Hr as <-. cbn [spec_wf] in Hw.
  open_pdu. pk_simpl. fin_pdu.
Qed.

Lemma enc_conf_evcounter st c m : abs (OEvCounterRsp st c) = Some m -> py_pdu (OEvCounterRsp st c) = Ok (spec_pdu m).
Proof.
  intros H. apply abs_inv in H as [Hr Hw]. cbn [abs_raw] in Hr. injection Hr as <-. cbn [spec_wf] in Hw.
  assert (Hs : is_u16 (if st then status_ready else status_waiting) = true) by (destruct st; reflexivity).
  open_pdu. pk_simpl. destruct st; fin_pdu.
Qed.

Lemma enc_conf_evlog st mc ec evs m :
  abs (OEvLogRsp st mc ec evs) = Some m -> py_pdu (OEvLogRsp st mc ec evs) = Ok (spec_pdu m).
Proof.
  intros H. apply abs_inv in H as [Hr Hw]. cbn [abs_raw] in Hr. injection Hr as <-. cbn [spec_wf] in Hw. split_andb Hw.
  assert (Hs : is_u16 (if st then status_ready else status_waiting) = true) by (destruct st; reflexivity).
  open_pdu. rewrite !zlen_len. pk_simpl. rewrite enc_u8s_spec by assumption. destruct st; fin_pdu.
Qed.

Lemma enc_conf_slaveid id st bc m :
  abs (OSlaveIdRsp id st bc) = Some m -> py_pdu (OSlaveIdRsp id st bc) = Ok (spec_pdu m).
Proof.
  intros H. apply abs_inv in H as [Hr Hw]. cbn [abs_raw] in Hr. injection Hr as <-. cbn [spec_wf] in Hw. split_andb Hw.
  assert (Hs : is_u8 (if st then status_slave_on else status_slave_off) = true) by (destruct st; reflexivity).
  open_pdu. rewrite !zlen_len. pk_simpl. destruct st; fin_pdu.
Qed.

Lemma enc_conf_exc orig fc code m : abs (OExc orig fc code) = Some m -> py_pdu (OExc orig fc code) = Ok (spec_pdu m).
Proof.
  intros H. apply abs_inv in H as [Hr Hw]. cbn [abs_raw] in Hr.
  destruct (fc =? orig + 128) eqn:E; [|discriminate Hr]. apply Z.eqb_eq in E. subst fc.
  injection Hr as <-. cbn [spec_wf] in Hw. split_andb Hw.
  open_pdu. unfold fc_byte. replace ((0 <=? orig + 128) && (orig + 128 <? 256)) with true by lia.
  cbn [bind]. pk_simpl. fin_pdu.
Qed.

Lemma enc_conf_diag c sub msg m : abs (ODiag c sub msg) = Some m -> py_pdu (ODiag c sub msg) = Ok (spec_pdu m).
Proof.
  intros H. apply abs_inv in H as [Hr Hw]. cbn [abs_raw] in Hr.
  destruct (option_eqb Z.eqb (fc_of c) (Some 8)) eqn:Efc; [|discriminate Hr].
  destruct (fc_of c) as [fc|] eqn:Ef; [|discriminate Efc]. cbn [option_eqb] in Efc. apply Z.eqb_eq in Efc. subst fc.
  unfold py_pdu, obj_fc, class_of, py_encode, encode_st, fst. rewrite Ef. cbn [bind]. unfold enc_diag.
  destruct (cls_eqb c GetClearModbusPlusRequest) eqn:Eg.
  - apply cls_eqb_true in Eg. subst c. change (is_request GetClearModbusPlusRequest) with true in *.
    destruct msg as [|v|l|l|b]; try discriminate Hr; injection Hr as <-;
      cbn [spec_wf all_u16 forallb] in Hw; split_andb Hw; pk_simpl; fin_pdu.
  - destruct msg as [|v|l|l|b]; destruct (is_request c) eqn:Er;
      try discriminate Hr; injection Hr as <-; cbn [spec_wf all_u16 forallb] in Hw; split_andb Hw;
      pk_simpl; rewrite ?enc_words_spec by assumption; fin_pdu; unfold words; cbn [flat_map]; rewrite ?app_nil_r; reflexivity.
Qed.

(* ---- file records --------------------------------------------------------------------- *)

Lemma u16_rd_be16 h l : (h < 256)%N -> (l < 256)%N -> u16 (rd_be16 h l) = [h; l].
Proof.
  intros Hh Hl. unfold u16, rd_be16.
  replace ((Z.of_N h * 256 + Z.of_N l) / 256) with (Z.of_N h) by lia.
  replace ((Z.of_N h * 256 + Z.of_N l) mod 256) with (Z.of_N l) by lia.
  now rewrite !N2Z.id.
Qed.

Lemma rd_be16_u16 h l : (h < 256)%N -> (l < 256)%N -> is_u16 (rd_be16 h l) = true.
Proof. intros Hh Hl. unfold is_u16, rd_be16. lia. Qed.

Lemma words_of_bytes_spec : forall ws b, wfb b = true -> words_of_bytes b = Some ws ->
  words ws = b /\ 2 * len ws = len b /\ all_u16 ws = true.
Proof.
  induction ws as [|w ws IH]; intros b Hb H.
  - destruct b as [|h [|l t]]; cbn in H; try discriminate H; [repeat split|].
    destruct (words_of_bytes t); discriminate H.
  - destruct b as [|h [|l t]]; cbn [words_of_bytes] in H; try discriminate H.
    destruct (words_of_bytes t) as [r|] eqn:E; [|discriminate H]. injection H as <- <-.
    cbn [wfb forallb] in Hb. fold (wfb t) in Hb. split_andb Hb. unfold byteb in Hb, Hb0.
    apply N.ltb_lt in Hb, Hb0.
    destruct (IH t Hb1 E) as (H1 & H2 & H3). repeat split.
    + unfold words in *. cbn [flat_map]. rewrite H1, u16_rd_be16 by assumption. reflexivity.
    + unfold len in *. cbn [length]. lia.
    + cbn [all_u16 forallb]. fold (all_u16 r). rewrite H3, rd_be16_u16 by assumption. reflexivity.
Qed.

Definition rs_sub_read (r : frec) : sub_read := {| sr_file := fr_file r; sr_record := fr_recno r; sr_length := fr_len r |}.

Lemma enc_read_subreqs_spec rs : forallb sub_read_wf (map rs_sub_read rs) = true ->
  enc_read_subreqs rs = Ok (flat_map sub_read_bytes (map rs_sub_read rs)).
Proof.
  induction rs as [|r t IH]; intros H; [reflexivity|].
  cbn [map forallb] in H. apply andb_true_iff in H as [Hr Ht]. unfold sub_read_wf in Hr. cbn in Hr. split_andb Hr.
  cbn [enc_read_subreqs]. pk_simpl. rewrite IH by exact Ht. cbn [bind map flat_map].
  unfold sub_read_bytes. cbn [sr_file sr_record sr_length rs_sub_read]. rewrite ?app_nil_r, <- ?app_assoc. reflexivity.
Qed.

Definition rs_sub_write (r : frec) : option sub_write :=
  match words_of_bytes (fr_data r) with
  | Some ws => Some {| sw_file := fr_file r; sw_record := fr_recno r; sw_data := ws |}
  | None => None
  end.

Lemma enc_write_subs_spec : forall rs ss,
  forallb (fun r => (fr_ref r =? 6) && (fr_len r * 2 =? zlen (fr_data r)) && wfb (fr_data r)) rs = true ->
  opt_map rs_sub_write rs = Some ss -> forallb sub_write_wf ss = true ->
  enc_write_subs rs = Ok (flat_map sub_write_bytes ss) /\
  Pdu.zsum (map (fun r => fr_len r * 2 + 7) rs) = PduSpec.zsum (map sub_write_size ss).
Proof.
  induction rs as [|r t IH]; intros ss Hc Ho Hw.
  - cbn in Ho. injection Ho as <-. split; reflexivity.
  - cbn [opt_map] in Ho. unfold rs_sub_write at 1 in Ho.
    destruct (words_of_bytes (fr_data r)) as [ws|] eqn:Ew; [|discriminate Ho].
    destruct (opt_map rs_sub_write t) as [st|] eqn:Et; [|discriminate Ho]. injection Ho as <-.
    cbn [forallb] in Hc, Hw. apply andb_true_iff in Hc as [Hr Hct]. apply andb_true_iff in Hw as [Hs Hwt].
    split_andb Hr. apply Z.eqb_eq in Hr1.
    unfold sub_write_wf in Hs. cbn [sw_file sw_record sw_data] in Hs. split_andb Hs.
    destruct (words_of_bytes_spec ws (fr_data r) Hr0 Ew) as (H1 & H2 & H3).
    destruct (IH st Hct eq_refl Hwt) as (IH1 & IH2).
    assert (Hlen : fr_len r = len ws) by (unfold zlen, len in *; lia).
    split.
    + cbn [enc_write_subs]. rewrite Hlen. pk_simpl. rewrite IH1. cbn [bind flat_map].
      unfold sub_write_bytes. cbn [sw_file sw_record sw_data]. rewrite H1, ?app_nil_r, <- ?app_assoc. reflexivity.
    + cbn [map Pdu.zsum PduSpec.zsum fold_right]. fold (Pdu.zsum (map (fun r => fr_len r * 2 + 7) t)).
      fold (PduSpec.zsum (map sub_write_size st)). rewrite IH2, Hlen. unfold sub_write_size. cbn [sw_data]. lia.
Qed.

Lemma enc_conf_filerecs c rs m :
  mem_cls c [ReadFileRecordRequest; WriteFileRecordRequest; WriteFileRecordResponse] = true ->
  abs (OFileRecs c rs) = Some m -> py_pdu (OFileRecs c rs) = Ok (spec_pdu m).
Proof.
  intros Hc H. apply abs_inv in H as [Hr Hw].
  destruct c; try discriminate Hc; cbn [abs_raw] in Hr.
  - destruct (forallb (fun r => fr_ref r =? 6) rs); [|discriminate Hr]. injection Hr as <-.
    fold rs_sub_read in Hw |- *. cbn [spec_wf] in Hw. split_andb Hw.
    unfold len in Hw. rewrite map_length in Hw.
    open_pdu. replace (zlen rs * 7) with (7 * Z.of_nat (length rs)) by (unfold zlen; lia).
    pk_simpl. rewrite enc_read_subreqs_spec by assumption. fin_pdu. unfold len. now rewrite map_length.
  - match type of Hr with (if ?b then _ else _) = _ => destruct b eqn:Eb; [|discriminate Hr] end.
    fold rs_sub_write in Hr. destruct (opt_map rs_sub_write rs) as [ss|] eqn:Eo; [|discriminate Hr].
    change (cls_eqb WriteFileRecordRequest WriteFileRecordRequest) with true in Hr. injection Hr as <-.
    cbn [spec_wf] in Hw. split_andb Hw.
    destruct (enc_write_subs_spec rs ss Eb Eo Hw0) as (H1 & H2).
    open_pdu. rewrite H2. pk_simpl. rewrite H1. fin_pdu.
  - match type of Hr with (if ?b then _ else _) = _ => destruct b eqn:Eb; [|discriminate Hr] end.
    fold rs_sub_write in Hr. destruct (opt_map rs_sub_write rs) as [ss|] eqn:Eo; [|discriminate Hr].
    change (cls_eqb WriteFileRecordResponse WriteFileRecordRequest) with false in Hr. injection Hr as <-.
    cbn [spec_wf] in Hw. split_andb Hw.
    destruct (enc_write_subs_spec rs ss Eb Eo Hw0) as (H1 & H2).
    open_pdu. rewrite H2. pk_simpl. rewrite H1. fin_pdu.
Qed.

(* ---- device identification response (everything fits one PDU) ---------------------------- *)

Definition obj_size (kv : Z * bytes) : Z := 2 + zlen (snd kv).

Lemma zsum_obj_size_nonneg items : 0 <= Pdu.zsum (map obj_size items).
Proof.
  induction items as [|x t IH]; cbn [map Pdu.zsum fold_right]; [lia|].
  fold (Pdu.zsum (map obj_size t)). unfold obj_size at 1, zlen. lia.
Qed.

Lemma mei_objs_fit : forall items space nobj acc,
  Pdu.zsum (map obj_size items) < space -> forallb object_wf items = true ->
  mei_objs items space nobj acc =
  Ok (acc ++ flat_map object_bytes items, space - Pdu.zsum (map obj_size items), nobj + len items, None).
Proof.
  induction items as [|[oid d] t IH]; intros space nobj acc Hs Hw.
  - cbn [mei_objs flat_map map Pdu.zsum fold_right]. unfold len. cbn [length Z.of_nat].
    rewrite app_nil_r, Z.sub_0_r, Z.add_0_r. reflexivity.
  - cbn [map Pdu.zsum fold_right] in Hs |- *. fold (Pdu.zsum (map obj_size t)) in Hs |- *.
    pose proof (zsum_obj_size_nonneg t) as Hn. unfold obj_size at 1 in Hs. cbn [snd] in Hs.
    cbn [forallb] in Hw. apply andb_true_iff in Hw as [Ho Ht]. unfold object_wf in Ho. cbn [fst snd] in Ho. split_andb Ho.
    cbn [mei_objs]. rewrite !zlen_len in *. replace (space - (2 + len d) <=? 0) with false by lia.
    pk_simpl. rewrite IH by (assumption || lia).
    cbn [flat_map]. unfold object_bytes at 2. cbn [fst snd]. unfold obj_size at 2. cbn [snd].
    rewrite ?app_nil_r, <- ?app_assoc. change (zlen d) with (len d).
    replace (space - (2 + len d) - Pdu.zsum (map obj_size t)) with (space - (2 + len d + Pdu.zsum (map obj_size t))) by lia.
    replace (nobj + 1 + len t) with (nobj + len ((oid, d) :: t)) by (unfold len; cbn [length]; lia). reflexivity.
Qed.

Lemma enc_conf_mei sub rc cf more next nobj info sl m :
  abs (OMeiRsp sub rc cf more next nobj info sl) = Some m ->
  py_pdu (OMeiRsp sub rc cf more next nobj info sl) = Ok (spec_pdu m).
Proof.
  intros H. apply abs_inv in H as [Hr Hw]. cbn [abs_raw] in Hr.
  match type of Hr with (if ?b then _ else _) = _ => destruct b eqn:Eb; [|discriminate Hr] end.
  injection Hr as <-. split_andb Eb. apply Z.eqb_eq in Eb. subst sub.
  assert (Hfit : Pdu.zsum (map obj_size (mei_items info)) < 253 - 6) by (apply Z.ltb_lt in Eb0; exact Eb0).
  cbn [spec_wf] in Hw. split_andb Hw.
  unfold py_pdu, obj_fc, class_of, py_encode, encode_st. tab. cbn [bind].
  pk_simpl. rewrite mei_objs_fit by assumption. rewrite Z.add_0_l.
  pk_simpl. cbn [fst]. fin_pdu.
Qed.

(* ---- C01_encode_conforms: all conforming classes at once ---------------------------------- *)

Theorem encode_conforms o m :
  mem_cls (class_of o) conforming_encode = true -> abs o = Some m -> py_pdu o = Ok (spec_pdu m).
Proof.
  intros Hc H. destruct o.
  - exact (enc_conf_fixed _ _ _ H).
  - exact (enc_conf_empty _ _ H).
  - exact (enc_conf_bits _ _ _ _ H).
  - exact (enc_conf_regs _ _ _ H).
  - exact (enc_conf_coil _ _ _ _ H).
  - exact (enc_conf_writereg _ _ _ H).
  - exact (enc_conf_writecoils _ _ _ _ H).
  - exact (enc_conf_writeregs _ _ _ _ _ H).
  - exact (enc_conf_rw _ _ _ _ _ _ _ H).
  - exact (enc_conf_diag _ _ _ _ H).
  - exact (enc_conf_excstatus _ _ H).
  - exact (enc_conf_evcounter _ _ _ H).
  - exact (enc_conf_evlog _ _ _ _ _ H).
  - exact (enc_conf_slaveid _ _ _ _ H).
  - cbn [class_of] in Hc. destruct c; try (vm_compute in Hc; discriminate Hc);
      try (apply abs_inv in H as [Hr _]; discriminate Hr);
      (apply enc_conf_filerecs; [reflexivity|exact H]).
  - vm_compute in Hc. discriminate Hc.
  - exact (enc_conf_mei _ _ _ _ _ _ _ _ _ H).
  - exact (enc_conf_exc _ _ _ _ H).
  - apply abs_inv in H as [Hr _]. discriminate Hr.
Qed.
