(* ExecOtherView.v — bridge between ExecOtherSpec.v (abstract device, wire requests, spec
   responses) and ExecOther.v / Device.v / Pdu.v (control block record, request and response
   objects): the abstraction [abs_dev], the wire reading of a decoded request object, the spec
   reading of a response object, and the region [conforms_region] in which the code conforms
   to the specification (outside it: docs/C04_other.md, the _refuted theorems).
   No proofs in this file. *)
From PM.theories Require Import Base Expr Store PduCls Pdu Device Exec ExecOther ExecOtherSpec.
Open Scope string_scope.
Open Scope list_scope.
Open Scope Z_scope.

Definition cnt (dv : device) (i : nat) : Z := nth i (d_counters dv) 0.

(* flag i of the control block is bit i of the diagnostic register *)
Fixpoint reg_of_flags (fl : list bool) (w : Z) : Z :=
  match fl with [] => 0 | b :: t => (if b then w else 0) + reg_of_flags t (2 * w) end.

Definition pymodbus_id : bytes := [80; 121; 109; 111; 100; 98; 117; 115]%N.

Definition abs_dev (dv : device) : sdev :=
  {| sc_bus_msg := cnt dv 0; sc_bus_comm_err := cnt dv 1; sc_exc_err := cnt dv 2; sc_server_msg := cnt dv 3;
     sc_no_resp := cnt dv 4; sc_nak := cnt dv 5; sc_busy := cnt dv 6; sc_overrun := cnt dv 7;
     sc_event := cnt dv 8;
     s_diag_reg := reg_of_flags (d_diag dv) 1;
     s_events := map Z.of_N (get_events dv);
     s_listen := d_listen dv;
     s_delim := map Z.of_N (d_delim dv);
     (* pymodbus' choice of the eight device-specific outputs: diagnostic counter i is non-zero *)
     s_exc_status := summary_from (firstn 8 (d_counters dv)) 1 0;
     s_server_id := map Z.of_N (slave_identifier dv pymodbus_id); s_run := true;
     s_processing := false;
     s_files := []; s_fifos := [] |}.        (* no files and no FIFO queues are configured *)

Fixpoint be_words (b : bytes) : list Z :=
  match b with hi :: lo :: t => (Z.of_N hi * 256 + Z.of_N lo) :: be_words t | _ => [] end.

Definition wire_of_obj (q : obj) : option owire :=
  match q with
  | OEmpty ReadExceptionStatusRequest => Some WExcStatus
  | OEmpty GetCommEventCounterRequest => Some WEvCounter
  | OEmpty GetCommEventLogRequest => Some WEvLog
  | OEmpty ReportSlaveIdRequest => Some WReportId
  | ODiag _ sub (DInt data) => Some (WDiag sub data)
  | OFileRecs ReadFileRecordRequest rs =>
      Some (WReadFile (map (fun r => (fr_ref r, fr_file r, fr_recno r, fr_len r)) rs))
  | OFileRecs WriteFileRecordRequest rs =>
      Some (WWriteFile (map (fun r => (fr_ref r, fr_file r, fr_recno r, be_words (fr_data r))) rs))
  | OFixed ReadFifoQueueRequest a =>
      match Pdu.assoc_str "address" a with Some x => Some (WFifo x) | None => None end
  | _ => None
  end.

Definition words_of_dmsg (m : dmsg) : list Z :=
  match m with DNone => [] | DInt v => [v] | DList l | DTuple l => l | DBytes b => be_words b end.

Definition view_other (r : obj) : option sresp :=
  match r with
  | OExcStatusRsp s => Some (SStatus s)
  | OEvCounterRsp st c => Some (SEvCounter (if st then 0 else 65535) c)       (* True = ready = 0x0000 *)
  | OEvLogRsp st mc ec evs => Some (SEvLog (if st then 0 else 65535) ec mc evs)
  | OSlaveIdRsp id st _ => Some (SServerId (map Z.of_N id) st)
  | ODiag ForceListenOnlyModeResponse _ _ => Some SNoResponse                 (* should_respond = False *)
  | ODiag _ sub m => Some (SDiag sub (words_of_dmsg m))
  | OFileRecs ReadFileRecordResponse rs => Some (SFileRead (map (fun r => be_words (fr_data r)) rs))
  | OFileRecs WriteFileRecordResponse rs =>
      Some (SFileWrite (map (fun r => (fr_ref r, fr_file r, fr_recno r, be_words (fr_data r))) rs))
  | OFifoRsp v => Some (SFifo v)
  | OExc _ fc code => Some (SOExc fc code)
  | _ => None
  end.

(* where the code does what the document says (see docs/C04_other.md for the rest) *)
Definition conforms_region (s : sdev) (w : owire) : bool :=
  match w with
  | WExcStatus => sc_event s =? 0                 (* else the 9th "counter" leaks into a 9th status bit *)
  | WEvCounter | WEvLog | WReportId => true
  | WDiag sub data =>
      if sub =? 1 then false                      (* restart: nothing is restarted *)
      else if sub =? 2 then Z.land (s_diag_reg s) 255 =? Z.shiftr (s_diag_reg s) 8   (* register sent low byte first *)
      else if sub =? 10 then match s_events s with [] => true | _ => false end        (* also wipes the event log *)
      else diag_defined sub
  | WReadFile _ | WWriteFile _ | WFifo _ => false (* answered normally although nothing is configured *)
  end.

(* ---- equalities for the harness *)
Definition zl_eqb := list_eqb Z.eqb.

Definition sub4_eqb (a b : Z * Z * Z * list Z) : bool :=
  match a, b with (r, f, c, d), (r', f', c', d') => (r =? r') && (f =? f') && (c =? c') && zl_eqb d d' end.

Definition sresp_eqb (x y : sresp) : bool :=
  match x, y with
  | SStatus a, SStatus b => a =? b
  | SEvCounter a b, SEvCounter c d => (a =? c) && (b =? d)
  | SEvLog a b c e, SEvLog a' b' c' e' => (a =? a') && (b =? b') && (c =? c') && zl_eqb e e'
  | SServerId a r, SServerId b r' => zl_eqb a b && Bool.eqb r r'
  | SDiag s d, SDiag s' d' => (s =? s') && zl_eqb d d'
  | SNoResponse, SNoResponse => true
  | SFileRead a, SFileRead b => list_eqb zl_eqb a b
  | SFileWrite a, SFileWrite b => list_eqb sub4_eqb a b
  | SFifo a, SFifo b => zl_eqb a b
  | SOExc a b, SOExc c d => (a =? c) && (b =? d)
  | _, _ => false
  end.

(* equality of the state the document evolves (files / FIFOs are never changed by these steps) *)
Definition sdev_eqb (a b : sdev) : bool :=
  (sc_bus_msg a =? sc_bus_msg b) && (sc_bus_comm_err a =? sc_bus_comm_err b) && (sc_exc_err a =? sc_exc_err b) &&
  (sc_server_msg a =? sc_server_msg b) && (sc_no_resp a =? sc_no_resp b) && (sc_nak a =? sc_nak b) &&
  (sc_busy a =? sc_busy b) && (sc_overrun a =? sc_overrun b) && (sc_event a =? sc_event b) &&
  (s_diag_reg a =? s_diag_reg b) && zl_eqb (s_events a) (s_events b) && Bool.eqb (s_listen a) (s_listen b) &&
  zl_eqb (s_delim a) (s_delim b) &&
  (* s_exc_status is not compared: the document leaves the eight outputs to the device; pymodbus derives
     them from the counters, so they move when a counter is cleared *)
  zl_eqb (s_server_id a) (s_server_id b) && Bool.eqb (s_run a) (s_run b) &&
  Bool.eqb (s_processing a) (s_processing b).

(* ---- the request object ServerDecoder delivers for a wire request (FC 8: the class its
   sub-function table selects, DiagnosticStatusRequest itself for every other sub-function).
   Hand-written; the harness checks it against every really decoded object. *)
Definition diag_request_cls (sub : Z) : cls :=
  if sub =? 0 then ReturnQueryDataRequest else if sub =? 1 then RestartCommunicationsOptionRequest
  else if sub =? 2 then ReturnDiagnosticRegisterRequest else if sub =? 3 then ChangeAsciiInputDelimiterRequest
  else if sub =? 4 then ForceListenOnlyModeRequest else if sub =? 10 then ClearCountersRequest
  else if sub =? 11 then ReturnBusMessageCountRequest else if sub =? 12 then ReturnBusCommunicationErrorCountRequest
  else if sub =? 13 then ReturnBusExceptionErrorCountRequest else if sub =? 14 then ReturnSlaveMessageCountRequest
  else if sub =? 15 then ReturnSlaveNoResponseCountRequest else if sub =? 16 then ReturnSlaveNAKCountRequest
  else if sub =? 17 then ReturnSlaveBusyCountRequest else if sub =? 18 then ReturnSlaveBusCharacterOverrunCountRequest
  else if sub =? 19 then ReturnIopOverrunCountRequest else if sub =? 20 then ClearOverrunCountRequest
  else if sub =? 21 then GetClearModbusPlusRequest else DiagnosticStatusRequest.

Definition obj_of_wire (w : owire) : option obj :=
  match w with
  | WExcStatus => Some (OEmpty ReadExceptionStatusRequest)
  | WEvCounter => Some (OEmpty GetCommEventCounterRequest)
  | WEvLog => Some (OEmpty GetCommEventLogRequest)
  | WReportId => Some (OEmpty ReportSlaveIdRequest)
  | WDiag sub data => Some (ODiag (diag_request_cls sub) sub (DInt data))
  | WFifo a => Some (OFixed ReadFifoQueueRequest [("address", a)])
  | WReadFile _ | WWriteFile _ => None        (* FileRecord objects carry more than the wire fields *)
  end.
