(* Props/C08_tcp.v — C08 for the TCP client with the CONCRETE socket-framer model (see Props/C13_tcp.v): no framer
   hypothesis left; the decoder is an oracle [dec] that never raises. *)
From PM.theories Require Import Base Expr Struct FrBaseA FrTcp FrSpecA.
From PM.Generated Require Import GenFramerA GenClient.
From PM.theories Require Import Client CorrClient ClientTcp.
From PM.proofs Require Import FrA_tcp_proofs FrA_tcp_gate_proofs Client_proofs ClientTcp_proofs.
Open Scope list_scope.
Open Scope Z_scope.

(* a returned reply is the decoding of a PDU that sits, behind an MBAP header with a consistent length field and the
   reply's own transaction/unit ids, INSIDE THE BYTES THIS CALL READ ([resp]; the framer buffer was empty or reset) *)
Theorem C08_from_this_call_tcp : forall (dec : bytes -> dres) c st rq sc st' o m,
  s_tx st = [] -> execute code tstate (tcp_framer dec) c st rq sc = (st', o) -> o_res o = RReply m ->
  exists resp d, m = msg_of dec d /\ (wfb resp = true -> tcp_justified resp d).
Proof. exact from_this_call_tcp. Qed.
Print Assumptions C08_from_this_call_tcp.

(* the spec ADU of ANY valid frame for the request's unit (normal reply, or exception reply = 2-byte PDU), served by a
   healthy TCP transport, is returned decoded, from every state with an empty table — whatever transaction id it
   carries (that is finding #17: C08_pairing_refuted) *)
Theorem C08_conformant_reply_tcp : forall (dec : bytes -> dres), (forall p e, dec p <> DRaise e) ->
  forall c st rq f fcb data rest,
  c_framing c = FTcp -> c_udp c = false -> s_tx st = [] -> c_bcast c && (r_unit rq =? 0) = false ->
  0 <= retries_given c ->
  f_uid f = r_unit rq -> valid_frame KTcp dec (unit_cfg (r_unit rq)) f ->
  f_pdu f = fcb :: data -> (128 <= Z.of_N fcb -> length data = 1%nat) ->
  exists st' o,
    execute code tstate (tcp_framer dec) c st rq
      ((if s_conn st then [] else [Nothing])
         ++ attempt true (tcp_script (full_of tstate c st rq) (spec_adu KTcp f)) ++ rest) = (st', o)
    /\ o_res o = RReply (msg_of dec (spec_delivery KTcp f)) /\ s_tx st' = [] /\ s_tid st' = next_tid code (s_tid st).
Proof. exact conformant_reply_tcp. Qed.
Print Assumptions C08_conformant_reply_tcp.

(* the framer hypotheses of Props/C08.v / C13.v, proved for the socket framer *)
Theorem C08_tcp_framer_hypotheses : forall (dec : bytes -> dres), (forall p e, dec p <> DRaise e) ->
  framer_raises_io tstate (tcp_framer dec) /\ reset_empties tstate (tcp_framer dec) /\
  (forall u f, valid_frame KTcp dec (unit_cfg u) f ->
     conformant_frame tstate (tcp_framer dec) (spec_adu KTcp f) u (msg_of dec (spec_delivery KTcp f))) /\
  (forall fs resp u fs' ms e, t_buf fs = [] -> one_frame resp ->
     f_process (tcp_framer dec) fs resp u = (fs', ms, Some e) -> ms = []).
Proof.
  intros dec Hd. split; [exact (tcp_framer_raises_io dec Hd)|]. split; [exact (tcp_reset_empties dec)|].
  split; [intros u f; exact (tcp_conformant_frame dec u f)|exact (tcp_proc_clean_one_frame dec Hd)].
Qed.
Print Assumptions C08_tcp_framer_hypotheses.

Example C08_tcp_nonvacuous :
  exists st' o,
    execute code tstate (tcp_framer demo_dec) cfg_tcp_demo (Build_cstate 65535 [] (t_init tcp) [] false) rq_rh
      ([Nothing] ++ attempt true (tcp_script false (spec_adu KTcp demo_frame)) ++ []) = (st', o)
    /\ o_res o = RReply (msg_of demo_dec (spec_delivery KTcp demo_frame)) /\ s_tx st' = [] /\ s_tid st' = 0.
Proof. exact tcp_example. Qed.
Print Assumptions C08_tcp_nonvacuous.
