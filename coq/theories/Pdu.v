(* Pdu.v — CODE-SHAPED executable model of the PDU layer of pymodbus 2.4.0 (C01, C02):
   message objects, encode()/decode() of every class the two decoder factories can produce,
   utilities.pack_bitstring/unpack_bitstring, ServerDecoder/ClientDecoder._helper and decode.

   A Python object is a value of [obj]: one constructor per family of classes that share
   their encode/decode bodies, carrying the class and the instance attributes.  A method
   that mutates [self] returns the new object ([encode_st], [decode_into]) so that purity of
   encode and accumulation in decode (C02) are expressible.  Every operation that can raise
   is modelled with its raising branch.

   Regular parts come from Generated/GenPdu.v (regenerated from the source on every run):
   function codes, sub-function codes, the four factory tables, the struct layouts of the
   fixed-format classes, status constants, the exception-branch constants.  The irregular
   method bodies are written by hand below, statement by statement, and are tied to the
   source by the correspondence suites (props/c01.py, props/c02.py) and by
   [modelled_fmts] = GenPdu.struct_fmts (Props/C01.v).   No proofs here. *)
From PM.theories Require Import Base Struct PduCls.
From PM.Generated Require Import GenPdu.
Open Scope string_scope.
Open Scope list_scope.
Open Scope Z_scope.

(* ---- small Python idioms ------------------------------------------------------------- *)

Definition pk (fs : list fmtc) (vs : list Z) : res bytes := pack true fs vs.       (* struct.pack('>…') *)
Definition upk (fs : list fmtc) (bs : bytes) : res (list Z) := unpack true fs bs.   (* struct.unpack('>…') *)
Definition int2byte (v : Z) : res bytes := pk [FB] [v].                               (* six.int2byte *)
Definition zlen {A} (l : list A) : Z := Z.of_nat (length l).
Definition zbytes (b : bytes) : list Z := map Z.of_N b.
(* data[a:b] with 0 <= a, 0 <= b *)
Definition zslice (bs : bytes) (a b : Z) : bytes := bslice bs (Z.to_nat a) (Z.to_nat b).
(* len(range(lo, hi, step)), step > 0 *)
Definition range_len (lo hi step : Z) : Z := if hi <=? lo then 0 else (hi - lo + step - 1) / step.

(* for x in l: packet += struct.pack('>H', x) *)
Fixpoint enc_words (l : list Z) : res bytes :=
  match l with
  | [] => Ok []
  | v :: t => do b <- pk [FH] [v]; do r <- enc_words t; Ok (b ++ r)
  end.
Fixpoint enc_u8s (l : list Z) : res bytes :=
  match l with
  | [] => Ok []
  | v :: t => do b <- pk [FB] [v]; do r <- enc_u8s t; Ok (b ++ r)
  end.

(* n times: struct.unpack('>H', data[i:i+2])[0], i advancing by 2 from the head of [data];
   a slice shorter than two bytes makes struct.unpack raise *)
Fixpoint read_words (data : bytes) (n : Z) : res (list Z) :=
  if n <=? 0 then Ok [] else
  match data with
  | h :: l :: t => do r <- read_words t (n - 1); Ok (rd_be16 h l :: r)
  | _ => Raise StructError
  end.

(* n times byte2int(data[e]), e advancing by one: IndexError past the end *)
Fixpoint take_idx (n : nat) (l : bytes) : res (list Z) :=
  match n with
  | O => Ok []
  | S k => match l with
           | [] => Raise IndexError
           | x :: t => do r <- take_idx k t; Ok (Z.of_N x :: r)
           end
  end.

(* ---- utilities.pack_bitstring / unpack_bitstring, modelled literally --------------------- *)

(* for bit in bits: if bit: packed += 128; i += 1; if i == 8: ret += int2byte(packed); i = packed = 0
   else: packed >>= 1 *)
Fixpoint py_pack_loop (bits : list bool) (ret : bytes) (i packed : N) : bytes * N * N :=
  match bits with
  | [] => (ret, i, packed)
  | b :: t =>
      let packed := (if b then packed + 128 else packed)%N in
      let i := (i + 1)%N in
      if (i =? 8)%N then py_pack_loop t (ret ++ [packed]) 0%N 0%N
      else py_pack_loop t ret i (N.shiftr packed 1)
  end.
(* if 0 < i < 8: packed >>= (7 - i); ret += int2byte(packed) *)
Definition py_pack_bitstring (bits : list bool) : bytes :=
  let '(ret, i, packed) := py_pack_loop bits [] 0%N 0%N in
  if ((0 <? i) && (i <? 8))%N then ret ++ [N.shiftr packed (7 - i)] else ret.

(* for _ in range(8): bits.append((value & 1) == 1); value >>= 1 *)
Fixpoint byte_bits_loop (n : nat) (value : N) : list bool :=
  match n with
  | O => []
  | S k => (N.land value 1 =? 1)%N :: byte_bits_loop k (N.shiftr value 1)
  end.
Definition py_unpack_bitstring (s : bytes) : list bool := flat_map (byte_bits_loop 8) s.

(* ---- objects ---------------------------------------------------------------------------- *)

(* DiagnosticStatus*.message: None | int | list | tuple | bytes *)
Inductive dmsg := DNone | DInt (v : Z) | DList (l : list Z) | DTuple (l : list Z) | DBytes (b : bytes).

(* file_message.FileRecord *)
Record frec := { fr_ref : Z; fr_file : Z; fr_recno : Z; fr_data : bytes; fr_len : Z; fr_rlen : Z }.

(* a value of ReadDeviceInformationResponse.information: bytes, or a list of bytes *)
Inductive mval := MOne (b : bytes) | MMany (l : list bytes).

Inductive obj :=
| OFixed (c : cls) (attrs : list (string * Z))   (* classes with a generated struct layout *)
| OEmpty (c : cls)                                (* FC 7, 11, 12, 17 requests: encode b'', decode pass *)
| OBitsRsp (c : cls) (bits : list bool) (byte_count : option Z)            (* FC 1, 2 responses *)
| ORegsRsp (c : cls) (registers : list Z)                                   (* FC 3, 4, 23 responses *)
| OCoil (c : cls) (address : Z) (value : bool)                              (* FC 5 request/response *)
| OWriteRegReq (address value : Z)                                          (* FC 6 request *)
| OWriteCoilsReq (address : Z) (values : list bool) (byte_count : Z)        (* FC 15 request *)
| OWriteRegsReq (address : Z) (values : list Z) (count byte_count : Z)      (* FC 16 request *)
| ORWReq (read_address read_count write_address : Z) (write_registers : list Z)
         (write_count write_byte_count : Z)                                 (* FC 23 request *)
| ODiag (c : cls) (sub_function_code : Z) (message : dmsg)                  (* FC 8, all sub-classes *)
| OExcStatusRsp (status : Z)                                                (* FC 7 response *)
| OEvCounterRsp (status : bool) (count : Z)                                 (* FC 11 response *)
| OEvLogRsp (status : bool) (message_count event_count : Z) (events : list Z)   (* FC 12 response *)
| OSlaveIdRsp (identifier : bytes) (status : bool) (byte_count : option Z)  (* FC 17 response *)
| OFileRecs (c : cls) (records : list frec)                                 (* FC 20, 21 both directions *)
| OFifoRsp (values : list Z)                                                (* FC 24 response *)
| OMeiRsp (sub_function_code read_code conformity more_follows next_object_id number_of_objects : Z)
          (information : list (Z * mval)) (space_left : option Z)           (* FC 43/14 response *)
| OExc (original_code function_code exception_code : Z)                     (* pdu.ExceptionResponse *)
| OIllegal (function_code : Z).                                             (* pdu.IllegalFunctionRequest *)

Definition class_of (o : obj) : cls :=
  match o with
  | OFixed c _ | OEmpty c | OBitsRsp c _ _ | ORegsRsp c _ | OCoil c _ _ | ODiag c _ _ | OFileRecs c _ => c
  | OWriteRegReq _ _ => WriteSingleRegisterRequest
  | OWriteCoilsReq _ _ _ => WriteMultipleCoilsRequest
  | OWriteRegsReq _ _ _ _ => WriteMultipleRegistersRequest
  | ORWReq _ _ _ _ _ _ => ReadWriteMultipleRegistersRequest
  | OExcStatusRsp _ => ReadExceptionStatusResponse
  | OEvCounterRsp _ _ => GetCommEventCounterResponse
  | OEvLogRsp _ _ _ _ => GetCommEventLogResponse
  | OSlaveIdRsp _ _ _ => ReportSlaveIdResponse
  | OFifoRsp _ => ReadFifoQueueResponse
  | OMeiRsp _ _ _ _ _ _ _ _ => ReadDeviceInformationResponse
  | OExc _ _ _ => ExceptionResponse
  | OIllegal _ => IllegalFunctionRequest
  end.

(* ---- lookups in the generated tables -------------------------------------------------- *)

Fixpoint assoc_cls {A} (c : cls) (l : list (cls * A)) : option A :=
  match l with
  | [] => None
  | (k, v) :: t => if cls_eqb k c then Some v else assoc_cls c t
  end.
Fixpoint assoc_str (k : string) (l : list (string * Z)) : option Z :=
  match l with
  | [] => None
  | (k', v) :: t => if String.eqb k' k then Some v else assoc_str k t
  end.

Definition fc_of (c : cls) : option Z := assoc_cls c class_fc.          (* cls.function_code *)
Definition sub_of_cls (c : cls) : option Z := assoc_cls c class_sub.    (* cls.sub_function_code *)

(* dict([(f.function_code, f) for f in table]).get(fc): the last entry with that code wins *)
Definition lookup_fc (table : list cls) (fc : Z) : option cls :=
  fold_left (fun acc f => if option_eqb Z.eqb (fc_of f) (Some fc) then Some f else acc) table None.
(* sub_lookup.get(fc, {}).get(sub) *)
Definition lookup_sub (table : list cls) (fc sub : Z) : option cls :=
  fold_left (fun acc f => if option_eqb Z.eqb (fc_of f) (Some fc) && option_eqb Z.eqb (sub_of_cls f) (Some sub)
                          then Some f else acc) table None.

(* m.function_code *)
Definition obj_fc (o : obj) : res Z :=
  match o with
  | OExc _ fc _ => Ok fc
  | OIllegal fc => Ok fc
  | _ => match fc_of (class_of o) with Some fc => Ok fc | None => Raise AttributeError end
  end.

(* ---- encode --------------------------------------------------------------------------- *)

(* an attribute that is missing stands for None: struct.pack rejects it *)
Fixpoint attr_values (attrs : list (string * Z)) (names : list string) : res (list Z) :=
  match names with
  | [] => Ok []
  | n :: t => match assoc_str n attrs with
              | Some v => do r <- attr_values attrs t; Ok (v :: r)
              | None => Raise StructError
              end
  end.

Definition enc_fixed (c : cls) (attrs : list (string * Z)) : res bytes :=
  match assoc_cls c enc_layouts with
  | Some (big, fmt, names) => do vs <- attr_values attrs names; pack big fmt vs
  | None => Raise NotImplementedExc
  end.

Definition coil_word (v : bool) : Z := if v then status_on else status_off.

Definition enc_diag (c : cls) (sub : Z) (m : dmsg) : res bytes :=
  do p <- pk [FH] [sub];
  if cls_eqb c GetClearModbusPlusRequest then
    match m with
    | DInt v => do q <- pk [FH] [v]; Ok (p ++ q)
    | _ => Raise StructError
    end
  else
    match m with
    | DNone => Ok p
    | DBytes b => Ok (p ++ b)
    | DList l => do q <- enc_words l; Ok (p ++ q)
    | DTuple l => if is_request c then Ok p else do q <- enc_words l; Ok (p ++ q)
    | DInt v => do q <- pk [FH] [v]; Ok (p ++ q)
    end.

Fixpoint enc_read_subreqs (rs : list frec) : res bytes :=
  match rs with
  | [] => Ok []
  | r :: t => do b <- pk [FB; FH; FH; FH] [6; fr_file r; fr_recno r; fr_len r];
              do q <- enc_read_subreqs t; Ok (b ++ q)
  end.
Fixpoint enc_read_subresps (rs : list frec) : res bytes :=
  match rs with
  | [] => Ok []
  | r :: t => do b <- pk [FB; FB] [6; fr_len r];
              do q <- enc_read_subresps t; Ok (b ++ fr_data r ++ q)
  end.
Fixpoint enc_write_subs (rs : list frec) : res bytes :=
  match rs with
  | [] => Ok []
  | r :: t => do b <- pk [FB; FH; FH; FH] [6; fr_file r; fr_recno r; fr_len r];
              do q <- enc_write_subs t; Ok (b ++ fr_data r ++ q)
  end.
Definition zsum (l : list Z) : Z := fold_right Z.add 0 l.

(* ReadDeviceInformationResponse: iteritems(information), lists flattened *)
Definition mei_items (info : list (Z * mval)) : list (Z * bytes) :=
  flat_map (fun kv => match snd kv with MOne b => [(fst kv, b)] | MMany l => map (pair (fst kv)) l end) info.
(* _encode_object over the items; result: objects, space_left, number_of_objects, oid that ran out of space *)
Fixpoint mei_objs (items : list (Z * bytes)) (space nobj : Z) (acc : bytes) : res (bytes * Z * Z * option Z) :=
  match items with
  | [] => Ok (acc, space, nobj, None)
  | (oid, d) :: t =>
      let space := space - (2 + zlen d) in
      if space <=? 0 then Ok (acc, space, nobj, Some oid)
      else do h <- pk [FB; FB] [oid; zlen d]; mei_objs t space (nobj + 1) (acc ++ h ++ d)
  end.

(* encode(): the bytes (or the exception) and the object afterwards.  When encode raises the
   object is returned unchanged (call histories stop at the first exception). *)
Definition encode_st (o : obj) : res bytes * obj :=
  match o with
  | OFixed c attrs => (enc_fixed c attrs, o)
  | OEmpty _ => (Ok [], o)
  | OBitsRsp _ bits _ =>
      let result := py_pack_bitstring bits in
      ((do h <- pk [FB] [zlen result]; Ok (h ++ result)), o)
  | ORegsRsp _ regs =>
      ((do h <- int2byte (zlen regs * 2); do r <- enc_words regs; Ok (h ++ r)), o)
  | OCoil _ a v => ((do h <- pk [FH] [a]; do w <- pk [FH] [coil_word v]; Ok (h ++ w)), o)
  | OWriteRegReq a v => ((do h <- pk [FH] [a]; do w <- pk [FH] [v]; Ok (h ++ w)), o)
  | OWriteCoilsReq a vals bc =>
      let count := zlen vals in
      let bc' := (count + 7) / 8 in
      match pk [FH; FH; FB] [a; count; bc'] with
      | Ok h => (Ok (h ++ py_pack_bitstring vals), OWriteCoilsReq a vals bc')
      | Raise e => (Raise e, o)
      end
  | OWriteRegsReq a vals cnt bc =>
      ((do h <- pk [FH; FH; FB] [a; cnt; bc]; do r <- enc_words vals; Ok (h ++ r)), o)
  | ORWReq ra rc wa regs wc wbc =>
      ((do h <- pk [FH; FH; FH; FH; FB] [ra; rc; wa; wc; wbc]; do r <- enc_words regs; Ok (h ++ r)), o)
  | ODiag c sub m => (enc_diag c sub m, o)
  | OExcStatusRsp s => (pk [FB] [s], o)
  | OEvCounterRsp st cnt => (pk [FH; FH] [if st then status_ready else status_waiting; cnt], o)
  | OEvLogRsp st mc ec evs =>
      ((do a <- pk [FB] [6 + zlen evs];
        do b <- pk [FH] [if st then status_ready else status_waiting];
        do c <- pk [FH; FH] [ec; mc];
        do d <- enc_u8s evs; Ok (a ++ b ++ c ++ d)), o)
  | OSlaveIdRsp id st _ =>
      ((do a <- int2byte (zlen id + 1);
        do s <- int2byte (if st then status_slave_on else status_slave_off); Ok (a ++ id ++ s)), o)
  | OFileRecs c rs =>
      if cls_eqb c ReadFileRecordRequest then
        ((do h <- pk [FB] [zlen rs * 7]; do b <- enc_read_subreqs rs; Ok (h ++ b)), o)
      else if cls_eqb c ReadFileRecordResponse then
        ((do h <- pk [FB] [zsum (map (fun r => fr_rlen r + 1) rs)]; do b <- enc_read_subresps rs; Ok (h ++ b)), o)
      else
        ((do h <- pk [FB] [zsum (map (fun r => fr_len r * 2 + 7) rs)]; do b <- enc_write_subs rs; Ok (h ++ b)), o)
  | OFifoRsp vals =>
      let length := zlen vals * 2 in
      ((do h <- pk [FH; FH] [2 + length; length]; do r <- enc_words vals; Ok (h ++ r)), o)
  | OMeiRsp sub rc cf more next nobj info sl =>
      match pk [FB; FB; FB] [sub; rc; cf] with
      | Raise e => (Raise e, o)
      | Ok p =>
          match mei_objs (mei_items info) (253 - 6) 0 [] with
          | Raise e => (Raise e, o)
          | Ok (objs, space, n, oos) =>
              let next' := match oos with Some oid => oid | None => next end in
              let more' := match oos with Some _ => more_keep_reading | None => more end in
              match pk [FB; FB; FB] [more'; next'; n] with
              | Raise e => (Raise e, o)
              | Ok q => (Ok (p ++ q ++ objs), OMeiRsp sub rc cf more' next' n info (Some space))
              end
          end
      end
  | OExc _ _ code => (int2byte code, o)
  | OIllegal _ => (Raise NotImplementedExc, o)
  end.

Definition py_encode (o : obj) : res bytes := fst (encode_st o).

(* bytes([m.function_code]) + m.encode() *)
Definition fc_byte (v : Z) : res bytes :=
  if (0 <=? v) && (v <? 256) then Ok [Z.to_N v] else Raise ValueError.
Definition py_pdu (o : obj) : res bytes :=
  do fc <- obj_fc o; do f <- fc_byte fc; do b <- py_encode o; Ok (f ++ b).

(* ---- decode ---------------------------------------------------------------------------- *)

Definition dec_fixed (c : cls) (data : bytes) : res (list (string * Z)) :=
  match assoc_cls c dec_layouts with
  | Some (big, fmt, names) => do vs <- unpack big fmt data; Ok (combine names vs)
  | None => Raise NotImplementedExc
  end.

Definition mk_frec (file recno : Z) (data : bytes) (rlen resp_len : Z) : frec :=
  {| fr_ref := 6; fr_file := file; fr_recno := recno; fr_data := data; fr_len := rlen; fr_rlen := resp_len |}.

(* ReadFileRecordRequest.decode: for count in range(1, byte_count, 7) *)
Fixpoint dec_read_subreqs (n : nat) (data : bytes) (count : Z) : res (list frec) :=
  match n with
  | O => Ok []
  | S k =>
      do d <- upk [FB; FH; FH; FH] (zslice data count (count + 7));
      match d with
      | [rt; f; rn; rl] =>
          do rest <- dec_read_subreqs k data (count + 7);
          Ok (if rt =? 6 then mk_frec f rn [] rl 1 :: rest else rest)
      | _ => Raise OtherExc
      end
  end.

(* ReadFileRecordResponse.decode: while count < byte_count.  [fuel] = byte_count suffices
   (count grows by at least 1); running out of fuel is the distinguished [Raise OtherExc]. *)
Fixpoint dec_read_subresps (fuel : nat) (data : bytes) (count bc : Z) (acc : list frec) : res (list frec) :=
  if count <? bc then
    match fuel with
    | O => Raise OtherExc
    | S f =>
        do d <- upk [FB; FB] (zslice data count (count + 2));
        match d with
        | [rl; rt] =>
            let count' := count + rl + 1 in
            let rd := zslice data (count' - rl + 1) count' in
            let r := mk_frec 0 0 rd (zlen rd / 2) rl in
            dec_read_subresps f data count' bc (if rt =? 6 then acc ++ [r] else acc)
        | _ => Raise OtherExc
        end
    end
  else Ok acc.

(* WriteFileRecord{Request,Response}.decode *)
Fixpoint dec_write_subs (fuel : nat) (data : bytes) (count bc : Z) (acc : list frec) : res (list frec) :=
  if count <? bc then
    match fuel with
    | O => Raise OtherExc
    | S f =>
        do d <- upk [FB; FH; FH; FH] (zslice data count (count + 7));
        match d with
        | [rt; fl; rn; rl] =>
            let response_length := rl * 2 in
            let count' := count + response_length + 7 in
            let rd := zslice data (count' - response_length) count' in
            let r := mk_frec fl rn rd rl (zlen rd + 1) in
            dec_write_subs f data count' bc (if rt =? 6 then acc ++ [r] else acc)
        | _ => Raise OtherExc
        end
    end
  else Ok acc.

(* information[object_id] = v | append | [old, v] *)
Fixpoint mei_insert (info : list (Z * mval)) (oid : Z) (v : bytes) : list (Z * mval) :=
  match info with
  | [] => [(oid, MOne v)]
  | (k, x) :: t =>
      if k =? oid then (k, match x with MOne b => MMany [b; v] | MMany l => MMany (l ++ [v]) end) :: t
      else (k, x) :: mei_insert t oid v
  end.
(* while count < len(data): [rest] = data[count:] *)
Fixpoint dec_mei_objs (fuel : nat) (rest : bytes) (info : list (Z * mval)) : res (list (Z * mval)) :=
  match rest with
  | [] => Ok info
  | [_] => Raise StructError
  | oid :: olen :: t =>
      match fuel with
      | O => Raise OtherExc
      | S f => dec_mei_objs f (skipn (N.to_nat olen) t) (mei_insert info (Z.of_N oid) (firstn (N.to_nat olen) t))
      end
  end.

Definition data0 (data : bytes) : res Z :=
  match data with x :: _ => Ok (Z.of_N x) | [] => Raise IndexError end.

(* self.decode(data) on an existing object *)
Definition decode_into (o : obj) (data : bytes) : res obj :=
  match o with
  | OFixed c _ => do a <- dec_fixed c data; Ok (OFixed c a)
  | OEmpty c => Ok o
  | OBitsRsp c _ _ => do bc <- data0 data; Ok (OBitsRsp c (py_unpack_bitstring (skipn 1 data)) (Some bc))
  | ORegsRsp c regs =>
      do bc <- data0 data;
      if cls_eqb c ReadWriteMultipleRegistersResponse then
        do r <- read_words (skipn 1 data) (range_len 1 bc 2); Ok (ORegsRsp c (regs ++ r))
      else
        do r <- read_words (skipn 1 data) (range_len 1 (bc + 1) 2); Ok (ORegsRsp c r)
  | OCoil c _ _ =>
      do d <- upk [FH; FH] data;
      match d with [a; v] => Ok (OCoil c a (v =? status_on)) | _ => Raise OtherExc end
  | OWriteRegReq _ _ =>
      do d <- upk [FH; FH] data;
      match d with [a; v] => Ok (OWriteRegReq a v) | _ => Raise OtherExc end
  | OWriteCoilsReq _ _ _ =>
      do d <- upk [FH; FH; FB] (bslice data 0 5);
      match d with
      | [a; count; bc] => Ok (OWriteCoilsReq a (firstn (Z.to_nat count) (py_unpack_bitstring (skipn 5 data))) bc)
      | _ => Raise OtherExc
      end
  | OWriteRegsReq _ _ _ _ =>
      do d <- upk [FH; FH; FB] (bslice data 0 5);
      match d with
      | [a; count; bc] => do vs <- read_words (skipn 5 data) (range_len 5 (count * 2 + 5) 2); Ok (OWriteRegsReq a vs count bc)
      | _ => Raise OtherExc
      end
  | ORWReq _ _ _ _ _ _ =>
      do d <- upk [FH; FH; FH; FH; FB] (bslice data 0 9);
      match d with
      | [ra; rc; wa; wc; wbc] => do vs <- read_words (skipn 9 data) (range_len 9 (wbc + 9) 2); Ok (ORWReq ra rc wa vs wc wbc)
      | _ => Raise OtherExc
      end
  | ODiag c _ _ =>
      if is_request c then
        do d <- upk [FH; FH] data;
        match d with [s; m] => Ok (ODiag c s (DInt m)) | _ => Raise OtherExc end
      else
        let odd := Nat.odd (length data) in
        let data' := if odd then data ++ [48%N] else data in      (* data + b'0' *)
        do ws <- read_words data' (zlen data' / 2);
        match ws with
        | s :: m => Ok (ODiag c s (DTuple m))
        | [] => Raise IndexError
        end
  | OExcStatusRsp _ => do s <- data0 data; Ok (OExcStatusRsp s)
  | OEvCounterRsp _ _ =>
      do d <- upk [FH; FH] data;
      match d with [ready; cnt] => Ok (OEvCounterRsp (ready =? status_ready) cnt) | _ => Raise OtherExc end
  | OEvLogRsp _ _ _ _ =>
      do length <- data0 data;
      do st <- upk [FH] (bslice data 1 3);
      do ec <- upk [FH] (bslice data 3 5);
      do mc <- upk [FH] (bslice data 5 7);
      do evs <- take_idx (Z.to_nat (range_len 7 (length + 1) 1)) (skipn 7 data);
      match st, ec, mc with
      | [s], [e], [m] => Ok (OEvLogRsp (s =? status_ready) m e evs)
      | _, _, _ => Raise OtherExc
      end
  | OSlaveIdRsp _ _ _ =>
      do bc <- data0 data;
      match rev data with
      | last :: _ => Ok (OSlaveIdRsp (zslice data 1 (bc + 1)) (Z.of_N last =? status_slave_on) (Some bc))
      | [] => Raise IndexError
      end
  | OFileRecs c _ =>
      do bc <- data0 data;
      if cls_eqb c ReadFileRecordRequest then
        do rs <- dec_read_subreqs (Z.to_nat (range_len 1 bc 7)) data 1; Ok (OFileRecs c rs)
      else if cls_eqb c ReadFileRecordResponse then
        do rs <- dec_read_subresps (Z.to_nat bc) data 1 bc []; Ok (OFileRecs c rs)
      else
        do rs <- dec_write_subs (Z.to_nat bc) data 1 bc []; Ok (OFileRecs c rs)
  | OFifoRsp _ =>
      do d <- upk [FH; FH] (bslice data 0 4);
      match d with
      | [_; count] => do vs <- read_words (skipn 4 data) (range_len 0 (count - 4) 1); Ok (OFifoRsp vs)
      | _ => Raise OtherExc
      end
  | OMeiRsp _ _ _ _ _ _ _ sl =>
      do d <- upk [FB; FB; FB; FB; FB; FB] (bslice data 0 6);
      match d with
      | [sub; rc; cf; more; next; nobj] =>
          do info <- dec_mei_objs (length data) (skipn 6 data) [];
          Ok (OMeiRsp sub rc cf more next nobj info sl)
      | _ => Raise OtherExc
      end
  | OExc orig fc _ => do c <- data0 data; Ok (OExc orig fc c)
  | OIllegal _ => Ok o
  end.

(* ---- the object after a decode() that RAISES ------------------------------------------------------
   [decode_partial o data] = the attributes of the instance after self.decode(data) raised: what was
   assigned before the raising statement stays assigned (statement order as in the source). *)

Fixpoint read_words_prefix (data : bytes) (n : Z) : list Z :=
  if n <=? 0 then [] else
  match data with
  | h :: l :: t => rd_be16 h l :: read_words_prefix t (n - 1)
  | _ => []
  end.
Fixpoint take_idx_prefix (n : nat) (l : bytes) : list Z :=
  match n with
  | O => []
  | S k => match l with [] => [] | x :: t => Z.of_N x :: take_idx_prefix k t end
  end.
Fixpoint dec_read_subreqs_p (n : nat) (data : bytes) (count : Z) : list frec :=
  match n with
  | O => []
  | S k =>
      match upk [FB; FH; FH; FH] (zslice data count (count + 7)) with
      | Ok [rt; f; rn; rl] =>
          let rest := dec_read_subreqs_p k data (count + 7) in
          if rt =? 6 then mk_frec f rn [] rl 1 :: rest else rest
      | _ => []
      end
  end.
Fixpoint dec_read_subresps_p (fuel : nat) (data : bytes) (count bc : Z) (acc : list frec) : list frec :=
  if count <? bc then
    match fuel with
    | O => acc
    | S f =>
        match upk [FB; FB] (zslice data count (count + 2)) with
        | Ok [rl; rt] =>
            let count' := count + rl + 1 in
            let rd := zslice data (count' - rl + 1) count' in
            dec_read_subresps_p f data count' bc (if rt =? 6 then acc ++ [mk_frec 0 0 rd (zlen rd / 2) rl] else acc)
        | _ => acc
        end
    end
  else acc.
Fixpoint dec_write_subs_p (fuel : nat) (data : bytes) (count bc : Z) (acc : list frec) : list frec :=
  if count <? bc then
    match fuel with
    | O => acc
    | S f =>
        match upk [FB; FH; FH; FH] (zslice data count (count + 7)) with
        | Ok [rt; fl; rn; rl] =>
            let response_length := rl * 2 in
            let count' := count + response_length + 7 in
            let rd := zslice data (count' - response_length) count' in
            dec_write_subs_p f data count' bc (if rt =? 6 then acc ++ [mk_frec fl rn rd rl (zlen rd + 1)] else acc)
        | _ => acc
        end
    end
  else acc.
Fixpoint dec_mei_objs_p (fuel : nat) (rest : bytes) (info : list (Z * mval)) : list (Z * mval) :=
  match rest with
  | oid :: olen :: t =>
      match fuel with
      | O => info
      | S f => dec_mei_objs_p f (skipn (N.to_nat olen) t) (mei_insert info (Z.of_N oid) (firstn (N.to_nat olen) t))
      end
  | _ => info
  end.

Definition decode_partial (o : obj) (data : bytes) : obj :=
  match o with
  | ORegsRsp c regs =>
      match data0 data with
      | Raise _ => o
      | Ok bc =>
          if cls_eqb c ReadWriteMultipleRegistersResponse
          then ORegsRsp c (regs ++ read_words_prefix (skipn 1 data) (range_len 1 bc 2))
          else ORegsRsp c (read_words_prefix (skipn 1 data) (range_len 1 (bc + 1) 2))
      end
  | OWriteRegsReq _ _ _ _ =>
      match upk [FH; FH; FB] (bslice data 0 5) with
      | Ok [a; count; bc] => OWriteRegsReq a (read_words_prefix (skipn 5 data) (range_len 5 (count * 2 + 5) 2)) count bc
      | _ => o
      end
  | ORWReq _ _ _ _ _ _ =>
      match upk [FH; FH; FH; FH; FB] (bslice data 0 9) with
      | Ok [ra; rc; wa; wc; wbc] => ORWReq ra rc wa (read_words_prefix (skipn 9 data) (range_len 9 (wbc + 9) 2)) wc wbc
      | _ => o
      end
  | OEvLogRsp st mc ec evs =>
      match data0 data with
      | Raise _ => o
      | Ok length =>
          match upk [FH] (bslice data 1 3) with
          | Ok [s] =>
              let st' := s =? status_ready in
              match upk [FH] (bslice data 3 5) with
              | Ok [e] =>
                  match upk [FH] (bslice data 5 7) with
                  | Ok [m] => OEvLogRsp st' m e (take_idx_prefix (Z.to_nat (range_len 7 (length + 1) 1)) (skipn 7 data))
                  | _ => OEvLogRsp st' mc e evs
                  end
              | _ => OEvLogRsp st' mc ec evs
              end
          | _ => o
          end
      end
  | OFileRecs c _ =>
      match data0 data with
      | Raise _ => OFileRecs c []
      | Ok bc =>
          if cls_eqb c ReadFileRecordRequest then OFileRecs c (dec_read_subreqs_p (Z.to_nat (range_len 1 bc 7)) data 1)
          else if cls_eqb c ReadFileRecordResponse then OFileRecs c (dec_read_subresps_p (Z.to_nat bc) data 1 bc [])
          else OFileRecs c (dec_write_subs_p (Z.to_nat bc) data 1 bc [])
      end
  | OFifoRsp _ =>
      match upk [FH; FH] (bslice data 0 4) with
      | Ok [_; count] => OFifoRsp (read_words_prefix (skipn 4 data) (range_len 0 (count - 4) 1))
      | _ => OFifoRsp []
      end
  | OMeiRsp _ _ _ _ _ _ _ sl =>
      match upk [FB; FB; FB; FB; FB; FB] (bslice data 0 6) with
      | Ok [sub; rc; cf; more; next; nobj] =>
          OMeiRsp sub rc cf more next nobj (dec_mei_objs_p (length data) (skipn 6 data) []) sl
      | _ => o
      end
  | _ => o          (* every other class assigns only after its last raising statement *)
  end.

(* cls(): the default-constructed instance the factory decodes into *)
Definition fresh (c : cls) : obj :=
  match c with
  | ReadExceptionStatusRequest | GetCommEventCounterRequest | GetCommEventLogRequest | ReportSlaveIdRequest => OEmpty c
  | ReadCoilsResponse | ReadDiscreteInputsResponse => OBitsRsp c [] None
  | ReadHoldingRegistersResponse | ReadInputRegistersResponse | ReadWriteMultipleRegistersResponse => ORegsRsp c []
  | WriteSingleCoilRequest | WriteSingleCoilResponse => OCoil c 0 false
  | WriteSingleRegisterRequest => OWriteRegReq 0 0
  | WriteMultipleCoilsRequest => OWriteCoilsReq 0 [] 0
  | WriteMultipleRegistersRequest => OWriteRegsReq 0 [] 0 0
  | ReadWriteMultipleRegistersRequest => ORWReq 0 0 0 [] 1 2
  | ReadExceptionStatusResponse => OExcStatusRsp 0
  | GetCommEventCounterResponse => OEvCounterRsp true 0
  | GetCommEventLogResponse => OEvLogRsp true 0 0 []
  | ReportSlaveIdResponse => OSlaveIdRsp [0%N] true None
  | ReadFileRecordRequest | ReadFileRecordResponse | WriteFileRecordRequest | WriteFileRecordResponse => OFileRecs c []
  | ReadFifoQueueResponse => OFifoRsp []
  | ReadDeviceInformationResponse => OMeiRsp 14 devinfo_basic 131 more_nothing 0 0 [] None
  | ReadDeviceInformationRequest => OFixed c [("sub_function_code", 14); ("read_code", devinfo_basic); ("object_id", 0)]
  | ExceptionResponse => OExc 0 exception_offset 0
  | IllegalFunctionRequest => OIllegal 0
  | _ => match assoc_cls c dec_layouts with
         | Some _ => OFixed c []
         | None => ODiag c 0 DNone          (* the diagnostic classes *)
         end
  end.

(* a brand-new instance of the same class as [o] (constructor arguments that decode never
   touches are those of [o]: ExceptionResponse(function_code), IllegalFunctionRequest(function_code)) *)
Definition fresh_like (o : obj) : obj :=
  match o with
  | OExc orig fc _ => OExc orig fc 0
  | OIllegal fc => OIllegal fc
  | _ => fresh (class_of o)
  end.

(* request.__class__ = subtype (after decode), when the instance has a sub_function_code *)
Definition obj_sub (o : obj) : option Z :=
  match o with
  | ODiag _ s _ => Some s
  | OMeiRsp s _ _ _ _ _ _ _ => Some s
  | OFixed ReadDeviceInformationRequest a => assoc_str "sub_function_code" a
  | _ => None
  end.
Definition set_class (o : obj) (c : cls) : obj :=
  match o with
  | ODiag _ s m => ODiag c s m
  | _ => o                       (* MEI: the only sub-class is the class itself *)
  end.
Definition reclass (sub_table : list cls) (o : obj) : obj :=
  match obj_sub o, fc_of (class_of o) with
  | Some s, Some fc => match lookup_sub sub_table fc s with Some c' => set_class o c' | None => o end
  | _, _ => o
  end.

(* ServerDecoder._helper *)
Definition py_decode_server (data : bytes) : res obj :=
  do fc <- data0 data;
  let request := match lookup_fc server_function_table fc with
                 | Some c => fresh c
                 | None => OIllegal fc
                 end in
  do r <- decode_into request (skipn 1 data);
  Ok (reclass server_sub_function_table r).

(* ClientDecoder._helper *)
Definition py_decode_client (data : bytes) : res obj :=
  do fc <- data0 data;
  let response := match lookup_fc client_function_table fc with Some c => Some (fresh c) | None => None end in
  let response := if fc >? client_exc_threshold
                  then let code := Z.land fc client_exc_mask in
                       Some (OExc code (Z.lor code exception_offset) client_exc_default_code)
                  else response in
  match response with
  | None => Raise ModbusExc
  | Some rsp => do r <- decode_into rsp (skipn 1 data); Ok (reclass client_sub_function_table r)
  end.

Definition py_decode (server : bool) (data : bytes) : res obj :=
  if server then py_decode_server data else py_decode_client data.

(* the public decode() wrappers: ServerDecoder.decode swallows ModbusException (returns None),
   ClientDecoder.decode swallows every Exception *)
Definition is_modbus_exc (e : pyexn) : bool :=
  match e with
  | ModbusExc | ModbusIOExc | InvalidMessageExc | NotImplementedExc | NoSuchSlaveExc | ConnectionExc | ParameterExc => true
  | _ => false
  end.
Definition py_decode_wrapper (server : bool) (data : bytes) : res (option obj) :=
  match py_decode server data with
  | Ok o => Ok (Some o)
  | Raise e => if server then (if is_modbus_exc e then Ok None else Raise e) else Ok None
  end.

(* the struct format arguments as they are used above, per (class, method), in source order;
   Props/C01.v proves this equals GenPdu.struct_fmts, so an edited format literal breaks a proof *)
Definition modelled_fmts : list (string * string * list string) :=
  [("DiagnosticStatusRequest", "encode", [">H"; ">H"; ">H"]);
   ("DiagnosticStatusRequest", "decode", [">HH"]);
   ("DiagnosticStatusResponse", "encode", [">H"; ">H"; ">H"]);
   ("DiagnosticStatusResponse", "decode", ["EXPR '>' + 'H' * word_len"]);
   ("GetClearModbusPlusRequest", "encode", [">H"; ">H"]);
   ("GetCommEventCounterResponse", "encode", [">HH"]);
   ("GetCommEventCounterResponse", "decode", [">HH"]);
   ("GetCommEventLogResponse", "encode", [">B"; ">H"; ">HH"; ">B"]);
   ("GetCommEventLogResponse", "decode", [">H"; ">H"; ">H"]);
   ("MaskWriteRegisterRequest", "encode", [">HHH"]);
   ("MaskWriteRegisterRequest", "decode", [">HHH"]);
   ("MaskWriteRegisterResponse", "encode", [">HHH"]);
   ("MaskWriteRegisterResponse", "decode", [">HHH"]);
   ("ReadBitsRequestBase", "encode", [">HH"]);
   ("ReadBitsRequestBase", "decode", [">HH"]);
   ("ReadBitsResponseBase", "encode", [">B"]);
   ("ReadDeviceInformationRequest", "encode", [">BBB"]);
   ("ReadDeviceInformationRequest", "decode", [">BBB"]);
   ("ReadDeviceInformationResponse", "_encode_object", [">BB"]);
   ("ReadDeviceInformationResponse", "encode", [">BBB"; ">BBB"]);
   ("ReadDeviceInformationResponse", "decode", [">BBBBBB"; ">BB"]);
   ("ReadExceptionStatusResponse", "encode", [">B"]);
   ("ReadFifoQueueRequest", "encode", [">H"]);
   ("ReadFifoQueueRequest", "decode", [">H"]);
   ("ReadFifoQueueResponse", "encode", [">HH"; ">H"]);
   ("ReadFifoQueueResponse", "decode", [">HH"; ">H"]);
   ("ReadFileRecordRequest", "encode", ["B"; ">BHHH"]);
   ("ReadFileRecordRequest", "decode", [">BHHH"]);
   ("ReadFileRecordResponse", "encode", ["B"; ">BB"]);
   ("ReadFileRecordResponse", "decode", [">BB"]);
   ("ReadRegistersRequestBase", "encode", [">HH"]);
   ("ReadRegistersRequestBase", "decode", [">HH"]);
   ("ReadRegistersResponseBase", "encode", [">H"]);
   ("ReadRegistersResponseBase", "decode", [">H"]);
   ("ReadWriteMultipleRegistersRequest", "encode", [">HHHHB"; ">H"]);
   ("ReadWriteMultipleRegistersRequest", "decode", [">HHHHB"; ">H"]);
   ("ReadWriteMultipleRegistersResponse", "encode", [">H"]);
   ("ReadWriteMultipleRegistersResponse", "decode", [">H"]);
   ("WriteFileRecordRequest", "encode", ["B"; ">BHHH"]);
   ("WriteFileRecordRequest", "decode", [">BHHH"]);
   ("WriteFileRecordResponse", "encode", ["B"; ">BHHH"]);
   ("WriteFileRecordResponse", "decode", [">BHHH"]);
   ("WriteMultipleCoilsRequest", "encode", [">HHB"]);
   ("WriteMultipleCoilsRequest", "decode", [">HHB"]);
   ("WriteMultipleCoilsResponse", "encode", [">HH"]);
   ("WriteMultipleCoilsResponse", "decode", [">HH"]);
   ("WriteMultipleRegistersRequest", "encode", [">HHB"; ">H"]);
   ("WriteMultipleRegistersRequest", "decode", [">HHB"; ">H"]);
   ("WriteMultipleRegistersResponse", "encode", [">HH"]);
   ("WriteMultipleRegistersResponse", "decode", [">HH"]);
   ("WriteSingleCoilRequest", "encode", [">H"]);
   ("WriteSingleCoilRequest", "decode", [">HH"]);
   ("WriteSingleCoilResponse", "encode", [">H"]);
   ("WriteSingleCoilResponse", "decode", [">HH"]);
   ("WriteSingleRegisterRequest", "encode", [">H"; ">H"]);
   ("WriteSingleRegisterRequest", "decode", [">HH"]);
   ("WriteSingleRegisterResponse", "encode", [">HH"]);
   ("WriteSingleRegisterResponse", "decode", [">HH"]);
   ("bit_write_message", "_turn_coil_on", [">H"]);
   ("bit_write_message", "_turn_coil_off", [">H"])].

(* the constructors (parameter lists with defaults, statements of every __init__) the expected-instance
   model of the harness (props/lib_pdu.py expected_instance) was written against; Props/C01.v proves
   this equals GenPdu.ctor_sigs, so an edited constructor breaks a proof *)
Definition modelled_ctors : list (string * string * list string) :=
  [("DiagnosticStatusRequest", "self, **kwargs", ["ModbusRequest.__init__(self, **kwargs)"; "self.message = None"]);
   ("DiagnosticStatusResponse", "self, **kwargs", ["ModbusResponse.__init__(self, **kwargs)"; "self.message = None"]);
   ("DiagnosticStatusSimpleRequest", "self, data=0, **kwargs", ["DiagnosticStatusRequest.__init__(self, **kwargs)"; "self.message = data"]);
   ("DiagnosticStatusSimpleResponse", "self, data=0, **kwargs", ["DiagnosticStatusResponse.__init__(self, **kwargs)"; "self.message = data"]);
   ("ExceptionResponse", "self, function_code, exception_code=None, **kwargs", ["ModbusResponse.__init__(self, **kwargs)"; "self.original_code = function_code"; "self.function_code = function_code | self.ExceptionOffset"; "self.exception_code = exception_code"]);
   ("FileRecord", "self, **kwargs", ["self.reference_type = kwargs.get('reference_type', 6)"; "self.file_number = kwargs.get('file_number', 0)"; "self.record_number = kwargs.get('record_number', 0)"; "self.record_data = kwargs.get('record_data', '')"; "self.record_length = kwargs.get('record_length', len(self.record_data) // 2)"; "self.response_length = kwargs.get('response_length', len(self.record_data) + 1)"]);
   ("ForceListenOnlyModeResponse", "self, **kwargs", ["DiagnosticStatusResponse.__init__(self, **kwargs)"; "self.message = []"]);
   ("GetClearModbusPlusRequest", "self, **kwargs", ["super(GetClearModbusPlusRequest, self).__init__(**kwargs)"]);
   ("GetCommEventCounterRequest", "self, **kwargs", ["ModbusRequest.__init__(self, **kwargs)"]);
   ("GetCommEventCounterResponse", "self, count=0, **kwargs", ["ModbusResponse.__init__(self, **kwargs)"; "self.count = count"; "self.status = True"]);
   ("GetCommEventLogRequest", "self, **kwargs", ["ModbusRequest.__init__(self, **kwargs)"]);
   ("GetCommEventLogResponse", "self, **kwargs", ["ModbusResponse.__init__(self, **kwargs)"; "self.status = kwargs.get('status', True)"; "self.message_count = kwargs.get('message_count', 0)"; "self.event_count = kwargs.get('event_count', 0)"; "self.events = kwargs.get('events', [])"]);
   ("IllegalFunctionRequest", "self, function_code, **kwargs", ["ModbusRequest.__init__(self, **kwargs)"; "self.function_code = function_code"]);
   ("MaskWriteRegisterRequest", "self, address=0, and_mask=65535, or_mask=0, **kwargs", ["ModbusRequest.__init__(self, **kwargs)"; "self.address = address"; "self.and_mask = and_mask"; "self.or_mask = or_mask"]);
   ("MaskWriteRegisterResponse", "self, address=0, and_mask=65535, or_mask=0, **kwargs", ["ModbusResponse.__init__(self, **kwargs)"; "self.address = address"; "self.and_mask = and_mask"; "self.or_mask = or_mask"]);
   ("ModbusPDU", "self, **kwargs", ["self.transaction_id = kwargs.get('transaction', Defaults.TransactionId)"; "self.protocol_id = kwargs.get('protocol', Defaults.ProtocolId)"; "self.unit_id = kwargs.get('unit', Defaults.UnitId)"; "self.skip_encode = kwargs.get('skip_encode', False)"; "self.check = 0"]);
   ("ModbusRequest", "self, **kwargs", ["ModbusPDU.__init__(self, **kwargs)"]);
   ("ModbusResponse", "self, **kwargs", ["ModbusPDU.__init__(self, **kwargs)"]);
   ("ReadBitsRequestBase", "self, address, count, **kwargs", ["ModbusRequest.__init__(self, **kwargs)"; "self.address = address"; "self.count = count"]);
   ("ReadBitsResponseBase", "self, values, **kwargs", ["ModbusResponse.__init__(self, **kwargs)"; "self.bits = values or []"]);
   ("ReadCoilsRequest", "self, address=None, count=None, **kwargs", ["ReadBitsRequestBase.__init__(self, address, count, **kwargs)"]);
   ("ReadCoilsResponse", "self, values=None, **kwargs", ["ReadBitsResponseBase.__init__(self, values, **kwargs)"]);
   ("ReadDeviceInformationRequest", "self, read_code=None, object_id=0, **kwargs", ["ModbusRequest.__init__(self, **kwargs)"; "self.read_code = read_code or DeviceInformation.Basic"; "self.object_id = object_id"]);
   ("ReadDeviceInformationResponse", "self, read_code=None, information=None, **kwargs", ["ModbusResponse.__init__(self, **kwargs)"; "self.read_code = read_code or DeviceInformation.Basic"; "self.information = information or {}"; "self.number_of_objects = 0"; "self.conformity = 131"; "self.next_object_id = 0"; "self.more_follows = MoreData.Nothing"; "self.space_left = None"]);
   ("ReadDiscreteInputsRequest", "self, address=None, count=None, **kwargs", ["ReadBitsRequestBase.__init__(self, address, count, **kwargs)"]);
   ("ReadDiscreteInputsResponse", "self, values=None, **kwargs", ["ReadBitsResponseBase.__init__(self, values, **kwargs)"]);
   ("ReadExceptionStatusRequest", "self, **kwargs", ["ModbusRequest.__init__(self, **kwargs)"]);
   ("ReadExceptionStatusResponse", "self, status=0, **kwargs", ["ModbusResponse.__init__(self, **kwargs)"; "self.status = status"]);
   ("ReadFifoQueueRequest", "self, address=0, **kwargs", ["ModbusRequest.__init__(self, **kwargs)"; "self.address = address"; "self.values = []"]);
   ("ReadFifoQueueResponse", "self, values=None, **kwargs", ["ModbusResponse.__init__(self, **kwargs)"; "self.values = values or []"]);
   ("ReadFileRecordRequest", "self, records=None, **kwargs", ["ModbusRequest.__init__(self, **kwargs)"; "self.records = records or []"]);
   ("ReadFileRecordResponse", "self, records=None, **kwargs", ["ModbusResponse.__init__(self, **kwargs)"; "self.records = records or []"]);
   ("ReadHoldingRegistersRequest", "self, address=None, count=None, **kwargs", ["ReadRegistersRequestBase.__init__(self, address, count, **kwargs)"]);
   ("ReadHoldingRegistersResponse", "self, values=None, **kwargs", ["ReadRegistersResponseBase.__init__(self, values, **kwargs)"]);
   ("ReadInputRegistersRequest", "self, address=None, count=None, **kwargs", ["ReadRegistersRequestBase.__init__(self, address, count, **kwargs)"]);
   ("ReadInputRegistersResponse", "self, values=None, **kwargs", ["ReadRegistersResponseBase.__init__(self, values, **kwargs)"]);
   ("ReadRegistersRequestBase", "self, address, count, **kwargs", ["ModbusRequest.__init__(self, **kwargs)"; "self.address = address"; "self.count = count"]);
   ("ReadRegistersResponseBase", "self, values, **kwargs", ["ModbusResponse.__init__(self, **kwargs)"; "self.registers = values or []"]);
   ("ReadWriteMultipleRegistersRequest", "self, **kwargs", ["ModbusRequest.__init__(self, **kwargs)"; "self.read_address = kwargs.get('read_address', 0)"; "self.read_count = kwargs.get('read_count', 0)"; "self.write_address = kwargs.get('write_address', 0)"; "self.write_registers = kwargs.get('write_registers', None)"; "if not hasattr(self.write_registers, '__iter__'): self.write_registers = [self.write_registers]"; "self.write_count = len(self.write_registers)"; "self.write_byte_count = self.write_count * 2"]);
   ("ReadWriteMultipleRegistersResponse", "self, values=None, **kwargs", ["ModbusResponse.__init__(self, **kwargs)"; "self.registers = values or []"]);
   ("ReportSlaveIdRequest", "self, **kwargs", ["ModbusRequest.__init__(self, **kwargs)"]);
   ("ReportSlaveIdResponse", "self, identifier=b'\x00', status=True, **kwargs", ["ModbusResponse.__init__(self, **kwargs)"; "self.identifier = identifier"; "self.status = status"; "self.byte_count = None"]);
   ("RestartCommunicationsOptionRequest", "self, toggle=False, **kwargs", ["DiagnosticStatusRequest.__init__(self, **kwargs)"; "if toggle: self.message = [ModbusStatus.On] else: self.message = [ModbusStatus.Off]"]);
   ("RestartCommunicationsOptionResponse", "self, toggle=False, **kwargs", ["DiagnosticStatusResponse.__init__(self, **kwargs)"; "if toggle: self.message = [ModbusStatus.On] else: self.message = [ModbusStatus.Off]"]);
   ("ReturnQueryDataRequest", "self, message=0, **kwargs", ["DiagnosticStatusRequest.__init__(self, **kwargs)"; "if isinstance(message, list): self.message = message else: self.message = [message]"]);
   ("ReturnQueryDataResponse", "self, message=0, **kwargs", ["DiagnosticStatusResponse.__init__(self, **kwargs)"; "if isinstance(message, list): self.message = message else: self.message = [message]"]);
   ("WriteFileRecordRequest", "self, records=None, **kwargs", ["ModbusRequest.__init__(self, **kwargs)"; "self.records = records or []"]);
   ("WriteFileRecordResponse", "self, records=None, **kwargs", ["ModbusResponse.__init__(self, **kwargs)"; "self.records = records or []"]);
   ("WriteMultipleCoilsRequest", "self, address=None, values=None, **kwargs", ["ModbusRequest.__init__(self, **kwargs)"; "self.address = address"; "if not values: values = [] elif not hasattr(values, '__iter__'): values = [values]"; "self.values = values"; "self.byte_count = (len(self.values) + 7) // 8"]);
   ("WriteMultipleCoilsResponse", "self, address=None, count=None, **kwargs", ["ModbusResponse.__init__(self, **kwargs)"; "self.address = address"; "self.count = count"]);
   ("WriteMultipleRegistersRequest", "self, address=None, values=None, **kwargs", ["ModbusRequest.__init__(self, **kwargs)"; "self.address = address"; "if values is None: values = [] elif not hasattr(values, '__iter__'): values = [values]"; "self.values = values"; "self.count = len(self.values)"; "self.byte_count = self.count * 2"]);
   ("WriteMultipleRegistersResponse", "self, address=None, count=None, **kwargs", ["ModbusResponse.__init__(self, **kwargs)"; "self.address = address"; "self.count = count"]);
   ("WriteSingleCoilRequest", "self, address=None, value=None, **kwargs", ["ModbusRequest.__init__(self, **kwargs)"; "self.address = address"; "self.value = bool(value)"]);
   ("WriteSingleCoilResponse", "self, address=None, value=None, **kwargs", ["ModbusResponse.__init__(self, **kwargs)"; "self.address = address"; "self.value = value"]);
   ("WriteSingleRegisterRequest", "self, address=None, value=None, **kwargs", ["ModbusRequest.__init__(self, **kwargs)"; "self.address = address"; "self.value = value"]);
   ("WriteSingleRegisterResponse", "self, address=None, value=None, **kwargs", ["ModbusResponse.__init__(self, **kwargs)"; "self.address = address"; "self.value = value"]);
   ("_OutOfSpaceException", "self, oid", ["self.oid = oid"])].

