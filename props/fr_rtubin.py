"""RTU / binary framer half of C03, C06, C07, C11 (+ CRC-16).  Contract: props/_split.py.

Drives the real ModbusRtuFramer / ModbusBinaryFramer in-process.  The PDU decoder is
outside the framer model: the real decoder is wrapped in a recording proxy (forwarding
lookupPduClass) and the recorded (pdu bytes -> outcome) pairs go into the case term, so
deliveries are compared as (pdu bytes handed to decode, result.unit_id).  After every
processIncomingPacket call the harness observes: deliveries, escaped exception class,
_buffer and _header (read-only).
"""
import itertools

from lib import common
from lib.coqrun import z, zlist, nat, boolean, lst
from lib.main import Case, Suite
from lib.pyx import pyexn

GENERATORS = ["framer_rtubin"]
PROP_FILES = {"C03": ["C03_rtubin"], "C06": ["C06_rtubin"], "C07": ["C07_rtubin"], "C11": ["C11_rtubin"]}
CASE_DEPS = ["theories/CorrFrB.vo", "Generated/GenFramerB.vo"]
IMPORTS = ("From PM.theories Require Import Base Expr Struct FrBCode Crc FrBCommon FrRtu FrBin FrSpecB CorrFrB.\n"
           "From PM.Generated Require Import GenFramerB.")

RULE = {
    "C03": ("rtu/binary: every message class of both decoder tables (field values at boundaries, list lengths "
            "0..max), ExceptionResponse for 27 refused function codes across 1..127 (incl. functions without a message "
            "class: 0x09 0x0A 0x41 0x64 0x7F) x exception codes 1..11, plus payloads forced through all 256 byte values (0x7B/0x7D included) x unit ids "
            "{0,1,17,123,125,247,255,random}: buildPacket compared with the spec ADU (bitwise CRC), the packet fed "
            "whole to a fresh receiver; computeCRC/checkCRC on all strings of length <= 1, 600 of length 2 and random "
            "strings up to 300 bytes; calculateRtuFrameSize of every built frame. non-trivial = the packet was built; "
            "distinct = distinct Coq case terms"),
    "C06": ("rtu/binary: streams of 1-4 valid frames (both directions, mixed classes): ALL cut sets of streams <= 12 "
            "bytes, every single cut, sampled double cuts, random k-cuts, byte-at-a-time, frame-aligned reads with "
            "random sub-cuts, empty reads interspersed; size-extreme frames (PDU 1, 2, 250-253 bytes) whole and cut near "
            "both ends; a frame for a unit not served in front of / between / behind served frames. "
            "non-trivial = at least one frame was delivered"),
    "C07": ("rtu/binary: valid frames x every single-bit flip, every double-bit flip of 8-byte frames (sampled for "
            "longer ones), byte substitution by all 256 values at every position of short frames, deletion / insertion "
            "/ truncation at every offset, alone and preceded / followed by valid frames in separate reads and in the SAME "
            "read (valid+corrupt, valid+corrupt+valid, corrupt+valid+valid, split variants); binary: noise bytes in front "
            "plus bytes inserted after '{'. "
            "non-trivial = the corrupted bytes differ from every valid frame of the case"),
    "C11": ("rtu/binary: garbage prefixes (random bytes, corrupted / truncated frames, foreign-unit frames, delimiter "
            "runs, short brace pairs, byte-counted request / response headers with impossible byte counts 0xF0..0xFF alone, "
            "behind 1-3 noise bytes and as a full-length frame with a flipped count bit) followed by 7-14 valid frames, one per read and several per read, bare framer "
            "and with the serial handlers' reset-on-exception (model), AND through the real ModbusSingleRequestHandler "
            "(sync, fake port) and the asyncio datagram handler with both framers: reads that make the framer raise (binary "
            "'{}', '{x}', CRC-valid frame with undecodable PDU, ...) then valid requests one / two per read; a request counts "
            "as delivered only if it was answered. non-trivial = a valid frame after the window exists"),
}
TRUSTED = [
    "rtu/binary, modelled by hand and tied by correspondence on every run: control flow of processIncomingPacket, "
    "isFrameReady, checkFrame, populateHeader, advanceFrame, _process, _preflight (shape-checked by the translator "
    "against exact templates); Python slicing with negative indices, bytes.find, struct '>B'/'>H'/'>BB'",
    "rtu/binary, generated from source on every run (Generated/GenFramerB.v): CRC table generator constants "
    "(0xa001, 8 rounds, 256), computeCRC init/index/update/swap expressions, checkCRC, rtuFrameSize (+3), every "
    "slice bound and comparison of both framers, initial headers, delimiters, struct formats, _rtu_frame_size / "
    "_rtu_byte_count_pos of every class in the two decoder tables and the two calculateRtuFrameSize overrides",
    "rtu/binary: decoder.decode is an oracle (recorded per case); the PDU codecs are C01/C02's subject",
]
ASSUMPTIONS = [
    "rtu/binary: processIncomingPacket is called with a list of integer unit ids and a callback that does not raise",
    "rtu/binary: decoder.decode is a function of the PDU bytes (no hidden state)",
]
MANIFEST_PART = {
    "C03": {"text": ("RTU/binary half: Coq theorems (Props/C03_rtubin.v) that the table-driven computeCRC regenerated "
                     "from utilities.py equals the bitwise CRC-16/Modbus (all 256 table entries; all byte strings, by "
                     "induction over a 65 536-state per-byte lemma), that buildPacket of the RTU framer is unit+PDU+CRC "
                     "low byte first for all unit ids and PDUs, that a whole valid frame is delivered exactly once "
                     "for every class whose size oracle is correct, and refutations with witnesses for the binary "
                     "framer (never un-escapes) and the wrong RTU size oracles."),
            "note": ("Trusted: Coq kernel, translator shape matching, the hand model of the framers' control flow tied "
                     "by correspondence on every run, decode as an oracle.")},
    "C06": {"text": ("RTU/binary half: theorems over all chunkings (lists of arbitrary chunks, empty ones included): after the "
                     "repairs to the RTU receive loop, RTU delivery is fully chunking-independent for every class with a "
                     "prefix-stable size rule (any cuts, several frames per read, frames of units not served skipped; still "
                     "refuted for Read Device Identification responses); binary for reads that complete any number "
                     "of whole delimiter-free frames and leave at most one byte of the next (a read ending deeper inside a frame, delimiters "
                     "in the frame and frames behind a frame for a unit not served are refuted); both while loops proved terminating."),
            "note": "Trusted as for C03; correspondence runs all cut sets of short streams on the real framers."},
    "C07": {"text": ("RTU/binary half: gate theorems for every receiver state and input (each message delivered anywhere in "
                     "the RTU drain loop is justified by a span of the received bytes whose bitwise CRC-16 matches; binary: every "
                     "delivery of a call is the unit + PDU between a '{' and the next '}' with matching CRC, junk in front costs nothing), and detection-power "
                     "theorems about the CRC itself: xor-linearity, every odd number of flipped bits at any length, "
                     "every double-bit error in frames < 32767 bits, every burst <= 16 bits."),
            "note": "Trusted as for C03; the reference receiver (spec side) judges what the real framers delivered."},
    "C11": {"text": ("RTU/binary half: on the request table, for every buffer content and arrival pattern a normally returning "
                     "call leaves fewer than 268 bytes buffered (explicit bound = largest extent of the size oracle) and every "
                     "delivery is CRC-justified; from the synchronised state valid frames in any grouping are all delivered; "
                     "response table refuted (FIFO 64 KB extent, MEI); binary partial (delimiter-free frames, any number per read)."),
            "note": "Trusted as for C03; garbage-then-valid-traffic runs on the real framers."},
}

SPECIAL_UNITS = [0, 1, 17, 123, 125, 247, 255]


# ----------------------------------------------------------------------------- printing

def nb(b):
    b = bytes(b)
    return "[" + "; ".join(str(x) for x in b) + "]%N" if b else "[]%N"


def resb(r):
    return "(Ok %s)" % nb(r[1]) if r[0] == "ok" else "(Raise %s)" % r[1]


def dres(o):
    return {"M": "DMsg", "N": "DNone"}.get(o[0]) or "(DRaise %s)" % o[1]


def del_t(d):
    return "(%s, %s)" % (nb(d[0]), z(d[1]))


def opt(v, pr=z):
    return "None" if v is None else "(Some %s)" % pr(v)


def obs_t(o):
    dels, ex, buf, hdr = o
    return "{| o_del := %s; o_exit := %s; o_buf := %s; o_hdr := (%s, %s, %s) |}" % (
        lst(del_t(d) for d in dels), "FOk" if ex is None else "(FExn %s)" % ex, nb(buf),
        opt(hdr[0]), opt(hdr[1]), opt(hdr[2], zlist))


def scase_t(run):
    return ("{| sc_kind := %s; sc_client := %s; sc_units := %s; sc_single := %s; sc_reset := %s;\n"
            "   sc_dec := %s;\n   sc_chunks := %s;\n   sc_obs := %s |}") % (
        "KRtu" if run["kind"] == "rtu" else "KBin", boolean(run["client"]), zlist(run["units"]),
        boolean(run["single"]), boolean(run["reset"]),
        lst("(%s, %s)" % (nb(k), dres(v)) for k, v in run["dec"]),
        lst(nb(c) for c in run["chunks"]), lst(obs_t(o) for o in run["obs"]))


# ----------------------------------------------------------------------------- driving the real code

class RecDecoder:
    """recording proxy around the real decoder"""

    def __init__(self, real):
        self.real, self.log = real, {}

    def lookupPduClass(self, fc):
        return self.real.lookupPduClass(fc)

    def decode(self, data):
        key = bytes(data)
        try:
            r = self.real.decode(data)
        except Exception as e:  # noqa: BLE001 — the class of the exception is the observation
            self.log[key] = ("E", pyexn(e))
            raise
        if r is None:
            self.log[key] = ("N",)
            return None
        self.log[key] = ("M",)
        r._verif_pdu = key
        return r


def framer_cls(kind):
    if kind == "rtu":
        from pymodbus.framer.rtu_framer import ModbusRtuFramer
        return ModbusRtuFramer
    from pymodbus.framer.binary_framer import ModbusBinaryFramer
    return ModbusBinaryFramer


def decoder(client):
    from pymodbus.factory import ServerDecoder, ClientDecoder
    return ClientDecoder() if client else ServerDecoder()


def canon_hdr(kind, h):
    crc = h.get("crc")
    if crc is not None:
        if isinstance(crc, str):
            crc = [ord(c) for c in crc]
        elif isinstance(crc, (bytes, bytearray)):
            crc = list(crc)
        else:
            crc = [int(crc)]
    uid, ln = h.get("uid"), h.get("len")
    return (None if uid is None else int(uid), None if ln is None else int(ln), crc)


def drive(kind, client, units, single, reset, chunks):
    rec = RecDecoder(decoder(client))
    fr = framer_cls(kind)(rec)
    obs = []
    stale = False
    for ch in chunks:
        dels = []
        ex = None
        if kind == "bin":
            stale = stale or bin_stale_start(bytes(fr._buffer) + bytes(ch))
        try:
            fr.processIncomingPacket(bytes(ch), lambda m: dels.append((m._verif_pdu, int(m.unit_id))),
                                     list(units), single=single)
        except Exception as e:  # noqa: BLE001
            ex = pyexn(e)
            if reset:
                fr.resetFrame()
        obs.append((dels, ex, bytes(fr._buffer), canon_hdr(kind, fr._header)))
    return {"kind": kind, "client": client, "units": list(units), "single": single, "reset": reset,
            "dec": sorted(rec.log.items()), "chunks": [bytes(c) for c in chunks], "obs": obs, "stale": stale}


def bin_stale_start(buf):
    """binary framer: would checkFrame be evaluated on a buffer that has bytes before its first '{'?
    (then its local `start` is stale and the CRC is taken over a span shifted by `start` bytes) —
    computed from the input bytes only"""
    while len(buf) > 1:
        s = buf.find(b"{")
        if s == -1:
            return False
        if s > 0:
            return True
        e = buf.find(b"}")
        if e == -1:
            return False
        buf = buf[e + 2:]
    return False


def run_desc(run, **extra):
    d = {"kind": run["kind"], "client": run["client"], "units": run["units"], "single": run["single"],
         "reset": run["reset"], "stale": run.get("stale", False), "chunks": [c.hex() for c in run["chunks"]],
         "impl": [[[(p.hex(), u) for p, u in o[0]], o[1], len(o[2])] for o in run["obs"]]}
    d.update(extra)
    return d


def replay_run(d):
    return drive(d["kind"], d["client"], d["units"], d["single"], d["reset"], [bytes.fromhex(c) for c in d["chunks"]])


# ----------------------------------------------------------------------------- messages

def is_client(name):
    return not name.endswith("Request")


_MSG_CACHE = {}


def messages(tier, seedname):
    """[(class name, client?, message object factory)] — every class of both decoder tables"""
    key = (tier, seedname, common.seed())
    if key in _MSG_CACHE:
        return _MSG_CACHE[key]
    from props import lib_pdu
    r = common.rng(seedname)
    out = []
    for spec in lib_pdu.class_specs(r, tier, bad=0.0):
        name = spec[0]
        try:
            m = lib_pdu.build(spec)
            data = m.encode()
            if not isinstance(data, (bytes, bytearray)) or len(data) > 252:
                continue
            fc = int(m.function_code)
            if not 0 <= fc <= 255:
                continue
        except Exception:  # noqa: BLE001 — shapes the class cannot encode are C01's subject
            continue
        out.append((name, is_client(name), spec))
    _MSG_CACHE[key] = out
    return out


def build_msg(spec, uid):
    from props import lib_pdu
    m = lib_pdu.build(spec)
    m.unit_id = uid
    return m


def forced_payload_specs():
    """payload bytes forced through all 256 values"""
    out = []
    for v in range(256):
        w = (v << 8) | (v ^ 0x55)
        out.append(("WriteMultipleRegistersRequest", False, ("WriteMultipleRegistersRequest", (v, [w, v]), {}, {})))
        out.append(("ReadHoldingRegistersResponse", True, ("ReadHoldingRegistersResponse", ([w, v, (v << 8) | v],), {}, {})))
    return out


def extreme_specs():
    """size extremes: PDU of 1, 2, 252, 253 bytes; RTU frames of 4, 5, 254, 255, 256 bytes"""
    S = lambda name, *a, **kw: (name, is_client(name), (name, tuple(a), dict(kw), {}))
    nd = lambda b: b - 1 if b in (0x7b, 0x7d) else b          # keep most extremes free of the binary delimiters
    regs = lambda n: [(nd(((0x1100 + 7 * i) >> 8) & 0xff) << 8) | nd((0x1100 + 7 * i) & 0xff) for i in range(n)]
    return [
        S("ReadExceptionStatusRequest"), S("GetCommEventCounterRequest"), S("ReportSlaveIdRequest"),   # PDU 1, frame 4
        S("ReadExceptionStatusResponse", 0x5a), S("ExceptionResponse", 3, 2),                          # PDU 2, frame 5
        S("ReadHoldingRegistersResponse", regs(124)),                                                  # PDU 250
        S("ReadHoldingRegistersResponse", regs(125)), S("ReadInputRegistersResponse", regs(125)),      # PDU 252, frame 255
        S("WriteMultipleRegistersRequest", 0x10, regs(122)),                                           # PDU 250
        S("WriteMultipleRegistersRequest", 0x10, regs(123)),                                           # PDU 252, frame 255
        S("ReadWriteMultipleRegistersRequest", read_address=1, read_count=2, write_address=3, write_registers=regs(121)),  # PDU 252
        S("ReadWriteMultipleRegistersResponse", regs(125)),
        S("ReadCoilsResponse", [i % 3 == 0 for i in range(2000)]),                                     # PDU 252
        S("ReadDiscreteInputsResponse", [i % 5 == 0 for i in range(2008)]),                            # PDU 253, frame 256
        S("WriteMultipleCoilsRequest", 7, [i % 2 == 0 for i in range(1968)]),                          # PDU 252
        S("WriteMultipleCoilsRequest", 7, [i % 7 == 0 for i in range(1976)]),                          # PDU 253, frame 256
        S("ReportSlaveIdResponse", bytes(nd((i * 11 + 3) & 0xff) for i in range(248)), False),             # PDU 251, frame 254
        S("ReportSlaveIdResponse", bytes(nd((i * 5 + 1) & 0xff) for i in range(249)), True),               # PDU 252
        S("ReportSlaveIdResponse", bytes((i * 3 + 2) & 0xff for i in range(250)), True),               # PDU 253, frame 256
        S("GetCommEventLogResponse", status=True, message_count=2, event_count=3, events=[nd((i * 7) & 0xff) for i in range(244)]),  # PDU 252
        S("GetCommEventLogResponse", status=True, message_count=2, event_count=3, events=[(i * 7) & 0xff for i in range(245)]),  # PDU 253
    ]


EXC_FCS = [1, 2, 3, 4, 5, 6, 7, 8, 9, 0x0A, 0x0B, 0x0C, 0x0F, 0x10, 0x11, 0x14, 0x15, 0x16, 0x17, 0x18, 0x2B,
           0x41, 0x42, 0x64, 0x6E, 0x7E, 0x7F]
UNIMPLEMENTED_FCS = [0x09, 0x0A, 0x41, 0x64, 0x7F]


def exception_specs(fcs=None, codes=None):
    """ExceptionResponse(fc, code): refused function codes across 1..127 including functions the library has
    no message class for, x all exception codes 1..11 (response direction)"""
    return [("ExceptionResponse", True, ("ExceptionResponse", (fc, code), {}, {}))
            for fc in (fcs or EXC_FCS) for code in (codes or range(1, 12))]


def known_undecodable(cls, pdu):
    """the PDUs the unchanged decoder is KNOWN to reject although the class encoded them (finding
    F-*-rtubin-pdu-not-decodable): FIFO responses, odd diagnostic payloads, exception of 'function 0'"""
    return cls == "ReadFifoQueueResponse" or (len(pdu) > 0 and pdu[0] in (0x08, 0x80))


def packet_of(kind, spec, uid):
    m = build_msg(spec, uid)
    fr = framer_cls(kind)(decoder(False))
    data = bytes(m.encode())
    pkt = bytes(fr.buildPacket(m))
    return m, data, pkt


def has_delim(b):
    return 0x7b in b or 0x7d in b


WRONG_ORACLE_HINT = ("ReadFifoQueueResponse", "GetClearModbusPlusResponse")


def decodable(client, pdu):
    """does the real decoder turn this PDU into a message? (PDU codec defects are C01/C02's subject)"""
    try:
        return decoder(client).decode(bytes(pdu)) is not None
    except Exception:  # noqa: BLE001
        return False


def size_ok(client, frame):
    """does the real size oracle give the true length of this RTU frame?"""
    try:
        return decoder(client).lookupPduClass(frame[1]).calculateRtuFrameSize(frame) == len(frame)
    except Exception:  # noqa: BLE001
        return False


# ----------------------------------------------------------------------------- C03 suites

def suite_crc(tier):
    from pymodbus.utilities import computeCRC, checkCRC
    r = common.rng("b_crc")
    strings = [b""] + [bytes([i]) for i in range(256)]
    strings += [bytes([r.randrange(256), r.randrange(256)]) for _ in range(600 if tier == "quick" else 20000)]
    strings += [b"123456789", b"\x00" * 300, b"\xff" * 300]
    for _ in range(300 if tier == "quick" else 5000):
        strings.append(bytes(r.randrange(256) for _ in range(r.choice([3, 4, 8, 9, 16, 17, 64, 255, 256, 300, r.randrange(3, 300)]))))
    cases = []
    for s in strings:
        got = int(computeCRC(s))
        k = got if r.random() < 0.5 else r.choice([got ^ 1, got ^ 0x8000, ((got << 8) & 0xff00) | (got >> 8), 0, 0xffff])
        gotk = bool(checkCRC(s, k))
        cases.append(Case("(%s, %s, %s, %s)" % (nb(s), z(got), z(k), boolean(gotk)),
                          {"data": s.hex(), "computeCRC": got, "check": k, "checkCRC": gotk}, kind="crc%d" % min(len(s), 3)))
    return Suite("b_crc", IMPORTS, "chk_crc", cases, shard=150)


def c03_cases(tier):
    r = common.rng("b_c03")
    todo = []
    for name, client, spec in messages(tier, "b_msgs"):
        for kind in ("rtu", "bin"):
            todo.append((name, client, spec, kind, r.choice(SPECIAL_UNITS + [r.randrange(256)]), "class"))
    for name, client, spec in forced_payload_specs():
        for kind in ("rtu", "bin"):
            todo.append((name, client, spec, kind, r.choice([1, 17, r.randrange(256)]), "payload256"))
    for name, client, spec in extreme_specs():
        for kind in ("rtu", "bin"):
            for uid in (1, 247):
                todo.append((name, client, spec, kind, uid, "extreme"))
    for name, client, spec in exception_specs():
        for kind in ("rtu", "bin"):
            todo.append((name, client, spec, kind, r.choice([1, 17, 247]), "exception"))
    # unit ids: all 256 on one small request
    rd = ("ReadHoldingRegistersRequest", (1, 2), {}, {})
    for uid in range(256):
        for kind in ("rtu", "bin"):
            todo.append(("ReadHoldingRegistersRequest", False, rd, kind, uid, "unit256"))
    return todo


def c03_case(name, client, spec, kind, uid, label):
    m = build_msg(spec, uid)
    data = bytes(m.encode())
    fc = int(m.function_code)
    fr = framer_cls(kind)(decoder(client))
    try:
        pkt = ("ok", bytes(fr.buildPacket(m)))
    except Exception as e:  # noqa: BLE001
        pkt = ("exc", pyexn(e))
    single = (uid % 2 == 0)
    chunks = [pkt[1]] if pkt[0] == "ok" else []
    run = drive(kind, client, [uid], single, False, chunks)
    term = "{| bk_uid := %s; bk_fc := %s; bk_data := %s; bk_packet := %s;\n  bk_rx := %s |}" % (
        z(uid), z(fc), nb(data), resb(pkt), scase_t(run))
    body = bytes([uid, fc]) + data
    desc = run_desc(run, cls=name, uid=uid, fc=fc, data=data.hex(), packet=pkt[1].hex() if pkt[0] == "ok" else pkt[1],
                    delim=(has_delim(pkt[1][1:-1]) if pkt[0] == "ok" and kind == "bin" else False),
                    size_ok=(size_ok(client, pkt[1]) if pkt[0] == "ok" and kind == "rtu" else True), body=body.hex(),
                    decodable=decodable(client, bytes([fc]) + data))
    return Case(term, desc, kind="%s:%s" % (kind, label), nontrivial=pkt[0] == "ok")


def suite_c03(tier):
    cases = [c03_case(*t) for t in c03_cases(tier)]
    return Suite("b_c03", IMPORTS, "chk_c03", cases, shard=120)


def suite_size(tier):
    cases = []
    r = common.rng("b_size")
    for name, client, spec in messages(tier, "b_msgs") + forced_payload_specs()[::16] + exception_specs(codes=[1, 11]):
        uid = r.randrange(256)
        m, data, pkt = packet_of("rtu", spec, uid)
        try:
            got = "(Ok %s)" % z(int(decoder(client).lookupPduClass(pkt[1]).calculateRtuFrameSize(pkt)))
        except Exception as e:  # noqa: BLE001
            got = "(Raise %s)" % pyexn(e)
        cases.append(Case("(%s, %s, %s)" % (boolean(client), nb(pkt), got),
                          {"cls": name, "client": client, "frame": pkt.hex(), "got": got, "len": len(pkt)},
                          kind=name[:12]))
    return Suite("b_size", IMPORTS, "chk_size", cases, shard=200)


# ----------------------------------------------------------------------------- C06

def cuts_to_chunks(stream, cuts):
    pts = [0] + sorted(cuts) + [len(stream)]
    return [stream[a:b] for a, b in zip(pts, pts[1:])]


def sprinkle_empty(r, chunks, p):
    out = []
    for c in chunks:
        while r.random() < p:
            out.append(b"")
        out.append(c)
    if r.random() < p:
        out.append(b"")
    return out


def pick_frames(r, pool, n, kind, want_clean=True):
    """n frames (name, spec, uid, pdu, packet) from pool; clean = inside no known-finding region"""
    out = []
    tries = 0
    while len(out) < n and tries < 200:
        tries += 1
        name, client, spec = r.choice(pool)
        uid = r.choice([1, 2, 17, 247, r.randrange(1, 248)])
        m, data, pkt = packet_of(kind, spec, uid)
        pdu = bytes([int(m.function_code)]) + data
        if want_clean:
            if kind == "bin" and has_delim(pkt[1:-1]):
                continue
            if kind == "rtu" and not size_ok(client, pkt):
                continue
            if not decodable(client, pdu):
                continue
        out.append((name, spec, uid, pdu, pkt))
    return out


def stream_case(kind, client, frames, chunks, label, reset=False, units=None):
    if units is None:
        units = sorted(set(f[2] for f in frames)) if frames else [1]
    run = drive(kind, client, units, False, reset, chunks)
    served = lambda u: u in units or 0 in units or 255 in units
    expect = [(f[3], f[2]) for f in frames if served(f[2])]
    term = "(%s,\n %s)" % (scase_t(run), lst(del_t(d) for d in expect))
    desc = run_desc(run, frames=[[f[0], f[2], f[3].hex(), f[4].hex()] for f in frames],
                    size_ok=all(kind != "rtu" or size_ok(client, f[4]) for f in frames),
                    decodable=all(decodable(client, f[3]) for f in frames))
    delivered = sum(len(o[0]) for o in run["obs"])
    return Case(term, desc, kind="%s:%s:%s" % (kind, "cli" if client else "srv", label), nontrivial=delivered > 0)


def suite_c06(tier):
    r = common.rng("b_c06")
    cases = []
    quick = tier == "quick"
    for kind in ("rtu", "bin"):
        for client in (False, True):
            pool = [m for m in messages(tier, "b_msgs") if m[1] == client]
            short = [m for m in pool if m[0] in ("ReadCoilsRequest", "ReadHoldingRegistersRequest", "ReadExceptionStatusRequest",
                                                 "WriteSingleRegisterRequest", "ReadExceptionStatusResponse",
                                                 "WriteSingleRegisterResponse", "ExceptionResponse", "GetCommEventCounterRequest")]
            # (a) ALL cut sets of one short frame and of a two-frame stream <= 12 bytes
            f1 = pick_frames(r, short, 1, kind)
            stream = f1[0][4]
            n = len(stream)
            for mask in range(1 << (n - 1)):
                cuts = [i + 1 for i in range(n - 1) if mask >> i & 1]
                cases.append(stream_case(kind, client, f1, cuts_to_chunks(stream, cuts), "allcuts1"))
            tiny = [m for m in pool if m[0] in ("ReadExceptionStatusRequest", "GetCommEventCounterRequest", "ReportSlaveIdRequest",
                                                "ExceptionResponse", "ReadExceptionStatusResponse")]
            f2 = pick_frames(r, tiny, 2, kind)
            stream = b"".join(f[4] for f in f2)
            n = len(stream)
            if n <= (12 if quick else 14):
                step = 1 if (kind == "rtu" or not quick) else 3
                for mask in range(0, 1 << (n - 1), step):
                    cuts = [i + 1 for i in range(n - 1) if mask >> i & 1]
                    cases.append(stream_case(kind, client, f2, cuts_to_chunks(stream, cuts), "allcuts2"))
            # (a0) exception responses for functions the library does not implement: ALL cut sets, and pairs
            if client:
                for spec3 in exception_specs(UNIMPLEMENTED_FCS, [1, 4, 11]):
                    fe = pick_frames(r, [spec3], 1, kind, want_clean=False)
                    se = fe[0][4]
                    ne = len(se)
                    for mask in range(1 << (ne - 1)):
                        if quick and kind == "bin" and mask % 4:
                            continue
                        cases.append(stream_case(kind, client, fe, cuts_to_chunks(se, [i + 1 for i in range(ne - 1) if mask >> i & 1]), "exception-allcuts"))
                    cases.append(stream_case(kind, client, fe + fe, [se + se], "exception-pair"))
            # (a') size extremes (PDU 1, 2, 250..253 bytes; RTU frames up to 256 bytes): whole, cuts near both
            #      ends and sampled cuts, one frame per read, tiny frame followed by a maximal one
            ext = [m for m in extreme_specs() if m[1] == client]
            tinyx = [m for m in ext if m[0] in ("ReadExceptionStatusRequest", "GetCommEventCounterRequest", "ReportSlaveIdRequest",
                                                "ReadExceptionStatusResponse", "ExceptionResponse")]
            for m in ext:
                fx = pick_frames(r, [m], 1, kind, want_clean=False)
                if not fx:
                    continue
                sx = fx[0][4]
                nx = len(sx)
                cases.append(stream_case(kind, client, fx, [sx], "extreme-whole"))
                near = [c for c in (1, 2, 3, 4, 8, nx - 4, nx - 3, nx - 2, nx - 1) if 0 < c < nx]
                for c in sorted(set(near + (r.sample(range(1, nx), min(nx - 1, 4 if quick else 20)) if nx > 1 else []))):
                    cases.append(stream_case(kind, client, fx, cuts_to_chunks(sx, [c]), "extreme-cut1"))
                if nx > 3:
                    cases.append(stream_case(kind, client, fx, cuts_to_chunks(sx, r.sample(range(1, nx), 2)), "extreme-cut2"))
                if tinyx and nx > 200:
                    ft = pick_frames(r, tinyx, 1, kind, want_clean=False)
                    cases.append(stream_case(kind, client, ft + fx, [ft[0][4], sx], "extreme-tiny|max"))
                    cases.append(stream_case(kind, client, fx + ft, [sx, ft[0][4]], "extreme-max|tiny"))
                    cases.append(stream_case(kind, client, ft + fx, [ft[0][4] + sx[:5], sx[5:]], "extreme-tiny+max"))
            # (b) longer mixed streams: single cuts, double cuts (sampled), random k-cuts, byte-at-a-time,
            #     frame-aligned reads with sub-cuts, empty reads
            for rep in range(6 if quick else 60):
                fs = pick_frames(r, pool, r.choice([1, 2, 3, 4]), kind, want_clean=(rep % 3 != 2))
                if not fs:
                    continue
                stream = b"".join(f[4] for f in fs)
                n = len(stream)
                if n > 600:
                    continue
                cutpos = list(range(1, n))
                for c in (cutpos if n <= 40 else r.sample(cutpos, 25 if quick else 80)):
                    cases.append(stream_case(kind, client, fs, cuts_to_chunks(stream, [c]), "cut1"))
                for _ in range(10 if quick else 60):
                    if n > 2:
                        cases.append(stream_case(kind, client, fs, cuts_to_chunks(stream, r.sample(cutpos, 2)), "cut2"))
                for _ in range(6 if quick else 30):
                    k = r.randrange(1, min(n, 12))
                    ch = sprinkle_empty(r, cuts_to_chunks(stream, r.sample(cutpos, k)), 0.15)
                    cases.append(stream_case(kind, client, fs, ch, "cutk"))
                if n <= 80:
                    cases.append(stream_case(kind, client, fs, sprinkle_empty(r, [stream[i:i + 1] for i in range(n)], 0.05), "bytewise"))
                # frame-aligned reads, each frame cut further at random places
                for _ in range(6 if quick else 30):
                    ch = []
                    for f in fs:
                        p = f[4]
                        k = r.choice([0, 1, 1, 2, 3])
                        ch += cuts_to_chunks(p, r.sample(range(1, len(p)), min(k, len(p) - 1)))
                    cases.append(stream_case(kind, client, fs, sprinkle_empty(r, ch, 0.1), "aligned+sub"))
                cases.append(stream_case(kind, client, fs, [f[4] for f in fs], "one-per-read"))
                cases.append(stream_case(kind, client, fs, [stream], "all-in-one"))
                # a frame for a unit that is not served, in front of / between / behind served frames:
                # it must be skipped, the frames of served units delivered
                if rep % 3 != 2 and len(fs) >= 1:
                    name0, spec0 = fs[0][0], fs[0][1]
                    m9, d9, p9 = packet_of(kind, spec0, 9)
                    if not (kind == "bin" and has_delim(p9[1:-1])):
                        f9 = (name0, spec0, 9, bytes([int(m9.function_code)]) + d9, p9)
                        served_units = sorted(set(f[2] for f in fs) - {9}) or [1]
                        for pos in sorted(set([0, len(fs) // 2, len(fs)])):
                            fx = fs[:pos] + [f9] + fs[pos:]
                            sx = b"".join(f[4] for f in fx)
                            cases.append(stream_case(kind, client, fx, [sx], "foreign:all-in-one", units=served_units))
                            cases.append(stream_case(kind, client, fx, [f[4] for f in fx], "foreign:one-per-read", units=served_units))
                            for c in r.sample(range(1, len(sx)), min(len(sx) - 1, 6 if quick else 30)):
                                cases.append(stream_case(kind, client, fx, cuts_to_chunks(sx, [c]), "foreign:cut1", units=served_units))
    return Suite("b_c06", IMPORTS, "chk_c06", cases, shard=400)


# ----------------------------------------------------------------------------- C07

def flip(b, bits):
    a = bytearray(b)
    for i in bits:
        a[i // 8] ^= 1 << (i % 8)
    return bytes(a)


def c07_case(kind, client, units, reads, label, valid):
    run = drive(kind, client, units, False, False, reads)
    term = scase_t(run)
    stream = b"".join(reads)
    desc = run_desc(run, valid=[v.hex() for v in valid])
    return Case(term, desc, kind="%s:%s" % (kind, label), nontrivial=True)


def suite_c07(tier):
    r = common.rng("b_c07")
    quick = tier == "quick"
    cases = []
    for kind in ("rtu", "bin"):
        for client in (False, True):
            pool = [m for m in messages(tier, "b_msgs") if m[1] == client]
            base = pick_frames(r, [m for m in pool if m[0] in ("ReadHoldingRegistersRequest", "WriteSingleRegisterRequest",
                                                               "WriteSingleRegisterResponse", "WriteMultipleRegistersResponse")], 1, kind)
            others = pick_frames(r, pool, 5 if quick else 40, kind)
            nb_ = pick_frames(r, pool, 1, kind)[0]
            for _ in range(50):     # the neighbour must differ from every frame it accompanies
                if all(nb_[4] != f[4] for f in base + others):
                    break
                nb_ = pick_frames(r, pool, 1, kind)[0]
            for idx, f in enumerate(base + others):
                p = f[4]
                nbits = 8 * len(p)
                units = sorted({f[2], nb_[2]})
                nbv = nb_[4]
                ctxs = [("alone", lambda c: [c]), ("then-valid", lambda c: [c, nbv]),
                        ("after-valid", lambda c: [nbv, c]), ("same-read", lambda c: [c + nbv])]
                # several frames in ONE read (and the same bytes split across reads): an intact frame
                # first must not open the gate for a corrupted frame behind it
                multi = [("valid+corrupt", lambda c: [nbv + c]),
                         ("valid+corrupt+valid", lambda c: [nbv + c + nbv]),
                         ("corrupt+valid+valid", lambda c: [c + nbv + nbv]),
                         ("valid+corrupt|split", lambda c: [nbv + c[:max(1, len(c) // 2)], c[max(1, len(c) // 2):]]),
                         ("valid|corrupt+valid", lambda c: [nbv, c + nbv]),
                         ("valid-split+corrupt|valid", lambda c: [nbv[:3], nbv[3:] + c, nbv]),
                         ("valid+valid+corrupt", lambda c: [nbv + nbv + c]),
                         ("valid|valid+corrupt|empty", lambda c: [nbv, nbv + c, b""])]

                # the INTACT twin of the corrupted frame first, on the same receiver (a master polling with one
                # request over and over): having just accepted these very header and trailer bytes must not
                # open the gate for a copy whose body was hit
                twin = [("twin|corrupt", lambda c: [p, c]), ("twin+corrupt", lambda c: [p + c]),
                        ("twin|twin|corrupt+valid", lambda c: [p, p, c + nbv]), ("valid|twin+corrupt|valid", lambda c: [nbv, p + c, nbv])]

                def emit_twin(c, label, every=False):
                    for cn, mk in (twin if every else [twin[r.randrange(len(twin))]]):
                        cases.append(c07_case(kind, client, units, mk(c), label + ":" + cn, [p, nb_[4]]))

                def emit(c, label, every=False):
                    for cn, mk in (ctxs if every else [ctxs[r.randrange(len(ctxs))]]):
                        cases.append(c07_case(kind, client, units, mk(c), label + ":" + cn, [p, nb_[4]]))

                def emit_multi(c, label, every=False):
                    for cn, mk in (multi if every else [multi[r.randrange(len(multi))]]):
                        cases.append(c07_case(kind, client, units, mk(c), label + ":" + cn, [p, nb_[4]]))
                # single-bit flips of the later frame of a read: every bit of the value / CRC bytes (the last
                # 4 bytes before the trailer) in every multi-frame context for the first frame, sampled otherwise
                tail0 = max(0, len(p) - (5 if kind == "bin" else 4))
                tailbits = range(8 * tail0, 8 * (len(p) - (1 if kind == "bin" else 0)))
                if idx == 0:
                    for i in tailbits:
                        emit_multi(flip(p, [i]), "mflip1", every=True)
                    for i in range(0, 8 * tail0):
                        emit_multi(flip(p, [i]), "mflip1")
                else:
                    for i in r.sample(list(tailbits), 6 if quick else 24) + r.sample(range(nbits), 4 if quick else 16):
                        emit_multi(flip(p, [i]), "mflip1")
                if kind == "bin":
                    for sh in ((1, 2, 3) if idx == 0 else (1,)):
                        for ins in ([bytes([x]) * sh for x in (f[2], nb_[2], 0x11)] + [bytes(r.randrange(256) for _ in range(sh))]):
                            g = bytes(r.choice([0, 0xff, r.randrange(256)]) for _ in range(sh)).replace(b"{", b"z").replace(b"}", b"z")
                            for reads in ([g + b"{" + ins + p[1:]], [g, b"{" + ins + p[1:]], [g + b"{" + ins + p[1:] , nbv]):
                                cases.append(c07_case(kind, client, sorted(set(units) | {0x11}), reads, "noise+insert", [p, nbv]))
                    for _ in range(4 if quick else 20):   # plain noise in front of an intact / bit-flipped frame, same read
                        g = bytes(r.randrange(256) for _ in range(r.choice([1, 2, 5]))).replace(b"{", b"z")
                        cases.append(c07_case(kind, client, units, [g + p], "noise+valid", [p, nbv]))
                        cases.append(c07_case(kind, client, units, [g + flip(p, [r.randrange(8, nbits - 8)])], "noise+flip1", [p, nbv]))
                for i in (range(nbits) if idx == 0 else r.sample(range(nbits), 8 if quick else 32)):
                    emit_twin(flip(p, [i]), "tflip1", every=(idx == 0 and i % 4 == 0))
                for _ in range(6 if quick else 40):
                    emit_twin(flip(p, r.sample(range(nbits), 2)), "tflip2")
                    i = r.randrange(len(p))
                    emit_twin(p[:i] + bytes([p[i] ^ r.randrange(1, 256)]) + p[i + 1:], "tsubst")
                # the two CRC bytes exchanged (a device that sends the CRC high byte first; a 16-bit burst)
                if kind == "rtu" and p[-1] != p[-2]:
                    sw = p[:-2] + p[-1:] + p[-2:-1]
                    emit(sw, "crcswap", every=True)
                    emit_multi(sw, "crcswap")
                    emit_twin(sw, "crcswap")
                elif kind == "bin" and len(p) > 4 and p[-2] != p[-3]:
                    sw = p[:-3] + p[-2:-1] + p[-3:-2] + p[-1:]
                    emit(sw, "crcswap", every=True)
                    emit_multi(sw, "crcswap")
                emit_multi(p[:-1], "mtruncate")
                emit_multi(p + bytes([r.randrange(256)]), "mextend")
                # every single-bit flip
                for i in (range(nbits) if len(p) <= 40 or not quick else r.sample(range(nbits), 120)):
                    emit(flip(p, [i]), "flip1", every=(idx == 0 and i % 8 == 0))
                # double-bit flips: all for the first (8-byte) frame, sampled otherwise
                if idx == 0:
                    pairs = list(itertools.combinations(range(nbits), 2))
                    if quick:
                        pairs = pairs[::5] if kind == "rtu" else pairs[::10]
                else:
                    pairs = [tuple(r.sample(range(nbits), 2)) for _ in range(30 if quick else 200)]
                for a, b in pairs:
                    emit(flip(p, [a, b]), "flip2")
                # triple flips and 16-bit bursts
                for _ in range(20 if quick else 200):
                    emit(flip(p, r.sample(range(nbits), 3)), "flip3")
                    s = r.randrange(nbits - 1)
                    w = r.randrange(2, 17)
                    bits = [s] + [j for j in range(s + 1, min(nbits, s + w)) if r.random() < 0.5]
                    emit(flip(p, bits), "burst16")
                # byte substitution: all 256 values at every position of the first frame, sampled otherwise
                if idx == 0:
                    subs = [(i, v) for i in range(len(p)) for v in range(256) if v != p[i]]
                    if quick:
                        subs = subs[::6] if kind == "rtu" else subs[::11]
                else:
                    subs = [(r.randrange(len(p)), r.randrange(256)) for _ in range(30 if quick else 300)]
                for i, v in subs:
                    emit(p[:i] + bytes([v]) + p[i + 1:], "subst")
                # deletion / insertion / truncation at every offset (sampled for long frames)
                offs = list(range(len(p))) if len(p) <= 30 else r.sample(range(len(p)), 30)
                for i in offs:
                    emit(p[:i] + p[i + 1:], "delete")
                    emit(p[:i] + bytes([r.choice([0, 0x7b, 0x7d, 0xff, r.randrange(256)])]) + p[i:], "insert")
                    emit(p[:i], "truncate", every=(idx == 0))
                emit(p + bytes([r.randrange(256)]), "extend")
                emit(p + p[-2:], "extend")
    return Suite("b_c07", IMPORTS, "chk_c07", cases, shard=500)


# ----------------------------------------------------------------------------- C11

WINDOW = 512


def big_pool(pool):
    return [m for m in pool if m[0] in ("WriteMultipleRegistersRequest", "ReadWriteMultipleRegistersRequest",
                                        "ReadHoldingRegistersResponse", "ReadInputRegistersResponse",
                                        "ReadWriteMultipleRegistersResponse", "WriteMultipleCoilsRequest", "ReadCoilsResponse")]


def undecodable_frame(kind, client, uid):
    """a frame with a correct CRC whose PDU the decoder rejects"""
    import struct
    from pymodbus.utilities import computeCRC
    body = bytes([uid, 3, 0]) if client else bytes([uid, 0x14, 3, 1, 2, 3])
    body += struct.pack(">H", computeCRC(body))
    return body if kind == "rtu" else b"{" + body + b"}"


def garbage(r, kind, pool, own_units, client=False):
    k = r.randrange(12)
    if k == 11 and kind == "rtu" and client:     # a CONFORMANT FIFO header (byte count <= 64): extent <= 70, judged normally
        return "fifo-conformant", [bytes([r.choice(own_units), 0x18, 0, r.choice([0, 2, 4, 30, 63, 64])])]
    if k == 9:
        return "undecodable", [undecodable_frame(kind, client, r.choice(own_units))]
    if k == 10 and kind == "rtu" and client:
        return "fifo", [bytes([r.choice(own_units), 0x18] + r.choice([[0, 65], [0, 0xff], [1, r.randrange(256)], [0x80, r.randrange(256)],
                                                                    [0xff, r.randrange(256)]]))]
    if k == 0:
        return "random", [bytes(r.randrange(256) for _ in range(r.choice([1, 2, 3, 5, 9, 20, 60])))]
    if k == 1:
        f = pick_frames(r, pool, 1, kind)[0]
        return "badcrc", [flip(f[4], [r.randrange(8 * len(f[4]))])]
    if k == 2:
        f = pick_frames(r, pool, 1, kind)[0]
        return "truncated", [f[4][:r.randrange(1, len(f[4]))]]
    if k == 3:
        name, client, spec = r.choice(pool)
        uid = r.choice([u for u in (3, 9, 99, 200) if u not in own_units])
        return "foreign-unit", [packet_of(kind, spec, uid)[2]]
    if k == 4:
        return "delims", [bytes(r.choice([0x7b, 0x7d, 0x7b, 0x01, 0x00]) for _ in range(r.choice([1, 2, 3, 6])))]
    if k == 5:
        f = pick_frames(r, pool, 1, kind)[0]
        return "split-garbage", [bytes(r.randrange(256) for _ in range(3)), f[4][:r.randrange(1, len(f[4]))], b""]
    if k == 6:
        return "zeros", [bytes(r.choice([0, 0xff]) for _ in range(r.choice([2, 4, 7])))]
    if k == 7:
        f = pick_frames(r, pool, 1, kind)[0]
        i = r.randrange(len(f[4]))
        return "deleted-byte", [f[4][:i] + f[4][i + 1:]]
    return "random-long", [bytes(r.randrange(256) for _ in range(r.choice([100, 300])))]


BYTE_COUNT_POS = {False: {15: 6, 16: 6, 23: 10, 20: 2, 21: 2},                       # ServerDecoder table
                  True: {1: 2, 2: 2, 3: 2, 4: 2, 12: 2, 17: 2, 20: 2, 21: 2, 23: 2}}  # ClientDecoder table
IMPOSSIBLE_COUNTS = [0xF0, 0xF4, 0xF7, 0xF8, 0xFA, 0xFC, 0xFE, 0xFF]


def bytecount_garbage(r, kind, client, quick):
    """line noise that parses as a byte-counted frame header with an impossible byte count (0xF0..0xFF):
    header only, behind 1-3 noise bytes, and as a full-length legal frame whose count byte is corrupted"""
    out = []
    fcs = BYTE_COUNT_POS[client]
    for j, (fc, pos) in enumerate(sorted(fcs.items())):
        counts = IMPOSSIBLE_COUNTS if not quick else [IMPOSSIBLE_COUNTS[(j + k) % 8] for k in ((0, 3, 6) if kind == "rtu" else (1,))]
        for bc in counts:
            hdr = bytes([r.choice([1, 17]), fc] + [r.choice([0, 1, 0x10]) for _ in range(pos - 2)] + [bc])
            out.append(("bc-header:%02x" % fc, [hdr]))
            if kind == "rtu":
                noise = bytes(r.choice([0, 0xff, r.randrange(256)]) for _ in range(r.choice([1, 2, 3])))
                out.append(("noise+bc-header:%02x" % fc, [noise + hdr]))
    # a legal maximal frame with one bit of its byte count flipped, whole and header first
    spec = ("ReadHoldingRegistersResponse", ([7] * 123,), {}, {}) if client else ("WriteMultipleRegistersRequest", (1, [7] * 123), {}, {})
    m, data, pkt = packet_of("rtu", spec, 1)
    pos = 2 if client else 6
    for bit in ((3,) if quick else (0, 3)):
        bad = bytearray(pkt)
        bad[pos] ^= 1 << bit        # 0xF6 -> 0xFE / 0xF7
        bad = bytes(bad)
        if kind == "bin":
            bad = b"{" + bad.replace(b"{", b"z").replace(b"}", b"z") + b"}"
        out.append(("bc-flipped-frame", [bad]))
        out.append(("bc-flipped-frame-split", [bad[:pos + 1 + (kind == "bin")], bad[pos + 1 + (kind == "bin"):]]))
    return out


def c11_case(r, kind, client, pool, bigs, label, g, reset, per_read, nbig=4, nsmall=None):
    own = [1, 17]
    fs = []
    for f in pick_frames(r, bigs, nbig, kind) + pick_frames(r, pool, nsmall or r.choice([6, 8, 10]), kind):
        m, data, pkt = packet_of(kind, f[1], r.choice(own))
        if kind == "bin" and has_delim(pkt[1:-1]):
            continue
        if not decodable(client, bytes([int(m.function_code)]) + data):
            continue
        fs.append((f[0], f[1], m.unit_id, bytes([int(m.function_code)]) + data, pkt))
    reads, chunks = [], list(g)
    for i in range(0, len(fs), per_read):
        grp = fs[i:i + per_read]
        reads.append(grp)
        chunks.append(b"".join(f[4] for f in grp))
    run = drive(kind, client, own, False, reset, chunks)
    rt = lst(lst("(%s, %s)" % (del_t((f[3], f[2])), z(len(f[4]))) for f in grp) for grp in reads)
    term = "(%s,\n %s, %s, %s)" % (scase_t(run), nat(len(g)), z(WINDOW), rt)
    maxlen = max([o[3][1] or 0 for o in run["obs"]] + [0])
    desc = run_desc(run, garbage=label, ngarb=len(g), per_read=per_read, max_hdr_len=maxlen,
                    frames=[[f[0], f[2], f[3].hex(), len(f[4])] for f in fs])
    return Case(term, desc, kind="%s:%s:%s:%s" % (kind, label, "reset" if reset else "bare", per_read),
                nontrivial=sum(len(f[4]) for f in fs[:-1]) > WINDOW)


def c11_case_from_desc(desc, label="corpus"):
    """rebuild a C11 case from a stored description (corpus / replay): same reads, fresh observation"""
    run = drive(desc["kind"], desc["client"], desc["units"], desc["single"], desc["reset"], [bytes.fromhex(c) for c in desc["chunks"]])
    fs = desc["frames"]
    reads = [fs[i:i + desc["per_read"]] for i in range(0, len(fs), desc["per_read"])]
    rt = lst(lst("(%s, %s)" % (del_t((bytes.fromhex(f[2]), f[1])), z(f[3])) for f in grp) for grp in reads)
    term = "(%s,\n %s, %s, %s)" % (scase_t(run), nat(desc["ngarb"]), z(WINDOW), rt)
    maxlen = max([o[3][1] or 0 for o in run["obs"]] + [0])
    d = run_desc(run, garbage=desc.get("garbage", label), ngarb=desc["ngarb"], per_read=desc["per_read"], max_hdr_len=maxlen, frames=fs)
    return Case(term, d, kind="%s:%s:%s" % (desc["kind"], label, desc.get("garbage", "")), nontrivial=True)


def corpus_cases(name):
    import json
    import os
    path = os.path.join(common.CORPUS, name)
    try:
        with open(path) as f:
            return json.load(f)
    except OSError:
        return []


def suite_c11(tier):
    r = common.rng("b_c11")
    quick = tier == "quick"
    cases = [c11_case_from_desc(d) for d in corpus_cases("C11_rtubin.json")]     # stored cases run first
    for kind in ("rtu", "bin"):
        for client in (False, True):
            pool = [m for m in messages(tier, "b_msgs") if m[1] == client]
            bigs = big_pool(pool)
            for rep in range(45 if quick else 600):
                label, g = garbage(r, kind, pool, [1, 17], client)
                cases.append(c11_case(r, kind, client, pool, bigs, label, g, r.random() < 0.5, r.choice([1, 1, 1, 2, 3])))
            # noise that parses as a byte-counted header with an impossible count: the receiver must not wait for ever
            for i, (label, g) in enumerate(bytecount_garbage(r, kind, client, quick)):
                cases.append(c11_case(r, kind, client, pool, bigs, label, g, i % 2 == 0, 1 if i % 3 else 2, nbig=3, nsmall=4))
    return Suite("b_c11", IMPORTS, "chk_c11", cases, shard=40)


# ----------------------------------------------------------------------------- C11 through the REAL serial-style handlers

def _server_ns(kind, rec):
    import types
    from pymodbus.datastore import ModbusSequentialDataBlock, ModbusSlaveContext, ModbusServerContext
    blk = lambda: ModbusSequentialDataBlock(0, [0] * 2100)
    ctx = ModbusServerContext(slaves=ModbusSlaveContext(di=blk(), co=blk(), hr=blk(), ir=blk(), zero_mode=True), single=True)
    return types.SimpleNamespace(context=ctx, framer=framer_cls(kind), decoder=rec, threads=[],
                                 ignore_missing_slaves=False, broadcast_enable=False, active_connections={})


class _HandlerProbe:
    """hooks on one handler instance: deliveries that were answered, exceptions of processIncomingPacket,
    framer state after each read"""

    def __init__(self, kind):
        self.kind, self.sent, self.dels, self.exc, self.obs = kind, [], [], None, []

    def hook(self, h):
        self.h = h
        orig_exec, orig_pip = h.execute, h.framer.processIncomingPacket

        def execute(request, *a):
            n = len(self.sent)
            orig_exec(request, *a)
            if len(self.sent) > n:          # the request was answered
                self.dels.append((request._verif_pdu, int(request.unit_id)))

        def pip(*a, **kw):
            try:
                return orig_pip(*a, **kw)
            except Exception as e:  # noqa: BLE001
                self.exc = pyexn(e)
                raise
        h.execute = execute
        h.framer.processIncomingPacket = pip

    def snapshot(self):
        fr = self.h.framer
        self.obs.append((self.dels, self.exc, bytes(fr._buffer), canon_hdr(self.kind, fr._header)))
        self.dels, self.exc = [], None


def drive_handler(frontend, kind, chunks):
    """feed the reads to the real serial-style handler; returns a run like drive(): per read the requests that were
    delivered AND answered, the exception processIncomingPacket raised (the handler catches it), and the framer
    state after the handler dealt with the read; plus what escaped the handler itself"""
    import asyncio
    import warnings
    try:
        from props.lib_server import reset_mcb
    except Exception:  # noqa: BLE001
        reset_mcb = lambda: None
    reset_mcb()
    rec = RecDecoder(decoder(False))
    ns = _server_ns(kind, rec)
    probe = _HandlerProbe(kind)
    escaped = None
    if frontend == "sync_serial":
        from pymodbus.server.sync import ModbusSingleRequestHandler as H
        h = H.__new__(H)
        todo = [bytes(c) for c in chunks]
        state = {"i": 0}

        class Port:
            def recv(self, n):
                if state["i"] > 0:
                    probe.snapshot()
                if state["i"] < len(todo):
                    state["i"] += 1
                    data = todo[state["i"] - 1]
                    if not data:                 # an empty read is not handed to the framer by this handler
                        return b""
                    return data
                h.running = False
                return b""

            def send(self, data):
                probe.sent.append(bytes(data))
                return len(data)
        h.request, h.client_address, h.server = Port(), ("serial", 0), ns
        h.setup()
        probe.hook(h)
        try:
            h.handle()
        except Exception as e:  # noqa: BLE001 — nothing may escape a serial handler
            escaped = type(e).__name__
        h.finish()
    else:
        from pymodbus.server import async_io as aio

        class T:
            def get_extra_info(self, k):
                return ("127.0.0.1", 5020)

            def sendto(self, data, addr=None):
                probe.sent.append(bytes(data))

            def close(self):
                pass

        async def main():
            nonlocal escaped
            with warnings.catch_warnings():
                warnings.simplefilter("ignore")
                h = aio.ModbusDisconnectedRequestHandler(ns)
                h.connection_made(T())
            probe.hook(h)
            for c in chunks:
                h.datagram_received(bytes(c), ("127.0.0.1", 1))
                for _ in range(4):
                    await asyncio.sleep(0)
                probe.snapshot()
            if h.handler_task is None or h.handler_task.done():
                escaped = "handler-task-ended"
            h.connection_lost(None)
            await asyncio.sleep(0)
            if h.handler_task is not None and h.handler_task.done() and not h.handler_task.cancelled():
                h.handler_task.exception()
        asyncio.run(main())
    reset_mcb()
    obs = list(probe.obs)
    frozen = obs[-1] if obs else ([], None, b"", canon_hdr(kind, framer_cls(kind)(rec)._header))
    while len(obs) < len(chunks):           # the handler died: the remaining reads were never consumed
        obs.append(([], None, frozen[2], frozen[3]))
    return {"kind": kind, "client": False, "units": [0], "single": True, "reset": True,
            "dec": sorted(rec.log.items()), "chunks": [bytes(c) for c in chunks], "obs": obs[:len(chunks)],
            "stale": False, "escaped": escaped, "responses": len(probe.sent)}


def handler_requests(r, kind, n_big, n_small):
    """valid read / write requests the datastore accepts (so each one is answered), delimiter-free for binary"""
    out = []
    while len(out) < n_big + n_small:
        big = len(out) < n_big
        k = r.randrange(4)
        if big:
            spec = ("WriteMultipleRegistersRequest", (r.randrange(100), [r.choice([7, 0x1234, r.randrange(0x7a00)]) for _ in range(r.choice([100, 110, 120]))]), {}, {})
        elif k == 0:
            spec = ("ReadHoldingRegistersRequest", (r.randrange(100), r.randrange(1, 20)), {}, {})
        elif k == 1:
            spec = ("ReadCoilsRequest", (r.randrange(100), r.randrange(1, 100)), {}, {})
        elif k == 2:
            spec = ("WriteSingleRegisterRequest", (r.randrange(100), r.randrange(0x7a00)), {}, {})
        else:
            spec = ("ReadInputRegistersRequest", (r.randrange(100), r.randrange(1, 10)), {}, {})
        uid = r.choice([1, 17])
        m, data, pkt = packet_of(kind, spec, uid)
        if kind == "bin" and has_delim(pkt[1:-1]):
            continue
        out.append((spec[0], spec, uid, bytes([int(m.function_code)]) + data, pkt))
    return out


def raising_garbage(kind):
    """reads that make processIncomingPacket raise (or be rejected) before valid traffic"""
    und = undecodable_frame(kind, False, 1)
    g = [("undecodable", [und]), ("undecodable+noise", [und + b"\x00"]), ("badcrc", [flip(und, [9])]),
         ("noise", [bytes([0x11, 0x99, 0x00, 0xfe, 0x01])]), ("undecodable-twice", [und, und])]
    if kind == "bin":
        g += [("brace-pair", [b"{}"]), ("brace-x", [b"{x}"]), ("brace-xy", [b"{xy}"]), ("brace-pair-split", [b"{", b"}"]),
              ("noise+brace-pair", [b"\x00{}"]), ("brace-pair-twice", [b"{}", b"{}"])]
    return g


def suite_c11_handlers(tier):
    r = common.rng("b_c11h")
    quick = tier == "quick"
    cases = []
    for frontend in ("sync_serial", "aio_dgram"):
        for kind in ("rtu", "bin"):
            for label, g in raising_garbage(kind):
                for per_read in ((1, 2) if quick else (1, 2, 3)):
                    for rep in range(1 if quick else 4):
                        fs = handler_requests(r, kind, 3, r.choice([4, 6]))
                        reads, chunks = [], list(g)
                        for i in range(0, len(fs), per_read):
                            grp = fs[i:i + per_read]
                            reads.append(grp)
                            chunks.append(b"".join(f[4] for f in grp))
                        run = drive_handler(frontend, kind, chunks)
                        rt = lst(lst("(%s, %s)" % (del_t((f[3], f[2])), z(len(f[4]))) for f in grp) for grp in reads)
                        term = "(%s,\n %s, %s, %s)" % (scase_t(run), nat(len(g)), z(WINDOW), rt)
                        desc = run_desc(run, frontend=frontend, garbage=label, ngarb=len(g), per_read=per_read, max_hdr_len=0,
                                        escaped=run["escaped"], responses=run["responses"],
                                        frames=[[f[0], f[2], f[3].hex(), len(f[4])] for f in fs])
                        cases.append(Case(term, desc, kind="%s:%s:%s:%s" % (frontend, kind, label, per_read), nontrivial=True))
    return Suite("b_c11h", IMPORTS, "chk_c11", cases, shard=30)


# ----------------------------------------------------------------------------- contract

def suites_for(pid, tier):
    if pid == "C03":
        return [suite_crc(tier), suite_size(tier), suite_c03(tier)]
    if pid == "C06":
        return [suite_c06(tier)]
    if pid == "C07":
        return [suite_c07(tier)]
    if pid == "C11":
        return [suite_c11(tier), suite_c11_handlers(tier)]
    return []


def _frame_spans(desc):
    """[(start, end, class name)] of the frames of a C06 stream"""
    out, s = [], 0
    for f in desc["frames"]:
        n = len(f[3]) // 2
        out.append((s, s + n, f[0]))
        s += n
    return out


def c06_regions(desc):
    """names of the known-finding regions a C06 case lies in (computed from the INPUT only)"""
    regs = set()
    spans = _frame_spans(desc)
    cuts, tot = [], 0
    for c in desc["chunks"]:
        tot += len(c) // 2
        cuts.append(tot)
    if not desc.get("decodable", True) and any(known_undecodable(f[0], bytes.fromhex(f[2])) for f in desc["frames"]):
        regs.add("pdu")
    if desc["kind"] == "rtu":
        # the known wrong oracles are those of the diagnostic classes (function code 8) only
        if not desc.get("size_ok", True) and any(f[2][:2] == "08" for f in desc["frames"]):
            regs.add("size")
        for (a, e, name) in spans:
            if name == "ReadDeviceInformationResponse" and any(a + 8 <= t < e for t in cuts):
                regs.add("mei")
    else:
        if any(has_delim(bytes.fromhex(f[3])[1:-1]) for f in desc["frames"]):
            regs.add("escaping")
        for (a, e, _) in spans:
            if any(a + 2 <= t < e for t in cuts):
                regs.add("incomplete-reset")
        # a frame for a unit that is not served resets the buffer: bytes behind it in the same read are lost
        units = desc["units"]
        if not (0 in units or 255 in units):
            for (a, e, _), f in zip(spans, desc["frames"]):
                if f[1] not in units and e != spans[-1][1] and e not in cuts:
                    regs.add("bin-foreign")
    return regs


FIFO_MAX_COUNT = 64      # largest conformant Read FIFO Queue byte count: 2 + 2 * 31


def fifo_nonconformant(g):
    """bytes that parse (response direction) as a Read FIFO Queue header '.. 18 hi lo' whose byte count exceeds what a
    conformant response can carry: the size oracle then asks for hi*256 + lo + 6 > 70 bytes"""
    return len(g) >= 4 and g[1] == 0x18 and ((g[2] << 8) | g[3]) > FIFO_MAX_COUNT


def c11_regions(desc):
    regs = set()
    if desc["kind"] == "rtu":
        if desc["client"] and any(fifo_nonconformant(bytes.fromhex(c)) for c in desc["chunks"][:desc["ngarb"]]):
            regs.add("fifo-extent")
        if desc.get("garbage") == "undecodable" and not desc["reset"]:
            regs.add("undecodable-deaf")
    else:
        g = b"".join(bytes.fromhex(c) for c in desc["chunks"][:desc["ngarb"]])
        if not desc["reset"] and any(g[i] == 0x7b and 0x7d in g[i + 1:i + 3] for i in range(len(g))):
            regs.add("short-brace")
        if desc.get("garbage") == "undecodable" and not desc["reset"]:
            regs.add("undecodable-deaf")
    return regs


FINDING_OF = {
    ("C03", "escaping"): "F-C03-binary-escaping", ("C03", "size"): "F-C03-rtu-size-oracle",
    ("C03", "pdu"): "F-C03-rtubin-pdu-not-decodable",
    ("C06", "escaping"): "F-C06-binary-escaping", ("C06", "incomplete-reset"): "F-C06-binary-incomplete-reset",
    ("C06", "mei"): "F-C06-rtu-mei-partial-raises",
    ("C06", "size"): "F-C06-rtu-size-oracle", ("C06", "pdu"): "F-C06-rtubin-pdu-not-decodable",
    ("C06", "bin-foreign"): "F-C06-binary-foreign-unit-resets-read",
    ("C11", "fifo-extent"): "F-C11-rtu-fifo-extent",
    ("C11", "undecodable-deaf"): "F-C11-rtubin-undecodable-frame-deaf", ("C11", "short-brace"): "F-C11-binary-short-brace-deaf",
}
ORDER = ["escaping", "size", "pdu", "mei", "incomplete-reset", "bin-foreign", "fifo-extent",
         "undecodable-deaf", "short-brace", "stale-start"]


def regions_for(pid, suite, desc):
    if suite == "b_c03":
        regs = set()
        if desc["kind"] == "bin" and desc.get("delim"):
            regs.add("escaping")
        if desc["kind"] == "rtu" and not desc.get("size_ok", True) and desc.get("fc") == 8:
            regs.add("size")
        if not desc.get("decodable", True) and known_undecodable(desc.get("cls"), bytes([desc["fc"]]) + bytes.fromhex(desc["data"])):
            regs.add("pdu")
        return regs
    if suite == "b_size":
        return {"size"} if desc["frame"][2:4] == "08" else set()
    if suite == "b_c06":
        return c06_regions(desc)
    if suite == "b_c11":
        return c11_regions(desc)
    if suite == "b_c11h":
        if desc.get("escaped"):      # an exception that escapes a serial handler is never a known finding
            return set()
        return set()
    if suite == "b_c07":
        return set()
    return set()


def classify_for(pid, suite, desc):
    if not suite.startswith("b_"):
        return None
    regs = regions_for(pid, suite, desc)
    for k in ORDER:
        if k in regs and (pid, k) in FINDING_OF:
            return FINDING_OF[(pid, k)]
    return None


def replay_finding_for(pid, f):
    """True when the witness of finding f still fails on the implementation (None: not ours)"""
    w = f.get("witness") or {}
    if not isinstance(w, dict) or not f["id"].startswith("F-") or w.get("half") != "rtubin":
        return None
    if "chunks" in w:
        run = drive(w["kind"], w["client"], w["units"], w.get("single", False), w.get("reset", False),
                    [bytes.fromhex(c) for c in w["chunks"]])
        got = [(p.hex(), u) for o in run["obs"] for (p, u) in o[0]]
        exns = [o[1] for o in run["obs"] if o[1]]
        want = [tuple(x) for x in w["expected_deliveries"]]
        return got != want or bool(exns)
    if "size_frame" in w:
        fr = bytes.fromhex(w["size_frame"])
        return not size_ok(w["client"], fr)
    return None


def replay_case_for(pid, suite, desc):
    if not suite.startswith("b_"):
        return None
    import json
    from lib import coqrun
    print(json.dumps(desc)[:1500])
    if suite == "b_c11h":
        run = drive_handler(desc["frontend"], desc["kind"], [bytes.fromhex(c) for c in desc["chunks"]])
        fs = desc["frames"]
        reads = [fs[i:i + desc["per_read"]] for i in range(0, len(fs), desc["per_read"])]
        rt = lst(lst("(%s, %s)" % (del_t((bytes.fromhex(f[2]), f[1])), z(f[3])) for f in grp) for grp in reads)
        term = "(%s,\n %s, %s, %s)" % (scase_t(run), nat(desc["ngarb"]), z(WINDOW), rt)
        r = coqrun.eval_cases("replay_" + suite, IMPORTS, "chk_c11", [term])
        print("now:", r, "escaped:", run["escaped"])
        return bool(r["propfail"] or r["errors"] or r["disagree"])
    if suite in ("b_c06", "b_c07", "b_c11") or suite == "b_c03":
        run = replay_run(desc)
        if suite == "b_c06":
            term = "(%s,\n %s)" % (scase_t(run), lst(del_t((bytes.fromhex(f[2]), f[1])) for f in desc["frames"]))
            chk = "chk_c06"
        elif suite == "b_c07":
            term, chk = scase_t(run), "chk_c07"
        elif suite == "b_c11":
            term, chk = c11_case_from_desc(desc, "replay").term, "chk_c11"
        else:
            pkt = desc["packet"]
            pk = ("ok", bytes.fromhex(pkt)) if all(c in "0123456789abcdef" for c in pkt) else ("exc", pkt)
            term = "{| bk_uid := %s; bk_fc := %s; bk_data := %s; bk_packet := %s;\n  bk_rx := %s |}" % (
                z(desc["uid"]), z(desc["fc"]), nb(bytes.fromhex(desc["data"])), resb(pk), scase_t(run))
            chk = "chk_c03"
        r = coqrun.eval_cases("replay_" + suite, IMPORTS, chk, [term])
        print("now:", r)
        return bool(r["propfail"] or r["errors"])
    return True
