(* Props/C18.v — Datastore blocks and contexts address exactly their cells.
   ONLY statements: each theorem is closed by [exact <lemma>] and followed by
   [Print Assumptions].  All of them are about [GenStore.code], the record the
   translator regenerates from pymodbus/datastore/{store,context}.py, interfaces.py and
   constants.py on every run.  Addresses, counts and values are unbounded [Z]; list
   lengths and key sets are arbitrary. *)
From PM.theories Require Import Base Expr Store.
From PM.Generated Require Import GenStore.
From PM.theories Require Import CorrStore.
From PM.proofs Require Import Store_proofs StoreHist_proofs.
Open Scope list_scope.
Open Scope Z_scope.

(* --- sequential blocks ------------------------------------------------------------- *)

(* a range is accepted exactly when all its cells are populated *)
Theorem C18_seq_validate : forall b a c, 1 <= c ->
  (seq_validate code b a c = true <-> forall i, 0 <= i < c -> seq_populated b (a + i)).
Proof. exact seq_validate_cells. Qed.
Print Assumptions C18_seq_validate.

(* an accepted read returns exactly count values … *)
Theorem C18_seq_get_length : forall b a c,
  seq_validate code b a c = true -> 0 <= c -> Z.of_nat (length (seq_get code b a c)) = c.
Proof. exact seq_get_length. Qed.
Print Assumptions C18_seq_get_length.

(* … in address order *)
Theorem C18_seq_get : forall b a c i,
  seq_validate code b a c = true -> 0 <= i < c ->
  nth_error (seq_get code b a c) (Z.to_nat i) = seq_cell b (a + i).
Proof. exact seq_get_nth. Qed.
Print Assumptions C18_seq_get.

(* an accepted write of n values changes exactly those n cells … *)
Theorem C18_seq_set : forall b a vs k,
  seq_validate code b a (Z.of_nat (length vs)) = true ->
  seq_cell (seq_set code b a vs) k =
    if (a <=? k) && (k <? a + Z.of_nat (length vs))
    then nth_error vs (Z.to_nat (k - a)) else seq_cell b k.
Proof. exact seq_set_cells. Qed.
Print Assumptions C18_seq_set.

(* … and leaves the block's extent unchanged *)
Theorem C18_seq_set_extent : forall b a vs,
  seq_validate code b a (Z.of_nat (length vs)) = true ->
  sb_addr (seq_set code b a vs) = sb_addr b /\
  length (sb_vals (seq_set code b a vs)) = length (sb_vals b) /\
  sb_def (seq_set code b a vs) = sb_def b.
Proof. exact seq_set_extent. Qed.
Print Assumptions C18_seq_set_extent.

(* a write is visible to subsequent reads *)
Theorem C18_seq_read_your_write : forall b a vs i,
  seq_validate code b a (Z.of_nat (length vs)) = true -> (i < length vs)%nat ->
  nth_error (seq_get code (seq_set code b a vs) a (Z.of_nat (length vs))) i = nth_error vs i.
Proof. exact seq_read_your_write. Qed.
Print Assumptions C18_seq_read_your_write.

Theorem C18_seq_reset : forall b k,
  seq_cell (seq_reset b) k = match seq_cell b k with Some _ => Some (sb_def b) | None => None end.
Proof. exact seq_reset_cells. Qed.
Print Assumptions C18_seq_reset.

(* --- sparse blocks (arbitrary key sets) --------------------------------------------- *)

Theorem C18_sparse_validate : forall b a c, 1 <= c ->
  (sp_validate code b a c = true <-> forall i, 0 <= i < c -> sp_cell b (a + i) <> None).
Proof. exact sp_validate_cells. Qed.
Print Assumptions C18_sparse_validate.

Theorem C18_sparse_get : forall b a c,
  sp_validate code b a c = true -> 1 <= c ->
  exists vs, sp_get code b a c = Ok vs /\ map Some vs = map (sp_cell b) (zrange a (Z.to_nat c)).
Proof. exact sp_get_cells. Qed.
Print Assumptions C18_sparse_get.

Theorem C18_sparse_set : forall b a vs k,
  sp_cell (sp_set code b a vs) k =
    if (a <=? k) && (k <? a + Z.of_nat (length vs))
    then nth_error vs (Z.to_nat (k - a)) else sp_cell b k.
Proof. exact sp_set_cells. Qed.
Print Assumptions C18_sparse_set.

Theorem C18_sparse_set_extent : forall b a vs,
  vs <> [] -> sp_validate code b a (Z.of_nat (length vs)) = true ->
  map fst (sp_vals (sp_set code b a vs)) = map fst (sp_vals b).
Proof. exact sp_set_extent. Qed.
Print Assumptions C18_sparse_set_extent.

Theorem C18_sparse_reset : forall b k,
  sp_cell (sp_reset b) k = match sp_cell b k with Some _ => Some (sp_def b) | None => None end.
Proof. exact sp_reset_cells. Qed.
Print Assumptions C18_sparse_reset.

(* --- slave context: one-based offset unless zero-mode ------------------------------- *)

Theorem C18_offset_validate : forall x fx a c,
  cx_validate code x fx a c =
    (do i <- cx_block_idx code x fx; Ok (blk_validate code (nth_block x i) (a + cx_off x) c)).
Proof. exact cx_validate_offset. Qed.
Print Assumptions C18_offset_validate.

Theorem C18_offset_get : forall x fx a c,
  cx_get code x fx a c =
    (do i <- cx_block_idx code x fx; blk_get code (nth_block x i) (a + cx_off x) c).
Proof. exact cx_get_offset. Qed.
Print Assumptions C18_offset_get.

Theorem C18_offset_set : forall x fx a vs,
  cx_set code x fx a vs =
    (do i <- cx_block_idx code x fx;
     Ok {| cx_zero := cx_zero x; cx_slots := cx_slots x;
           cx_blocks := set_nth (cx_blocks x) i (blk_set code (nth_block x i) (a + cx_off x) vs) |}).
Proof. exact cx_set_offset. Qed.
Print Assumptions C18_offset_set.

Theorem C18_fx_mapper :
  c_fx_mapper code =
    [(1, "c"); (2, "d"); (3, "h"); (4, "i"); (5, "c"); (6, "h"); (15, "c"); (16, "h"); (22, "h"); (23, "h")]%string.
Proof. exact fx_mapper_table. Qed.
Print Assumptions C18_fx_mapper.

(* --- server context ------------------------------------------------------------------ *)

Theorem C18_server_single : forall s u,
  sv_single s = true -> sv_getitem code s u = sv_getitem code s 0.
Proof. exact sv_single_routes_all. Qed.
Print Assumptions C18_server_single.

Theorem C18_server_multi : forall s u,
  sv_single s = false ->
  sv_getitem code s u = match assoc_z (sv_slaves s) u with Some c => Ok c | None => Raise NoSuchSlaveExc end.
Proof. exact sv_multi_routes_registered. Qed.
Print Assumptions C18_server_multi.

Theorem C18_server_register_range : forall s u c,
  sv_single s = false ->
  sv_setitem code s u c =
    if (0 <=? u) && (u <=? 247)
    then Ok {| sv_single := false; sv_slaves := az_set (sv_slaves s) u c |}
    else Raise NoSuchSlaveExc.
Proof. exact sv_setitem_range. Qed.
Print Assumptions C18_server_register_range.

Theorem C18_server_set_get : forall s u c s' v,
  sv_single s = false -> sv_setitem code s u c = Ok s' ->
  sv_getitem code s' v = if u =? v then Ok c else sv_getitem code s v.
Proof. exact sv_set_then_get. Qed.
Print Assumptions C18_server_set_get.

(* --- defaults: no zero_mode keyword = one-based addressing; default tables hold 0..65535 ---- *)

Theorem C18_default_one_based : default_zero_mode code = false.
Proof. exact default_is_one_based. Qed.
Print Assumptions C18_default_one_based.

Theorem C18_default_block_extent : forall k,
  blk_validate code (default_block code) k 1 = true <-> 0 <= k < 65536.
Proof. exact default_block_extent. Qed.
Print Assumptions C18_default_block_extent.

(* --- all histories: refinement to the abstract map ----------------------------------------
   For every block whose key set has no duplicates (always true of a Python dict; automatic for
   sequential blocks) and EVERY sequence of validate/get/set/reset/iterate operations, the model's
   outputs satisfy the abstract-map oracle [prop_block]: validate = "all cells populated", an
   accepted read returns the cells in address order, an accepted write updates exactly those cells
   (visible to every later operation), reset keeps the key set, iteration lists exactly the cells.
   [prop_block] is the same executable oracle the correspondence check applies to the real classes. *)
Theorem C18_histories : forall ops b,
  keys_ok b -> dict_ok b ops = true ->
  prop_block (blk_default b) (blk_iter b) ops (run_block code b ops) = true.
Proof. exact model_satisfies_oracle. Qed.
Print Assumptions C18_histories.

(* [dict_ok]: the dictionary form setValues(_, {k: v}) is modelled for sparse blocks only; list and
   scalar writes, validate, read, reset and iteration are covered for both kinds of block *)
Theorem C18_histories_sequential : forall ops s,
  forallb (fun o => negb (is_dict_op o)) ops = true ->
  prop_block (sb_def s) (seq_iter s) ops (run_block code (BSeq s) ops) = true.
Proof. exact model_satisfies_oracle_seq. Qed.
Print Assumptions C18_histories_sequential.

(* --- non-vacuity: the hypotheses are met by concrete non-trivial values --------------- *)

Example C18_nonvacuous :
  let b := {| sb_addr := 5; sb_vals := [10; 11; 12; 13]; sb_def := 0 |} in
  seq_validate code b 6 3 = true /\ seq_validate code b 6 4 = false /\
  seq_get code b 6 3 = [11; 12; 13] /\
  sb_vals (seq_set code b 7 [1; 2]) = [10; 11; 1; 2] /\
  let s := {| sp_vals := [(3, 7); (4, 8); (9, 1)]; sp_def := 0 |} in
  sp_validate code s 3 2 = true /\ sp_validate code s 4 2 = false /\
  sp_get code s 3 2 = Ok [7; 8].
Proof. vm_compute. repeat split. Qed.
