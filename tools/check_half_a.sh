#!/bin/bash
# tools/check_half_a.sh Cxx [--tier ...] — run ./check for the tcp/ascii/tls half only
# (useful while the other half of a split property is still under construction)
HERE="$(dirname "$(dirname "$(readlink -f "$0")")")"
cd "$HERE" || exit 2
export VERIF_REPO="${VERIF_REPO:-/repo}"
export PYTHONPATH="$HERE:$VERIF_REPO" PYTHONHASHSEED=0 PYMODBUS_VERIF=1
exec /venv/bin/python -c "
import sys
import props._split as s
orig = s.build
s.build = lambda pid, names, g: orig(pid, ['fr_tcpascii'], g)
from lib import main
sys.exit(main.main(sys.argv[1:]))
" "$@" 2> >(grep -v auto_activate_base >&2)
