(* Props/C20.v — Device identification is returned completely, in pages that fit.
   ONLY statements; proofs are in proofs/DevInfo_proofs.v.  Every theorem is about
   [GenDevInfo.code], the record gen/gen_devinfo.py regenerates on every run from
   pymodbus/mei_message.py, device.py, constants.py and pdu.py.  Identities are arbitrary
   functions object id -> byte string. *)
From PM.theories Require Import Base Expr DevInfo.
From PM.Generated Require Import GenDevInfo.
From PM.proofs Require Import DevInfo_proofs.
Open Scope list_scope.
Open Scope Z_scope.

(* no response PDU exceeds 253 bytes: every identity, every read code, every start id *)
Theorem C20_bound : forall idn c oid pdu,
  server_reply code idn c oid = Ok pdu -> Z.of_nat (length pdu) <= max_pdu.
Proof. exact reply_bound. Qed.
Print Assumptions C20_bound.

(* a 245-byte object: the same empty page, more-follows set, next id = the same id, forever *)
Theorem C20_too_long_refuted : forall fuel,
  blen long_value = 245 /\
  chain code long_identity 1 0 fuel = (repeat empty_page_response fuel, ChainOutOfFuel).
Proof. intro fuel. split; [reflexivity | apply chain_long_forever]. Qed.
Print Assumptions C20_too_long_refuted.

(* ... and no conforming implementation could return it: fc, MEI type, read code, conformity,
   more, next, count (7 bytes) + id, length (2) + 245 > 253 *)
Theorem C20_245_unsatisfiable : forall o : object, blen (snd o) = 245 -> min_pdu_with o > max_pdu.
Proof. exact too_long_unsatisfiable. Qed.
Print Assumptions C20_245_unsatisfiable.

(* read code 0 passes the 0..4 guard and dies in the factory (KeyError; the server front-ends
   turn that into exception 04 instead of 03) *)
Theorem C20_read_code_0_refuted : forall idn oid, 0 <= oid <= 255 -> execute code idn 0 oid = Raise KeyError.
Proof. exact read_code_0_raises. Qed.
Print Assumptions C20_read_code_0_refuted.
