"""Shared paths and small helpers for the /verif machinery."""
import contextlib
import fcntl
import hashlib
import json
import os
import random
import signal
import subprocess
import sys
import time
import traceback

VERIF = os.path.dirname(os.path.dirname(os.path.abspath(__file__)))
REPO = os.environ.get("VERIF_REPO", "/repo")
COQ = os.path.join(VERIF, "coq")
GENERATED = os.path.join(COQ, "Generated")
CASES = os.path.join(COQ, "cases")
EVIDENCE = os.path.join(VERIF, "evidence")
REPLAYS = os.path.join(VERIF, "replays")
FINDINGS = os.path.join(VERIF, "findings")
CORPUS = os.path.join(VERIF, "corpus")
NPROC = int(os.environ.get("VERIF_JOBS", str(min(16, os.cpu_count() or 4))))


def seed():
    try:
        return int(os.environ.get("VERIF_SEED", "0"))
    except ValueError:
        return 0


class SafeRandom(random.Random):
    """random.Random whose sample() clamps k to the population size (a generator asking for more
    samples than there are candidates takes them all instead of crashing the suite)"""

    def sample(self, population, k, **kw):
        population = list(population)
        return super().sample(population, max(0, min(int(k), len(population))), **kw)


def rng(name):
    """one PRNG per suite, all derived from VERIF_SEED"""
    h = int(hashlib.sha256(name.encode()).hexdigest()[:12], 16)
    return SafeRandom((seed() << 48) ^ h)


def run(cmd, timeout=None, cwd=None, env=None):
    """run a command, return (rc, combined output); rc 124 on timeout"""
    try:
        p = subprocess.run(cmd, cwd=cwd, env=env, stdout=subprocess.PIPE, stderr=subprocess.STDOUT,
                           timeout=timeout, text=True, errors="replace")
        return p.returncode, p.stdout
    except subprocess.TimeoutExpired as e:
        out = e.stdout or ""
        if isinstance(out, bytes):
            out = out.decode(errors="replace")
        return 124, out + "\nTIMEOUT after %ss: %s" % (timeout, " ".join(cmd))


@contextlib.contextmanager
def build_lock():
    """serialise everything that writes under coq/ (make, Generated/*)"""
    path = os.path.join(VERIF, ".lock")
    with open(path, "w") as f:
        fcntl.flock(f, fcntl.LOCK_EX)
        try:
            yield
        finally:
            fcntl.flock(f, fcntl.LOCK_UN)


def assert_repo_import():
    """the implementation under test must be /repo's working tree"""
    import pymodbus
    p = os.path.realpath(pymodbus.__file__)
    if not p.startswith(os.path.realpath(REPO) + os.sep):
        print("FATAL: pymodbus imported from %s, not from %s" % (p, REPO))
        sys.exit(2)


def quiet_logging():
    import logging
    logging.disable(logging.CRITICAL)


def jdump(obj, path):
    os.makedirs(os.path.dirname(path), exist_ok=True)
    tmp = path + ".tmp%d" % os.getpid()
    with open(tmp, "w") as f:
        json.dump(obj, f, indent=1, sort_keys=True, default=str)
        f.write("\n")
    os.replace(tmp, path)


class Timer:
    def __init__(self):
        self.t0 = time.time()

    def s(self):
        return round(time.time() - self.t0, 2)


class Watchdog:
    """Progress watchdog for the phases that run the implementation (suite generation, python-side checks,
    finding witnesses).  A changed implementation can loop for ever (a serving loop that no longer stops at
    end of stream, a retry loop without its bound); the check must still end with a verdict.  Every completed
    Case re-arms a SIGALRM timer; when no case completes within the budget (default 600 s quick / 7200 s
    thorough, VERIF_PROGRESS_WATCHDOG_S overrides - whole quick checks take one to three minutes) the handler writes the
    replay (where the main thread is stuck, the last completed case), prints the VIOLATION line and ends the
    process: raising into the stuck code would not do, the serving loops swallow every exception."""

    def __init__(self):
        self.budget, self.on_trip, self.last, self.phase, self.armed = 0, None, None, "", False

    def start(self, budget, phase, on_trip):
        self.budget, self.phase, self.on_trip, self.armed = budget, phase, on_trip, True
        signal.signal(signal.SIGALRM, self._fire)
        signal.setitimer(signal.ITIMER_REAL, budget)

    def stop(self):
        if self.armed:
            signal.setitimer(signal.ITIMER_REAL, 0)
            self.armed = False

    def beat(self, desc):
        if self.armed:
            self.last = desc
            signal.setitimer(signal.ITIMER_REAL, self.budget)

    def _fire(self, signum, frame):
        self.armed = False
        stack = "".join(traceback.format_stack(frame)[-12:])
        self.on_trip({"kind": "watchdog", "phase": self.phase,
                      "detail": "the implementation did not finish a case within %d s (%s); main thread stuck at:\n%s"
                                % (self.budget, self.phase, stack[-2500:]),
                      "last_completed_case": self.last})


WATCHDOG = Watchdog()
