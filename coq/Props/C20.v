(* Props/C20.v — Device identification is returned completely, in pages that fit.
   ONLY statements; proofs are in proofs/DevInfo_proofs.v.  Every theorem is about
   [GenDevInfo.code], the record gen/gen_devinfo.py regenerates on every run from
   pymodbus/mei_message.py, device.py, constants.py and pdu.py.  Identities are arbitrary
   functions object id -> byte string. *)
From PM.theories Require Import Base Expr DevInfo DevInfoMulti.
From PM.Generated Require Import GenDevInfo.
From PM.proofs Require Import DevInfo_proofs DevInfoMulti_proofs.
Open Scope list_scope.
Open Scope Z_scope.

(* no response PDU exceeds 253 bytes: every identity, every read code, every start id *)
Theorem C20_bound : forall idn c oid pdu,
  server_reply code idn c oid = Ok pdu -> Z.of_nat (length pdu) <= max_pdu.
Proof. exact reply_bound. Qed.
Print Assumptions C20_bound.

(* COMPLETENESS.  Every value at most 244 bytes, read code 1-3 (stream access), start id 0 or a
   configured object of the category: the chain of requests a client performs while
   more-follows = 0xFF terminates (any fuel above the number of expected objects is enough, so
   fuel is never exhausted) and the concatenation of the pages' objects is exactly the
   configured non-empty objects of the category from the start id on - each once, ascending. *)
Theorem C20_complete : forall idn c oid fuel,
  fits idn -> stream_code c -> start_ok idn c oid = true ->
  (length (expected idn c oid) < fuel)%nat ->
  exists ps, pchain code idn c oid fuel = (ps, PDone)
             /\ concat (map pg_objs ps) = expected idn c oid
             /\ NoDup (map fst (concat (map pg_objs ps))).
Proof. exact complete_pages. Qed.
Print Assumptions C20_complete.

(* The same, end to end ON THE WIRE: request bytes -> server decode -> execute -> encode ->
   client decode, followed while the decoded more-follows is 0xFF.  The decoded objects of the
   successive responses, concatenated, are exactly the expected objects. *)
Theorem C20_complete_wire : forall idn c oid fuel,
  fits idn -> stream_code c -> start_ok idn c oid = true ->
  (length (expected idn c oid) < fuel)%nat ->
  exists rs, chain code idn c oid fuel = (rs, ChainDone)
             /\ flat_map (fun r => info_objects (rs_info r)) rs = expected idn c oid.
Proof. exact complete_wire. Qed.
Print Assumptions C20_complete_wire.

(* the client-decoder leg: decode (encode page) = page, whenever the page's ids are distinct *)
Theorem C20_decode_encode : forall p b,
  NoDup (map fst (pg_objs p)) -> encode_page code p = Ok b ->
  decode_reply code (Z.to_N (c_fc code) :: b) = DOk (RResp (response_of_page p)).
Proof. exact decode_encode. Qed.
Print Assumptions C20_decode_encode.

(* individual access (read code 4) returns the single requested object, in one page *)
Theorem C20_individual : forall idn oid fuel,
  0 <= oid <= 255 -> blen (idn oid) <= 244 -> (0 < fuel)%nat ->
  pchain code idn 4 oid fuel =
  ([{| pg_code := 4; pg_more := 0; pg_next := 0; pg_objs := [(oid, idn oid)] |}], PDone).
Proof. exact individual_page. Qed.
Print Assumptions C20_individual.

(* any other start id: termination (and what is streamed: from the id itself if it is
   configured - or always for read code 1 - else from object 0); the size bound is C20_bound *)
Theorem C20_other_start : forall idn c oid fuel,
  fits idn -> stream_code c -> 0 <= oid <= 255 ->
  (length (category c) < fuel)%nat ->
  exists ps, pchain code idn c oid fuel = (ps, PDone)
             /\ concat (map pg_objs ps) = expected idn c (stream_start idn c oid).
Proof. exact other_start_terminates. Qed.
Print Assumptions C20_other_start.

(* the full statement with the property's own bound (values up to 245 bytes); it is FALSE *)
Definition C20_full_statement : Prop := forall idn c oid,
  (forall k, blen (idn k) <= 245) -> stream_code c -> start_ok idn c oid = true ->
  exists fuel ps, pchain code idn c oid fuel = (ps, PDone)
                  /\ concat (map pg_objs ps) = expected idn c oid.

Theorem C20_complete_refuted : ~ C20_full_statement.
Proof. exact full_statement_refuted. Qed.
Print Assumptions C20_complete_refuted.

(* a 245-byte object: the same empty page, more-follows set, next id = the same id, forever *)
Theorem C20_too_long_refuted : forall fuel,
  blen long_value = 245 /\
  chain code long_identity 1 0 fuel = (repeat empty_page_response fuel, ChainOutOfFuel).
Proof. intro fuel. split; [reflexivity | apply chain_long_forever]. Qed.
Print Assumptions C20_too_long_refuted.

(* ... and no conforming implementation could return it: fc, MEI type, read code, conformity,
   more, next, count (7 bytes) + id, length (2) + 245 > 253 *)
Theorem C20_245_unsatisfiable : forall o : object, blen (snd o) = 245 -> min_pdu_with o > max_pdu.
Proof. exact too_long_unsatisfiable. Qed.
Print Assumptions C20_245_unsatisfiable.

(* every read code outside 1..4 - read code 0 included (repaired in /repo 9a34217; before, 0
   passed the guard and died with KeyError in the factory) - is answered with exception 03,
   IllegalValue, for every identity and object id *)
Theorem C20_invalid_read_code : forall idn c oid,
  0 <= oid <= 255 -> ~ (1 <= c <= 4) -> execute code idn c oid = Ok (ExcResponse 3).
Proof. exact invalid_read_code. Qed.
Print Assumptions C20_invalid_read_code.

(* ... and execute raises for no identity, read code and object id at all *)
Theorem C20_execute_never_raises : forall idn c oid, exists r, execute code idn c oid = Ok r.
Proof. exact execute_never_raises. Qed.
Print Assumptions C20_execute_never_raises.

(* CONFIGURATION HISTORIES.  Whatever sequence of ModbusDeviceIdentification(info=...) constructor
   calls, Identity.update({...}), Identity[k] = v and named-property assignments configured the
   device, the identity the server reads is the spec's final map: the last value written per
   object id, a blank value withdrawing the object.  (update / __setitem__ / __init__ /
   __getitem__ / dict_property are translated or template-matched by gen_devinfo.py.)  All
   theorems above then speak about [id_of (configured code h)]. *)
Theorem C20_config_history : forall h, configured code h = spec_configured h.
Proof. exact configured_spec. Qed.
Print Assumptions C20_config_history.

(* ====== list-valued (multi-item) entries and str values: the extended model DevInfoMulti.v ====== *)

(* on single-valued byte-string identities the extended server IS the server above, so every
   theorem of this file applies to the extended model there *)
Theorem C20_multi_conservative : forall idn c oid,
  mserver_reply code (lift_identity idn) c oid = server_reply code idn c oid.
Proof. exact multi_conservative. Qed.
Print Assumptions C20_multi_conservative.

(* completeness over multi-valued identities, kept visible; it is FALSE *)
Definition C20_multi_full_statement : Prop := forall idn c oid,
  (c = 1 \/ c = 2 \/ c = 3) -> oid = 0 ->
  exists fuel rs, mchain code idn c oid fuel = (rs, ChainDone) /\ received rs = mexpected idn c oid.

Theorem C20_multi_refuted : ~ C20_multi_full_statement.
Proof. exact multi_full_statement_refuted. Qed.
Print Assumptions C20_multi_refuted.

(* a two-item list split after its first item is continued from its FIRST item: the client
   receives that item twice *)
Theorem C20_multi_resend_refuted :
  exists rs, mchain code resend_identity 3 0 5 = (rs, ChainDone)
    /\ received rs = [(0, repeat 86%N 100); (128, repeat 97%N 100); (128, repeat 97%N 100); (128, repeat 98%N 100)]
    /\ mexpected resend_identity 3 0 = [(0, repeat 86%N 100); (128, repeat 97%N 100); (128, repeat 98%N 100)].
Proof. exact multi_resend. Qed.
Print Assumptions C20_multi_resend_refuted.

(* a list that alone is larger than a page: the same leading items, more-follows, forever *)
Theorem C20_multi_loop_refuted : forall fuel,
  mchain code loop_identity 3 0 fuel = (repeat loop_response fuel, ChainOutOfFuel).
Proof. exact multi_loop. Qed.
Print Assumptions C20_multi_loop_refuted.

(* str values: the accounting sees len() = 200, the wire carries 400 bytes: a 409-byte PDU *)
Theorem C20_text_bound_refuted :
  exists pdu, mserver_reply code text_identity 1 0 = Ok pdu /\ Z.of_nat (length pdu) = 409 /\ 409 > max_pdu.
Proof. exact text_bound_refuted. Qed.
Print Assumptions C20_text_bound_refuted.

(* the bound holds for every identity - multi-item lists included - whose items have
   len() = encoded length (bytes, ASCII text) *)
Theorem C20_text_bound_partial : forall idn c oid pdu,
  maccurate idn -> mserver_reply code idn c oid = Ok pdu -> Z.of_nat (length pdu) <= max_pdu.
Proof. exact text_bound_partial. Qed.
Print Assumptions C20_text_bound_partial.

Example C20_nonvacuous :
  let idn := id_of [(0, repeat 86%N 200); (1, repeat 80%N 100); (2, repeat 49%N 3); (5, [77%N])] in
  fits idn /\ stream_code 2 /\ start_ok idn 2 0 = true /\ start_ok idn 2 1 = true
  /\ map (fun p => (map fst (pg_objs p), pg_more p, pg_next p)) (fst (pchain code idn 2 0 5))
     = [([0], 255, 1); ([1; 2; 5], 0, 0)].
Proof.
  cbv zeta. split; [|repeat split; auto; vm_compute; auto].
  intro k. unfold id_of. repeat (destruct (_ =? k); [vm_compute; discriminate|]). vm_compute; discriminate.
Qed.
