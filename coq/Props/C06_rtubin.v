(* Props/C06_rtubin.v — C06, RTU / binary half: chunking independence.  ONLY statements. *)
From PM.theories Require Import Base Expr Struct FrBCode Crc FrBCommon FrRtu FrBin FrSpecB.
From PM.Generated Require Import GenFramerB.
From PM.proofs Require Import Crc_proofs FrB_witness_proofs FrB_rtu_proofs FrB_bin_proofs.
Open Scope list_scope.
Open Scope N_scope.

(* the full statement, kept visible: any chunking of a stream of valid frames delivers all of
   them, in order, without an exception *)
Definition C06_full_statement_rtu : Prop :=
  forall (dec : bytes -> dres) (frames : list (N * bytes)) (chunks : list bytes),
    (forall u p, In (u, p) frames -> dec p = DMsg /\ wfb (u :: p) = true) ->
    concat chunks = concat (map (fun f => spec_adu_rtu (fst f) (snd f)) frames) ->
    let cfg := {| cf_dec := dec; cf_rules := server_decoder; cf_units := []; cf_single := true |} in
    deliveries (rtu_feed cfg rtu_init chunks) = map (fun f => (snd f, Z.of_N (fst f))) frames.

(* RTU, strongest true statement: for EVERY list of chunks (empty ones included) that cuts a
   stream of valid frames so that at most one frame completes per read ([opr]), every frame is
   delivered, in order, by the read that completes it, and no call raises.  [b] = bytes already
   buffered; the header may be {} , the initial dict or one already populated for the frame. *)
Theorem C06_rtu_partial : forall cfg chunks b frames st,
  r_buf st = b ->
  match frames with [] => True | (u, pdu) :: _ => hdr_waiting (spec_adu_rtu u pdu) (r_hdr st) end ->
  Forall (fun f => valid_frame cfg (fst f) (snd f)) frames ->
  opr b frames chunks ->
  rtu_feed_dels cfg st chunks = (map (fun f => (snd f, Z.of_N (fst f))) frames, map (fun _ => FOk) chunks).
Proof. exact rtu_chunked. Qed.
Print Assumptions C06_rtu_partial.

(* the two single-call facts it rests on: a strict prefix of a valid frame is kept, silently *)
Theorem C06_rtu_incomplete_kept : forall cfg st chunk u pdu b q,
  valid_frame cfg u pdu -> hdr_waiting (spec_adu_rtu u pdu) (r_hdr st) ->
  r_buf st ++ chunk = b -> spec_adu_rtu u pdu = b ++ q -> q <> [] ->
  exists h', rtu_recv cfg st chunk = ({| r_buf := b; r_hdr := h' |}, [], FOk) /\
             hdr_waiting (spec_adu_rtu u pdu) h'.
Proof. exact rtu_recv_incomplete. Qed.
Print Assumptions C06_rtu_incomplete_kept.

(* ... and a completed frame is delivered, what follows it stays buffered *)
Theorem C06_rtu_complete_delivered : forall cfg st chunk u pdu q,
  valid_frame cfg u pdu -> hdr_waiting (spec_adu_rtu u pdu) (r_hdr st) ->
  r_buf st ++ chunk = spec_adu_rtu u pdu ++ q -> wfb q = true ->
  rtu_recv cfg st chunk = ({| r_buf := q; r_hdr := hdr_empty |}, [(pdu, Z.of_N u)], FOk).
Proof. exact rtu_recv_complete. Qed.
Print Assumptions C06_rtu_complete_delivered.

Example C06_nonvacuous :
  let fa := spec_adu_rtu 1 [3; 0; 1; 0; 2] in
  opr [] [(1, [3; 0; 1; 0; 2]); (1, [3; 0; 1; 0; 2])] [firstn 3 fa; []; skipn 3 fa ++ firstn 1 fa; skipn 1 fa; []].
Proof. exact opr_example. Qed.

(* RTU: refuted — one frame per processIncomingPacket call (finding F-C06-rtu-one-frame-per-call) *)
Theorem C06_rtu_refuted :
  let fa := spec_adu_rtu 1 pdu_a in let fb := spec_adu_rtu 1 pdu_b in
  deliveries (rtu_feed cfg_server rtu_init [fa; fb]) = [(pdu_a, 1%Z); (pdu_b, 1%Z)] /\
  deliveries (rtu_feed cfg_server rtu_init [fa ++ fb]) = [(pdu_a, 1%Z)] /\
  deliveries (rtu_feed cfg_server rtu_init [fa ++ fb; []]) = [(pdu_a, 1%Z); (pdu_b, 1%Z)].
Proof. exact rtu_one_frame_per_call_witness. Qed.
Print Assumptions C06_rtu_refuted.

(* RTU, responses: refuted — a Read Device Identification response cut inside its object list
   raises struct.error, then KeyError for ever (finding F-C06-rtu-mei-partial-raises) *)
Theorem C06_rtu_mei_refuted :
  let fa := spec_adu_rtu 1 [3; 2; 0; 7] in
  let mei := spec_adu_rtu 1 [43; 14; 1; 1; 0; 0; 1; 0; 3; 65; 66; 67] in
  rtu_feed cfg_client rtu_init [fa; mei] =
    (rtu_reset rtu_init, [([3; 2; 0; 7], 1%Z); ([43; 14; 1; 1; 0; 0; 1; 0; 3; 65; 66; 67], 1%Z)], [FOk; FOk]) /\
  exits (rtu_feed cfg_client rtu_init [fa; firstn 9 mei; skipn 9 mei; fa; fa]) =
    [FOk; FExn StructError; FExn KeyError; FExn KeyError; FExn KeyError] /\
  deliveries (rtu_feed cfg_client rtu_init [fa; firstn 9 mei; skipn 9 mei; fa; fa]) = [([3; 2; 0; 7], 1%Z)].
Proof. exact rtu_mei_partial_witness. Qed.
Print Assumptions C06_rtu_mei_refuted.

(* binary, strongest true statement: for every list of chunks (empty ones included) in which
   every read either leaves at most one byte of the next frame buffered or completes exactly
   that frame — no byte of a following frame in the same read — ([bopr]) and delimiter-free
   frames, every frame is delivered, in order, and no call raises.  Everything outside this
   region is refuted below (incomplete-frame reset, advanceFrame skipping a byte, escaping). *)
Theorem C06_binary_partial : forall cfg chunks b frames st,
  b_buf st = b ->
  Forall (fun f => valid_bframe cfg (fst f) (snd f)) frames ->
  bopr b frames chunks ->
  bin_feed_dels cfg st chunks = (map (fun f => (snd f, Z.of_N (fst f))) frames, map (fun _ => FOk) chunks).
Proof. exact bin_chunked. Qed.
Print Assumptions C06_binary_partial.

Example C06_binary_nonvacuous :
  let f := spec_adu_binary 1 [3; 0; 1; 0; 2] in
  bopr [] [(1, [3; 0; 1; 0; 2]); (1, [3; 0; 1; 0; 2])] [[]; firstn 1 f; skipn 1 f; f; []].
Proof. exact bopr_example. Qed.

(* the while loop of the binary processIncomingPacket always terminates: the model's fuel
   S(|buffer|) is never exhausted, for any state and chunk *)
Theorem C06_binary_loop_terminates : forall cfg st chunk, snd (bin_recv cfg st chunk) <> FOutOfFuel.
Proof. exact bin_recv_no_fuel_out. Qed.
Print Assumptions C06_binary_loop_terminates.

(* binary: refuted — a read ending inside a frame resets the receiver
   (finding F-C06-binary-incomplete-reset) *)
Theorem C06_binary_refuted :
  let f := spec_adu_binary 1 pdu_a in
  no_delim (with_crc (1 :: pdu_a)) = true /\
  deliveries (bin_feed cfg_server bin_init [f]) = [(pdu_a, 1%Z)] /\
  deliveries (bin_feed cfg_server bin_init [firstn 4 f; skipn 4 f]) = [].
Proof. exact binary_incomplete_reset_witness. Qed.
Print Assumptions C06_binary_refuted.

(* binary: refuted — advanceFrame skips one byte too many; a second frame in the same read is
   lost (finding F-C06-binary-advance-skips-byte) *)
Theorem C06_binary_pipelined_refuted :
  let fa := spec_adu_binary 1 pdu_a in let fb := spec_adu_binary 1 pdu_b in
  no_delim (with_crc (1 :: pdu_a)) = true /\ no_delim (with_crc (1 :: pdu_b)) = true /\
  deliveries (bin_feed cfg_server bin_init [fa; fb]) = [(pdu_a, 1%Z); (pdu_b, 1%Z)] /\
  deliveries (bin_feed cfg_server bin_init [fa ++ fb]) = [(pdu_a, 1%Z)].
Proof. exact binary_advance_skip_witness. Qed.
Print Assumptions C06_binary_pipelined_refuted.
