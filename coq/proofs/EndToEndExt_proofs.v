(* EndToEndExt_proofs.v — composition proofs for the EXTENDED server (datastores + control block).
   New seams: C01 (decoded station request objects) -> C04_other (serve_other) -> C01 (response
   objects), the relation between the control block and the abstract station across a request list,
   and the separation "a request is either a data-access request or a station request". *)
From PM.theories Require Import Base Expr Struct FrBaseA FrTcp FrSpecA Lrc FrAscii PduCls PduSpec Pdu CorrPdu Store Exec ExecSpec ExecView
                                Device ExecOther ExecOtherSpec ExecOtherView Server
                                EndToEnd EndToEndSerial EndToEndExt CorrE2E CorrE2ESerial CorrE2EExt.
From PM.Generated Require Import GenFramerA GenPdu.
From PM.Generated Require GenStore GenExec GenExecOther GenServer.
From PM.proofs Require Import Struct_proofs Pdu_proofs Pdu_dec_proofs Pdu_more_proofs Exec_proofs Exec_req_proofs Server_proofs ExecOther_proofs
                              EndToEnd_adapt_proofs EndToEnd_spec_proofs EndToEnd_proofs EndToEndSerial_proofs.
From PM.Props Require C01 C04_other C10.
From Coq Require Import ZifyBool.
Open Scope string_scope.
Open Scope list_scope.
Open Scope Z_scope.

(* ================================================================== decoding station requests *)
Lemma diag_cls_eq sub :
  match spec_request_subclass 8 sub with Some c => c | None => DiagnosticStatusRequest end = diag_request_cls sub.
Proof.
  unfold spec_request_subclass, diag_request_cls. change (8 =? 8) with true. cbv iota.
  repeat (destruct (sub =? _); [reflexivity|]). reflexivity.
Qed.

Lemma decode_diag sub data : is_u16 sub = true -> is_u16 data = true ->
  py_decode true (spec_pdu (MDiagReq sub [data])) = Ok (ODiag (diag_request_cls sub) sub (DInt data)).
Proof.
  intros Hs Hd. dec_open. tab. unfold words. cbn [flat_map]. rewrite app_nil_r.
  unfold upk. rewrite unpack_HH by assumption. cbn [bind].
  unfold reclass. cbn [obj_sub class_of]. tab. cbv beta iota. rewrite C01.C01_subdispatch_server.
  rewrite <- diag_cls_eq. destruct (spec_request_subclass 8 sub); reflexivity.
Qed.

(* the station requests of this composition and their object (the one ExecOtherView.obj_of_wire names) *)
Theorem decode_station m ow : owire_of_msg m = Some ow -> spec_wf m = true ->
  exists q, py_decode true (spec_pdu m) = Ok q /\ obj_of_wire ow = Some q.
Proof.
  intros Ho Hwf. destruct m; cbn [owire_of_msg] in Ho; try discriminate Ho.
  - injection Ho as <-. eexists. split; [vm_compute; reflexivity|reflexivity].
  - destruct data as [|d [|? ?]]; try discriminate Ho. injection Ho as <-.
    cbn [spec_wf all_u16 forallb] in Hwf. split_andb Hwf.
    eexists. split; [apply decode_diag; assumption|reflexivity].
  - injection Ho as <-. eexists. split; [vm_compute; reflexivity|reflexivity].
  - injection Ho as <-. eexists. split; [vm_compute; reflexivity|reflexivity].
  - injection Ho as <-. eexists. split; [vm_compute; reflexivity|reflexivity].
Qed.

Lemma station_not_data m ow : owire_of_msg m = Some ow -> wreq_of_msg m = None.
Proof. destruct m; cbn [owire_of_msg wreq_of_msg]; intros H; try discriminate H; reflexivity. Qed.

(* a data-access request object (or IllegalFunctionRequest) is none of serve_other's classes *)
Lemma data_not_other dv o r : req_of_obj o = Some r -> e_serve_other dv o = None.
Proof.
  unfold e_serve_other, serve_other, execute_other. intros H.
  destruct o; cbn [req_of_obj] in H; try discriminate H; try (destruct c; try discriminate H); reflexivity.
Qed.

(* ================================================================== the control block invariant *)
(* counters hold 16-bit values, the comm event counter is 0 and the event log empty (nothing in the
   proved region adds an event or increments a counter: C04_other_counters_frame), the server id fits *)
Definition dev_ok (dv : device) : Prop :=
  wf_dev dv /\ Forall u16v (d_counters dv) /\ cnt dv 8 = 0 /\ d_events dv = [] /\
  wfb (slave_identifier dv pymodbus_id) = true /\ (length (slave_identifier dv pymodbus_id) <= 254)%nat.

Definition station_region (ow : owire) : Prop :=
  match ow with
  | WExcStatus | WEvCounter | WEvLog | WReportId => True
  | WDiag sub data => (diag_proved sub = true \/ sub = 10) /\ is_u16 sub = true /\ is_u16 data = true
  | _ => False
  end.

Lemma region_proved dv ow : dev_ok dv -> station_region ow -> proved_region dv ow.
Proof.
  intros (_ & _ & H8 & Hev & _) Hr. destruct ow; cbn [station_region proved_region] in *; tauto.
Qed.

Lemma summary8_bound c0 c1 c2 c3 c4 c5 c6 c7 : 0 <= summary_from [c0; c1; c2; c3; c4; c5; c6; c7] 1 0 < 256.
Proof.
  unfold summary_from.
  destruct (c0 =? 0), (c1 =? 0), (c2 =? 0), (c3 =? 0), (c4 =? 0), (c5 =? 0), (c6 =? 0), (c7 =? 0); vm_compute; split; congruence.
Qed.

Lemma map_to_of_N (b : bytes) : map Z.to_N (map Z.of_N b) = b.
Proof. induction b as [|x t IH]; [reflexivity|]. cbn [map]. now rewrite N2Z.id, IH. Qed.

(* a diagnostic response object with at most one data word *)
Lemma diag_rsp_facts c sub m ws :
  abs_raw (ODiag c sub m) = Some (MDiagRsp sub ws) -> is_u16 sub = true -> all_u16 ws = true -> (length ws <= 1)%nat ->
  mem_cls c conforming_encode = true ->
  CorrPdu.abs (ODiag c sub m) = Some (MDiagRsp sub ws) /\ mem_cls (class_of (ODiag c sub m)) conforming_encode = true /\
  (length (spec_pdu (MDiagRsp sub ws)) <= 300)%nat /\ wfb (spec_pdu (MDiagRsp sub ws)) = true.
Proof.
  intros Ha Hs Hw Hl Hc. split; [apply abs_intro; [exact Ha|cbn [spec_wf]; now rewrite Hs, Hw]|]. split; [exact Hc|].
  cbn [spec_pdu]. split.
  - rewrite !app_length, words_length. cbn [length u16]. lia.
  - rewrite !wfb_app, (u16_wfb _ Hs), (Pdu_dec2_proofs.words_wfb _ Hw). reflexivity.
Qed.

Ltac dev_open dv Hok :=
  let Hwf := fresh "Hwf" in let Hu := fresh "Hu" in let H8 := fresh "H8" in let Hev := fresh "Hev" in
  let Hidw := fresh "Hidw" in let Hidl := fresh "Hidl" in
  destruct Hok as (Hwf & Hu & H8 & Hev & Hidw & Hidl);
  dev_destruct dv Hwf; cbn [d_counters d_events] in Hu, Hev; unfold cnt in H8; cbn [d_counters nth] in H8; subst;
  repeat match goal with H : Forall u16v (_ :: _) |- _ => inversion H; clear H; subst end.

Ltac dev_keep :=
  split; [repeat (apply Forall_cons || apply Forall_nil); try assumption; unfold u16v; lia
         |split; [reflexivity|split; [reflexivity|split; assumption]]].

(* ================================================================== one station request on the control block *)
Theorem station_step dv ow q : dev_ok dv -> station_region ow -> obj_of_wire ow = Some q ->
  exists dv' r, e_serve_other dv q = Some (dv', r) /\ (exists rfc, obj_fc r = Ok rfc) /\ exc_code_of r = None /\ dev_ok dv' /\
    sdev_eqb (abs_dev dv') (fst (spec_other (abs_dev dv) ow)) = true /\
    match other_rsp_msg (snd (spec_other (abs_dev dv) ow)) with
    | Some mr => obj_respond r = true /\ CorrPdu.abs r = Some mr /\ mem_cls (class_of r) conforming_encode = true /\
                 (length (spec_pdu mr) <= 300)%nat /\ wfb (spec_pdu mr) = true
    | None => obj_respond r = false
    end.
Proof.
  intros Hok Hreg Hq.
  destruct (C04_other.C04_other_refines dv ow (proj1 Hok) (region_proved dv ow Hok Hreg))
    as (q' & dv' & r & Hq' & Hserve & _ & Hsd & Hwf').
  rewrite Hq in Hq'. injection Hq' as <-.
  exists dv', r. split; [exact Hserve|]. unfold e_serve_other in *.
  assert (Hgoal : (exists rfc, obj_fc r = Ok rfc) /\ exc_code_of r = None /\
    (Forall u16v (d_counters dv') /\ cnt dv' 8 = 0 /\ d_events dv' = [] /\
     wfb (slave_identifier dv' pymodbus_id) = true /\ (length (slave_identifier dv' pymodbus_id) <= 254)%nat) /\
    match other_rsp_msg (snd (spec_other (abs_dev dv) ow)) with
    | Some mr => obj_respond r = true /\ CorrPdu.abs r = Some mr /\ mem_cls (class_of r) conforming_encode = true /\
                 (length (spec_pdu mr) <= 300)%nat /\ wfb (spec_pdu mr) = true
    | None => obj_respond r = false
    end).
  2: { destruct Hgoal as (H1 & H2 & H3 & H4). split; [exact H1|]. split; [exact H2|]. split; [split; [exact Hwf'|exact H3]|].
       split; [exact Hsd|exact H4]. }
  clear Hsd Hwf'.
  destruct ow; cbn [station_region] in Hreg; try contradiction; cbn [obj_of_wire] in Hq; injection Hq as <-.
  - (* FC 7 *)
    dev_open dv Hok. cbn in Hserve. injection Hserve as <- <-.
    split; [eexists; reflexivity|]. split; [reflexivity|]. split; [dev_keep|].
    cbn [spec_other abs_dev snd other_rsp_msg s_exc_status d_counters firstn].
    pose proof (summary8_bound z z0 z1 z2 z3 z4 z5 z6) as Hb.
        split; [reflexivity|]. unfold summary. cbn [d_counters]. rewrite summary9_event0.
    split; [apply abs_intro; [reflexivity|cbn [spec_wf]; unfold is_u8; lia]|]. split; [reflexivity|].
    cbn [spec_pdu]. split; [cbn; lia|]. rewrite wfb_app, u8_wfb by (unfold is_u8; lia). reflexivity.
  - (* FC 11 *)
    dev_open dv Hok. cbn in Hserve. injection Hserve as <- <-.
    split; [eexists; reflexivity|]. split; [reflexivity|]. split; [dev_keep|].
    cbn. split; [reflexivity|]. split; [reflexivity|]. split; [reflexivity|]. split; [lia|reflexivity].
  - (* FC 12 *)
    dev_open dv Hok. cbn in Hserve. injection Hserve as <- <-.
    split; [eexists; reflexivity|]. split; [reflexivity|]. split; [dev_keep|].
    match goal with H : u16v z |- _ => unfold u16v in H end.
    cbn [spec_other snd]. unfold status_word. cbn [abs_dev s_processing sc_event sc_bus_msg s_events other_rsp_msg].
    unfold cnt, get_events. cbn [d_counters d_events nth concat map Z.eqb].
    split; [reflexivity|].
        split; [apply abs_intro; [reflexivity|cbn [spec_wf all_u8 forallb PduSpec.len length]; unfold is_u16, is_u8; cbn; lia]|].
    split; [reflexivity|]. cbn [spec_pdu PduSpec.len length flat_map busy_word Z.eqb]. split; [cbn; lia|].
    rewrite !wfb_app, u8_wfb, !u16_wfb by (unfold is_u8, is_u16; cbn; lia). reflexivity.
  - (* FC 17 *)
    dev_open dv Hok. cbn in Hserve. injection Hserve as <- <-.
    split; [eexists; reflexivity|]. split; [reflexivity|]. split; [dev_keep|].
    cbn [spec_other abs_dev snd other_rsp_msg s_server_id s_run]. rewrite map_to_of_N.
    set (id := slave_identifier _ pymodbus_id) in *.
    split; [reflexivity|].
    split; [apply abs_intro; [reflexivity|cbn [spec_wf]; rewrite Hidw; unfold is_u8, PduSpec.len; lia]|].
    split; [reflexivity|]. cbn [spec_pdu]. split; [rewrite !app_length; cbn [length u8]; lia|].
    rewrite !wfb_app, Hidw, u8_wfb by (unfold is_u8, PduSpec.len; lia). reflexivity.
  - (* FC 8 *)
    destruct Hreg as (Hsub & Hs16 & Hd16).
    assert (Hcases : sub = 0 \/ sub = 3 \/ sub = 4 \/ sub = 10 \/ sub = 11 \/ sub = 12 \/ sub = 13 \/ sub = 14 \/ sub = 15 \/
                     sub = 16 \/ sub = 17 \/ sub = 18 \/ sub = 20) by (unfold diag_proved in Hsub; lia).
    clear Hsub Hs16.
    assert (Hdw : all_u16 [data] = true) by (cbn; now rewrite Hd16).
    dev_open dv Hok.
    destruct Hcases as [H|[H|[H|[H|[H|[H|[H|[H|[H|[H|[H|[H|H]]]]]]]]]]]]; subst sub.
    + cbn in Hserve. injection Hserve as <- <-.
      split; [eexists; reflexivity|]. split; [reflexivity|]. split; [dev_keep|].
      cbn [spec_other spec_diag Z.eqb snd other_rsp_msg]. split; [reflexivity|].
      apply diag_rsp_facts; [reflexivity|reflexivity|exact Hdw|cbn; lia|reflexivity].
    + (* 03 *)
      destruct (delim_byte data) as [He Hr]. cbn in Hserve. rewrite He in Hserve.
      replace ((0 <=? Z.land (Z.shiftr data 8) 255) && (Z.land (Z.shiftr data 8) 255 <? 256)) with true in Hserve by lia.
      injection Hserve as <- <-.
      split; [eexists; reflexivity|]. split; [reflexivity|]. split; [dev_keep|].
      cbn [spec_other spec_diag Z.eqb Pos.eqb snd other_rsp_msg]. split; [reflexivity|].
      apply diag_rsp_facts; [reflexivity|reflexivity|exact Hdw|cbn; lia|reflexivity].
    + (* 04: no response *)
      cbn in Hserve. injection Hserve as <- <-.
      split; [eexists; reflexivity|]. split; [reflexivity|]. split; [dev_keep|].
      cbn [spec_other spec_diag Z.eqb Pos.eqb snd other_rsp_msg]. reflexivity.
    + (* 0A *)
      cbn in Hserve. injection Hserve as <- <-.
      split; [eexists; reflexivity|]. split; [reflexivity|].
      split; [dev_keep|].
      cbn [spec_other spec_diag Z.eqb Pos.eqb snd other_rsp_msg]. split; [reflexivity|].
      apply diag_rsp_facts; [reflexivity|reflexivity|exact Hdw|cbn; lia|reflexivity].
    + cbn in Hserve. injection Hserve as <- <-.
      split; [eexists; reflexivity|]. split; [reflexivity|]. split; [dev_keep|].
      cbn [spec_other spec_diag Z.eqb Pos.eqb snd other_rsp_msg abs_dev sc_bus_msg]. unfold cnt. cbn [d_counters nth].
      split; [reflexivity|]. apply diag_rsp_facts; [reflexivity|reflexivity|apply forall_all_u16; repeat (apply Forall_cons || apply Forall_nil); assumption|cbn; lia|reflexivity].
    + cbn in Hserve. injection Hserve as <- <-.
      split; [eexists; reflexivity|]. split; [reflexivity|]. split; [dev_keep|].
      cbn [spec_other spec_diag Z.eqb Pos.eqb snd other_rsp_msg abs_dev sc_bus_comm_err]. unfold cnt. cbn [d_counters nth].
      split; [reflexivity|]. apply diag_rsp_facts; [reflexivity|reflexivity|apply forall_all_u16; repeat (apply Forall_cons || apply Forall_nil); assumption|cbn; lia|reflexivity].
    + cbn in Hserve. injection Hserve as <- <-.
      split; [eexists; reflexivity|]. split; [reflexivity|]. split; [dev_keep|].
      cbn [spec_other spec_diag Z.eqb Pos.eqb snd other_rsp_msg abs_dev sc_exc_err]. unfold cnt. cbn [d_counters nth].
      split; [reflexivity|]. apply diag_rsp_facts; [reflexivity|reflexivity|apply forall_all_u16; repeat (apply Forall_cons || apply Forall_nil); assumption|cbn; lia|reflexivity].
    + cbn in Hserve. injection Hserve as <- <-.
      split; [eexists; reflexivity|]. split; [reflexivity|]. split; [dev_keep|].
      cbn [spec_other spec_diag Z.eqb Pos.eqb snd other_rsp_msg abs_dev sc_server_msg]. unfold cnt. cbn [d_counters nth].
      split; [reflexivity|]. apply diag_rsp_facts; [reflexivity|reflexivity|apply forall_all_u16; repeat (apply Forall_cons || apply Forall_nil); assumption|cbn; lia|reflexivity].
    + cbn in Hserve. injection Hserve as <- <-.
      split; [eexists; reflexivity|]. split; [reflexivity|]. split; [dev_keep|].
      cbn [spec_other spec_diag Z.eqb Pos.eqb snd other_rsp_msg abs_dev sc_no_resp]. unfold cnt. cbn [d_counters nth].
      split; [reflexivity|]. apply diag_rsp_facts; [reflexivity|reflexivity|apply forall_all_u16; repeat (apply Forall_cons || apply Forall_nil); assumption|cbn; lia|reflexivity].
    + cbn in Hserve. injection Hserve as <- <-.
      split; [eexists; reflexivity|]. split; [reflexivity|]. split; [dev_keep|].
      cbn [spec_other spec_diag Z.eqb Pos.eqb snd other_rsp_msg abs_dev sc_nak]. unfold cnt. cbn [d_counters nth].
      split; [reflexivity|]. apply diag_rsp_facts; [reflexivity|reflexivity|apply forall_all_u16; repeat (apply Forall_cons || apply Forall_nil); assumption|cbn; lia|reflexivity].
    + cbn in Hserve. injection Hserve as <- <-.
      split; [eexists; reflexivity|]. split; [reflexivity|]. split; [dev_keep|].
      cbn [spec_other spec_diag Z.eqb Pos.eqb snd other_rsp_msg abs_dev sc_busy]. unfold cnt. cbn [d_counters nth].
      split; [reflexivity|]. apply diag_rsp_facts; [reflexivity|reflexivity|apply forall_all_u16; repeat (apply Forall_cons || apply Forall_nil); assumption|cbn; lia|reflexivity].
    + cbn in Hserve. injection Hserve as <- <-.
      split; [eexists; reflexivity|]. split; [reflexivity|]. split; [dev_keep|].
      cbn [spec_other spec_diag Z.eqb Pos.eqb snd other_rsp_msg abs_dev sc_overrun]. unfold cnt. cbn [d_counters nth].
      split; [reflexivity|]. apply diag_rsp_facts; [reflexivity|reflexivity|apply forall_all_u16; repeat (apply Forall_cons || apply Forall_nil); assumption|cbn; lia|reflexivity].
    + (* 14h clear overrun *)
      cbn in Hserve. injection Hserve as <- <-.
      split; [eexists; reflexivity|]. split; [reflexivity|].
      split; [dev_keep|].
      cbn [spec_other spec_diag Z.eqb Pos.eqb snd other_rsp_msg]. split; [reflexivity|].
      apply diag_rsp_facts; [reflexivity|reflexivity|exact Hdw|cbn; lia|reflexivity].
Qed.

(* ================================================================== the abstract station along a run *)
(* what sdev_eqb compares, as a value *)
Definition core (s : sdev) :=
  (sc_bus_msg s, sc_bus_comm_err s, sc_exc_err s, sc_server_msg s, sc_no_resp s, sc_nak s, sc_busy s, sc_overrun s,
   sc_event s, s_diag_reg s, s_events s, s_listen s, s_delim s, s_server_id s, s_run s, s_processing s).

Lemma zl_eqb_eq' a b : ExecOtherView.zl_eqb a b = true -> a = b.
Proof. exact (zl_eqb_eq a b). Qed.

Lemma sdev_eqb_core a b : sdev_eqb a b = true <-> core a = core b.
Proof.
  unfold sdev_eqb, core. split.
  - intros H. repeat (apply andb_true_iff in H as [H ?]).
    repeat match goal with
           | H : (_ =? _) = true |- _ => apply Z.eqb_eq in H
           | H : ExecOtherView.zl_eqb _ _ = true |- _ => apply zl_eqb_eq' in H
           | H : Bool.eqb _ _ = true |- _ => apply Bool.eqb_prop in H
           end. congruence.
  - intros H. injection H as -> -> -> -> -> -> -> -> -> -> -> -> -> -> -> ->.
    rewrite !Z.eqb_refl, !ExecOther_proofs.zl_eqb_refl, !beqb_refl. reflexivity.
Qed.

Lemma with_status_abs dv : wf_dev dv -> with_status (abs_dev dv) = abs_dev dv.
Proof. intros Hwf. dev_destruct dv Hwf. reflexivity. Qed.

Ltac close_core := unfold core; cbn; reflexivity.

(* inside the region the step of the abstract station depends only on what sdev_eqb compares *)
Lemma spec_step_core a b ow : core a = core b -> station_region ow ->
  snd (spec_other_step a ow) = snd (spec_other_step b ow) /\
  core (fst (spec_other_step a ow)) = core (fst (spec_other_step b ow)).
Proof.
  intros Hc Hreg. destruct a, b. unfold core in Hc. cbn in Hc.
  injection Hc as -> -> -> -> -> -> -> -> -> -> -> -> -> -> -> ->.
  unfold spec_other_step.
  destruct ow; cbn [station_region] in Hreg; try contradiction.
  1-4: split; reflexivity.
  destruct Hreg as (Hsub & _ & _).
  assert (Hcases : sub = 0 \/ sub = 3 \/ sub = 4 \/ sub = 10 \/ sub = 11 \/ sub = 12 \/ sub = 13 \/ sub = 14 \/ sub = 15 \/
                   sub = 16 \/ sub = 17 \/ sub = 18 \/ sub = 20) by (unfold diag_proved in Hsub; lia).
  destruct Hcases as [H|[H|[H|[H|[H|[H|[H|[H|[H|[H|[H|[H|H]]]]]]]]]]]]; subst sub; split; reflexivity.
Qed.

Definition dev_rel (dv : device) (sd : sdev) : Prop := dev_ok dv /\ sdev_eqb (abs_dev dv) sd = true.

(* the control block and the abstract station step together *)
Theorem station_step_rel dv sd ow q : dev_rel dv sd -> station_region ow -> obj_of_wire ow = Some q ->
  exists dv' r, e_serve_other dv q = Some (dv', r) /\ (exists rfc, obj_fc r = Ok rfc) /\ exc_code_of r = None /\
    dev_rel dv' (fst (spec_other_step sd ow)) /\
    match other_rsp_msg (snd (spec_other_step sd ow)) with
    | Some mr => obj_respond r = true /\ CorrPdu.abs r = Some mr /\ mem_cls (class_of r) conforming_encode = true /\
                 (length (spec_pdu mr) <= 300)%nat /\ wfb (spec_pdu mr) = true
    | None => obj_respond r = false
    end.
Proof.
  intros [Hok Heq] Hreg Hq.
  destruct (station_step dv ow q Hok Hreg Hq) as (dv' & r & Hs & Hfc & Hex & Hok' & Hsd & Hrsp).
  apply sdev_eqb_core in Heq, Hsd.
  assert (Ha : spec_other (abs_dev dv) ow = spec_other_step (abs_dev dv) ow).
  { unfold spec_other_step. now rewrite (with_status_abs dv (proj1 Hok)). }
  rewrite Ha in Hsd, Hrsp.
  destruct (spec_step_core (abs_dev dv) sd ow Heq Hreg) as [Hr Hc].
  exists dv', r. split; [exact Hs|]. split; [exact Hfc|]. split; [exact Hex|].
  split; [split; [exact Hok'|apply sdev_eqb_core; congruence]|]. now rewrite <- Hr.
Qed.

(* ================================================================== one delivered request, extended state *)
Definition xrel (x : xstate) (st : sstate) : Prop :=
  units_rel (x_units x) (ss_units st) /\ dev_rel (x_dev x) (ss_dev st).

Definition station_body (b : sreq) : Prop :=
  exists m ow, b = QMsg m /\ owire_of_msg m = Some ow /\ spec_wf m = true /\ station_region ow.

(* a request of the extended domain: ids in range, unit served, and either a data-access request /
   unassigned function code (req_ok) or a station request of the proved region *)
Definition req_ok_x (sk : skel) (cfg : scfg) (hosted : list Z) (q : e2e_req) : Prop :=
  req_ok sk cfg hosted q \/
  (0 <= q_tid q < 65536 /\ 0 <= q_pid q < 65536 /\ 0 <= q_uid q < 256 /\ station_body (q_body q) /\
   served sk cfg hosted (q_uid q)).

Lemma u_set_same (l : units slavectx) k c : u_get slavectx l k = Some c -> u_set slavectx l k c = l.
Proof.
  induction l as [|[u s] t IH]; cbn [u_get u_set]; [reflexivity|].
  destruct (u =? k) eqn:E; [intros H; injection H as ->; reflexivity|]. intros H. now rewrite (IH H).
Qed.

Lemma station_obj_fc ow q : station_region ow -> obj_of_wire ow = Some q -> exists fc, obj_fc q = Ok fc.
Proof.
  intros Hreg Hq. destruct ow; cbn [station_region] in Hreg; try contradiction; cbn [obj_of_wire] in Hq; injection Hq as <-;
    try (eexists; reflexivity).
  destruct Hreg as (Hsub & _ & _).
  assert (Hcases : sub = 0 \/ sub = 3 \/ sub = 4 \/ sub = 10 \/ sub = 11 \/ sub = 12 \/ sub = 13 \/ sub = 14 \/ sub = 15 \/
                   sub = 16 \/ sub = 17 \/ sub = 18 \/ sub = 20) by (unfold diag_proved in Hsub; lia).
  destruct Hcases as [H|[H|[H|[H|[H|[H|[H|[H|[H|[H|[H|[H|H]]]]]]]]]]]]; subst sub; eexists; reflexivity.
Qed.

Section OneX.
Variable pk : packer.
Variable adu : adu_fn.
Variable dl : e2e_req -> delivery.
Hypothesis Hpk : pk_ok pk adu dl.
Variable sk : skel.
Variable cfg : scfg.
Hypothesis Hsk : fe_ok sk.

Lemma handle_one_x_data x su q :
  units_rel (x_units x) su -> req_ok sk cfg (x_keys x) q ->
  exists s s' b l',
    su_get su (spec_key (cf_single cfg) (q_uid q)) = Some s /\
    spec_answer_g adu s q = Some (s', b) /\
    handle_one_x pk sk cfg x (dl q) = Ok ({| x_units := l'; x_dev := x_dev x |}, b) /\
    units_rel l' (su_set su (spec_key (cf_single cfg) (q_uid q)) s') /\
    u_keys slavectx l' = x_keys x.
Proof.
  intros Hrel Hq.
  destruct (handle_one_spec_g pk adu dl sk cfg (x_units x) su q Hpk Hsk Hrel Hq) as (s & s' & b & l' & Hs & Hans & Hone & Hrel' & Hk).
  exists s, s', b, l'. split; [exact Hs|]. split; [exact Hans|]. split; [|split; [exact Hrel'|exact Hk]].
  destruct Hq as (_ & _ & _ & (w & Hbody) & _).
  destruct (decode_body _ w Hbody) as (o & r & Hdec & _ & Hreq & _).
  destruct Hpk as [Hdl _]. destruct (Hdl q) as [Hdp _].
  unfold handle_one_x. rewrite Hdp, Hdec. cbn [bind]. rewrite (data_not_other (x_dev x) o r Hreq), Hone. reflexivity.
Qed.

Lemma handle_one_x_station x st q :
  xrel x st ->
  0 <= q_tid q < 65536 -> 0 <= q_pid q < 65536 -> 0 <= q_uid q < 256 -> station_body (q_body q) ->
  served sk cfg (x_keys x) (q_uid q) ->
  exists s sd' b dv',
    su_get (ss_units st) (spec_key (cf_single cfg) (q_uid q)) = Some s /\
    spec_answer_g adu s q = None /\
    spec_other_answer adu (ss_dev st) q = Some (sd', b) /\
    handle_one_x pk sk cfg x (dl q) = Ok ({| x_units := x_units x; x_dev := dv' |}, b) /\
    dev_rel dv' sd'.
Proof.
  intros [Hrel Hdev] Htid Hpid Huid (m & ow & Hbody & How & Hwf & Hreg) [Hbc Hin].
  destruct Hpk as [Hdl Hpk']. destruct (Hdl q) as [Hdp Hdu]. destruct Hsk as [Hall Hg].
  set (k := spec_key (cf_single cfg) (q_uid q)) in *.
  destruct (u_get slavectx (x_units x) k) as [c|] eqn:Ec.
  2: { exfalso. apply (proj2 (u_get_in_keys slavectx (x_units x) k)) in Hin. contradiction. }
  destruct (units_rel_get _ _ k c Hrel Ec) as (s & Hs & _).
  destruct (decode_station m ow How Hwf) as (qo & Hdec & Hqo).
  destruct (station_step_rel (x_dev x) (ss_dev st) ow qo Hdev Hreg Hqo) as (dv' & r & Hserve & (rfc & Hrfc) & Hex & Hdev' & Hrsp).
  destruct (station_obj_fc ow qo Hreg Hqo) as [fc Hfc].
  exists s, (fst (spec_other_step (ss_dev st) ow)).
  exists (match other_rsp_msg (snd (spec_other_step (ss_dev st) ow)) with Some mr => adu q (spec_pdu mr) | None => [] end).
  exists dv'.
  split; [exact Hs|]. split.
  { unfold spec_answer_g. rewrite Hbody. cbn [wreq_of]. now rewrite (station_not_data m ow How). }
  split.
  { unfold spec_other_answer. rewrite Hbody. cbn [owire_of]. rewrite How. destruct (spec_other_step (ss_dev st) ow). reflexivity. }
  split; [|exact Hdev'].
  unfold handle_one_x. rewrite Hdp, Hbody. cbn [sreq_pdu]. rewrite Hdec. cbn [bind]. rewrite Hserve, Hfc. cbn [bind]. rewrite Hrfc. cbn [bind].
  rewrite (respond_spec slavectx sk Hall).
  unfold spec_respond, sp_bcast. cbn [rq_uid]. rewrite Hdu, Hbc.
  unfold exec_on. cbn [rq_exec rq_uid]. rewrite ?Hdu, ctx_key_spec. fold k. rewrite Ec.
  rewrite (u_set_same _ k c Ec).
  unfold exec_count. change (match sk_bcast sk with Some _ => true | None => false end) with (has_bcast sk).
  rewrite ?Hdu, Hbc, ctx_key_spec. fold k. rewrite Ec. cbn [iter_other]. rewrite Hserve.
  unfold send_of. rewrite Hg. cbn [other_summary rs_respond andb].
  destruct (other_rsp_msg (snd (spec_other_step (ss_dev st) ow))) as [mr|].
  - destruct Hrsp as (Hresp & Habs & Hcls & Hlen & Hwfb). rewrite Hresp. cbn [negb packets_other].
    unfold the_out. cbn [o_code rs_code other_summary].
    change (match r with OExc _ _ code => Some code | _ => None end) with (exc_code_of r). rewrite Hex.
    match goal with |- context [pk ?o r] =>
      rewrite (Hpk' q o r mr (conj Htid (conj Hpid Huid)) eq_refl eq_refl Habs Hcls Hlen Hwfb) end.
    cbn [bind]. rewrite app_nil_r. reflexivity.
  - rewrite Hrsp. cbn [negb packets_other bind]. reflexivity.
Qed.
End OneX.

(* ================================================================== delivery lists *)
Lemma handle_one_x_keys pk sk cfg x d x' b : In sk all_fes ->
  handle_one_x pk sk cfg x d = Ok (x', b) -> x_keys x' = x_keys x.
Proof.
  intros Hsk. unfold handle_one_x.
  destruct (py_decode true (d_pdu d)) as [o|e]; cbn [bind]; [|discriminate].
  destruct (e_serve_other (x_dev x) o) as [[dv1 ro]|].
  - destruct (obj_fc o) as [fc|e]; cbn [bind]; [|discriminate].
    destruct (obj_fc ro) as [rfc|e]; cbn [bind]; [|discriminate].
    match goal with |- context [respond slavectx GenServer.code sk cfg (x_units x) ?rq] =>
      pose proof (C10.C10_hosted_set_stable slavectx sk Hsk cfg (x_units x) rq) as Hk;
      destruct (respond slavectx GenServer.code sk cfg (x_units x) rq) as [[l1 outs] exn] end.
    cbn [fst] in Hk. destruct exn; [discriminate|].
    destruct (packets_other pk ro outs); cbn [bind]; [|discriminate].
    destruct (iter_other _ _ _); [|discriminate]. intros H. injection H as <- _. exact Hk.
  - destruct (handle_one pk sk cfg (x_units x) d) as [[l1 b1]|e] eqn:E; cbn [bind]; [|discriminate].
    intros H. injection H as <- _. unfold x_keys. cbn [x_units fst]. exact (handle_one_keys pk sk cfg _ d l1 b1 Hsk E).
Qed.

Lemma handle_all_x_nil pk sk cfg x : handle_all_x pk sk cfg x [] = (x, [], None).
Proof. reflexivity. Qed.

Lemma handle_all_x_app pk sk cfg d1 : forall x d2 x' b,
  handle_all_x pk sk cfg x (d1 ++ d2) = (x', b, None) ->
  exists x1 b1 b2, handle_all_x pk sk cfg x d1 = (x1, b1, None) /\ handle_all_x pk sk cfg x1 d2 = (x', b2, None) /\ b = b1 ++ b2.
Proof.
  induction d1 as [|d t IH]; intros x d2 x' b H.
  - exists x, [], b. cbn in *. auto.
  - cbn [app handle_all_x] in *. destruct (handle_one_x pk sk cfg x d) as [[xa ba]|e]; [|discriminate H].
    destruct (handle_all_x pk sk cfg xa (t ++ d2)) as [[xb bb] eb] eqn:E. injection H as <- <- ->.
    destruct (IH xa d2 xb bb E) as (x1 & b1 & b2 & H1 & H2 & ->).
    exists x1, (ba ++ b1), b2. rewrite H1. split; [reflexivity|]. split; [exact H2|]. now rewrite app_assoc.
Qed.

Lemma handle_all_x_keys pk sk cfg ds : In sk all_fes -> forall x x' b,
  handle_all_x pk sk cfg x ds = (x', b, None) -> x_keys x' = x_keys x.
Proof.
  intros Hsk. induction ds as [|d t IH]; intros x x' b H; cbn [handle_all_x] in H.
  - now injection H as <- _.
  - destruct (handle_one_x pk sk cfg x d) as [[xa ba]|e] eqn:E1; [|discriminate H].
    destruct (handle_all_x pk sk cfg xa t) as [[xb bb] eb] eqn:E. injection H as <- _ ->.
    rewrite (IH xa xb bb E). exact (handle_one_x_keys pk sk cfg x d xa ba Hsk E1).
Qed.

(* an item of an extended stream: a request of the extended domain to a served unit (for the serial
   framings: whose PDU consists of bytes), or any well-formed frame the unit filter rejects *)
Definition item_ok_x (k : kind) (sk : skel) (cfg : scfg) (hosted : list Z) (fc : FrBaseA.cfg) (q : e2e_req) : Prop :=
  (req_ok_x sk cfg hosted q /\ (k = KTcp \/ wfb (sreq_pdu (q_body q)) = true)) \/
  (frame_wf k (frame_of q) /\ spec_accepts k fc (q_uid q) = false).

Lemma req_ok_x_served sk cfg hosted q : req_ok_x sk cfg hosted q -> served sk cfg hosted (q_uid q).
Proof. intros [(_ & _ & _ & _ & H)|(_ & _ & _ & _ & H)]; exact H. Qed.

Section StreamX.
Variable k : kind.
Variable pk : packer.
Variable adu : adu_fn.
Hypothesis Hpk : pk_ok pk adu (fun q => spec_delivery k (frame_of q)).
Variable sk : skel.
Variable cfg : scfg.
Hypothesis Hsk : fe_ok sk.
Hypothesis Hk : k <> KTls.

Theorem stream_spec_x qs : forall x st x0,
  x_keys x = x_keys x0 -> xrel x st ->
  Forall (item_ok_x k sk cfg (x_keys x0) (unit_cfg sk cfg (x_keys x0))) qs ->
  exists x', handle_all_x pk sk cfg x (ref_deliveries k (unit_cfg sk cfg (x_keys x0)) (map frame_of qs))
               = (x', snd (spec_run_x adu (cf_single cfg) st qs), None) /\
             xrel x' (fst (spec_run_x adu (cf_single cfg) st qs)) /\ x_keys x' = x_keys x0.
Proof.
  induction qs as [|q t IH]; intros x st x0 Hkeys Hrel Hok.
  - exists x. cbn. auto.
  - inversion Hok as [|? ? Hq Ht]; subst. unfold ref_deliveries in *. cbn [map filter].
    change (f_uid (frame_of q)) with (q_uid q).
    destruct Hq as [[Hq _]|[_ Hrej]].
    + assert (Hacc : spec_accepts k (unit_cfg sk cfg (x_keys x0)) (q_uid q) = true).
      { pose proof (req_ok_x_served _ _ _ _ Hq) as Hs.
        exact (served_accepted_k k sk cfg (x_units x0) (q_uid q) Hs Hk). }
      rewrite Hacc. cbn [map handle_all_x]. rewrite <- Hkeys in Hq. destruct Hrel as [Hur Hdr].
      destruct Hq as [Hq|(Htid & Hpid & Huid & Hst & Hserved)].
      * destruct (handle_one_x_data pk adu _ Hpk sk cfg Hsk x (ss_units st) q Hur Hq) as (s & s' & b & l1 & Hs & Hans & Hone & Hrel1 & Hk1).
        destruct (IH {| x_units := l1; x_dev := x_dev x |}
                     {| ss_units := su_set (ss_units st) (spec_key (cf_single cfg) (q_uid q)) s'; ss_dev := ss_dev st |} x0
                     (eq_trans Hk1 Hkeys) (conj Hrel1 Hdr) Ht) as (x' & Hall & Hrel' & Hk').
        exists x'. cbn [spec_run_x]. rewrite Hone, Hall, Hs, Hans.
        destruct (spec_run_x adu (cf_single cfg) _ t) as [st2 b2]. cbn [fst snd] in *. auto.
      * destruct (handle_one_x_station pk adu _ Hpk sk cfg Hsk x st q (conj Hur Hdr) Htid Hpid Huid Hst Hserved)
          as (s & sd' & b & dv' & Hs & Hnone & Hoth & Hone & Hdev').
        destruct (IH {| x_units := x_units x; x_dev := dv' |} {| ss_units := ss_units st; ss_dev := sd' |} x0
                     Hkeys (conj Hur Hdev') Ht) as (x' & Hall & Hrel' & Hk').
        exists x'. cbn [spec_run_x]. rewrite Hone, Hall, Hs, Hnone, Hoth.
        destruct (spec_run_x adu (cf_single cfg) _ t) as [st2 b2]. cbn [fst snd] in *. auto.
    + rewrite Hrej.
      destruct (IH x st x0 Hkeys Hrel Ht) as (x' & Hall & Hrel' & Hk').
      exists x'. cbn [spec_run_x].
      rewrite (su_get_notin (ss_units st) _).
      2: { rewrite <- (units_rel_keys _ _ (proj1 Hrel)). fold (x_keys x). rewrite Hkeys.
           exact (rejected_not_hosted k sk cfg (x_units x0) _ Hrej). }
      auto.
Qed.
End StreamX.

(* ================================================================== framing *)
Lemma station_frame_facts b : station_body b ->
  (1 <= length (sreq_pdu b) <= 300)%nat /\ is_msg (e2e_dec (sreq_pdu b)) = true.
Proof.
  intros (m & ow & -> & How & Hwf & Hreg). cbn [sreq_pdu].
  destruct (decode_station m ow How Hwf) as (qo & Hdec & Hqo).
  destruct (station_obj_fc ow qo Hreg Hqo) as [fc Hfc]. split.
  - destruct m; cbn [owire_of_msg] in How; try discriminate How; try (cbn; lia).
    destruct data as [|d [|? ?]]; try discriminate How. cbn [spec_pdu]. rewrite !app_length. cbn. lia.
  - unfold e2e_dec, py_decode_wrapper. rewrite Hdec, Hfc. reflexivity.
Qed.

Lemma frames_x k sk cfg hosted fc qs : k = KTcp \/ k = KAscii ->
  Forall (item_ok_x k sk cfg hosted fc) qs -> Forall (stream_frame k e2e_dec fc) (map frame_of qs).
Proof.
  intros Hk. induction 1 as [|q t Hq Ht IH]; [constructor|]. cbn [map]. constructor; [|exact IH].
  destruct Hq as [[Hq Hb]|[Hwf Hrej]].
  - assert (Hfacts : 0 <= q_tid q < 65536 /\ 0 <= q_pid q < 65536 /\ 0 <= q_uid q < 256 /\
                     (1 <= length (sreq_pdu (q_body q)) <= 300)%nat /\ is_msg (e2e_dec (sreq_pdu (q_body q))) = true).
    { destruct Hq as [(Ht' & Hp & Hu & (w & Hbody) & _)|(Ht' & Hp & Hu & Hst & _)].
      - repeat split; try lia; try apply (body_pdu_length _ w Hbody). exact (dec_body_msg _ w Hbody).
      - destruct (station_frame_facts _ Hst) as [Hl Hm]. repeat split; try lia; exact Hm. }
    destruct Hfacts as (Ht' & Hp & Hu & Hl & Hm). split; [|intros _; exact Hm].
    destruct Hk as [->| ->]; cbn [frame_wf]; unfold tcp_wf, ascii_wf, frame_of; cbn [f_tid f_pid f_uid f_pdu].
    + lia.
    + destruct Hb as [Hb|Hb]; [discriminate Hb|]. repeat split; try lia; exact Hb.
  - split; [exact Hwf|]. intros Hacc. change (f_uid (frame_of q)) with (q_uid q) in Hacc. rewrite Hrej in Hacc. discriminate.
Qed.

(* ================================================================== the extended theorems *)
(* the front-ends of the extended statements: threaded and asyncio (the Twisted _send increments the
   BusMessage counter of the control block: a front-end difference, see finding F-C17-bus-message-counter) *)
Definition tcp_fes_x : list skel := [GenServer.sync_tcp; GenServer.aio_tcp].

Lemma tcp_fes_x_tcp sk : In sk tcp_fes_x -> In sk tcp_fes.
Proof. cbv [tcp_fes_x tcp_fes]. cbn [In]. tauto. Qed.

Section LoopsX.
Variable pk : packer.
Variable sk : skel.
Variable cfg : scfg.
Hypothesis Hsk : In sk all_fes.
Definition hall_x_app := fun d1 x d2 x' b => handle_all_x_app pk sk cfg d1 x d2 x' b.
Definition hall_x_keys := fun ds => handle_all_x_keys pk sk cfg ds Hsk.
End LoopsX.

Theorem e2e_tcp_ext sk cfg eof x st qs chunks :
  In sk tcp_fes_x -> xrel x st -> Forall (req_ok_x sk cfg (x_keys x)) qs ->
  concat (eff_chunks eof chunks) = concat (map req_adu qs) ->
  exists x' fs',
    tcp_server_run_x sk cfg eof x chunks = result x' (snd (spec_run_x tcp_adu (cf_single cfg) st qs)) fs' /\
    xrel x' (fst (spec_run_x tcp_adu (cf_single cfg) st qs)).
Proof.
  intros Hsk Hrel Hok Hcat. pose proof (tcp_fe_ok sk (tcp_fes_x_tcp sk Hsk)) as Hfe.
  set (fc := unit_cfg sk cfg (x_keys x)).
  assert (Hitems : Forall (item_ok_x KTcp sk cfg (x_keys x) fc) qs).
  { eapply Forall_impl; [|exact Hok]. intros q Hq. left. split; [exact Hq|left; reflexivity]. }
  destruct (stream_spec_x KTcp packet_of tcp_adu tcp_pk_ok sk cfg Hfe ltac:(discriminate) qs x st x eq_refl Hrel Hitems)
    as (x' & Hall & Hrel' & _).
  assert (Hcat' : concat (eff_chunks eof chunks) = concat (map (spec_adu KTcp) (map frame_of qs))).
  { rewrite Hcat, map_map. reflexivity. }
  destruct (C06_tcpascii.C06_tcp e2e_dec fc (map frame_of qs) (eff_chunks eof chunks)
              (frames_x KTcp sk cfg _ fc qs (or_introl eq_refl) Hitems) Hcat') as (fs' & Hfeed).
  exists x', fs'. split; [|exact Hrel'].
  unfold tcp_server_run_x. rewrite run_eff_g.
  exact (run_feed_g x_keys (handle_all_x packet_of sk cfg) (t_recv base tcp e2e_dec) sk cfg
           (handle_all_x_nil packet_of sk cfg) (hall_x_app packet_of sk cfg) (hall_x_keys packet_of sk cfg (proj1 Hfe))
           _ _ _ _ _ _ _ Hfeed Hall).
Qed.

Theorem e2e_ascii_ext sk cfg x st qs chunks :
  In sk serial_fes -> xrel x st ->
  Forall (item_ok_x KAscii sk cfg (x_keys x) (unit_cfg sk cfg (x_keys x))) qs ->
  concat chunks = concat (map req_adu_ascii qs) ->
  exists x' fs',
    ascii_server_run_x sk cfg x chunks = result x' (snd (spec_run_x ascii_adu (cf_single cfg) st qs)) fs' /\
    xrel x' (fst (spec_run_x ascii_adu (cf_single cfg) st qs)).
Proof.
  intros Hsk Hrel Hitems Hcat. pose proof (serial_fe_ok sk Hsk) as Hfe.
  set (fc := unit_cfg sk cfg (x_keys x)) in *.
  destruct (stream_spec_x KAscii packet_ascii ascii_adu ascii_pk_ok sk cfg Hfe ltac:(discriminate) qs x st x eq_refl Hrel Hitems)
    as (x' & Hall & Hrel' & _).
  assert (Hcat' : concat (filter nonempty chunks) = concat (map (spec_adu KAscii) (map frame_of qs))).
  { rewrite concat_filter_nonempty, Hcat, map_map. reflexivity. }
  destruct (C06_tcpascii.C06_ascii e2e_dec fc (map frame_of qs) (filter nonempty chunks)
              (frames_x KAscii sk cfg _ fc qs (or_intror eq_refl) Hitems) Hcat') as (fs' & Hfeed).
  exists x', fs'. split; [|exact Hrel'].
  unfold ascii_server_run_x. rewrite run_serial_filter_g.
  eapply (run_serial_feed_g x_keys (handle_all_x packet_ascii sk cfg) (a_recv_h base lrc ascii e2e_dec) sk cfg
           (handle_all_x_nil packet_ascii sk cfg) (hall_x_app packet_ascii sk cfg) (hall_x_keys packet_ascii sk cfg (proj1 Hfe)));
    [apply filter_nonempty_all| |exact Hall].
  exact (feed_reset_h (a_recv base lrc ascii e2e_dec fc) (a_reset ascii) _ _ _ _ Hfeed).
Qed.

(* ================================================================== establishing the hypotheses *)
Lemma xrel_abs x : Forall (fun p => store_ok (snd p)) (x_units x) -> dev_ok (x_dev x) ->
  xrel x {| ss_units := abs_units (x_units x); ss_dev := abs_dev (x_dev x) |}.
Proof. intros Hu Hd. split; [now apply units_rel_abs|]. split; [exact Hd|apply sdev_eqb_refl]. Qed.
