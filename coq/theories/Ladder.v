(* Ladder.v — exception-class lattice of the server handlers, `except` ladders, and the data
   types of the skeletons that gen/gen_frontends.py emits (Generated/GenFrontends.v).
   No proofs here. *)
From PM.theories Require Import Base.
Open Scope list_scope.

(* What can reach a handler's `try`: an exception of the framer/decoder/execute layer (all of
   [pyexn]; every one of them is a subclass of Exception and none is an OSError), a transport
   read fault (socket.timeout, which is a subclass of socket.error = OSError), task
   cancellation (asyncio.CancelledError: a BaseException, NOT an Exception, on Python >= 3.8) or
   another BaseException (KeyboardInterrupt, SystemExit, GeneratorExit). *)
Inductive raised := RPy (e : pyexn) | RTimeout | RSockErr | RCancelled | RBaseExc.

(* what an `except` clause names *)
Inductive clause := CTimeout | CSockErr | CException | CBare | CCancelled | CNoSuchSlave | CModbusExc.

Definition is_modbus_exc (e : pyexn) : bool :=
  match e with
  | ModbusIOExc | InvalidMessageExc | NotImplementedExc | NoSuchSlaveExc | ConnectionExc
  | ParameterExc | ModbusExc => true
  | _ => false
  end.

Definition catches (c : clause) (r : raised) : bool :=
  match c, r with
  | CBare, _ => true
  | CException, (RPy _ | RTimeout | RSockErr) => true
  | CSockErr, (RTimeout | RSockErr) => true
  | CTimeout, RTimeout => true
  | CCancelled, RCancelled => true
  | CNoSuchSlave, RPy NoSuchSlaveExc => true
  | CModbusExc, RPy e => is_modbus_exc e
  | _, _ => false
  end.

(* what a handler does about it *)
Inductive action := Continue | Stop | StopReset | ResetFrame | CloseTransport | Escape.

Definition action_eqb (a b : action) : bool :=
  match a, b with
  | Continue, Continue | Stop, Stop | StopReset, StopReset | ResetFrame, ResetFrame
  | CloseTransport, CloseTransport | Escape, Escape => true
  | _, _ => false
  end.

Definition ladder := list (clause * action).

Fixpoint first_match {A} (l : list (clause * A)) (r : raised) : option A :=
  match l with
  | [] => None
  | (c, a) :: t => if catches c r then Some a else first_match t r
  end.

Definition handle_outcome (l : ladder) (r : option raised) : action :=
  match r with
  | None => Continue
  | Some x => match first_match l x with Some a => a | None => Escape end
  end.

(* exceptions that are ordinary Python `Exception`s *)
Definition ordinary (r : raised) : bool :=
  match r with RPy _ | RTimeout | RSockErr => true | _ => false end.

(* ---- skeleton types ------------------------------------------------------------------- *)

Inductive frontend := SyncTcp | SyncSerial | SyncUdp | AioTcp | AioUdp | TwTcp | TwUdp.

Definition frontend_eqb (a b : frontend) : bool :=
  match a, b with
  | SyncTcp, SyncTcp | SyncSerial, SyncSerial | SyncUdp, SyncUdp | AioTcp, AioTcp
  | AioUdp, AioUdp | TwTcp, TwTcp | TwUdp, TwUdp => true
  | _, _ => false
  end.

(* `if not data: self.running = False` and the framer is still called with the empty data |
   `if data:` guards everything | no test at all *)
Inductive empty_policy := EmptyStopThenProcess | EmptySkip | EmptyNone.

(* units = context.slaves() made a list and 0 appended under broadcast_enable | handed over as
   read | the `unit` argument is missing from the call *)
Inductive units_policy := UnitsPrepared | UnitsPreparedIfData | UnitsRaw | UnitsOmitted.
(* UnitsPreparedIfData: the fix-ups sit in the else-branch of `if not data:` *)

(* where `self.framer = <class>(decoder)` is executed *)
Inductive framer_site := PerConnection | PerDatagram | PerServer.

Record loop_skel := {
  ls_loops : bool;                 (* `while self.running:` loop (false: reactor callback per chunk) *)
  ls_empty : empty_policy;
  ls_units : units_policy;
  ls_single : bool;                (* single=context.single is handed to the framer *)
  ls_listen_gate : bool;           (* `if not control.ListenOnly:` around the framer call *)
  ls_addr_fmt : option nat;        (* `"..%s.." % addr` evaluated eagerly with this many conversions *)
  ls_ladder : ladder;
  ls_site : framer_site }.

Inductive xhandler := XIgnoreOrExc (code : N) | XExc (code : N).

Record exec_skel := {
  xs_broadcast : bool;             (* has the `broadcast_enable and unit_id == 0` branch *)
  xs_ladder : list (clause * xhandler);
  xs_tail_guarded : bool;          (* `if not broadcast:` around copy+send *)
  xs_copy_tid : bool;
  xs_copy_uid : bool;
  xs_send_checks_respond : bool;
  xs_counts_bus : bool }.

Record fe_code := { fc_loop : frontend -> loop_skel; fc_exec : frontend -> exec_skel }.

(* ---- flags: the observable effect of one handler activation --------------------------- *)

Record flags := { f_stop : bool; f_reset : bool; f_close : bool; f_escape : bool }.

Definition flags_of (a : action) : flags :=
  match a with
  | Continue => {| f_stop := false; f_reset := false; f_close := false; f_escape := false |}
  | Stop => {| f_stop := true; f_reset := false; f_close := false; f_escape := false |}
  | StopReset => {| f_stop := true; f_reset := true; f_close := false; f_escape := false |}
  | ResetFrame => {| f_stop := false; f_reset := true; f_close := false; f_escape := false |}
  | CloseTransport => {| f_stop := false; f_reset := false; f_close := true; f_escape := false |}
  | Escape => {| f_stop := false; f_reset := false; f_close := false; f_escape := true |}
  end.

Definition flags_eqb (a b : flags) : bool :=
  Bool.eqb (f_stop a) (f_stop b) && Bool.eqb (f_reset a) (f_reset b) &&
  Bool.eqb (f_close a) (f_close b) && Bool.eqb (f_escape a) (f_escape b).

Definition flags_or (a b : flags) : flags :=
  {| f_stop := f_stop a || f_stop b; f_reset := f_reset a || f_reset b;
     f_close := f_close a || f_close b; f_escape := f_escape a || f_escape b |}.

(* `self.running = False` was already executed in this iteration (empty read) *)
Definition with_stop (a : action) : action :=
  match a with
  | Continue => Stop
  | ResetFrame => StopReset
  | x => x
  end.

(* One iteration of a handler loop (or one reactor callback): what happens given whether the
   read was empty and what, if anything, was raised inside the `try`. *)
Definition step_action (L : loop_skel) (empty : bool) (r : option raised) : action :=
  let a := handle_outcome (ls_ladder L) r in
  match empty, ls_empty L with
  | true, EmptyStopThenProcess => with_stop a
  | _, _ => a
  end.

(* does the handler go round its loop again after this action?  (asyncio keeps looping after
   transport.close(); an escaped exception ends the coroutine/handler) *)
Definition continues (a : action) : bool :=
  match a with Continue | ResetFrame | CloseTransport => true | _ => false end.

(* several iterations inside one activation (the datagram handler: its datagram, then the
   empty read that ends it) *)
Fixpoint iter_flags (L : loop_skel) (its : list (bool * option raised)) : flags :=
  match its with
  | [] => flags_of Continue
  | (e, r) :: t =>
      let a := step_action L e r in
      if continues a then flags_or (flags_of a) (iter_flags L t) else flags_of a
  end.

(* the TypeError of an eagerly formatted `"…%s…" % addr` with addr the 2-tuple peer address *)
Definition pre_raise (L : loop_skel) : option pyexn :=
  match ls_addr_fmt L with
  | Some n => if Nat.eqb n 2 then None else Some TypeError
  | None => None
  end.

(* ---- constructor wiring of the server classes (Generated/GenFrontends.server_wiring) ------- *)

(* how a server constructor computes an attribute its handlers later read *)
Inductive wsrc :=
| WOrDefault (param default : string)      (* self.x = <param> or <default>                 *)
| WKwDefault (key default : string)        (* self.x = kwargs.get('<key>', <default>)       *)
| WUpdate (param : string)                 (* if isinstance(identity, …): control.Identity.update(identity) *)
| WBuilt (cls : string).                   (* built by the server itself (serial handler)   *)

(* what the handlers get, given what the user passed (None: nothing / a false value) *)
Definition configured {A} (s : wsrc) (given : option A) (dflt : A) : A :=
  match s with
  | WOrDefault _ _ | WKwDefault _ _ | WUpdate _ => match given with Some x => x | None => dflt end
  | WBuilt _ => dflt
  end.

Definition user_configurable (s : wsrc) : bool := match s with WBuilt _ => false | _ => true end.
