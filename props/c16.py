"""C16 — Asynchronous (Twisted) client matches pipelined replies by transaction id.

The REAL ModbusClientProtocol (socket framer -> dict-keyed manager; RTU framer -> FIFO manager)
is driven with a recording transport: execute(), dataReceived() with segments built by a second
framer instance, connectionLost(), connectionMade(); every returned deferred gets a recording
callback and errback.  Deferreds are named by the allocation index of their tid (see
coq/theories/AsyncClient.v).  Symbolic history items are resolved at run time (a reply to the
j-th request uses the tid that was really written for it).
"""
import itertools

from lib import common
from lib.coqrun import boolean, lst
from lib.main import Case, Suite
from lib.pyx import pyexn

ID = "C16"
GENERATORS = ["async"]
PROP_FILE = "C16"
CASE_DEPS = ["theories/CorrAsync.vo", "Generated/GenAsync.vo"]
RULE = ("histories of execute / reply segments / connectionLost / connectionMade on the real protocol: every "
        "permutation of the replies for 1..5 outstanding requests; random histories of <= 12 operations with "
        "solicited, duplicate and unsolicited replies, multi-frame segments and losses; a base history with the "
        "loss inserted at every point; counter pre-set so that the tid wraps with and without a request "
        "outstanding; 300 requests outstanding at once; the FIFO (serial) variant with in-order replies; a case "
        "is non-trivial when at least one deferred fires; distinct = distinct (variant, resolved history)")
TRUSTED = [
    "generated from source on every run (Generated/GenAsync.v): getNextTID increment and mask, "
    "Defaults.TransactionId, the connected-guard and its exception in _buildResponse, the key used by "
    "_handleResponse, the errback loop / flag / exception of connectionLost, connectionMade, the unit default of "
    "dataReceived; exact statement shapes of execute and of the Dict/Fifo manager methods",
    "hand-modelled, tied by correspondence only: Python dict assignment/pop and list append/pop(0) "
    "(dset/dpop/FIFO in coq/theories/AsyncClient.v), the socket framer's per-segment unit filter (seg_loop)",
    "twisted.internet.defer.Deferred fires its callbacks when callback()/errback() is called (runtime)",
]
ASSUMPTIONS = [
    "segments delivered to dataReceived consist of whole frames (chunking inside frames is property C06)",
    "callbacks attached to the deferreds do not re-enter the protocol",
    "FIFO variant: one frame per dataReceived call, no transaction id on the wire: an unsolicited frame cannot be told "
    "from a reply (stated as C16_fifo_unsolicited_misdelivered)",
]
IMPORTS = ("From PM.theories Require Import Base AsyncClient CorrAsync.\n"
           "From PM.Generated Require Import GenAsync.")


# ----------------------------------------------------------------------------- driving the real protocol

class Transport:
    def __init__(self):
        self.writes = []
        self.closed = 0

    def write(self, data):
        self.writes.append(bytes(data))

    def close(self):
        self.closed += 1


class TransportNoClose:
    """like the real Twisted transports: loseConnection(), no close()"""

    def __init__(self):
        self.writes = []
        self.closed = 0

    def write(self, data):
        self.writes.append(bytes(data))

    def loseConnection(self):
        self.closed += 1


CTORS = {"dict": ["instance", "default", "class", "factory", "tcp-subclass"],
         "fifo": ["instance", "class", "ser-subclass"]}


def build_protocol(variant, ctor):
    """the protocol constructed in every supported way"""
    from pymodbus.client.asynchronous import twisted as tw
    from pymodbus.factory import ClientDecoder
    from pymodbus.transaction import ModbusSocketFramer, ModbusRtuFramer
    F = ModbusSocketFramer if variant == "dict" else ModbusRtuFramer
    if ctor == "instance":
        return tw.ModbusClientProtocol(framer=F(ClientDecoder()))
    if ctor == "class":
        return tw.ModbusClientProtocol(framer=F)
    if ctor == "default":
        return tw.ModbusClientProtocol()
    if ctor == "factory":
        return tw.ModbusClientFactory().buildProtocol(None)
    if ctor == "tcp-subclass":
        return tw.ModbusTcpClientProtocol()
    if ctor == "ser-subclass":
        return tw.ModbusSerClientProtocol()
    raise ValueError(ctor)


def run_history(variant, items, ctor="instance", tclose=True):
    """items: ("exec", unit) | ("reply", [(j | None, tid_if_unsolicited, unit_override | None, rid), ...]) |
              ("lost",) | ("made",) | ("skip", n)
    returns observation dict with the resolved ops"""
    from pymodbus.factory import ClientDecoder
    from pymodbus.transaction import ModbusSocketFramer, ModbusRtuFramer
    from pymodbus.register_read_message import ReadHoldingRegistersRequest, ReadHoldingRegistersResponse
    proto = build_protocol(variant, ctor)
    builder = ModbusSocketFramer(ClientDecoder()) if variant == "dict" else ModbusRtuFramer(ClientDecoder())
    tr = Transport() if tclose else TransportNoClose()
    proto.transport = tr
    alloc = 0
    fired, sent, escaped, ops = [], [], [], []
    did_of = {}            # id(deferred) -> did
    keep = []              # keep deferreds alive (ids stay unique)
    execs = []             # per execute: (did, tid written, unit)

    def issue(unit, re=False, rc=False):
        """one protocol.execute(); re / rc: the errback / callback issues a further (plain) request"""
        nonlocal alloc
        alloc += 1
        did = alloc
        nw = len(tr.writes)
        req = ReadHoldingRegistersRequest(address=did % 1000, count=1, unit=unit)
        d = guarded(proto.execute, req)
        w = tr.writes[nw:]
        # serial variant: nothing on the wire carries the tid; observe the manager's counter instead
        tid = int.from_bytes(w[0][0:2], "big") if (w and variant == "dict") else int(proto.transaction.tid)
        sent.append((did, tid))
        execs.append((did, tid, unit))
        if d is not None:
            keep.append(d)
            did_of[id(d)] = did

            def cb(reply):
                fired.append((did, "cb", int(reply.transaction_id) if variant == "dict" else 0,
                              int(reply.registers[0]) if getattr(reply, "registers", None) else 70000))
                if rc:
                    issue(unit)

            def eb(failure):
                fired.append((did, "err", pyexn(failure.value)))
                if re:
                    issue(unit)
            d.addCallbacks(cb, eb)

    def guarded(f, *a):
        try:
            return f(*a)
        except Exception as e:  # noqa: BLE001 — an escaping exception is an observation
            escaped.append(pyexn(e))
            return None

    for it in items:
        if it[0] in ("exec", "exec_e", "exec_c"):
            ops.append({"exec": "Execute", "exec_e": "ExecuteE", "exec_c": "ExecuteC"}[it[0]])
            issue(it[1], re=(it[0] == "exec_e"), rc=(it[0] == "exec_c"))
        elif it[0] == "reply":
            frames, data = [], b""
            for j, utid, uover, rid in it[1]:
                if j is not None and j < len(execs):
                    _, tid, unit = execs[j]
                else:
                    tid, unit = utid, 1
                if uover is not None:
                    unit = uover
                if variant != "dict":
                    tid = 0            # nothing on the wire carries it
                rsp = ReadHoldingRegistersResponse([rid])
                rsp.transaction_id, rsp.unit_id = tid, unit
                data += builder.buildPacket(rsp)
                frames.append((unit, tid, rid))
            ops.append("Segment " + lst("(%d%%N, %d%%N, %d%%N)" % f for f in frames))
            guarded(proto.dataReceived, data)
        elif it[0] == "lost":
            ops.append("Lost")
            guarded(proto.connectionLost, None)
        elif it[0] == "made":
            ops.append("Made")
            guarded(proto.connectionMade)
        elif it[0] == "close":
            ops.append("Close")
            guarded(proto.close)
        elif it[0] == "skip":
            ops.append("Skip %d%%N" % it[1])
            for _ in range(it[1]):
                proto.transaction.getNextTID()
            alloc += it[1]
    if isinstance(proto.transaction.transactions, dict):
        pending = [(int(k), did_of.get(id(v), 0)) for k, v in proto.transaction.transactions.items()]
    else:
        tid_of = dict((d, t) for d, t in sent)
        pending = [(tid_of.get(did_of.get(id(v), 0), 0), did_of.get(id(v), 0)) for v in proto.transaction.transactions]
    return {"variant": variant, "ops": ops, "fired": fired, "sent": sent, "pending": pending,
            "conn": bool(proto._connected), "escaped": escaped}


def outcome_term(f):
    if f[1] == "cb":
        return "(%d%%N, OCb %d%%N %d%%N)" % (f[0], f[2], f[3])
    return "(%d%%N, OErr %s)" % (f[0], f[2])


def obs_term(o):
    return ("{| c_variant := %s; c_ops := %s; c_fired := %s; c_sent := %s; c_pending := %s; c_conn := %s; "
            "c_escaped := %s |}" % ("VDict" if o["variant"] == "dict" else "VFifo", lst(o["ops"]),
                                    lst(outcome_term(f) for f in o["fired"]),
                                    lst("(%d%%N, %d%%N)" % p for p in o["sent"]),
                                    lst("(%d%%N, %d%%N)" % p for p in o["pending"]),
                                    boolean(o["conn"]), lst(o["escaped"])))


# ----------------------------------------------------------------------------- regions of the known findings

def region(variant, items):
    """which known-finding region (if any) a history lies in, decided on the history alone"""
    alloc = 0
    out = []               # alloc indices of requests registered and not answered/lost (spec view)
    conn = False
    units = {}
    regs = set()
    for it in items:
        if it[0] in ("exec", "exec_e", "exec_c"):
            alloc += 1
            if out and alloc - min(out) >= 65536:
                regs.add("wrap")
            if conn:
                out.append(alloc)
        elif it[0] == "skip":
            alloc += it[1]
        elif it[0] == "made":
            conn = True
        elif it[0] == "lost":
            conn, out = False, []
        elif it[0] == "close":
            conn = False
        elif it[0] == "reply":
            us = [uover if uover is not None else (items_unit(items, j)) for j, utid, uover, rid in it[1]]
            # the first frame's unit is the only expected unit, unless it is the wildcard 0 / 0xFF
            if us and us[0] not in (0, 255) and any(u != us[0] for u in us):
                regs.add("mixed-unit")
    return sorted(regs)


def items_unit(items, j):
    execs = [it for it in items if it[0] in ("exec", "exec_e", "exec_c")]
    if j is not None and j < len(execs):
        return execs[j][1]
    return 1


def mk_case(variant, items, label, ctor="instance", tclose=True):
    o = run_history(variant, items, ctor, tclose)
    desc = {"variant": variant, "ctor": ctor, "tclose": tclose, "items": [list(i) if not isinstance(i, str) else i for i in items],
            "resolved_ops": o["ops"], "fired": [list(f) for f in o["fired"]], "sent": o["sent"],
            "escaped": o["escaped"], "region": region(variant, items)}
    return Case(obs_term(o), desc, kind=label + ("" if ctor == "instance" else "@" + ctor) + ("" if tclose else "@noclose"),
                nontrivial=bool(o["fired"]), key=(variant, ctor, tclose, tuple(o["ops"])))


# ----------------------------------------------------------------------------- history generators

def gen_permutations():
    cases = []
    for n in range(1, 6):
        for perm in itertools.permutations(range(n)):
            items = [("made",)] + [("exec", 1)] * n + [("reply", [(j, 0, None, 100 + j)]) for j in perm]
            cases.append(mk_case("dict", items, "perm-%d" % n))
    # the same with all replies coalesced into one or two segments
    for n in range(2, 6):
        for perm in list(itertools.permutations(range(n)))[:: max(1, n)]:
            fr = [(j, 0, None, 200 + j) for j in perm]
            cut = len(fr) // 2
            items = [("made",)] + [("exec", 1)] * n + [("reply", fr[:cut])] * (1 if cut else 0) + [("reply", fr[cut:])]
            cases.append(mk_case("dict", items, "perm-coalesced"))
    return cases


def random_history(r, variant, nmax=12, mixed=False):
    items = [("made",)] if r.random() < 0.85 else []
    nexec = 0
    for _ in range(r.randrange(3, nmax + 1) - len(items)):
        k = r.random()
        if k < 0.38 or nexec == 0:
            items.append(("exec", r.choice([1, 1, 1, 2, 3]) if mixed else 1))
            nexec += 1
        elif k < 0.78:
            if variant == "dict":
                nfr = r.choice([1, 1, 1, 2, 3])
                fr = []
                for _ in range(nfr):
                    kk = r.random()
                    if kk < 0.75:
                        fr.append((r.randrange(nexec), 0, None, r.randrange(1, 60000)))      # solicited or duplicate
                    else:
                        fr.append((None, r.choice([0, 9, 500, 65535, nexec + 1, nexec + 2]), None, r.randrange(1, 60000)))
                items.append(("reply", fr))
            else:
                items.append(("reply", [(r.randrange(nexec), 0, None, r.randrange(1, 60000))]))
        elif k < 0.9:
            items.append(("lost",))
        else:
            items.append(("made",))
    return items


def fifo_history(r):
    """serial line: replies only while something is outstanding (spec view), in order"""
    items = [("made",)] if r.random() < 0.85 else []
    out, conn = 0, bool(items)
    unit = r.choice([1, 1, 2, 3, 17])        # one slave per history; its id may coincide with a later transaction id
    for _ in range(r.randrange(3, 12)):
        k = r.random()
        if k < 0.4:
            items.append(("exec", unit))
            out += 1 if conn else 0
        elif k < 0.8 and out > 0:
            items.append(("reply", [(0, 0, None, r.randrange(1, 60000))]))
            out -= 1
        elif k < 0.9:
            items.append(("lost",))
            out, conn = 0, False
        else:
            items.append(("made",))
            conn = True
    return items


def gen_loss_everywhere():
    base = [("made",), ("exec", 1), ("exec", 1), ("reply", [(0, 0, None, 11)]), ("exec", 1),
            ("reply", [(2, 0, None, 13)]), ("exec", 1), ("reply", [(1, 0, None, 12)]), ("reply", [(3, 0, None, 14)])]
    cases = []
    for v in ("dict", "fifo"):
        b = base if v == "dict" else [("made",), ("exec", 1), ("exec", 1), ("reply", [(0, 0, None, 11)]), ("exec", 1),
                                      ("reply", [(1, 0, None, 12)]), ("exec", 1), ("reply", [(2, 0, None, 13)]),
                                      ("reply", [(3, 0, None, 14)])]
        for i in range(len(b) + 1):
            items = b[:i] + [("lost",)] + b[i:] + [("exec", 1)]
            cases.append(mk_case(v, items, "loss-at-%s" % v))
            items = b[:i] + [("lost",), ("made",)] + b[i:]
            cases.append(mk_case(v, items, "loss-reconnect-%s" % v))
    return cases


def gen_reentrant(r, n):
    """user code that re-enters the protocol: errbacks / callbacks that call execute() again"""
    cases = []
    for v in ("dict", "fifo"):
        fixed = [
            [("made",), ("exec_e", 1), ("lost",)],
            [("made",), ("exec_e", 1), ("exec", 1), ("exec_e", 1), ("lost",), ("exec", 1)],
            [("exec_e", 1), ("made",), ("exec_e", 1), ("lost",)],
            [("made",), ("exec_e", 1), ("lost",), ("made",), ("reply", [(1, 0, None, 21)]), ("lost",)],
            [("made",), ("exec_c", 1), ("reply", [(0, 0, None, 10)]), ("reply", [(1, 0, None, 20)])],
            [("made",), ("exec_c", 1), ("exec_e", 1), ("reply", [(0, 0, None, 10)]), ("lost",)],
            [("made",), ("exec_c", 1), ("exec_c", 1), ("reply", [(0, 0, None, 10)]), ("reply", [(1, 0, None, 11)]),
             ("reply", [(2, 0, None, 12)]), ("reply", [(3, 0, None, 13)])],
        ]
        for items in fixed:
            cases.append(mk_case(v, items, "reentrant-%s" % v))
        base = [("made",), ("exec_e", 1), ("exec_c", 1), ("reply", [(0, 0, None, 11)]), ("exec_e", 1),
                ("reply", [(1, 0, None, 12)]), ("exec", 1)]
        for i in range(len(base) + 1):
            cases.append(mk_case(v, base[:i] + [("lost",)] + base[i:] + [("exec_e", 1)], "reentrant-loss-at-%s" % v))
        for _ in range(n):
            items = fifo_history(r) if v == "fifo" else random_history(r, "dict")
            items = [((r.choice(["exec_e", "exec_c", "exec"]), it[1]) if it[0] == "exec" else it) for it in items]
            if v == "fifo":
                # keep the serial line in order: replies only for what the idealised client has outstanding
                items = [it for it in items if it[0] != "reply"] + [("lost",)]
            cases.append(mk_case(v, items, "reentrant-random-%s" % v))
    return cases


def gen_units():
    """requests to the gateway id 0xFF, to unit 0 and to units 1, 2 outstanding; all replies in ONE segment,
    in every order, and split into two segments"""
    cases = []
    units = [255, 1, 0, 2]
    head = [("made",)] + [("exec", u) for u in units]
    for perm in itertools.permutations(range(4)):
        fr = [(j, 0, None, 100 + j) for j in perm]
        cases.append(mk_case("dict", head + [("reply", fr)], "units-one-segment"))
        cases.append(mk_case("dict", head + [("reply", fr[:2]), ("reply", fr[2:])], "units-two-segments"))
    for sub in ([255, 1], [0, 2], [1, 255], [2, 0], [255, 0], [255, 1, 2], [1, 2, 255]):
        h = [("made",)] + [("exec", u) for u in sub]
        for perm in itertools.permutations(range(len(sub))):
            cases.append(mk_case("dict", h + [("reply", [(j, 0, None, 50 + j) for j in perm])], "units-subset"))
    return cases


def gen_ctors(r, n):
    """the protocol built every supported way: default, framer instance, framer CLASS, factory, subclasses"""
    cases = []
    for v in ("dict", "fifo"):
        for ctor in CTORS[v][1:]:
            if v == "dict":
                for k in range(1, 5):
                    for perm in itertools.permutations(range(k)):
                        items = [("made",)] + [("exec", 1)] * k + [("reply", [(j, 0, None, 100 + j)]) for j in perm]
                        cases.append(mk_case(v, items, "perm-%d" % k, ctor))
                items = [("made",), ("exec", 1), ("exec", 1), ("reply", [(1, 0, None, 5)]), ("reply", [(1, 0, None, 6)]),
                         ("reply", [(None, 777, None, 7)]), ("reply", [(0, 0, None, 8)]), ("lost",), ("exec", 1)]
                cases.append(mk_case(v, items, "dup-unsolicited", ctor))
            for _ in range(n):
                items = fifo_history(r) if v == "fifo" else random_history(r, "dict")
                cases.append(mk_case(v, items, "random-%s" % v, ctor))
    return cases


def gen_close(r, n):
    """protocol.close() by the user, on a transport with and without a close() method; requests before
    connectionMade, after close() and after the loss"""
    cases = []
    for v in ("dict", "fifo"):
        for tclose in (True, False):
            fixed = [
                [("exec", 1)],
                [("exec", 1), ("made",), ("exec", 1), ("lost",)],
                [("made",), ("exec", 1), ("close",), ("exec", 1), ("lost",), ("exec", 1)],
                [("made",), ("close",), ("exec", 1), ("exec_e", 1)],
                [("close",), ("exec", 1), ("made",), ("exec", 1), ("reply", [(1, 0, None, 9)])],
                [("made",), ("exec_e", 1), ("exec", 1), ("close",), ("lost",)],
                [("made",), ("exec", 1), ("reply", [(0, 0, None, 3)]), ("close",), ("close",), ("exec_c", 1), ("lost",)],
            ]
            for items in fixed:
                cases.append(mk_case(v, items, "close-%s" % v, tclose=tclose))
            base = [("made",), ("exec", 1), ("exec", 1), ("reply", [(0, 0, None, 11)]), ("exec", 1)]
            for i in range(len(base) + 1):
                cases.append(mk_case(v, base[:i] + [("close",)] + base[i:] + [("exec", 1), ("lost",), ("exec", 1)],
                                     "close-at-%s" % v, tclose=tclose))
            for _ in range(n):
                items = fifo_history(r) if v == "fifo" else random_history(r, "dict")
                k = r.randrange(len(items) + 1)
                items = items[:k] + [("close",)] + items[k:]
                if v == "fifo":
                    items = [it for it in items if it[0] != "reply"] + [("lost",)]
                cases.append(mk_case(v, items, "close-random-%s" % v, tclose=tclose))
    return cases


def gen_wrap():
    cases = []
    # no request outstanding across the wrap: fine
    cases.append(mk_case("dict", [("made",), ("skip", 65530)] + [("exec", 1)] * 10 +
                         [("reply", [(j, 0, None, 50 + j)]) for j in (9, 0, 5, 1, 2, 3, 4, 8, 7, 6)], "wrap-boundary"))
    cases.append(mk_case("dict", [("made",), ("exec", 1), ("skip", 65534), ("exec", 1), ("reply", [(1, 0, None, 2)]),
                                  ("reply", [(0, 0, None, 1)])], "wrap-window-65535"))
    # a request outstanding across a full wrap (region of the known finding)
    cases.append(mk_case("dict", [("made",), ("exec", 1), ("skip", 65535), ("exec", 1), ("reply", [(1, 0, None, 2)]),
                                  ("lost",)], "wrap-collision"))
    cases.append(mk_case("dict", [("made",), ("exec", 1), ("exec", 1), ("skip", 65534), ("exec", 1), ("exec", 1),
                                  ("reply", [(0, 0, None, 1)]), ("reply", [(1, 0, None, 2)]), ("lost",)], "wrap-collision"))
    return cases


def gen_long():
    n = 300
    items = [("made",)] + [("exec", 1)] * n + [("reply", [(j, 0, None, j + 1)]) for j in reversed(range(n))]
    return [mk_case("dict", items, "long-300"),
            mk_case("dict", [("made",)] + [("exec", 1)] * n + [("lost",), ("exec", 1)], "long-300-lost")]


def suites(tier):
    r = common.rng("C16.hist")
    cases = gen_permutations() + gen_loss_everywhere() + gen_wrap() + gen_long()
    n = 500 if tier == "quick" else 8000
    cases += gen_reentrant(r, n // 5)
    cases += gen_units() + gen_ctors(r, n // 10) + gen_close(r, n // 20)
    for _ in range(n):
        cases.append(mk_case("dict", random_history(r, "dict"), "random-dict"))
    for _ in range(n // 3):
        cases.append(mk_case("fifo", fifo_history(r), "random-fifo"))
    for _ in range(n // 5):
        cases.append(mk_case("dict", random_history(r, "dict", mixed=True), "random-mixed-unit"))
    return [Suite("histories", IMPORTS, "chk_async code", cases, shard=150)]


# ----------------------------------------------------------------------------- replies split into chunks

def run_chunked(units, nregs, cuts):
    """one request per unit outstanding on the real (dict) protocol; the concatenated replies are delivered
    to dataReceived in the chunks given by the cut offsets.  python-side oracle: every reply is delivered to
    its own deferred exactly once."""
    from pymodbus.client.asynchronous.twisted import ModbusClientProtocol
    from pymodbus.factory import ClientDecoder
    from pymodbus.transaction import ModbusSocketFramer
    from pymodbus.register_read_message import ReadHoldingRegistersRequest, ReadHoldingRegistersResponse
    proto = ModbusClientProtocol()
    tr = Transport()
    proto.transport = tr
    proto.connectionMade()
    builder = ModbusSocketFramer(ClientDecoder())
    got, escaped = {}, []
    stream, frames = b"", []
    for i, u in enumerate(units):
        d = proto.execute(ReadHoldingRegistersRequest(address=i, count=nregs, unit=u))
        tid = int.from_bytes(tr.writes[-1][0:2], "big")
        d.addCallbacks(lambda rsp, i=i: got.setdefault(i, []).append(("cb", int(rsp.transaction_id), list(rsp.registers))),
                       lambda f, i=i: got.setdefault(i, []).append(("err", pyexn(f.value))))
        rsp = ReadHoldingRegistersResponse([100 + i] * nregs)
        rsp.transaction_id, rsp.unit_id = tid, u
        pk = builder.buildPacket(rsp)
        frames.append((len(stream), len(stream) + len(pk), u, tid))
        stream += pk
    bounds = [0] + sorted(set(c for c in cuts if 0 < c < len(stream))) + [len(stream)]
    chunks = [stream[a:b] for a, b in zip(bounds, bounds[1:])]
    for c in chunks:
        try:
            proto.dataReceived(c)
        except Exception as e:  # noqa: BLE001
            escaped.append(pyexn(e))
    lost = [i for i in range(len(units)) if not got.get(i)]
    wrong = [i for i in range(len(units)) if got.get(i) and got[i] != [("cb", frames[i][3], [100 + i] * nregs)]]
    # region of the known finding: the unit filter of the call in which a frame completes is taken from byte 6 of
    # a chunk that is longer than an MBAP header but does not start at a frame boundary (or starts at the
    # boundary of a frame for another unit = the mixed-unit finding)
    regs = set()
    for a, b, u, _tid in frames:
        k = next(j for j in range(len(chunks)) if bounds[j + 1] >= b)
        c = chunks[k]
        flt = c[6] if len(c) > 7 else 0
        if flt not in (0, 255, u):
            regs.add("chunk-unit" if bounds[k] not in [f[0] for f in frames] else "mixed-unit")
    return {"units": list(units), "nregs": nregs, "cuts": list(cuts), "lost": lost, "wrong": wrong,
            "escaped": escaped, "region": sorted(regs), "chunks": [len(c) for c in chunks]}


def run_maxsize(one_segment, order):
    """pipelined requests whose replies have the LARGEST legal sizes: 125 registers (PDU 252 bytes), a diagnostic
    echo of 125 words (PDU 253 bytes = MBAP length 254, the maximum) and a small read; replies in the given
    order, each in a segment of its own or all in one.  Every deferred must fire once with its own reply."""
    from pymodbus.client.asynchronous.twisted import ModbusClientProtocol
    from pymodbus.factory import ClientDecoder
    from pymodbus.transaction import ModbusSocketFramer
    from pymodbus.register_read_message import ReadHoldingRegistersRequest, ReadHoldingRegistersResponse
    from pymodbus.diag_message import ReturnQueryDataRequest, ReturnQueryDataResponse
    proto = ModbusClientProtocol()
    tr = Transport()
    proto.transport = tr
    proto.connectionMade()
    builder = ModbusSocketFramer(ClientDecoder())
    words = [(0x0100 + k) & 0xFFFF for k in range(125)]
    plan = [(ReadHoldingRegistersRequest(address=0, count=125, unit=1), ReadHoldingRegistersResponse([7] * 125)),
            (ReturnQueryDataRequest(words, unit=1), ReturnQueryDataResponse(words)),
            (ReadHoldingRegistersRequest(address=9, count=1, unit=1), ReadHoldingRegistersResponse([42]))]
    got, frames, escaped = {}, [], []
    for i, (rq, rsp) in enumerate(plan):
        d = proto.execute(rq)
        tid = int.from_bytes(tr.writes[-1][0:2], "big")
        d.addCallbacks(lambda x, i=i: got.setdefault(i, []).append(("cb", int(x.transaction_id), type(x).__name__)),
                       lambda f, i=i: got.setdefault(i, []).append(("err", pyexn(f.value))))
        rsp.transaction_id, rsp.unit_id = tid, 1
        frames.append((tid, type(rsp).__name__, builder.buildPacket(rsp)))
    pkts = [frames[j][2] for j in order]
    for c in ([b"".join(pkts)] if one_segment else pkts):
        try:
            proto.dataReceived(c)
        except Exception as e:  # noqa: BLE001
            escaped.append(pyexn(e))
    lost = [i for i in range(len(plan)) if not got.get(i)]
    wrong = [i for i in range(len(plan)) if got.get(i) and got[i] != [("cb", frames[i][0], frames[i][1])]]
    return {"units": [1, 1, 1], "nregs": 125, "cuts": [], "one_segment": one_segment, "order": list(order),
            "frame_sizes": [len(f[2]) for f in frames], "lost": lost, "wrong": wrong, "escaped": escaped, "region": [],
            "maxsize": True}


def extra_checks(tier):
    r = common.rng("C16.chunks")
    runs = []
    for units in ([1], [2], [0], [255], [2, 1], [1, 2], [255, 2], [2, 2, 2]):
        for nregs in (1, 3):
            total = len(units) * (9 + 2 * nregs)
            for cut in range(1, total):
                runs.append(run_chunked(units, nregs, [cut]))
            for _ in range(20 if tier == "quick" else 300):
                runs.append(run_chunked(units, nregs, sorted(r.sample(range(1, total), min(total - 1, r.choice([2, 3, 4]))))))
    for one in (False, True):
        for order in itertools.permutations(range(3)):
            runs.append(run_maxsize(one, order))
    failures = [o for o in runs if o["lost"] or o["wrong"] or o["escaped"]]
    return {"chunked": {"evaluations": len(runs), "failures": failures, "broken": [],
                        "keys": [(tuple(o["units"]), o["nregs"], tuple(o["cuts"]), o.get("one_segment"), tuple(o.get("order", ()))) for o in runs if not (o["lost"] or o["wrong"])],
                        "in_known_region": sum(1 for o in failures if o["region"]),
                        "samples": failures[:1] + runs[:1]}}


# ----------------------------------------------------------------------------- findings / replay

def classify(suite, desc):
    regs = desc.get("region") or []
    if "wrap" in regs:
        return "F-C16-tid-wrap"
    if "mixed-unit" in regs:
        return "F-C16-mixed-unit-segment"
    if "chunk-unit" in regs:
        return "F-C16-chunked-reply-unit"
    return None


def _items(w):
    return [tuple([i[0]] + [([tuple(f) for f in x] if isinstance(x, list) else x) for x in i[1:]]) for i in w]


def replay_finding(f):
    from lib import coqrun
    if f["id"] == "F-C16-chunked-reply-unit":
        w = f["witness"]
        o = run_chunked(w["units"], w["nregs"], w["cuts"])
        return bool(o["lost"])
    o = run_history(f["witness"]["variant"], _items(f["witness"]["items"]), f["witness"].get("ctor", "instance"), f["witness"].get("tclose", True))
    r = coqrun.eval_cases("C16_finding", IMPORTS, "chk_async code", [obs_term(o)])
    return bool(r["propfail"])


def replay_case(suite, desc):
    from lib import coqrun
    if suite == "chunked" and desc.get("maxsize"):
        o = run_maxsize(desc["one_segment"], desc["order"])
        return bool(o["lost"] or o["wrong"] or o["escaped"])
    if suite == "chunked":
        o = run_chunked(desc["units"], desc["nregs"], desc["cuts"])
        print(o)
        return bool(o["lost"] or o["wrong"] or o["escaped"])
    o = run_history(desc["variant"], _items(desc["items"]), desc.get("ctor", "instance"), desc.get("tclose", True))
    print(o)
    r = coqrun.eval_cases("C16_replay", IMPORTS, "chk_async code", [obs_term(o)])
    print(r)
    return bool(r["propfail"] or r["errors"])


MANIFEST = {
    "text": ("Coq theorems (Props/C16.v) by induction over ARBITRARY histories of execute / reply segments / "
             "connectionLost / connectionMade for the model instantiated with the constants and guards regenerated "
             "from twisted/__init__.py and transaction.py: every deferred is in exactly one of pending / displaced / "
             "fired (fires at most once; exactly once under the window hypothesis after its reply or the loss), a "
             "callback carries the reply whose tid was written for that deferred, outstanding tids are pairwise "
             "distinct while fewer than 65536 tids were handed out since the oldest outstanding request, "
             "unsolicited and duplicate replies change nothing, connectionLost errbacks all pending and later "
             "executes fail at once; the refutations (tid wrap, mixed-unit segment, FIFO unsolicited) are proved as "
             "witnesses. The real protocol is run on thousands of histories and compared with the model."),
    "note": ("Trusted: Coq kernel, translator shape matching, hand-written dict/list semantics tied by correspondence, "
             "Twisted's Deferred. Known findings: tid wrap overwrites a pending deferred (#24); a segment with frames "
             "for different units loses the frames behind the first foreign one."),
    "design_ref": "DESIGN.md section 8 (C16)",
}
