(* Props/C07_rtubin.v — C07, RTU / binary half: corrupted frames are never delivered.
   ONLY statements. *)
From PM.theories Require Import Base Expr Struct FrBCode Crc FrBCommon FrRtu FrBin FrSpecB.
From PM.Generated Require Import GenFramerB.
From PM.proofs Require Import Crc_proofs Crc_detect_proofs FrB_rtu_proofs FrB_bin_proofs.
Open Scope list_scope.
Open Scope N_scope.

(* checkCRC accepts exactly the byte-swapped bitwise CRC-16/Modbus: the gate of both framers
   compares against the independent (spec) checksum, for every byte string *)
Theorem C07_check_is_bitwise_crc : forall bs k, wfb bs = true ->
  py_check_crc bs k = Ok (Z.of_N (swap16 (crc16_bitwise bs)) =? k)%Z.
Proof. exact py_check_crc_spec. Qed.
Print Assumptions C07_check_is_bitwise_crc.

(* GATE, RTU: for EVERY receiver state (any buffer, any header content), every chunk and both
   decoder tables, for the whole drain loop of a call: each message handed to the callback is
   justified by a span of the buffered bytes that is exactly the specified ADU of that message
   (unit, PDU, bitwise CRC-16 low byte first) — what the reference receiver accepts.  In
   particular an intact frame in front never opens the gate for a corrupted frame behind it in
   the same read; no corruption, truncation or extension of a frame is delivered unless the
   corrupted bytes themselves contain a frame with a matching CRC. *)
Theorem C07_gate_rtu : forall cfg st chunk st' ds x,
  known_rules (cf_rules cfg) -> wfb (r_buf st ++ chunk) = true ->
  rtu_recv cfg st chunk = (st', ds, x) ->
  forall pdu uid, In (pdu, uid) ds ->
    exists u pre rest, r_buf st ++ chunk = pre ++ spec_adu_rtu u pdu ++ rest /\ uid = Z.of_N u /\
                       crc_ok (spec_adu_rtu u pdu) = true /\ spec_rx_rtu (spec_adu_rtu u pdu) = Some (pdu, u).
Proof. exact rtu_gate. Qed.
Print Assumptions C07_gate_rtu.

(* the gate is not vacuous: a valid frame IS delivered (C03_whole_frame_rtu) *)
Example C07_nonvacuous :
  let cfg := {| cf_dec := fun _ => DMsg; cf_rules := server_decoder; cf_units := [1%Z]; cf_single := false |} in
  snd (fst (rtu_recv cfg rtu_init (spec_adu_rtu 1 [3; 0; 1; 0; 2]))) = [([3; 0; 1; 0; 2], 1%Z)] /\ known_rules (cf_rules cfg).
Proof. split; [vm_compute; reflexivity | exact known_server]. Qed.

(* ---- DETECTION POWER of CRC-16/Modbus itself (spec side, independent of the framers).
   [crc_ok frame]: the last two bytes are the bitwise CRC of the rest, low byte first;
   [xor_bytes frame e]: the frame with error pattern e; [weight e]: number of flipped bits. *)

(* xor-linearity of the register for equal lengths *)
Theorem C07_crc_linear : forall a e s, length e = length a ->
  crc_reg s (xor_bytes a e) = N.lxor (crc_reg s a) (crc_reg 0 e).
Proof. exact crc_linear. Qed.
Print Assumptions C07_crc_linear.

(* a corrupted frame passes the check exactly when the error pattern alone has syndrome 0 *)
Theorem C07_crc_syndrome : forall frame e, wfb frame = true -> wfb e = true ->
  length e = length frame -> crc_ok frame = true ->
  (crc_ok (xor_bytes frame e) = true <-> crc_reg 0 e = 0).
Proof. exact crc_detect_iff. Qed.
Print Assumptions C07_crc_syndrome.

(* every single-bit error, any frame length *)
Theorem C07_crc_single : forall frame e, wfb frame = true -> wfb e = true ->
  length e = length frame -> crc_ok frame = true -> weight e = 1%nat ->
  crc_ok (xor_bytes frame e) = false.
Proof. exact crc_single_detected. Qed.
Print Assumptions C07_crc_single.

(* every error with an odd number of flipped bits (1, 3, 5, ...), any frame length *)
Theorem C07_crc_odd : forall frame e, wfb frame = true -> wfb e = true ->
  length e = length frame -> crc_ok frame = true -> Nat.odd (weight e) = true ->
  crc_ok (xor_bytes frame e) = false.
Proof. exact crc_odd_detected. Qed.
Print Assumptions C07_crc_odd.

(* every double-bit error in frames shorter than 32767 bits (an RTU frame has at most 2048) *)
Theorem C07_crc_double : forall frame e, wfb frame = true -> wfb e = true ->
  length e = length frame -> crc_ok frame = true -> weight e = 2%nat ->
  (8 * N.of_nat (length frame) < 32767) -> crc_ok (xor_bytes frame e) = false.
Proof. exact crc_double_detected. Qed.
Print Assumptions C07_crc_double.

(* ---- COMPOSITION (partial, the honest boundary): bytes that fail the CRC check as a whole,
   handed to an empty receiver in any state of its header, never produce a delivery whose
   frame has that same extent.  On RTU the extent is computed from the (possibly corrupted)
   function code and byte count; when a flip changes the computed extent the checksum is
   evaluated over a different span and only C07_gate_rtu applies. *)
Theorem C07_no_delivery_rtu_partial : forall cfg st frame' st' ds x,
  known_rules (cf_rules cfg) -> r_buf st = [] -> wfb frame' = true -> crc_ok frame' = false ->
  rtu_recv cfg st frame' = (st', ds, x) ->
  forall pdu uid, In (pdu, uid) ds -> forall u, uid = Z.of_N u -> length (spec_adu_rtu u pdu) <> length frame'.
Proof. exact rtu_no_delivery_same_extent. Qed.
Print Assumptions C07_no_delivery_rtu_partial.

(* every error burst confined to at most 16 consecutive bits (transmission order), any length *)
Theorem C07_crc_burst16 : forall frame e, wfb frame = true -> wfb e = true ->
  length e = length frame -> crc_ok frame = true -> (0 < burst_len e <= 16)%nat ->
  crc_ok (xor_bytes frame e) = false.
Proof. exact crc_burst16_detected. Qed.
Print Assumptions C07_crc_burst16.

(* the detection theorems are not vacuous: a valid frame and error patterns of each class *)
Example C07_detection_nonvacuous :
  let frame := with_crc [1; 3; 0; 1; 0; 2] in
  crc_ok frame = true /\ weight [0; 0; 4; 0; 0; 0; 0; 0] = 1%nat /\
  weight [0; 0; 4; 0; 0; 128; 0; 0] = 2%nat /\ burst_len [0; 0; 128; 255; 1; 0; 0; 0] = 10%nat /\
  crc_ok (xor_bytes frame [0; 0; 4; 0; 0; 128; 0; 0]) = false.
Proof. cbv zeta. repeat split; vm_compute; reflexivity. Qed.

(* ---- binary framer (after the /repo repairs "checks the CRC over the frame after skipping leading
   bytes" and "advanceFrame drops exactly the frame").
   GATE, binary: for EVERY receiver state, chunk and decoder that rejects the empty PDU (both real
   decoders do), every message delivered by a call - the first or a later one of the same read,
   with or without junk in front of its '{' - is exactly the unit and PDU between a '{' and the
   next '}', and the two bytes before that '}' are their bitwise CRC-16, low byte first. *)
Theorem C07_gate_binary : forall cfg st chunk st' ds x,
  wfb (b_buf st ++ chunk) = true -> cf_dec cfg [] <> DMsg ->
  bin_recv cfg st chunk = (st', ds, x) ->
  forall d, In d ds -> bin_justified (b_buf st ++ chunk) d.
Proof. exact bin_gate. Qed.
Print Assumptions C07_gate_binary.

(* ... and that span is the specified frame when it contains no '{' either *)
Theorem C07_gate_binary_span_is_spec : forall u pdu c0 c1, c0 < 256 -> c1 < 256 ->
  crc16_bitwise (u :: pdu) = c0 + 256 * c1 -> no_delim ((u :: pdu) ++ [c0; c1]) = true ->
  [123] ++ (u :: pdu) ++ [c0; c1] ++ [125] = spec_adu_binary u pdu.
Proof. exact bin_gate_span_spec. Qed.
Print Assumptions C07_gate_binary_span_is_spec.

(* junk in front of '{' does not cost the frame: a whole delimiter-free frame behind bytes without
   '{' is delivered (and only it) *)
Theorem C07_binary_junk_prefix : forall cfg st chunk j u pdu, valid_bframe cfg u pdu -> ~ In 123 j ->
  b_buf st ++ chunk = j ++ spec_adu_binary u pdu ->
  bin_recv cfg st chunk = (bin_init, [(pdu, Z.of_N u)], FOk).
Proof. exact bin_recv_whole. Qed.
Print Assumptions C07_binary_junk_prefix.

(* the former refutation witness (finding F-C07-binary-stale-start, status fixed): one noise byte in
   front and one byte inserted after '{' is no longer delivered; an intact frame behind noise is *)
Theorem C07_binary_stale_start_fixed :
  let cfg := {| cf_dec := fun _ => DMsg; cf_rules := server_decoder; cf_units := [17%Z; 3%Z]; cf_single := false |} in
  snd (fst (bin_recv cfg bin_init [0; 123; 17; 3; 43; 14; 1; 0; 9; 183; 125])) = [] /\
  snd (fst (bin_recv cfg bin_init [0; 255; 123; 3; 43; 14; 1; 0; 9; 183; 125])) = [([43; 14; 1; 0], 3%Z)].
Proof. exact bin_stale_start_fixed_witness. Qed.
Print Assumptions C07_binary_stale_start_fixed.
