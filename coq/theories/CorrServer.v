(* CorrServer.v — harness side of the correspondence check for the server execute/send
   model: the case type (what the framer delivered to a REAL handler, what every
   `request.execute` call returned or raised, what was sent, per-unit execution logs and
   which units' tables changed), the comparison against [Server.serve] run on the
   GENERATED skeleton of the same front-end, and the PROPERTY oracles for C09 and C10,
   which are written from the property text and never look at a skeleton. *)
From PM.theories Require Import Base Server.
Open Scope string_scope.
Open Scope list_scope.
Open Scope Z_scope.

(* harness instantiation of a unit's store: (unit id, tags of the requests executed on it) *)
Definition hstore : Type := Z * list Z.

Inductive eres := ROk (fc : Z) (respond : bool) (code : option Z) | RRaise (e : pyexn).

Record creq := {
  c_tag : Z; c_tid : Z; c_uid : Z; c_fc : Z; c_dest : Z;
  c_results : list (Z * eres)      (* per unit on which request.execute was called: what it did *)
}.

Fixpoint assoc {A} (l : list (Z * A)) (k : Z) : option A :=
  match l with
  | [] => None
  | (k', v) :: t => if k' =? k then Some v else assoc t k
  end.

Definition dreq_of (c : creq) : dreq hstore :=
  {| rq_tid := c_tid c; rq_uid := c_uid c; rq_fc := c_fc c; rq_dest := c_dest c;
     rq_exec := fun s =>
       ((fst s, snd s ++ [c_tag c]),
        match assoc (c_results c) (fst s) with
        | Some (ROk fc r code) => Ok {| rs_fc := fc; rs_respond := r; rs_code := code |}
        | Some (RRaise e) => Raise e
        | None => Ok {| rs_fc := -1; rs_respond := true; rs_code := None |}   (* never executed there: logs will differ *)
        end) |}.

(* an observed transmission: the tag of the request during whose execute() it happened *)
Record oout := { oo_for : Z; oo_out : out }.

(* one step of a history on a live server object: a request the framer delivered, or an edit of the
   hosted set made by the application between two reads (`del context[u]`, `context[u] = <new slave>`) *)
Inductive event := EvReq (c : creq) | EvDel (u : Z) | EvSet (u : Z).

Record scase := {
  k_fe : string;                   (* front-end name, key into GenServer.frontends *)
  k_cfg : scfg;
  k_hosted : list Z;               (* the hosted ids at the start, in dict order *)
  k_evs : list event;              (* delivered requests and hosted-set edits, in real order *)
  k_outs : list oout;              (* sent, in order *)
  k_logs : list (Z * list Z);      (* per unit hosted AT THE END (dict order): tags executed on that slave object *)
  k_changed : list Z;              (* units hosted at the end whose table dump differs from the one at their creation *)
  k_escaped : bool                 (* an exception escaped the callback *)
}.

Definition k_reqs (k : scase) : list creq :=
  flat_map (fun e => match e with EvReq c => [c] | _ => [] end) (k_evs k).

(* Python dict: `del d[k]` keeps the order of the rest; `d[k] = v` replaces in place or appends *)
Fixpoint a_del {A} (l : list (Z * A)) (k : Z) : list (Z * A) :=
  match l with
  | [] => []
  | (k', v) :: t => if k' =? k then t else (k', v) :: a_del t k
  end.
Fixpoint a_put {A} (l : list (Z * A)) (k : Z) (v : A) : list (Z * A) :=
  match l with
  | [] => [(k, v)]
  | (k', v') :: t => if k' =? k then (k', v) :: t else (k', v') :: a_put t k v
  end.

Definition optz_eqb := option_eqb Z.eqb.

Definition out_eqb (a b : out) : bool :=
  (o_tid a =? o_tid b) && (o_uid a =? o_uid b) && (o_fc a =? o_fc b) &&
  optz_eqb (o_code a) (o_code b) && (o_dest a =? o_dest b).

Definition log_eqb (a b : Z * list Z) : bool := (fst a =? fst b) && list_eqb Z.eqb (snd a) (snd b).

Fixpoint assoc_s {A} (l : list (string * A)) (k : string) : option A :=
  match l with
  | [] => None
  | (k', v) :: t => if String.eqb k' k then Some v else assoc_s t k
  end.

Section WithCode.
Variable C : server_code.
Variable FES : list (string * skel).

(* the model over a history: every maximal run of requests goes through [Server.serve]; an edit changes the
   hosted association list the way the dict is changed (a fresh slave context has an empty log) *)
Fixpoint run_events (sk : skel) (cfg : scfg) (l : units hstore) (pending : list creq) (evs : list event)
  : units hstore * list out * option pyexn :=
  match evs with
  | [] => serve hstore C sk cfg l (map dreq_of (rev pending))
  | EvReq c :: t => run_events sk cfg l (c :: pending) t
  | e :: t =>
      let '(l1, o1, e1) := serve hstore C sk cfg l (map dreq_of (rev pending)) in
      match e1 with
      | Some x => (l1, o1, Some x)
      | None =>
          let l1' := match e with
                     | EvDel u => a_del l1 u
                     | EvSet u => a_put l1 u (u, @nil Z)
                     | EvReq _ => l1
                     end in
          let '(l2, o2, e2) := run_events sk cfg l1' [] t in (l2, o1 ++ o2, e2)
      end
  end.

Definition model_agrees (k : scase) : bool :=
  match assoc_s FES (k_fe k) with
  | None => false
  | Some sk =>
      let l0 := map (fun u => (u, (u, @nil Z))) (k_hosted k) in
      let '(l1, outs, exn) := run_events sk (k_cfg k) l0 [] (k_evs k) in
      list_eqb out_eqb outs (map oo_out (k_outs k)) &&
      list_eqb log_eqb (map snd l1) (k_logs k) &&
      Bool.eqb (match exn with Some _ => true | None => false end) (k_escaped k)
  end.

(* ------------------------------------------------------------------ spec-side oracles *)

Definition is_bcast (cfg : scfg) (c : creq) : bool := cf_bcast cfg && (c_uid c =? 0).
Definition is_missing (cfg : scfg) (hosted : list Z) (c : creq) : bool :=
  negb (cf_single cfg) && negb (zmem (c_uid c) hosted).

(* result of request.execute on the addressed unit, when it was executed there *)
Definition addressed_result (cfg : scfg) (c : creq) : option eres :=
  assoc (c_results c) (if cf_single cfg then 0 else c_uid c).

Definition echoes (c : creq) (o : out) : bool :=
  (o_tid o =? c_tid c) && (o_uid o =? c_uid c) && (o_dest o =? c_dest c) &&
  ((o_fc o =? c_fc c) || (o_fc o =? Z.lor (c_fc c) 128)).

Definition gateway_exc (c : creq) (o : out) : bool :=
  (o_fc o =? Z.lor (c_fc c) 128) &&
  match o_code o with Some k => (k =? 10) || (k =? 11) | None => false end.

(* C09 for one delivered request, given the transmissions made on its behalf *)
Definition c09_req (cfg : scfg) (hosted : list Z) (c : creq) (os : list out) : bool :=
  if is_bcast cfg c then match os with [] => true | _ => false end
  else if is_missing cfg hosted c then
    (if cf_ignore cfg then match os with [] => true | _ => false end
     else match os with [o] => echoes c o && gateway_exc c o | _ => false end)
  else match addressed_result cfg c with
       | Some (ROk _ false _) => match os with [] => true | _ => false end       (* listen-only *)
       | Some (RRaise NoSuchSlaveExc) =>                                         (* datastore says "no such slave": either *)
           match os with [] => true | [o] => echoes c o | _ => false end
       | _ => match os with [o] => echoes c o | _ => false end
       end.

Fixpoint nondecreasing (l : list Z) : bool :=
  match l with
  | a :: ((b :: _) as t) => (a <=? b) && nondecreasing t
  | _ => true
  end.

Definition outs_for (k : scase) (c : creq) : list out :=
  map oo_out (filter (fun o => oo_for o =? c_tag c) (k_outs k)).

(* the ids hosted when each request arrives: the routing table of the property text on the CURRENT hosted set *)
Fixpoint keys_del (l : list Z) (k : Z) : list Z :=
  match l with [] => [] | a :: t => if a =? k then t else a :: keys_del t k end.
Definition keys_put (l : list Z) (k : Z) : list Z := if zmem k l then l else l ++ [k].

Fixpoint with_hosted (hs : list Z) (evs : list event) : list (list Z * creq) :=
  match evs with
  | [] => []
  | EvReq c :: t => (hs, c) :: with_hosted hs t
  | EvDel u :: t => with_hosted (keys_del hs u) t
  | EvSet u :: t => with_hosted (keys_put hs u) t
  end.

Definition prop_c09 (k : scase) : bool :=
  (* nothing spontaneous: every transmission happened while executing a delivered request *)
  forallb (fun o => existsb (fun c => c_tag c =? oo_for o) (k_reqs k)) (k_outs k) &&
  (* request order *)
  nondecreasing (map oo_for (k_outs k)) &&
  (* exactly one / none, echoing — judged on the hosted set at the time of the request *)
  forallb (fun hc => c09_req (k_cfg k) (fst hc) (snd hc) (outs_for k (snd hc))) (with_hosted (k_hosted k) (k_evs k)).

(* C10: which units execute a delivered request *)
Definition addressed (cfg : scfg) (u : Z) (c : creq) : bool :=
  if cf_single cfg then true
  else if is_bcast cfg c then true
  else c_uid c =? u.

(* spec routing over a history: per hosted slave object the tags it must have executed.  A request goes to the
   unit it addresses (all units on broadcast, the one context in single mode) among the units hosted WHEN IT
   ARRIVES; a deleted unit disappears with its log; a (re-)registered unit starts with an empty one. *)
Fixpoint spec_logs (cfg : scfg) (hl : list (Z * list Z)) (evs : list event) : list (Z * list Z) :=
  match evs with
  | [] => hl
  | EvReq c :: t =>
      spec_logs cfg (map (fun ul => if addressed cfg (fst ul) c then (fst ul, snd ul ++ [c_tag c]) else ul) hl) t
  | EvDel u :: t => spec_logs cfg (a_del hl u) t
  | EvSet u :: t => spec_logs cfg (a_put hl u []) t
  end.

Definition spec_final (k : scase) : list (Z * list Z) :=
  spec_logs (k_cfg k) (map (fun u => (u, @nil Z)) (k_hosted k)) (k_evs k).

(* C10 is judged in two independent parts, so that a known defect in one cannot absorb a failure of the other *)

(* stores: WHICH units execute WHICH requests *)
Definition prop_c10_stores (k : scase) : bool :=
  (* every hosted unit executed exactly the requests addressed to it (or broadcast), once each, in order *)
  list_eqb log_eqb (spec_final k) (k_logs k) &&
  (* tables of a unit nobody addressed are untouched *)
  forallb (fun u => match assoc (spec_final k) u with Some (_ :: _) => true | _ => false end) (k_changed k).

(* output: what is (not) sent for absent units and for broadcasts *)
Definition prop_c10_outs (k : scase) : bool :=
  (* absent unit (at the time of the request): no answer or a gateway exception *)
  forallb (fun hc => let c := snd hc in
                    if is_missing (k_cfg k) (fst hc) c && negb (is_bcast (k_cfg k) c)
                    then match outs_for k c with
                         | [] => true
                         | [o] => gateway_exc c o
                         | _ => false
                         end
                    else true) (with_hosted (k_hosted k) (k_evs k)) &&
  (* broadcast: no response, whatever happens on the units *)
  forallb (fun c => if is_bcast (k_cfg k) c then match outs_for k c with [] => true | _ => false end else true)
          (k_reqs k).

Definition prop_c10 (k : scase) : bool := prop_c10_stores k && prop_c10_outs k.

Definition chk_c09 (k : scase) : bool * bool := (model_agrees k, prop_c09 k).
Definition chk_c10 (k : scase) : bool * bool := (model_agrees k, prop_c10 k).
Definition chk_c10_stores (k : scase) : bool * bool := (model_agrees k, prop_c10_stores k).
Definition chk_c10_outs (k : scase) : bool * bool := (true, prop_c10_outs k).

(* ------------------------------------------------------------------ unit filter cases *)

Inductive fobs := FDelivered | FDropped | FRaised (e : pyexn).

Record fcase := { f_fe : string; f_cfg : scfg; f_hosted : list Z; f_uid : Z; f_obs : fobs }.

Definition fobs_of (r : res bool) : fobs :=
  match r with Ok true => FDelivered | Ok false => FDropped | Raise e => FRaised e end.

Definition fobs_eqb (a b : fobs) : bool :=
  match a, b with
  | FDelivered, FDelivered | FDropped, FDropped => true
  | FRaised e, FRaised f => pyexn_eqb e f
  | _, _ => false
  end.

(* spec: a frame for a hosted unit (any unit in single mode) reaches the server, and so does
   unit 0 when broadcast is enabled; a frame for a foreign unit may or may not be handed
   over (it is then answered with a gateway exception or ignored). *)
Definition prop_filter (f : fcase) : bool :=
  if cf_single (f_cfg f) || zmem (f_uid f) (f_hosted f) || (cf_bcast (f_cfg f) && (f_uid f =? 0))
  then fobs_eqb (f_obs f) FDelivered
  else match f_obs f with FRaised _ => false | _ => true end.

Definition chk_filter (f : fcase) : bool * bool :=
  (match assoc_s FES (f_fe f) with
   | None => false
   | Some sk => fobs_eqb (fobs_of (accepts C sk (f_cfg f) (f_hosted f) (f_uid f))) (f_obs f)
   end, prop_filter f).

End WithCode.
