(* Props/C02.v — Encode/decode are mutual inverses and encoding is pure.
   ONLY statements; proofs in proofs/Pdu_c02_proofs.v (on top of the C01 lemmas).
   Objects are values of [Pdu.obj]; a method that assigns attributes returns the new object:
   [encode_st o = (result, o')], [decode_into o data = Ok o'].  [fresh_like o] is a brand-new
   instance of o's class.  [abs o = Some m]: o stands for spec message m with every field within its
   wire width; field identity is stated on these messages ([msg_matches]: equal fields, read-bits
   lists up to the zero padding the wire carries).  All theorems quantify over all field values
   and list lengths. *)
From PM.theories Require Import Base Struct PduCls PduSpec Pdu CorrPdu.
From PM.Generated Require Import GenPdu.
From PM.proofs Require Import Pdu_proofs Pdu_more_proofs Pdu_dec_proofs Pdu_dec2_proofs Pdu_c02_proofs.
Open Scope string_scope.
Open Scope list_scope.
Open Scope Z_scope.

(* --- the generated encode and decode layouts of the fixed-format classes are symmetric -------- *)
Theorem C02_layouts_symmetric : enc_layouts = dec_layouts.
Proof. reflexivity. Qed.
Print Assumptions C02_layouts_symmetric.

(* --- round trip: decode (bytes([fc]) + encode()) has the same fields, for every class that is in
       the conforming lists of C01 (requests through the server decoder, responses and exception
       responses through the client decoder) --------------------------------------------------- *)
Theorem C02_roundtrip : forall o m,
  abs o = Some m -> mem_cls (class_of o) conforming_encode = true -> conforming_decode m = true ->
  exists b o' d, py_pdu o = Ok b /\ py_decode (msg_is_request m) b = Ok o' /\ class_of o' = spec_class m /\
                 abs o' = Some d /\ msg_matches m d = true.
Proof. exact roundtrip. Qed.
Print Assumptions C02_roundtrip.

(* --- encoding is pure: EVERY class, every object: a successful encode leaves an object on which
       encode returns the same bytes and which it does not change any more ---------------------- *)
Theorem C02_encode_pure : forall o b o1, encode_st o = (Ok b, o1) -> encode_st o1 = (Ok b, o1).
Proof. exact encode_pure. Qed.
Print Assumptions C02_encode_pure.

(* ... and encode assigns nothing at all except two derived attributes *)
Theorem C02_encode_state : forall o b o1, encode_st o = (Ok b, o1) ->
  mem_cls (class_of o) [WriteMultipleCoilsRequest; ReadDeviceInformationResponse] = false -> o1 = o.
Proof. exact encode_state. Qed.
Print Assumptions C02_encode_state.

Theorem C02_encode_state_coils : forall a vals bc b o1, encode_st (OWriteCoilsReq a vals bc) = (Ok b, o1) ->
  o1 = OWriteCoilsReq a vals ((zlen vals + 7) / 8).
Proof. exact encode_state_coils. Qed.
Print Assumptions C02_encode_state_coils.

(* --- re-encoding a freshly decoded object yields the bytes that were decoded; hence
       decode . encode . decode . encode = decode . encode ------------------------------------- *)
Theorem C02_fixed_point : forall m, spec_wf m = true -> conforming_decode m = true ->
  exists o', py_decode (msg_is_request m) (spec_pdu m) = Ok o' /\ py_pdu o' = Ok (spec_pdu m).
Proof. exact reencode. Qed.
Print Assumptions C02_fixed_point.

(* --- decoding into a used object leaves exactly what decoding into a new instance leaves, for
       every class except ReadWriteMultipleRegistersResponse ---------------------------------- *)
Theorem C02_decode_fresh : forall o data o',
  wf_shape o = true -> class_of o <> ReadWriteMultipleRegistersResponse ->
  decode_into o data = Ok o' ->
  exists f, decode_into (fresh_like o) data = Ok f /\ blank f = blank o'.
Proof. exact decode_fresh. Qed.
Print Assumptions C02_decode_fresh.

(* --- a decode that RAISES: for the listed classes nothing is assigned before the raising statement,
       so the instance is exactly as before; for the others [decode_partial] (tied to the real classes by
       the call-history suite) says which attributes are already assigned; the class never changes --- *)
Theorem C02_decode_raise_atomic : forall o data,
  wf_shape o = true -> mem_cls (class_of o) atomic_decode = true -> decode_partial o data = o.
Proof. exact decode_raise_atomic. Qed.
Print Assumptions C02_decode_raise_atomic.

Theorem C02_decode_partial_class : forall o data, class_of (decode_partial o data) = class_of o.
Proof. exact decode_partial_class. Qed.
Print Assumptions C02_decode_partial_class.

(* the partial-state function and a successful decode agree (register responses) *)
Theorem C02_decode_partial_registers : forall c regs data r,
  cls_eqb c ReadWriteMultipleRegistersResponse = false ->
  decode_into (ORegsRsp c regs) data = Ok r -> decode_partial (ORegsRsp c regs) data = r.
Proof. exact decode_partial_regs_complete. Qed.
Print Assumptions C02_decode_partial_registers.

(* --- where the pinned code violates the property ------------------------------------------------ *)
Definition C02_full_statement : Prop :=
  (forall o m, abs o = Some m ->
     exists b o' d, py_pdu o = Ok b /\ py_decode (msg_is_request m) b = Ok o' /\ class_of o' = spec_class m /\
                    abs o' = Some d /\ msg_matches m d = true) /\
  (forall o data o', wf_shape o = true -> decode_into o data = Ok o' ->
     exists f, decode_into (fresh_like o) data = Ok f /\ blank f = blank o').

Theorem C02_decode_fresh_rwm_refuted :
  exists o data o', wf_shape o = true /\ decode_into o data = Ok o' /\
    forall f, decode_into (fresh_like o) data = Ok f -> blank f <> blank o'.
Proof. exact decode_fresh_rwm_refuted. Qed.
Print Assumptions C02_decode_fresh_rwm_refuted.

Theorem C02_fifo_roundtrip_refuted :
  exists o b o', class_of o = ReadFifoQueueResponse /\ py_pdu o = Ok b /\ py_decode false b = Ok o' /\ obj_match o o' = false.
Proof. exact fifo_roundtrip_refuted. Qed.
Print Assumptions C02_fifo_roundtrip_refuted.

Theorem C02_file_response_roundtrip_refuted :
  exists o b o', class_of o = ReadFileRecordResponse /\ py_pdu o = Ok b /\ py_decode false b = Ok o' /\ obj_match o o' = false.
Proof. exact file_response_roundtrip_refuted. Qed.
Print Assumptions C02_file_response_roundtrip_refuted.

Theorem C02_slave_id_roundtrip_refuted :
  exists o b o', class_of o = ReportSlaveIdResponse /\ py_pdu o = Ok b /\ py_decode false b = Ok o' /\ obj_match o o' = false.
Proof. exact slave_id_roundtrip_refuted. Qed.
Print Assumptions C02_slave_id_roundtrip_refuted.

Theorem C02_diag_request_roundtrip_refuted :
  exists o b, class_of o = ReturnQueryDataRequest /\ py_pdu o = Ok b /\ py_decode true b = Raise StructError.
Proof. exact diag_request_roundtrip_refuted. Qed.
Print Assumptions C02_diag_request_roundtrip_refuted.

(* --- the hypotheses are satisfiable by non-trivial values --------------------------------------- *)
Example C02_nonvacuous :
  let o := ORWReq 3 6 14 [10; 11; 65535] 3 6 in
  abs o = Some (MReadWriteRegsReq 3 6 14 [10; 11; 65535]) /\
  mem_cls (class_of o) conforming_encode = true /\ conforming_decode (MReadWriteRegsReq 3 6 14 [10; 11; 65535]) = true /\
  py_decode true [23; 0; 3; 0; 6; 0; 14; 0; 3; 6; 0; 10; 0; 11; 255; 255]%N = Ok o /\
  wf_shape o = true /\
  encode_st (OWriteCoilsReq 1 [true; true; false] 77) = (Ok [0; 1; 0; 3; 1; 3]%N, OWriteCoilsReq 1 [true; true; false] 1).
Proof. repeat split; vm_compute; reflexivity. Qed.
