(* DevInfo_proofs.v — lemmas about the Read Device Identification model instantiated with the
   GENERATED record Generated/GenDevInfo.code (what /repo's mei_message.py / device.py say now).
   The "code lemmas" of the first section are the only places where the generated expressions
   are unfolded; a changed constant, comparison or range bound breaks them or what follows. *)
From PM.theories Require Import Base Expr DevInfo.
From PM.Generated Require Import GenDevInfo.
From Coq Require Import ZifyBool.
Open Scope string_scope.
Open Scope list_scope.
Open Scope Z_scope.

Ltac Zify.zify_post_hook ::= Z.to_euclidean_division_equations.

Lemma z2b_b2z b : z2b (b2z b) = b.
Proof. destruct b; reflexivity. Qed.

(* ------------------------------------------------------------------ code lemmas *)

Lemma space0_eq : space0 code = 247.
Proof. reflexivity. Qed.

Lemma space_after_eq space v :
  eval (env_of [("self.space_left", space); ("len(data)", blen v)]) (c_space_after code)
  = space - (2 + blen v).
Proof. reflexivity. Qed.

Lemma out_of_space_eq s :
  beval (env_of [("self.space_left", s)]) (c_out_of_space code) = (s <=? 0).
Proof. unfold beval. cbn. apply z2b_b2z. Qed.

Lemma page_objs_cons space k v t :
  page_objs code space ((k, v) :: t) =
  if space - (2 + blen v) <=? 0 then ([], Some k)
  else let '(acc, oos) := page_objs code (space - (2 + blen v)) t in ((k, v) :: acc, oos).
Proof. cbn [page_objs]. rewrite space_after_eq, out_of_space_eq. reflexivity. Qed.

Lemma reject_object_id_eq oid :
  beval (env_of [("self.object_id", oid)]) (c_reject_object_id code) = negb ((0 <=? oid) && (oid <=? 255)).
Proof. unfold beval. cbn. rewrite !z2b_b2z. reflexivity. Qed.

Lemma reject_read_code_eq c :
  beval (env_of [("self.read_code", c)]) (c_reject_read_code code) = negb ((1 <=? c) && (c <=? 4)).
Proof. unfold beval. cbn. rewrite !z2b_b2z. reflexivity. Qed.

Lemma code_constants :
  c_fc code = 43 /\ c_sub code = 14 /\ c_conformity code = 131 /\ c_more_nothing code = 0
  /\ c_more_keep code = 255 /\ c_exc_object_id code = 3 /\ c_exc_read_code code = 3.
Proof. repeat split. Qed.

(* ------------------------------------------------------------------ sizes *)

Lemma objs_size_cons o t : objs_size (o :: t) = 2 + blen (snd o) + objs_size t.
Proof. reflexivity. Qed.

Lemma objs_size_nonneg l : 0 <= objs_size l.
Proof. induction l as [|o t IH]; [cbn; lia|]. rewrite objs_size_cons. unfold blen. lia. Qed.

(* the space accounting never lets the accepted objects reach the initial space *)
Lemma page_objs_size objs : forall space, 0 < space ->
  objs_size (fst (page_objs code space objs)) < space.
Proof.
  induction objs as [|[k v] t IH]; intros space Hs.
  - cbn. lia.
  - rewrite page_objs_cons. destruct (space - (2 + blen v) <=? 0) eqn:E.
    + cbn. lia.
    + specialize (IH (space - (2 + blen v)) ltac:(lia)).
      destruct (page_objs code (space - (2 + blen v)) t) as [acc oos].
      cbn [fst] in *. rewrite objs_size_cons. cbn [snd]. lia.
Qed.

Lemma pack_bytes_length vs : forall b, pack_bytes vs = Ok b -> length b = length vs.
Proof.
  induction vs as [|v t IH]; intros b H; cbn [pack_bytes] in H.
  - inversion H; reflexivity.
  - destruct ((0 <=? v) && (v <? 256)); [|discriminate].
    destruct (pack_bytes t) as [r|e]; cbn [bind] in H; [|discriminate].
    inversion H; subst. cbn [length]. f_equal. apply IH. reflexivity.
Qed.

Lemma ser_objs_length objs : forall b, ser_objs objs = Ok b -> Z.of_nat (length b) = objs_size objs.
Proof.
  induction objs as [|[k v] t IH]; intros b H; cbn [ser_objs] in H.
  - inversion H; reflexivity.
  - destruct (pack_bytes [k; blen v]) as [h|e] eqn:Eh; cbn [bind] in H; [|discriminate].
    destruct (ser_objs t) as [r|e] eqn:Er; cbn [bind] in H; [|discriminate].
    inversion H; subst. apply pack_bytes_length in Eh. cbn [length] in Eh.
    rewrite !app_length, Eh, objs_size_cons. cbn [snd].
    specialize (IH r eq_refl). unfold blen. lia.
Qed.

Lemma encode_page_length p b :
  encode_page code p = Ok b -> Z.of_nat (length b) = 6 + objs_size (pg_objs p).
Proof.
  unfold encode_page. intros H.
  destruct (pack_bytes [c_sub code; pg_code p; c_conformity code]) as [h1|e] eqn:E1; cbn [bind] in H; [|discriminate].
  destruct (ser_objs (pg_objs p)) as [body|e] eqn:E2; cbn [bind] in H; [|discriminate].
  destruct (pack_bytes [pg_more p; pg_next p; Z.of_nat (length (pg_objs p))]) as [h2|e] eqn:E3; cbn [bind] in H; [|discriminate].
  inversion H; subst. apply pack_bytes_length in E1, E3. apply ser_objs_length in E2.
  rewrite !app_length, E1, E3. cbn [length]. lia.
Qed.

Lemma page_of_objs rc info : pg_objs (page_of code rc info) = fst (page_objs code (space0 code) info).
Proof. unfold page_of. destruct (page_objs code (space0 code) info); reflexivity. Qed.

(* every reply PDU, whatever the identity, read code and start id *)
Lemma reply_bound idn c oid pdu :
  server_reply code idn c oid = Ok pdu -> Z.of_nat (length pdu) <= max_pdu.
Proof.
  unfold server_reply, max_pdu. intros H.
  destruct (execute code idn c oid) as [[e|rc info]|e]; cbn [bind] in H; [| |discriminate].
  - destruct (pack_bytes [c_fc code + 128; e]) as [b|x] eqn:E; cbn [bind] in H; [|discriminate].
    inversion H; subst. apply pack_bytes_length in E. rewrite E. cbn. lia.
  - destruct (encode_page code (page_of code rc info)) as [b|x] eqn:E; cbn [bind] in H; [|discriminate].
    inversion H; subst. apply encode_page_length in E. rewrite page_of_objs in E.
    pose proof (page_objs_size info (space0 code)) as Hs. rewrite space0_eq in *.
    specialize (Hs ltac:(lia)). cbn [length]. lia.
Qed.

(* ------------------------------------------------------------------ the 245-byte object *)

Lemma too_long_unsatisfiable (o : object) : blen (snd o) = 245 -> min_pdu_with o > max_pdu.
Proof. unfold min_pdu_with, obj_size, max_pdu. lia. Qed.

Definition long_value : bytes := repeat 65%N 245.
Definition long_identity : identity := id_of [(0, long_value)].

Definition empty_page_response : response :=
  {| rs_sub := 14; rs_code := 1; rs_conformity := 131; rs_more := 255; rs_next := 0; rs_count := 0; rs_info := [] |}.

Lemma transact_long : transact code long_identity 1 0 = DOk (RResp empty_page_response).
Proof. vm_compute. reflexivity. Qed.

Lemma chain_long_forever fuel :
  chain code long_identity 1 0 fuel = (repeat empty_page_response fuel, ChainOutOfFuel).
Proof.
  induction fuel as [|f IH]; [reflexivity|].
  cbn [chain]. rewrite transact_long. cbn [rs_more rs_next empty_page_response Z.eqb Pos.eqb].
  rewrite IH. reflexivity.
Qed.

(* every read code outside 1..4 is answered with exception 03 (IllegalValue) - read code 0
   included since /repo 9a34217 - and nothing is looked up *)
Lemma invalid_read_code idn c oid :
  0 <= oid <= 255 -> ~ (1 <= c <= 4) -> execute code idn c oid = Ok (ExcResponse 3).
Proof.
  intros H Hc. unfold execute. rewrite reject_object_id_eq, reject_read_code_eq.
  replace ((0 <=? oid) && (oid <=? 255)) with true by lia.
  replace ((1 <=? c) && (c <=? 4)) with false by lia. reflexivity.
Qed.


(* ================================================================== completeness *)
From Coq Require Import Sorting.Sorted.

(* ------------------------------------------------------------------ lists *)

Lemma filter_none {A} (p : A -> bool) l : (forall x, In x l -> p x = false) -> filter p l = [].
Proof.
  induction l as [|a t IH]; intros H; [reflexivity|]. cbn [filter].
  rewrite (H a (or_introl eq_refl)). apply IH. intros x Hx. apply H. right; exact Hx.
Qed.

Lemma filter_all {A} (p : A -> bool) l : (forall x, In x l -> p x = true) -> filter p l = l.
Proof.
  induction l as [|a t IH]; intros H; [reflexivity|]. cbn [filter].
  rewrite (H a (or_introl eq_refl)). f_equal. apply IH. intros x Hx. apply H. right; exact Hx.
Qed.

Lemma filter_len_le {A} (p : A -> bool) l : (length (filter p l) <= length l)%nat.
Proof. induction l as [|a t IH]; [apply le_n|]. cbn [filter]. destruct (p a); cbn [length]; lia. Qed.

Lemma filter_comm {A} (p q : A -> bool) l : filter p (filter q l) = filter q (filter p l).
Proof.
  induction l as [|a t IH]; [reflexivity|]. cbn [filter].
  destruct (q a) eqn:Eq, (p a) eqn:Ep; cbn [filter]; rewrite ?Eq, ?Ep, IH; reflexivity.
Qed.

Lemma filter_weaker {A} (p q : A -> bool) l :
  (forall x, p x = true -> q x = true) -> filter p (filter q l) = filter p l.
Proof.
  intros H. induction l as [|a t IH]; [reflexivity|]. cbn [filter].
  destruct (q a) eqn:Eq; cbn [filter].
  - rewrite IH. reflexivity.
  - destruct (p a) eqn:Ep; [rewrite (H a Ep) in Eq; discriminate | exact IH].
Qed.

Lemma zrange_app a m n : zrange a (m + n) = zrange a m ++ zrange (a + Z.of_nat m) n.
Proof.
  revert a. induction m as [|m IH]; intros a.
  - cbn [plus zrange app Z.of_nat]. rewrite Z.add_0_r. reflexivity.
  - cbn [plus zrange app]. rewrite IH. do 3 f_equal. lia.
Qed.

Lemma zrange_In a n x : In x (zrange a n) <-> a <= x < a + Z.of_nat n.
Proof.
  revert a. induction n as [|n IH]; intros a; cbn [zrange In].
  - lia.
  - rewrite IH. lia.
Qed.

Lemma py_range_In lo hi x : In x (py_range lo hi) <-> lo <= x < hi.
Proof. unfold py_range. rewrite zrange_In. lia. Qed.

Lemma py_range_filter lo hi : 0 <= lo ->
  py_range lo hi = filter (fun k => lo <=? k) (py_range 0 hi).
Proof.
  intros Hlo. unfold py_range. destruct (Z_le_gt_dec lo hi) as [H|H].
  - replace (Z.to_nat (hi - 0)) with (Z.to_nat lo + Z.to_nat (hi - lo))%nat by lia.
    rewrite zrange_app, filter_app.
    rewrite filter_none by (intros x Hx; apply zrange_In in Hx; lia).
    rewrite filter_all by (intros x Hx; apply zrange_In in Hx; lia).
    cbn [app]. f_equal. lia.
  - replace (Z.to_nat (hi - lo)) with O by lia. cbn [zrange].
    symmetry. apply filter_none. intros x Hx. apply zrange_In in Hx. lia.
Qed.

(* ------------------------------------------------------------------ objects_of *)

Lemma objects_of_filter idn p ids :
  objects_of idn (filter p ids) = filter (fun o => p (fst o)) (objects_of idn ids).
Proof.
  unfold objects_of. induction ids as [|k t IH]; [reflexivity|]. cbn [filter map].
  destruct (p k) eqn:Ep; cbn [map filter].
  - destruct (obj_nonempty (k, idn k)) eqn:En; cbn [filter fst]; rewrite ?Ep, IH; reflexivity.
  - destruct (obj_nonempty (k, idn k)) eqn:En; cbn [filter fst]; rewrite ?Ep, IH; reflexivity.
Qed.

Lemma objects_of_In idn ids k v :
  In (k, v) (objects_of idn ids) <-> In k ids /\ v = idn k /\ nonempty v = true.
Proof.
  unfold objects_of. rewrite filter_In, in_map_iff. unfold obj_nonempty. cbn [snd]. split.
  - intros [[x [Hx Hin]] Hn]. inversion Hx; subst. auto.
  - intros [Hin [-> Hn]]. split; [exists k; auto | exact Hn].
Qed.

Definition allobjs (idn : identity) (c : Z) : list object := objects_of idn (category c).
Definition from (s : Z) (o : object) : bool := s <=? fst o.

Lemma expected_alt idn c s : expected idn c s = filter (from s) (allobjs idn c).
Proof. unfold expected, allobjs. apply objects_of_filter. Qed.

(* ------------------------------------------------------------------ strictly increasing ids *)

Definition lt_id (a b : object) : Prop := fst a < fst b.

Fixpoint incrb (l : list Z) : bool :=
  match l with [] => true | x :: t => forallb (Z.ltb x) t && incrb t end.

Lemma incrb_sound l : incrb l = true -> StronglySorted Z.lt l.
Proof.
  induction l as [|x t IH]; intros H; [constructor|]. cbn [incrb] in H.
  apply andb_prop in H as [H1 H2]. constructor; [auto|].
  apply Forall_forall. intros y Hy. rewrite forallb_forall in H1. specialize (H1 y Hy). lia.
Qed.

Lemma category_sorted c : StronglySorted Z.lt (category c).
Proof.
  unfold category. destruct (c =? 1); [apply incrb_sound; vm_compute; reflexivity|].
  destruct (c =? 2); [apply incrb_sound; vm_compute; reflexivity|].
  destruct (c =? 3); [apply incrb_sound; vm_compute; reflexivity|constructor].
Qed.

Lemma category_bounds c k : In k (category c) -> 0 <= k <= 255.
Proof.
  assert (H : forallb (fun k => (0 <=? k) && (k <=? 255)) (category c) = true).
  { unfold category. destruct (c =? 1); [vm_compute; reflexivity|].
    destruct (c =? 2); [vm_compute; reflexivity|]. destruct (c =? 3); vm_compute; reflexivity. }
  rewrite forallb_forall in H. intros Hk. specialize (H k Hk). lia.
Qed.

Lemma sorted_objects idn ids : StronglySorted Z.lt ids -> StronglySorted lt_id (objects_of idn ids).
Proof.
  unfold objects_of. induction 1 as [|k t Hs IH Hf]; cbn [map filter]; [constructor|].
  destruct (obj_nonempty (k, idn k)); [|exact IH]. constructor; [exact IH|].
  apply Forall_forall. intros [k' v'] Hin. apply filter_In in Hin as [Hin _].
  apply in_map_iff in Hin as [x [Hx Hin]]. inversion Hx; subst.
  rewrite Forall_forall in Hf. unfold lt_id; cbn [fst]. apply Hf. exact Hin.
Qed.

Lemma sorted_filter {A} (R : A -> A -> Prop) p l : StronglySorted R l -> StronglySorted R (filter p l).
Proof.
  induction 1 as [|a t Hs IH Hf]; cbn [filter]; [constructor|].
  destruct (p a); [|exact IH]. constructor; [exact IH|].
  apply Forall_forall. intros x Hx. apply filter_In in Hx as [Hx _].
  rewrite Forall_forall in Hf. auto.
Qed.

Lemma allobjs_sorted idn c : StronglySorted lt_id (allobjs idn c).
Proof. apply sorted_objects, category_sorted. Qed.

Lemma expected_sorted idn c s : StronglySorted lt_id (expected idn c s).
Proof. rewrite expected_alt. apply sorted_filter, allobjs_sorted. Qed.

Lemma sorted_app_before acc x rest :
  StronglySorted lt_id (acc ++ x :: rest) -> Forall (fun a => lt_id a x) acc.
Proof.
  induction acc as [|a t IH]; intros H; [constructor|]. cbn [app] in H.
  inversion H as [|? ? Hs Hf]; subst. constructor.
  - rewrite Forall_forall in Hf. apply Hf. apply in_or_app. right. left. reflexivity.
  - apply IH. exact Hs.
Qed.

Lemma sorted_app_tail acc l : StronglySorted lt_id (acc ++ l) -> StronglySorted lt_id l.
Proof. induction acc as [|a t IH]; intros H; [exact H|]. inversion H; subst. auto. Qed.

(* the suffix of a strictly increasing list that starts at x is "everything from x's id on" *)
Lemma suffix_is_filter acc x rest :
  StronglySorted lt_id (acc ++ x :: rest) ->
  filter (from (fst x)) (acc ++ x :: rest) = x :: rest.
Proof.
  intros H. rewrite filter_app.
  pose proof (sorted_app_before _ _ _ H) as Hb. pose proof (sorted_app_tail _ _ H) as Ht.
  rewrite filter_none.
  - cbn [app]. apply filter_all. intros y [Hy|Hy]; unfold from; [subst y; lia|].
    inversion Ht as [|? ? _ Hf]; subst. rewrite Forall_forall in Hf. specialize (Hf y Hy).
    unfold lt_id in Hf. lia.
  - intros y Hy. rewrite Forall_forall in Hb. specialize (Hb y Hy). unfold lt_id, from in *. lia.
Qed.

Lemma sorted_nodup l : StronglySorted lt_id l -> NoDup (map fst l).
Proof.
  induction 1 as [|a t Hs IH Hf]; cbn [map]; constructor; [|exact IH].
  intros Hin. apply in_map_iff in Hin as [y [Hy Hin]]. rewrite Forall_forall in Hf.
  specialize (Hf y Hin). unfold lt_id in Hf. lia.
Qed.

(* ------------------------------------------------------------------ what the factory returns *)

Definition skip3 (x : Z) : bool := negb ((7 <=? x) && (x <? 128)).

Lemma factory_get_1 idn oid : factory_get code idn 1 oid = Ok (objects_of idn (py_range oid 3)).
Proof. reflexivity. Qed.

Lemma factory_get_2 idn oid :
  factory_get code idn 2 oid =
  Ok (objects_of idn (if nonempty (idn oid) then py_range oid 7 else py_range 0 7)).
Proof. reflexivity. Qed.

Lemma factory_get_3 idn oid :
  factory_get code idn 3 oid =
  Ok (objects_of idn (if nonempty (idn oid) then filter skip3 (py_range oid 256)
                      else filter skip3 (py_range 0 256))).
Proof. reflexivity. Qed.

Lemma factory_get_4 idn oid : factory_get code idn 4 oid = Ok [(oid, idn oid)].
Proof. reflexivity. Qed.

Lemma category_1 : category 1 = py_range 0 3. Proof. reflexivity. Qed.
Lemma category_2 : category 2 = py_range 0 7. Proof. reflexivity. Qed.
Lemma category_3 : category 3 = filter skip3 (py_range 0 256). Proof. vm_compute. reflexivity. Qed.

Lemma from0 idn c : expected idn c 0 = allobjs idn c.
Proof.
  rewrite expected_alt. apply filter_all. intros [k v] Hin. unfold allobjs in Hin.
  apply objects_of_In in Hin as [Hk _]. apply category_bounds in Hk. unfold from; cbn [fst]. lia.
Qed.

(* stream access: the objects of the category from s on, where s is the requested id, or 0
   when (codes 2, 3) the requested object is not configured *)
Definition stream_start (idn : identity) (c oid : Z) : Z :=
  if (c =? 1) || nonempty (idn oid) then oid else 0.

Lemma stream_get idn c oid :
  c = 1 \/ c = 2 \/ c = 3 -> 0 <= oid ->
  factory_get code idn c oid = Ok (expected idn c (stream_start idn c oid)).
Proof.
  intros Hc Hoid. unfold stream_start. destruct Hc as [-> | [-> | ->]].
  - rewrite factory_get_1. cbn [Z.eqb Pos.eqb orb]. unfold expected. rewrite category_1.
    rewrite (py_range_filter oid 3 Hoid). reflexivity.
  - rewrite factory_get_2. cbn [Z.eqb Pos.eqb orb]. destruct (nonempty (idn oid)).
    + unfold expected. rewrite category_2, (py_range_filter oid 7 Hoid). reflexivity.
    + rewrite from0. reflexivity.
  - rewrite factory_get_3. cbn [Z.eqb Pos.eqb orb]. destruct (nonempty (idn oid)).
    + unfold expected. rewrite category_3, (py_range_filter oid 256 Hoid), filter_comm. reflexivity.
    + rewrite from0. unfold allobjs. rewrite category_3. reflexivity.
Qed.

Lemma execute_ok idn c oid :
  1 <= c <= 4 -> 0 <= oid <= 255 ->
  execute code idn c oid = (do info <- factory_get code idn c oid; Ok (InfoResponse c info)).
Proof.
  intros Hc Ho. unfold execute. rewrite reject_object_id_eq, reject_read_code_eq.
  replace ((0 <=? oid) && (oid <=? 255)) with true by lia.
  replace ((1 <=? c) && (c <=? 4)) with true by lia. cbn [negb].
  replace (c =? 0) with false by lia. reflexivity.
Qed.

(* ------------------------------------------------------------------ one page *)

Definition fits (idn : identity) : Prop := forall k, blen (idn k) <= 244.

Lemma page_objs_split objs : forall space acc oos,
  page_objs code space objs = (acc, oos) ->
  match oos with
  | None => acc = objs
  | Some k => exists v rest, objs = acc ++ (k, v) :: rest
  end.
Proof.
  induction objs as [|[k v] t IH]; intros space acc oos H.
  - cbn in H. inversion H; subst. reflexivity.
  - rewrite page_objs_cons in H. destruct (space - (2 + blen v) <=? 0).
    + inversion H; subst. exists v, t. reflexivity.
    + destruct (page_objs code (space - (2 + blen v)) t) as [acc' oos'] eqn:E.
      inversion H; subst. specialize (IH _ _ _ E). destruct oos as [k'|].
      * destruct IH as [v' [rest ->]]. exists v', rest. reflexivity.
      * subst. reflexivity.
Qed.

(* an object of at most 244 bytes at the head of the list is always accepted on a fresh page *)
Lemma page_objs_progress k v t acc oos :
  blen v <= 244 -> page_objs code (space0 code) ((k, v) :: t) = (acc, oos) -> acc <> [].
Proof.
  intros Hv H. rewrite space0_eq, page_objs_cons in H.
  destruct (247 - (2 + blen v) <=? 0) eqn:E; [lia|].
  destruct (page_objs code (247 - (2 + blen v)) t). inversion H; subst. discriminate.
Qed.

(* ------------------------------------------------------------------ the chain *)

Lemma expected_from_member idn c s k v :
  In (k, v) (expected idn c s) -> s <= k /\ 0 <= k <= 255 /\ v = idn k /\ nonempty (idn k) = true.
Proof.
  rewrite expected_alt. intros H. apply filter_In in H as [Hin Hf]. unfold allobjs in Hin.
  apply objects_of_In in Hin as [Hk [-> Hn]]. unfold from in Hf; cbn [fst] in Hf.
  repeat split; try (apply category_bounds in Hk); try lia. exact Hn.
Qed.

Lemma expected_suffix idn c s acc k v rest :
  expected idn c s = acc ++ (k, v) :: rest -> expected idn c k = (k, v) :: rest.
Proof.
  intros H. assert (Hs : s <= k).
  { apply (expected_from_member idn c s k v). rewrite H. apply in_or_app. right. left. reflexivity. }
  rewrite expected_alt. rewrite <- (filter_weaker (from k) (from s)) by (unfold from; intros; lia).
  rewrite <- expected_alt. rewrite H.
  pose proof (suffix_is_filter acc (k, v) rest) as Hsf. cbn [fst] in Hsf.
  pose proof (expected_sorted idn c s) as Hsort. rewrite H in Hsort. exact (Hsf Hsort).
Qed.

Definition stream_code (c : Z) : Prop := c = 1 \/ c = 2 \/ c = 3.

Lemma pchain_S idn c oid f :
  pchain code idn c oid (S f) =
  match execute code idn c oid with
  | Ok (InfoResponse rc info) =>
      let p := page_of code rc info in
      if pg_more p =? 255 then
        let '(ps, e) := pchain code idn c (pg_next p) f in (p :: ps, e)
      else ([p], PDone)
  | Ok (ExcResponse e) => ([], PExc e)
  | Raise e => ([], PRaises e)
  end.
Proof. reflexivity. Qed.

Lemma pchain_from idn c : fits idn -> stream_code c ->
  forall n start s, 0 <= start <= 255 ->
    factory_get code idn c start = Ok (expected idn c s) ->
    (length (expected idn c s) <= n)%nat ->
    exists ps, pchain code idn c start (S n) = (ps, PDone)
               /\ concat (map pg_objs ps) = expected idn c s
               /\ (length ps <= S n)%nat.
Proof.
  intros Hfit Hc. induction n as [|n IH]; intros start s Hst Hget Hlen.
  - destruct (expected idn c s) as [|o t] eqn:E; [|cbn in Hlen; lia].
    rewrite pchain_S, execute_ok by (unfold stream_code in Hc; lia). rewrite Hget. cbn [bind].
    exists [page_of code c []]. vm_compute. auto.
  - rewrite pchain_S, execute_ok by (unfold stream_code in Hc; lia). rewrite Hget. cbn [bind].
    cbv zeta. unfold page_of. destruct (page_objs code (space0 code) (expected idn c s)) as [acc oos] eqn:E.
    pose proof (page_objs_split _ _ _ _ E) as Hsp. destruct oos as [k|].
    + destruct Hsp as [v [rest Hsp]]. cbn [pg_more pg_next].
      replace (c_more_keep code =? 255) with true by reflexivity.
      assert (Hmem : In (k, v) (expected idn c s)) by (rewrite Hsp; apply in_or_app; right; left; reflexivity).
      apply expected_from_member in Hmem as [Hsk [Hk [Hv Hne]]].
      assert (Hacc : acc <> []).
      { destruct (expected idn c s) as [|[k0 v0] t0] eqn:E0.
        - destruct acc; discriminate.
        - eapply page_objs_progress; [|exact E].
          assert (Hin0 : In (k0, v0) (expected idn c s)) by (rewrite E0; left; reflexivity).
          apply expected_from_member in Hin0 as [_ [_ [-> _]]]. apply Hfit. }
      pose proof (expected_suffix _ _ _ _ _ _ _ Hsp) as Hnext.
      assert (Hget' : factory_get code idn c k = Ok (expected idn c k)).
      { rewrite stream_get by (auto; lia). unfold stream_start. rewrite Hne, orb_true_r. reflexivity. }
      assert (Hlen' : (length (expected idn c k) <= n)%nat).
      { rewrite Hnext. rewrite Hsp, app_length in Hlen. destruct acc; [congruence|]. cbn [length] in *. lia. }
      destruct (IH k k ltac:(lia) Hget' Hlen') as [ps [Hp [Hcat Hl]]].
      rewrite Hp. eexists. split; [reflexivity|]. cbn [map concat pg_objs length].
      rewrite Hcat, Hnext, Hsp. split; [reflexivity | lia].
    + subst acc. cbn [pg_more].
      replace (c_more_nothing code =? 255) with false by reflexivity.
      eexists. split; [reflexivity|]. cbn [map concat pg_objs length]. rewrite app_nil_r. split; [reflexivity | lia].
Qed.

(* start_ok, as a proposition over Z *)
Lemma start_ok_get idn c oid :
  stream_code c -> start_ok idn c oid = true ->
  0 <= oid <= 255 /\ factory_get code idn c oid = Ok (expected idn c oid).
Proof.
  intros Hc H. unfold start_ok in H. apply orb_prop in H as [H|H].
  - assert (oid = 0) by lia. subst. split; [lia|]. rewrite stream_get by (auto; lia).
    unfold stream_start. destruct ((c =? 1) || nonempty (idn 0)); reflexivity.
  - apply andb_prop in H as [Hin Hne]. apply existsb_exists in Hin as [x [Hx Heq]].
    assert (x = oid) by lia. subst x. pose proof (category_bounds _ _ Hx) as Hb. split; [lia|].
    rewrite stream_get by (auto; lia). unfold stream_start. rewrite Hne, orb_true_r. reflexivity.
Qed.

Lemma complete_pages idn c oid fuel :
  fits idn -> stream_code c -> start_ok idn c oid = true ->
  (length (expected idn c oid) < fuel)%nat ->
  exists ps, pchain code idn c oid fuel = (ps, PDone)
             /\ concat (map pg_objs ps) = expected idn c oid
             /\ NoDup (map fst (concat (map pg_objs ps))).
Proof.
  intros Hfit Hc Hs Hf. destruct (start_ok_get _ _ _ Hc Hs) as [Hb Hget].
  destruct fuel as [|n]; [lia|].
  destruct (pchain_from idn c Hfit Hc n oid oid Hb Hget ltac:(lia)) as [ps [Hp [Hcat _]]].
  exists ps. split; [exact Hp|]. split; [exact Hcat|]. rewrite Hcat. apply sorted_nodup, expected_sorted.
Qed.

(* any start id: the chain terminates (and returns the stream from the effective start) *)
Lemma other_start_terminates idn c oid fuel :
  fits idn -> stream_code c -> 0 <= oid <= 255 ->
  (length (category c) < fuel)%nat ->
  exists ps, pchain code idn c oid fuel = (ps, PDone)
             /\ concat (map pg_objs ps) = expected idn c (stream_start idn c oid).
Proof.
  intros Hfit Hc Hb Hf. destruct fuel as [|n]; [lia|].
  assert (Hlen : (length (expected idn c (stream_start idn c oid)) <= n)%nat).
  { unfold expected, objects_of. eapply Nat.le_trans; [apply filter_len_le|].
    rewrite map_length. eapply Nat.le_trans; [apply filter_len_le|]. lia. }
  destruct (pchain_from idn c Hfit Hc n oid _ Hb (stream_get idn c oid Hc ltac:(lia)) Hlen) as [ps [Hp [Hcat _]]].
  exists ps. auto.
Qed.

(* individual access *)
Lemma individual_page idn oid fuel :
  0 <= oid <= 255 -> blen (idn oid) <= 244 -> (0 < fuel)%nat ->
  pchain code idn 4 oid fuel =
  ([{| pg_code := 4; pg_more := 0; pg_next := 0; pg_objs := [(oid, idn oid)] |}], PDone).
Proof.
  intros Hb Hv Hf. destruct fuel as [|n]; [lia|]. cbn [pchain].
  rewrite execute_ok by lia. rewrite factory_get_4. cbn [bind]. unfold page_of.
  rewrite space0_eq, page_objs_cons. destruct (247 - (2 + blen (idn oid)) <=? 0) eqn:E; [lia|].
  cbn [page_objs pg_more pg_next]. reflexivity.
Qed.

(* the property's own quantifier (values up to 245 bytes) is not satisfiable by this code *)
Lemma pchain_long_forever fuel : snd (pchain code long_identity 1 0 fuel) = POutOfFuel.
Proof.
  induction fuel as [|f IH]; [reflexivity|]. rewrite pchain_S.
  replace (execute code long_identity 1 0) with (Ok (InfoResponse 1 [(0, long_value)])) by (vm_compute; reflexivity).
  cbv zeta. replace (page_of code 1 [(0, long_value)])
    with {| pg_code := 1; pg_more := 255; pg_next := 0; pg_objs := [] |} by (vm_compute; reflexivity).
  cbn [pg_more pg_next Z.eqb Pos.eqb]. destruct (pchain code long_identity 1 0 f) as [ps e]. exact IH.
Qed.

Lemma full_statement_refuted :
  ~ (forall idn c oid,
       (forall k, blen (idn k) <= 245) -> stream_code c -> start_ok idn c oid = true ->
       exists fuel ps, pchain code idn c oid fuel = (ps, PDone)
                       /\ concat (map pg_objs ps) = expected idn c oid).
Proof.
  intros H. destruct (H long_identity 1 0) as [fuel [ps [Hp _]]].
  - intro k. unfold long_identity, id_of. destruct (0 =? k); vm_compute; discriminate.
  - left; reflexivity.
  - reflexivity.
  - pose proof (pchain_long_forever fuel) as Hf. rewrite Hp in Hf. discriminate.
Qed.

(* ================================================================== the client-decoder leg *)

Definition response_of_page (p : page) : response :=
  {| rs_sub := c_sub code; rs_code := pg_code p; rs_conformity := c_conformity code;
     rs_more := pg_more p; rs_next := pg_next p; rs_count := Z.of_nat (length (pg_objs p));
     rs_info := map (fun o => (fst o, VOne (snd o))) (pg_objs p) |}.

Lemma pack_bytes_inv vs : forall b,
  pack_bytes vs = Ok b -> b = map Z.to_N vs /\ Forall (fun v => 0 <= v < 256) vs.
Proof.
  induction vs as [|v t IH]; intros b H; cbn [pack_bytes] in H.
  - inversion H. split; [reflexivity|constructor].
  - destruct ((0 <=? v) && (v <? 256)) eqn:E; [|discriminate].
    destruct (pack_bytes t) as [r|e]; cbn [bind] in H; [|discriminate].
    inversion H; subst. destruct (IH r eq_refl) as [-> Hf]. split; [reflexivity|].
    constructor; [lia|exact Hf].
Qed.

Lemma firstn_len_app {A} (v r : list A) : firstn (length v) (v ++ r) = v.
Proof. induction v as [|a t IH]; cbn; [destruct r; reflexivity | f_equal; exact IH]. Qed.

Lemma skipn_len_app {A} (v r : list A) : skipn (length v) (v ++ r) = r.
Proof. induction v as [|a t IH]; cbn; [reflexivity | exact IH]. Qed.

Lemma info_add_fresh info k v :
  ~ In k (map fst info) -> info_add info k v = info ++ [(k, VOne v)].
Proof.
  induction info as [|[k' x] t IH]; intros H; [reflexivity|]. cbn [info_add map fst In app] in *.
  destruct (k' =? k) eqn:E; [exfalso; apply H; left; lia|]. f_equal. apply IH. tauto.
Qed.

Definition add_all (info : list (Z * info_value)) (objs : list object) : list (Z * info_value) :=
  fold_left (fun i o => info_add i (fst o) (snd o)) objs info.

Lemma add_all_fresh objs : forall info,
  NoDup (map fst info ++ map fst objs) ->
  add_all info objs = info ++ map (fun o => (fst o, VOne (snd o))) objs.
Proof.
  induction objs as [|[k v] t IH]; intros info H; cbn [add_all fold_left map fst snd].
  - rewrite app_nil_r. reflexivity.
  - cbn [map fst] in H. pose proof (NoDup_remove_2 _ _ _ H) as Hk.
    rewrite info_add_fresh by (intro Hin; apply Hk; apply in_or_app; left; exact Hin).
    change (fold_left (fun i o => info_add i (fst o) (snd o)) t (info ++ [(k, VOne v)]))
      with (add_all (info ++ [(k, VOne v)]) t).
    rewrite IH.
    + rewrite <- app_assoc. reflexivity.
    + rewrite map_app. cbn [map fst]. rewrite <- app_assoc. exact H.
Qed.

Lemma decode_ser objs : forall body info fuel,
  ser_objs objs = Ok body -> (length body < fuel)%nat ->
  decode_objs fuel body info = DecOk (add_all info objs).
Proof.
  induction objs as [|[k v] t IH]; intros body info fuel H Hf; cbn [ser_objs] in H.
  - inversion H; subst. destruct fuel; reflexivity.
  - destruct (pack_bytes [k; blen v]) as [h|e] eqn:Eh; cbn [bind] in H; [|discriminate].
    destruct (ser_objs t) as [r|e] eqn:Er; cbn [bind] in H; [|discriminate].
    inversion H; subst. apply pack_bytes_inv in Eh as [-> Hr].
    inversion Hr as [|? ? Hk Hr']; subst. inversion Hr' as [|? ? Hl _]; subst.
    cbn [map app] in *. destruct fuel as [|f]; [lia|]. cbn [decode_objs].
    replace (N.to_nat (Z.to_N (blen v))) with (length v) by (unfold blen; lia).
    rewrite firstn_len_app, skipn_len_app, Z2N.id by lia.
    rewrite (IH r _ f eq_refl).
    + reflexivity.
    + cbn [length] in Hf. rewrite app_length in Hf. lia.
Qed.

(* decode (encode page) = page, for pages whose object ids are distinct *)
Lemma decode_encode p b :
  NoDup (map fst (pg_objs p)) -> encode_page code p = Ok b ->
  decode_reply code (Z.to_N (c_fc code) :: b) = DOk (RResp (response_of_page p)).
Proof.
  intros Hnd H. unfold encode_page in H.
  destruct (pack_bytes [c_sub code; pg_code p; c_conformity code]) as [h1|e] eqn:E1; cbn [bind] in H; [|discriminate].
  destruct (ser_objs (pg_objs p)) as [body|e] eqn:E2; cbn [bind] in H; [|discriminate].
  destruct (pack_bytes [pg_more p; pg_next p; Z.of_nat (length (pg_objs p))]) as [h2|e] eqn:E3; cbn [bind] in H; [|discriminate].
  inversion H; subst. apply pack_bytes_inv in E1 as [-> R1]. apply pack_bytes_inv in E3 as [-> R3].
  inversion R1 as [|? ? _ R1']; subst. inversion R1' as [|? ? Hc _]; subst.
  inversion R3 as [|? ? Hm R3']; subst. inversion R3' as [|? ? Hn R3'']; subst. inversion R3'' as [|? ? Hcnt _]; subst.
  cbn [map app]. unfold decode_reply.
  replace (128 <? Z.of_N (Z.to_N (c_fc code))) with false by reflexivity.
  replace (negb (Z.of_N (Z.to_N (c_fc code)) =? c_fc code)) with false by reflexivity.
  rewrite (decode_ser _ _ [] _ E2) by lia.
  rewrite add_all_fresh by (cbn [map app]; exact Hnd). cbn [app].
  unfold response_of_page.
  replace (Z.of_N (Z.to_N (c_sub code))) with (c_sub code) by reflexivity.
  replace (Z.of_N (Z.to_N (c_conformity code))) with (c_conformity code) by reflexivity.
  rewrite !Z2N.id by lia. reflexivity.
Qed.

(* pages produced by the server for stream access have distinct, ascending object ids *)
Lemma page_objs_prefix objs space : exists rest, objs = fst (page_objs code space objs) ++ rest.
Proof.
  destruct (page_objs code space objs) as [acc oos] eqn:E. pose proof (page_objs_split _ _ _ _ E) as H.
  cbn [fst]. destruct oos as [k|]; [destruct H as [v [rest ->]]; eauto | subst; exists []; rewrite app_nil_r; reflexivity].
Qed.

Lemma nodup_app_l {A} (l1 l2 : list A) : NoDup (l1 ++ l2) -> NoDup l1.
Proof.
  induction l1 as [|a t IH]; intros H; [constructor|]. cbn [app] in H. inversion H; subst.
  constructor; [|auto]. intro Hin. apply H2. apply in_or_app. left. exact Hin.
Qed.

Lemma stream_page_nodup idn c s rc :
  NoDup (map fst (pg_objs (page_of code rc (expected idn c s)))).
Proof.
  rewrite page_of_objs. destruct (page_objs_prefix (expected idn c s) (space0 code)) as [rest Hr].
  pose proof (sorted_nodup _ (expected_sorted idn c s)) as Hn. rewrite Hr, map_app in Hn.
  eapply nodup_app_l. exact Hn.
Qed.

(* ================================================================== the chain on the wire *)

Lemma pack_bytes_ok vs : Forall (fun v => 0 <= v < 256) vs -> pack_bytes vs = Ok (map Z.to_N vs).
Proof.
  induction 1 as [|v t Hv Ht IH]; [reflexivity|]. cbn [pack_bytes map].
  replace ((0 <=? v) && (v <? 256)) with true by lia. rewrite IH. reflexivity.
Qed.

Lemma ser_objs_ok objs :
  (forall k v, In (k, v) objs -> 0 <= k <= 255 /\ blen v <= 255) -> exists b, ser_objs objs = Ok b.
Proof.
  induction objs as [|[k v] t IH]; intros H; [exists []; reflexivity|]. cbn [ser_objs].
  destruct (H k v (or_introl eq_refl)) as [Hk Hv].
  rewrite pack_bytes_ok by (repeat constructor; unfold blen in *; lia). cbn [bind].
  destruct IH as [r Hr]; [intros; apply H; right; assumption|]. rewrite Hr. cbn [bind]. eauto.
Qed.

Lemma category_length c : (length (category c) <= 135)%nat.
Proof.
  unfold category. destruct (c =? 1); [vm_compute; lia|]. destruct (c =? 2); [vm_compute; lia|].
  destruct (c =? 3); vm_compute; lia.
Qed.

Lemma expected_length idn c s : (length (expected idn c s) <= 135)%nat.
Proof.
  unfold expected, objects_of. eapply Nat.le_trans; [apply filter_len_le|]. rewrite map_length.
  eapply Nat.le_trans; [apply filter_len_le|]. apply category_length.
Qed.

(* the server's reply to a stream request, as the client decodes it *)
Lemma transact_stream idn c oid s :
  fits idn -> stream_code c -> 0 <= oid <= 255 ->
  factory_get code idn c oid = Ok (expected idn c s) ->
  transact code idn c oid = DOk (RResp (response_of_page (page_of code c (expected idn c s)))).
Proof.
  intros Hfit Hc Hb Hget. unfold transact, server_reply.
  rewrite execute_ok by (unfold stream_code in Hc; lia). rewrite Hget. cbn [bind].
  set (p := page_of code c (expected idn c s)).
  assert (Hsub : exists rest, expected idn c s = pg_objs p ++ rest).
  { unfold p. rewrite page_of_objs. apply page_objs_prefix. }
  destruct Hsub as [rest Hsub].
  assert (Hmem : forall k v, In (k, v) (pg_objs p) -> 0 <= k <= 255 /\ blen v <= 255).
  { intros k v Hin. assert (Hin' : In (k, v) (expected idn c s)) by (rewrite Hsub; apply in_or_app; left; exact Hin).
    apply expected_from_member in Hin' as [_ [Hk [-> _]]]. split; [exact Hk|]. specialize (Hfit k). lia. }
  destruct (ser_objs_ok _ Hmem) as [body Hbody].
  assert (Hcnt : (length (pg_objs p) <= 135)%nat).
  { pose proof (expected_length idn c s) as Hl. rewrite Hsub, app_length in Hl. lia. }
  assert (Hmn : (pg_more p = 0 \/ pg_more p = 255) /\ 0 <= pg_next p <= 255).
  { unfold p, page_of. destruct (page_objs code (space0 code) (expected idn c s)) as [acc [k|]] eqn:E; cbn [pg_more pg_next].
    - split; [right; reflexivity|]. apply page_objs_split in E as [v [r E]].
      assert (Hin : In (k, v) (expected idn c s)) by (rewrite E; apply in_or_app; right; left; reflexivity).
      apply expected_from_member in Hin. lia.
    - split; [left; reflexivity | lia]. }
  assert (Henc : exists b, encode_page code p = Ok b).
  { unfold encode_page. rewrite pack_bytes_ok.
    2:{ assert (Hpc : pg_code p = c)
          by (unfold p, page_of; destruct (page_objs code (space0 code) (expected idn c s)); reflexivity).
        constructor; [change (0 <= 14 < 256); lia|].
        constructor; [rewrite Hpc; unfold stream_code in Hc; lia|].
        constructor; [change (0 <= 131 < 256); lia|constructor]. }
    cbn [bind]. rewrite Hbody. cbn [bind]. rewrite pack_bytes_ok by (repeat constructor; lia). cbn [bind]. eauto. }
  destruct Henc as [b Hb']. rewrite Hb'. cbn [bind].
  apply decode_encode; [|exact Hb']. apply stream_page_nodup.
Qed.

Definition chain_end_of (e : pchain_end) : chain_end :=
  match e with PDone => ChainDone | PExc x => ChainExc x | PRaises x => ChainRaises x | POutOfFuel => ChainOutOfFuel end.

(* through request encoding, ServerDecoder, execute, encode and ClientDecoder the client sees
   exactly the structured pages *)
Lemma chain_is_pchain idn c : fits idn -> stream_code c ->
  forall fuel oid s, 0 <= oid <= 255 ->
    factory_get code idn c oid = Ok (expected idn c s) ->
    chain code idn c oid fuel =
    (map response_of_page (fst (pchain code idn c oid fuel)), chain_end_of (snd (pchain code idn c oid fuel))).
Proof.
  intros Hfit Hc. induction fuel as [|f IH]; intros oid s Hb Hget; [reflexivity|].
  rewrite pchain_S. cbn [chain]. rewrite (transact_stream idn c oid s Hfit Hc Hb Hget).
  rewrite execute_ok by (unfold stream_code in Hc; lia). rewrite Hget. cbn [bind]. cbv zeta.
  set (p := page_of code c (expected idn c s)). cbn [rs_more rs_next response_of_page].
  destruct (pg_more p =? 255) eqn:Em; [|reflexivity].
  assert (Hnext : exists v acc rest, expected idn c s = acc ++ (pg_next p, v) :: rest).
  { unfold p, page_of in *. destruct (page_objs code (space0 code) (expected idn c s)) as [acc [k|]] eqn:E; cbn [pg_more pg_next] in *.
    - apply page_objs_split in E as [v [r E]]. eauto.
    - vm_compute in Em. discriminate. }
  destruct Hnext as [v [acc [rest Hsp]]].
  assert (Hmem : In (pg_next p, v) (expected idn c s)) by (rewrite Hsp; apply in_or_app; right; left; reflexivity).
  apply expected_from_member in Hmem as [_ [Hk [_ Hne]]].
  assert (Hget' : factory_get code idn c (pg_next p) = Ok (expected idn c (pg_next p))).
  { rewrite stream_get by (auto; lia). unfold stream_start. rewrite Hne, orb_true_r. reflexivity. }
  rewrite (IH (pg_next p) (pg_next p) ltac:(lia) Hget').
  destruct (pchain code idn c (pg_next p) f) as [ps e]. reflexivity.
Qed.

Lemma complete_wire idn c oid fuel :
  fits idn -> stream_code c -> start_ok idn c oid = true ->
  (length (expected idn c oid) < fuel)%nat ->
  exists rs, chain code idn c oid fuel = (rs, ChainDone)
             /\ flat_map (fun r => info_objects (rs_info r)) rs = expected idn c oid.
Proof.
  intros Hfit Hc Hs Hf. destruct (start_ok_get _ _ _ Hc Hs) as [Hb Hget].
  destruct (complete_pages idn c oid fuel Hfit Hc Hs Hf) as [ps [Hp [Hcat _]]].
  rewrite (chain_is_pchain idn c Hfit Hc fuel oid oid Hb Hget), Hp. cbn [fst snd chain_end_of].
  eexists. split; [reflexivity|]. rewrite <- Hcat. clear.
  induction ps as [|p t IH]; [reflexivity|]. cbn [map flat_map concat]. rewrite IH. f_equal.
  unfold response_of_page; cbn [rs_info]. induction (pg_objs p) as [|[k v] l IHl]; [reflexivity|].
  cbn [map info_objects flat_map fst snd app]. f_equal. exact IHl.
Qed.

(* ================================================================== configuration histories *)

Lemma init_accepts_eq k :
  beval (env_of [("key", k)]) (c_init_accepts code) = ((0 <=? k) && (k <=? 6)) || ((128 <=? k) && (k <=? 255)).
Proof. unfold beval. cbn. rewrite !z2b_b2z. destruct (z2b_b2z true). lia. Qed.

Lemma cfg_apply_spec m o : cfg_apply code m o = spec_apply m o.
Proof.
  destruct o as [l|l|k v|n v]; cbn [cfg_apply spec_apply].
  - revert m. induction l as [|[k v] t IH]; intros m; [reflexivity|]. cbn [fold_left fst snd].
    rewrite init_accepts_eq. apply IH.
  - reflexivity.
  - cbn [c_setitem_excluded code existsb]. rewrite orb_false_r. reflexivity.
  - reflexivity.
Qed.

(* what the code's configuration API leaves in the identity after ANY history of constructor
   calls, update(), item assignments and named-property assignments is the spec's final map:
   last write per object id wins, a blank value withdraws the object *)
Lemma configured_spec h : configured code h = spec_configured h.
Proof.
  unfold configured, spec_configured. generalize (@nil object).
  induction h as [|o t IH]; intros m; [reflexivity|]. cbn [fold_left]. rewrite cfg_apply_spec. apply IH.
Qed.

(* ================================================================== execute never raises *)

Lemma execute_never_raises idn c oid : exists r, execute code idn c oid = Ok r.
Proof.
  unfold execute. rewrite reject_object_id_eq, reject_read_code_eq.
  destruct ((0 <=? oid) && (oid <=? 255)) eqn:Eo; cbn [negb]; [|eauto].
  destruct ((1 <=? c) && (c <=? 4)) eqn:Ec; cbn [negb]; [|eauto].
  assert (Hc : c = 1 \/ c = 2 \/ c = 3 \/ c = 4) by lia.
  destruct Hc as [-> | [-> | [-> | ->]]].
  - rewrite factory_get_1. cbn [bind]. eauto.
  - rewrite factory_get_2. cbn [bind]. eauto.
  - rewrite factory_get_3. cbn [bind]. eauto.
  - rewrite factory_get_4. cbn [bind]. eauto.
Qed.
