(* C17 add-on — front-ends started through their documented factories with the same arguments
   serve with the same configuration, role by role.  C17_equiv compares the front-ends under one
   configuration record; this shows the record is the same function of the user's arguments for
   every factory (an entry point that drops ignore_missing_slaves would answer 0x0B where the
   others stay silent). *)
From Coq Require Import List String.
From PM.theories Require Import Base Ladder Frontends CorrFrontends Wiring.
From PM.Generated Require Import GenFrontends GenWiring.
From PM.proofs Require Import FrontendsC12_proofs Wiring_proofs.
Import ListNotations.
Open Scope string_scope.
Open Scope list_scope.

Theorem C17_cfg_same_configuration : forall f1 fe1 f2 fe2 role,
  In f1 factories -> In (fa_target f1, fe1) servers -> In f2 factories -> In (fa_target f2, fe2) servers ->
  In role (required_roles fe1) -> In role (required_roles fe2) ->
  exists s1 p1 s2 p2,
    (exists r1, assoc_s (fa_target f1) server_wiring = Some r1 /\ assoc_s role r1 = Some s1) /\ wparam s1 = Some p1 /\
    (exists r2, assoc_s (fa_target f2) server_wiring = Some r2 /\ assoc_s role r2 = Some s2) /\ wparam s2 = Some p2 /\
    forall V (env : string -> option V) (user_truth : V -> bool) (x d1 d2 : V), env role = Some x ->
      configured_t s1 (py_truthy (role_overrides truth_facts role) user_truth) (ctor_sees f1 env p1) d1 =
      configured_t s2 (py_truthy (role_overrides truth_facts role) user_truth) (ctor_sees f2 env p2) d2.
Proof. exact same_configuration. Qed.
Print Assumptions C17_cfg_same_configuration.

Example C17_cfg_nonvacuous :
  exists f1 f2, In f1 factories /\ In f2 factories /\ fa_name f1 = "sync.StartTcpServer" /\ fa_name f2 = "async_io.StartTcpServer" /\
    In (fa_target f1, SyncTcp) servers /\ In (fa_target f2, AioTcp) servers /\
    In "ignore_missing_slaves" (required_roles SyncTcp) /\ In "ignore_missing_slaves" (required_roles AioTcp).
Proof. do 2 eexists. split; [left; reflexivity|]. split; [do 4 right; left; reflexivity|]. vm_compute. tauto. Qed.
Print Assumptions C17_cfg_nonvacuous.
