"""C20 — Device identification is returned completely, in pages that fit."""
from lib import common
from lib.coqrun import z, nat, lst
from lib.main import Case, Suite
from lib.pyx import pyexn

ID = "C20"
GENERATORS = ["devinfo"]
PROP_FILE = "C20"
CASE_DEPS = ["theories/CorrDevInfo.vo", "theories/DevInfoMulti.vo", "Generated/GenDevInfo.vo"]
RULE = ("one case = an identity (random subset of object ids 0-6 / 0x80-0xFF, value lengths concentrated at 0, 1, "
        "120-124, 243-245, a few above), a read code and a start object id, and the WHOLE exchange history observed "
        "while following more-follows (page limit = populated objects + 3): request bytes -> real ServerDecoder -> "
        "ReadDeviceInformationRequest.execute -> Response.encode -> real ClientDecoder; read codes 1-4 enumerated "
        "(plus 0, 5, 6, 255 for the guard), start ids = 0, every populated id, category edges (2,3,6,7,8,0x7f,0x80,0xff) "
        "and, for one multi-page identity, all 256 start ids x 4 codes; direct-execute cases for out-of-byte-range "
        "fields; suite multi: bytes / ASCII str / non-ASCII str / list values (0-4 items), split and no-split "
        "constellations; suite config: the identity is configured ONLY through histories of the public API "
        "(constructor, update, item assignment, named properties; withdrawal by blank values, re-configuration), "
        "expected objects from the final configured map.  The ModbusControlBlock identity (a class-level dict) is reset between cases.  non-trivial = a normal "
        "response with at least one object; distinct = distinct Coq case terms")
TRUSTED = [
    "generated from source on every run (Generated/GenDevInfo.v): 253 - 6, 2 + len(data), <= 0, the range bounds and "
    "skip range of the four __lookup lambdas, the 0..0xff / 0..4 guards and their exception code, MoreData / "
    "DeviceInformation constants, conformity, function/sub-function code; the bodies around them are matched "
    "against fixed templates (encode, _encode_object, decode, execute, get, __get, __gets, __getitem__, __setitem__)",
    "modelled by hand, validated by correspondence only (coq/theories/DevInfo.v): insertion-ordered dicts, the "
    "try/for loop of encode, struct packing of single bytes, the while loop of decode",
    "spec side written from Modbus Application Protocol v1.1b3 section 6.21: category, expected, start_ok, max_pdu",
]
ASSUMPTIONS = ["base model (DevInfo.v): identity values are byte strings or ASCII text, one object per id; list-valued "
               "entries and arbitrary str values are covered by the extended model DevInfoMulti.v",
               "object ids 7..0x7f are not populated (the property's identities)"]

IMPORTS = ("From PM.theories Require Import Base Expr DevInfo CorrDevInfo.\n"
           "From PM.Generated Require Import GenDevInfo.")

F_245 = "F-C20-245-byte-object"
F_CODE0 = "F-C20-read-code-0"
F_TEXT = "F-C20-non-ascii-text"
F_MULTI = "F-C20-multi-item-resend"
IMPORTS_M = IMPORTS.replace("CorrDevInfo.", "DevInfoMulti CorrDevInfo.")

VALID_IDS = list(range(0, 7)) + list(range(0x80, 0x100))


# ----------------------------------------------------------------------------- real implementation

def reset_identity():
    """ModbusDeviceIdentification keeps its data in a CLASS-level dict shared by every instance
    (and therefore by the ModbusControlBlock singleton): restore the pristine content."""
    from pymodbus.device import ModbusDeviceIdentification, ModbusControlBlock
    d = ModbusDeviceIdentification._ModbusDeviceIdentification__data
    d.clear()
    d.update({i: '' for i in range(9)})
    mcb = ModbusControlBlock()
    mcb.ListenOnly = False
    return mcb


def install_identity(objs, as_text=False):
    mcb = reset_identity()
    ident = mcb.Identity
    for k, v in objs:
        ident[k] = v.decode("latin-1") if (as_text and all(b < 128 for b in v)) else v
    return mcb


def exchange(code, oid, direct):
    """one request/response exchange through the real classes.
    -> ("resp", pdu_len, fields..., info) | ("exc", pdu_len, fc, code) | ("raise", exn)"""
    from pymodbus.factory import ServerDecoder, ClientDecoder
    from pymodbus.mei_message import ReadDeviceInformationRequest
    try:
        if direct:
            req = ReadDeviceInformationRequest(read_code=code, object_id=oid)
            req.read_code = code     # the constructor maps 0 to Basic; the wire decoder does not
        else:
            req = ServerDecoder().decode(bytes([0x2b, 0x0e, code, oid]))
        rsp = req.execute(None)
        pdu = bytes([rsp.function_code]) + rsp.encode()
        crsp = ClientDecoder().decode(pdu)
    except Exception as e:  # noqa: BLE001 — the exception class is the observation
        return ("raise", pyexn(e))
    if crsp is None:            # ClientDecoder.decode logs any exception of the response decoder and returns None
        return ("raise", "OtherExc")
    if type(crsp).__name__ == "ExceptionResponse":
        return ("exc", len(pdu), crsp.function_code, crsp.exception_code)
    info = []
    for k, v in crsp.information.items():
        if isinstance(v, list):
            info.append((int(k), [bytes(x) for x in v]))
        else:
            info.append((int(k), bytes(v)))
    return ("resp", len(pdu), crsp.sub_function_code, crsp.read_code, crsp.conformity, crsp.more_follows,
            crsp.next_object_id, crsp.number_of_objects, info)


def follow(code, oid, limit, direct=False):
    steps, end = [], "ELimit"
    for _ in range(limit):
        o = exchange(code, oid, direct)
        steps.append(o)
        if o[0] != "resp":
            end = "EStopped"
            break
        if o[5] != 0xFF:
            end = "EDone"
            break
        oid = o[6]
    return steps, end


# ----------------------------------------------------------------------------- Coq terms

def bterm(v):
    n = len(v)
    if n == 0:
        return "[]"
    if n >= 3 and all(b == v[1] for b in v[1:]):
        return "(mkv %d%%N %d%%N %s)" % (v[0], v[1], nat(n))
    return "[" + "; ".join("%d%%N" % b for b in v) + "]"


def objs_term(objs):
    return lst("(%s, %s)" % (z(k), bterm(v)) for k, v in objs)


def info_term(info):
    items = []
    for k, v in info:
        if isinstance(v, list):
            items.append("(%s, VMany %s)" % (z(k), lst(bterm(x) for x in v)))
        else:
            items.append("(%s, VOne %s)" % (z(k), bterm(v)))
    return lst(items)


def obs_term(o):
    if o[0] == "raise":
        return "ORaise " + o[1]
    if o[0] == "exc":
        return "OExc %s %s %s" % (z(o[1]), z(o[2]), z(o[3]))
    return ("OResp %s {| rs_sub := %s; rs_code := %s; rs_conformity := %s; rs_more := %s; rs_next := %s; "
            "rs_count := %s; rs_info := %s |}" % (z(o[1]), z(o[2]), z(o[3]), z(o[4]), z(o[5]), z(o[6]), z(o[7]), info_term(o[8])))


def chain_case(objs, code, oid, label, direct=False, as_text=False, limit=None):
    install_identity(objs, as_text)
    populated = [k for k, v in objs if v]
    limit = limit if limit is not None else len(populated) + 3
    steps, end = follow(code, oid, limit, direct)
    reset_identity()
    term = "{| cc_ids := %s; cc_code := %s; cc_oid := %s; cc_limit := %s; cc_obs := %s; cc_end := %s |}" % (
        objs_term(objs), z(code), z(oid), nat(limit), lst(obs_term(o) for o in steps), end)
    desc = {"identity": [[k, len(v), v[:2].hex()] for k, v in objs], "code": code, "oid": oid, "direct": direct,
            "as_text": as_text, "limit": limit, "end": end,
            "history": [[o[0]] + [x for x in o[1:8]] if o[0] == "resp" else list(o) for o in steps][:12],
            "pages": len(steps)}
    nontriv = any(o[0] == "resp" and o[7] > 0 for o in steps)
    return Case(term, desc, kind=label, nontrivial=nontriv)


# ----------------------------------------------------------------------------- generators

def gen_len(r):
    k = r.random()
    if k < 0.12:
        return 0
    if k < 0.27:
        return 1
    if k < 0.55:
        return r.choice([120, 121, 122, 123, 124])
    if k < 0.80:
        return r.choice([243, 244, 244, 243])
    if k < 0.86:
        return 245
    if k < 0.96:
        return r.choice([2, 3, 5, 17, 40, 60, 80, 100, 200, 242])
    return r.choice([246, 247, 250, 255, 256, 300])


def gen_value(r, k, n):
    if n == 0:
        return b""
    tag = (k * 7 + n) % 250 + 1
    fill = r.choice([0x20, 0x41, 0x7a, 0x00, 0xff, r.randrange(256)])
    return bytes([tag]) + bytes([fill]) * (n - 1)


def gen_identity(r, no_long=False):
    k = r.random()
    if k < 0.25:
        ids = r.sample(range(0, 7), r.choice([1, 2, 3, 5, 7]))
    elif k < 0.5:
        ids = r.sample(range(0, 7), r.choice([2, 3, 4])) + r.sample(range(0x80, 0x100), r.choice([1, 2, 3, 5]))
    elif k < 0.7:
        ids = [0, 1, 2] + r.sample(range(3, 7), r.choice([0, 1, 2])) + r.sample(range(0x80, 0x100), r.choice([0, 1, 4]))
    elif k < 0.85:
        ids = r.sample(range(0x80, 0x100), r.choice([1, 3, 6]))
    else:
        ids = r.sample(VALID_IDS, r.choice([8, 12, 20]))
    ids = sorted(set(ids))
    r.shuffle(ids)                      # insertion order into the identity must not matter
    objs = []
    for i in ids:
        n = gen_len(r)
        while no_long and n >= 245:
            n = gen_len(r)
        objs.append((i, gen_value(r, i, n)))
    return objs


def starts_for(r, objs, code, n_extra):
    populated = sorted(k for k, v in objs if v)
    cand = {0} | set(populated) | set(r.sample([1, 2, 3, 6, 7, 8, 0x7f, 0x80, 0xfe, 0xff], n_extra))
    return sorted(cand)


def suite_chain(tier):
    r = common.rng("C20.chain")
    cases = []
    n_ident = 70 if tier == "quick" else 700
    for j in range(n_ident):
        objs = gen_identity(r, no_long=(j % 3 != 0))
        as_text = (j % 5 == 4)
        for code in (1, 2, 3, 4):
            starts = starts_for(r, objs, code, 2)
            if len(starts) > 7:
                starts = sorted(set([0] + r.sample(starts, 6)))
            for oid in starts:
                cases.append(chain_case(objs, code, oid, "code%d" % code, as_text=as_text))
    # many pages: 135 short objects and 30 objects of ~120 bytes
    big = [(i, gen_value(r, i, r.choice([1, 2, 3, 9]))) for i in VALID_IDS]
    mid = [(i, gen_value(r, i, r.choice([120, 121, 122, 123, 124]))) for i in sorted(r.sample(VALID_IDS, 30))]
    for objs in (big, mid):
        for code in (1, 2, 3):
            for oid in (0, [k for k, _ in objs][len(objs) // 2]):
                cases.append(chain_case(objs, code, oid, "many-pages"))
    # the guard: read codes outside 1..4 on the wire; fields outside a byte by direct execution
    small = [(0, b"Vendor"), (1, b"PC"), (2, b"1.0"), (0x80, b"x")]
    for code in (0, 5, 6, 0x80, 0xff):
        for oid in (0, 1, 0x80):
            cases.append(chain_case(small, code, oid, "guard-wire"))
    for code, oid in ((1, 256), (1, -1), (2, 300), (5, 0), (-1, 0), (256, 0), (4, 256), (3, 0x100), (1, 0), (4, 1), (0, 0)):
        cases.append(chain_case(small, code, oid, "guard-direct", direct=True))
    return Suite("chain", IMPORTS, "chk_chain code", cases, shard=150)


def suite_starts(tier):
    """every start object id x read codes 1-4 on one multi-page identity"""
    r = common.rng("C20.starts")
    ids = sorted(r.sample(range(0, 7), 4) + r.sample(range(0x80, 0x100), 4))
    objs = [(i, gen_value(r, i, r.choice([1, 100, 120, 124, 243, 244]))) for i in ids]
    cases = []
    for code in (1, 2, 3, 4):
        for oid in range(256):
            cases.append(chain_case(objs, code, oid, "all-starts-code%d" % code))
    return Suite("starts", IMPORTS, "chk_chain code", cases, shard=150)


def suites(tier):
    return [suite_chain(tier), suite_starts(tier), suite_multi(tier), suite_config(tier)]


# ----------------------------------------------------------------------------- configuration histories

PROP_NAMES = ["VendorName", "ProductCode", "MajorMinorRevision", "VendorUrl", "ProductName", "ModelName",
              "UserApplicationName"]


def apply_history(hist):
    """configure the process-wide identity through the PUBLIC API only, in order"""
    from pymodbus.device import ModbusDeviceIdentification
    mcb = reset_identity()
    for op in hist:
        if op[0] == "init":
            ModbusDeviceIdentification(info=dict(op[1]))          # shares the class-level dict
        elif op[0] == "update":
            mcb.Identity.update(dict(op[1]))
        elif op[0] == "set":
            mcb.Identity[op[1]] = op[2]
        elif op[0] == "prop":
            setattr(mcb.Identity, op[1], op[2])
    return mcb


def op_term(op):
    if op[0] in ("init", "update"):
        return "%s %s" % ("CInit" if op[0] == "init" else "CUpdate", objs_term([(k, _b(v)) for k, v in op[1]]))
    if op[0] == "set":
        return "CSetItem %s %s" % (z(op[1]), bterm(_b(op[2])))
    return "CProp %s %s" % ('"%s"%%string' % op[1], bterm(_b(op[2])))


def _b(v):
    return v.encode() if isinstance(v, str) else bytes(v)


def final_map(hist):
    """spec-side bookkeeping for descriptions / limits only: last write per id"""
    m = {}
    for op in hist:
        if op[0] in ("init", "update"):
            for k, v in op[1]:
                m[k] = _b(v)
        elif op[0] == "set":
            m[op[1]] = _b(op[2])
        else:
            m[PROP_NAMES.index(op[1])] = _b(op[2])
    return m


def cfg_case(hist, code, oid, label):
    apply_history(hist)
    writes = sum(len(op[1]) if op[0] in ("init", "update") else 1 for op in hist)
    limit = writes + 3
    steps, end = follow(code, oid, limit)
    reset_identity()
    term = "{| cf_hist := %s; cf_code := %s; cf_oid := %s; cf_limit := %s; cf_obs := %s; cf_end := %s |}" % (
        lst(op_term(op) for op in hist), z(code), z(oid), nat(limit), lst(obs_term(o) for o in steps), end)
    fm = final_map(hist)
    desc = {"history": [[op[0]] + [([[k, len(v)] for k, v in op[1]] if op[0] in ("init", "update") else
                                    [op[1], len(op[2])])] for op in hist],
            "identity": [[k, len(v), v[:2].hex()] for k, v in sorted(fm.items())],
            "code": code, "oid": oid, "limit": limit, "end": end, "pages": len(steps), "config": True,
            "observed": [[o[0]] + [x for x in o[1:8]] if o[0] == "resp" else list(o) for o in steps][:8]}
    return Case(term, desc, kind=label, nontrivial=any(o[0] == "resp" and o[7] > 0 for o in steps))


def gen_history(r):
    """2-5 operations over a small pool of ids: configure, withdraw by a blank value, re-configure"""
    pool = sorted(r.sample(range(0, 7), r.choice([2, 3, 4])) + r.sample(range(0x80, 0x100), r.choice([1, 2, 3])))
    hist = []

    def val(k, blank_p):
        if r.random() < blank_p:
            return r.choice([b"", ""])
        n = r.choice([1, 2, 5, 30, 100, 120, 124, 200, 243, 244])
        v = gen_value(r, k, n)
        return v.decode("latin-1") if (r.random() < 0.3 and all(b < 128 for b in v)) else v
    for step in range(r.choice([2, 3, 4, 5])):
        blank_p = 0.0 if step == 0 else 0.45
        t = r.random()
        if t < 0.45:
            ks = r.sample(pool, r.choice([1, 2, min(3, len(pool))]))
            hist.append(("update", [(k, val(k, blank_p)) for k in ks]))
        elif t < 0.65:
            k = r.choice(pool)
            hist.append(("set", k, val(k, blank_p)))
        elif t < 0.8:
            k = r.choice([x for x in pool if x < 7])
            hist.append(("prop", PROP_NAMES[k], val(k, blank_p)))
        else:
            ks = r.sample(pool, r.choice([1, 2]))
            extra = [(r.choice([7, 8, 9, 0x7f, 0x100, -1]), b"zz")] if r.random() < 0.3 else []   # filtered by the constructor
            hist.append(("init", [(k, val(k, blank_p)) for k in ks] + extra))
    return hist, pool


def suite_config(tier):
    r = common.rng("C20.config")
    cases = []
    fixed = [
        [("update", [(0, b"Vendor"), (1, b"PC"), (2, b"1.0"), (6, b"App"), (0x80, b"priv")]), ("update", [(6, ""), (0x80, "")])],
        [("init", [(0, "V"), (3, "http://x"), (0x90, b"q" * 200)]), ("set", 3, ""), ("prop", "VendorName", "W")],
        [("prop", "ProductName", "P"), ("update", [(4, b"")]), ("update", [(4, b"again")])],
        [("set", 7, b"r"), ("set", 8, b"r"), ("set", 2, b"rev"), ("update", [(2, b"")])],
    ]
    for hist in fixed:
        ids = sorted({k for k in final_map(hist)} | {0})
        for code in (1, 2, 3, 4):
            for oid in ids:
                if 0 <= oid <= 255:
                    cases.append(cfg_case(hist, code, oid, "config-fixed"))
    for _ in range(60 if tier == "quick" else 600):
        hist, pool = gen_history(r)
        for code in (1, 2, 3, 4):
            for oid in sorted({0} | set(r.sample(pool, min(2, len(pool))))):
                cases.append(cfg_case(hist, code, oid, "config-random"))
    return Suite("config", IMPORTS, "chk_cfg code", cases, shard=150)


# ----------------------------------------------------------------------------- multi-item and text values

def item_term(x):
    wire = x.encode() if isinstance(x, str) else bytes(x)
    return "{| it_len := %s; it_wire := %s |}" % (z(len(x)), bterm(wire))


def mval_term(v):
    if isinstance(v, list):
        return "(MMany %s)" % lst(item_term(x) for x in v)
    return "(MOne %s)" % item_term(v)


def is_non_ascii(v):
    xs = v if isinstance(v, list) else [v]
    return any(isinstance(x, str) and any(ord(c) > 127 for c in x) for x in xs)


def mchain_case(objs, code, oid, label, limit=None):
    """objs: [(id, bytes | str | [bytes | str, ...])]"""
    mcb = reset_identity()
    for k, v in objs:
        mcb.Identity[k] = list(v) if isinstance(v, list) else v
    nitems = sum(len(v) if isinstance(v, list) else (1 if v else 0) for _, v in objs)
    limit = limit if limit is not None else nitems + 3
    steps, end = follow(code, oid, limit)
    reset_identity()
    lists = {k for k, v in objs if isinstance(v, list)}
    # symptom of the multi-item defect: a response that already carries an item of list k and
    # names k as the next object id
    split = any(o[0] == "resp" and o[5] == 0xFF and o[6] in lists and any(k == o[6] for k, _ in o[8]) for o in steps)
    # ... or a list that alone is larger than a page: the same items forever
    loop = end == "ELimit" and any(o[0] == "resp" and o[6] in lists for o in steps)
    term = "{| mc_ids := %s; mc_code := %s; mc_oid := %s; mc_limit := %s; mc_obs := %s; mc_end := %s |}" % (
        lst("(%s, %s)" % (z(k), mval_term(v)) for k, v in objs), z(code), z(oid), nat(limit),
        lst(obs_term(o) for o in steps), end)
    desc = {"identity": [[k, ([len(x) for x in v] if isinstance(v, list) else len(v)),
                          "list" if isinstance(v, list) else type(v).__name__] for k, v in objs],
            "code": code, "oid": oid, "limit": limit, "end": end, "pages": len(steps), "multi": True,
            "non_ascii": any(is_non_ascii(v) for _, v in objs), "split_list": bool(split or loop),
            "history": [[o[0]] + [x for x in o[1:8]] if o[0] == "resp" else list(o) for o in steps][:8]}
    return Case(term, desc, kind=label, nontrivial=any(o[0] == "resp" and o[7] > 0 for o in steps))


def gen_mvalue(r, k):
    def one(n, kind):
        if kind == "bytes":
            return gen_value(r, k, n)
        if kind == "ascii":
            return chr(65 + (k + n) % 26) * n
        return "\u00e9" * n
    t = r.random()
    if t < 0.5:
        return one(r.choice([0, 1, 3, 50, 100, 120, 124, 200, 243, 244]), "bytes")
    if t < 0.65:
        return one(r.choice([1, 5, 100, 123, 244]), "ascii")
    if t < 0.72:
        return one(r.choice([1, 2, 60, 122, 123, 200, 244]), "non-ascii")
    n = r.choice([0, 1, 2, 2, 3, 4])
    return [one(r.choice([0, 1, 1, 40, 80, 100, 120]), r.choice(["bytes", "bytes", "ascii"])) for _ in range(n)]


def suite_multi(tier):
    r = common.rng("C20.multi")
    V, A, B, Cc = b"V" * 100, b"a" * 100, b"b" * 100, b"c" * 100
    fixed = [
        ([(0, V), (0x80, [A, B])], 3),                    # list split after its first item: re-sent from the start
        ([(0x80, [A, B, Cc])], 3),                         # list larger than a page: never ends
        ([(0, V), (1, [A, B])], 1), ([(0, V), (1, [A, B])], 2),
        ([(0, b"V"), (1, []), (2, [b"", b"x"]), (3, [b""])], 2),
        ([(0, [b"x", "yy"]), (1, "Product")], 1),
        ([(0, "\u00e9" * 200)], 1), ([(0, "\u00e9" * 100), (1, b"p" * 40)], 2), ([(2, "\u00fc")], 1),
        ([(0, "Vendor"), (1, "PC"), (2, "1.0")], 1),
        ([(0, [A, B]), (1, [b"s"] * 5)], 2),
    ]
    cases = []
    for objs, code in fixed:
        for c in sorted({code, 4}):
            for oid in sorted({0} | {k for k, _ in objs}):
                cases.append(mchain_case(objs, c, oid, "multi-fixed"))
    for _ in range(60 if tier == "quick" else 600):
        ids = sorted(r.sample(VALID_IDS, r.choice([1, 2, 3, 4, 6])) if r.random() < 0.5
                     else r.sample(range(0, 7), r.choice([1, 2, 3, 5])))
        objs = [(k, gen_mvalue(r, k)) for k in ids]
        for code in (1, 2, 3, 4):
            starts = sorted({0} | set(r.sample(ids, min(2, len(ids)))))
            for oid in starts:
                cases.append(mchain_case(objs, code, oid, "multi-random"))
    return Suite("multi", IMPORTS_M, "chk_mchain code", cases, shard=150)


# ----------------------------------------------------------------------------- python-side check: text values

def text_exchange(value, code=1, oid=0):
    """identity object 0 := a str value; one exchange -> (pdu length, decoded value or None)"""
    from pymodbus.factory import ServerDecoder, ClientDecoder
    mcb = reset_identity()
    mcb.Identity[oid] = value
    try:
        rsp = ServerDecoder().decode(bytes([0x2b, 0x0e, code, oid])).execute(None)
        pdu = bytes([rsp.function_code]) + rsp.encode()
        try:
            got = ClientDecoder().decode(pdu).information.get(oid)
        except Exception:  # noqa: BLE001
            got = None
    finally:
        reset_identity()
    return len(pdu), got


def extra_checks(tier):
    """str-valued identity objects (the model's values are byte strings): the space accounting uses
    len(str), the wire carries str.encode().  ASCII text must behave like bytes; non-ASCII text is
    the region of finding F-C20-non-ascii-text."""
    failures, keys, samples, n = [], [], [], 0
    for ch, label in (("A", "ascii"), ("\u00e9", "non-ascii")):
        for length in (1, 2, 100, 122, 123, 124, 200, 243, 244):
            for code in (1, 4):
                value = ch * length
                plen, got = text_exchange(value, code)
                n += 1
                ok = plen <= 253 and got == value.encode()
                d = {"text": label, "chars": length, "code": code, "pdu_len": plen,
                     "decoded_len": None if got is None else (len(got) if not isinstance(got, list) else -1)}
                keys.append((label, length, code))
                if len(samples) < 2:
                    samples.append(d)
                if not ok:
                    failures.append(d)
    return {"text_values": {"evaluations": n, "failures": failures, "broken": [], "samples": samples, "keys": keys}}


# ----------------------------------------------------------------------------- findings / replay

def classify(suite, desc):
    if suite == "text_values":
        return F_TEXT if desc.get("text") == "non-ascii" else None
    if desc.get("multi"):
        if desc.get("non_ascii"):
            return F_TEXT
        if desc.get("split_list"):
            return F_MULTI
        return None
    code, oid = desc.get("code"), desc.get("oid")
    if code == 0 and 0 <= oid <= 255:
        return F_CODE0
    if code in (1, 2, 3, 4):
        ident = {k: n for k, n, _ in desc.get("identity", [])}
        if code == 4:
            region = ident.get(oid, 0) == 245
        else:
            cat = {1: range(0, 3), 2: range(0, 7), 3: VALID_IDS}[code]
            # the stream restarts at object 0 when the start id is not a populated object (codes 2, 3)
            start = oid if (code == 1 or ident.get(oid, 0) > 0) else 0
            region = any(n == 245 and k in cat and k >= start for k, n in ident.items())
        if region and desc.get("end") == "ELimit":
            return F_245
    return None


def frontend_exception(code, oid):
    """exception code the real sync front-end (ModbusBaseRequestHandler.execute) answers, or None"""
    from pymodbus.server.sync import ModbusBaseRequestHandler
    from pymodbus.factory import ServerDecoder
    from pymodbus.datastore import ModbusServerContext, ModbusSlaveContext
    from pymodbus.framer.socket_framer import ModbusSocketFramer

    class Srv(object):
        pass
    srv = Srv()
    srv.context = ModbusServerContext(slaves=ModbusSlaveContext(), single=True)
    srv.decoder, srv.framer = ServerDecoder(), ModbusSocketFramer
    srv.ignore_missing_slaves = srv.broadcast_enable = False
    srv.threads = []
    out = []
    h = ModbusBaseRequestHandler.__new__(ModbusBaseRequestHandler)
    h.server, h.request, h.client_address = srv, None, ("scripted", 0)
    h.setup()
    h.send = lambda m: out.append(getattr(m, "exception_code", None))
    req = ServerDecoder().decode(bytes([0x2b, 0x0e, code, oid]))
    req.unit_id, req.transaction_id = 1, 1
    h.execute(req)
    return out[0] if out else None


def replay_finding(f):
    w = f.get("witness", {})
    if f["id"] == F_245:
        objs = [(k, bytes([65]) * n) for k, n in w["identity"]]
        install_identity(objs)
        steps, end = follow(w["code"], w["oid"], w.get("limit", 6))
        reset_identity()
        return end == "ELimit"
    if f["id"] == F_MULTI:
        objs = [(k, [bytes([97 + i]) * n for i, n in enumerate(v)] if isinstance(v, list) else b"V" * v) for k, v in w["identity"]]
        mcb = reset_identity()
        for k, v in objs:
            mcb.Identity[k] = v
        steps, end = follow(w["code"], w["oid"], 6)
        reset_identity()
        got = [(k, x) for o in steps if o[0] == "resp" for k, v in o[8] for x in (v if isinstance(v, list) else [v])]
        want = [(k, x) for k, v in objs for x in (v if isinstance(v, list) else [v])]
        return end != "EDone" or got != want
    if f["id"] == F_TEXT:
        plen, got = text_exchange("\u00e9" * w["chars"], w.get("code", 1))
        return not (plen <= 253 and got == ("\u00e9" * w["chars"]).encode())
    if f["id"] == F_CODE0:
        install_identity([(0, b"V")])
        o = exchange(0, w.get("oid", 0), False)
        try:
            fe = frontend_exception(0, w.get("oid", 0))      # the witness records 4 (slave failure)
        except Exception:  # noqa: BLE001
            fe = None
        reset_identity()
        return not (o[0] == "exc" and o[3] == 3) and fe != 3
    return None


def replay_case(suite, desc):
    import json
    print(json.dumps(desc)[:1500])
    print("replay of suite %s: re-run ./check C20 with VERIF_SEED from the replay file; identity lengths are in the record" % suite)
    objs = [(k, (bytes.fromhex(h)[:1] + bytes.fromhex(h)[1:2] * (n - 1)) if n else b"") for k, n, h in desc["identity"]]
    c = chain_case(objs, desc["code"], desc["oid"], "replay", direct=desc.get("direct", False),
                   as_text=desc.get("as_text", False), limit=desc.get("limit"))
    from lib import coqrun
    r = coqrun.eval_cases("C20_replay", IMPORTS, "chk_chain code", [c.term])
    print("now:", json.dumps(c.desc)[:1500], r)
    return bool(r["propfail"] or r["errors"])


MANIFEST = {
    "text": ("Coq theorems (Props/C20.v), closed under the global context, about the paging model instantiated with the "
             "constants and ranges regenerated from mei_message.py / device.py on every run: every response PDU is at "
             "most 253 bytes for every identity, read code and start id; for identities whose values are at most 244 "
             "bytes and a valid start the chain of requests terminates (fuel proved sufficient, measure = remaining "
             "objects) and the concatenation of the pages' objects is exactly the configured non-empty objects of the "
             "category from the start id on, each once, in order; individual access returns the single object; for "
             "other starts bound and termination; the client decoder inverts the encoder. Refuted and delimited: a "
             "245-byte object (the same empty page forever; 7+2+245 > 253 shows no implementation could return it), "
             "(read code 0: repaired in /repo 9a34217, now a positive theorem: every code outside 1..4 gets exception 03, execute never raises). Extended model for list-valued entries and str values "
             "(len vs encoded length as two fields): conservative over the base model; a split list is re-sent from "
             "its first item / loops forever, non-ASCII text breaks the 253-byte bound (both refuted by witness), the "
             "bound holds when len = encoded length. Correspondence: whole request chains through the real "
             "ServerDecoder/ClientDecoder over random identities, codes 0-6, all 256 start ids."),
    "note": ("Trusted: Coq kernel; translator template matching; hand-written dict/loop/struct glue validated by "
             "correspondence evaluated with vm_compute; spec-side category/expected definitions."),
    "design_ref": "DESIGN.md section 8 (C20)",
}
