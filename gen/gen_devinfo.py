"""GenDevInfo.v — Read Device Identification (C20).

From mei_message.py: the space accounting of ReadDeviceInformationResponse (`253 - 6`,
`-= 2 + len(data)`, `<= 0`), the two range guards of ReadDeviceInformationRequest.execute, the
conformity level, function / sub-function code.  From device.py: the four `__lookup` lambdas of
DeviceInformationFactory (their `range` expressions, the "object present" switch and the
`not in range(..)` filter).  From constants.py / pdu.py: MoreData, DeviceInformation,
ModbusExceptions.IllegalValue.

The method bodies around those expressions must match the templates below exactly (the
extracted expression is replaced by a placeholder, the rest is compared as normalised text).
Semantics: theories/DevInfo.v.
"""
import ast
from . import core
from .core import Src, ExprTr, coq_z, coq_list


def strip(stmts):
    return [s for s in stmts if not (core.is_docstring(s) or core.is_log_call(s))]


def text(stmts):
    return "\n".join(ast.unparse(s) for s in strip(stmts))


def norm(code):
    return text(ast.parse(code).body)


def class_consts(src, cls):
    out = {}
    for n in src.cls(cls).body:
        if isinstance(n, ast.Assign) and len(n.targets) == 1 and isinstance(n.targets[0], ast.Name):
            try:
                out[n.targets[0].id] = core.const_int(src, n.value)
            except core.TranslatorFail:
                pass
    return out


def holed_text(fn, holes):
    """normalised text of fn's body with the given nodes replaced by placeholder names
    (the tree is patched temporarily and restored afterwards)"""
    saved = []
    for target, name in holes:
        for parent in ast.walk(fn):
            for field, value in ast.iter_fields(parent):
                if value is target:
                    saved.append((parent, field, None, target))
                    setattr(parent, field, ast.Name(id=name, ctx=ast.Load()))
                elif isinstance(value, list):
                    for i, v in enumerate(value):
                        if v is target:
                            saved.append((parent, field, i, target))
                            value[i] = ast.Name(id=name, ctx=ast.Load())
    out = text(fn.body)
    for parent, field, i, target in saved:
        if i is None:
            setattr(parent, field, target)
        else:
            getattr(parent, field)[i] = target
    return out


def expect(src, fn, holes, template):
    got = holed_text(fn, holes)
    want = norm(template)
    if got != want:
        src.fail(fn, "body of %s has an unrecognised shape:\n%s\n-- expected --\n%s" % (fn.name, got, want))


def generate():
    mei = Src("pymodbus/mei_message.py")
    dev = Src("pymodbus/device.py")
    cst = Src("pymodbus/constants.py")
    pdu = Src("pymodbus/pdu.py")
    D = {}

    more = class_consts(cst, "MoreData")
    di = class_consts(cst, "DeviceInformation")
    exc = class_consts(pdu, "ModbusExceptions")
    for k in ("Nothing", "KeepReading"):
        if k not in more:
            cst.fail(cst.cls("MoreData"), "MoreData.%s not found" % k)
    for k in ("Basic", "Regular", "Extended", "Specific"):
        if k not in di:
            cst.fail(cst.cls("DeviceInformation"), "DeviceInformation.%s not found" % k)
    if "IllegalValue" not in exc:
        pdu.fail(pdu.cls("ModbusExceptions"), "ModbusExceptions.IllegalValue not found")
    consts = {"MoreData." + k: v for k, v in more.items()}
    consts.update({"DeviceInformation." + k: v for k, v in di.items()})
    consts.update({"merror." + k: v for k, v in exc.items()})

    # ---- ReadDeviceInformationRequest
    RQ = "ReadDeviceInformationRequest"
    fc = mei.class_attr(RQ, "function_code")
    sub = mei.class_attr(RQ, "sub_function_code")
    RS = "ReadDeviceInformationResponse"
    if fc is None or sub is None or mei.class_attr(RS, "function_code") is None or mei.class_attr(RS, "sub_function_code") is None:
        mei.fail(mei.cls(RQ), "function_code / sub_function_code not found")
    D["fc"], D["sub"] = core.const_int(mei, fc), core.const_int(mei, sub)
    if (core.const_int(mei, mei.class_attr(RS, "function_code")), core.const_int(mei, mei.class_attr(RS, "sub_function_code"))) != (D["fc"], D["sub"]):
        mei.fail(mei.cls(RS), "request and response disagree on function / sub-function code")
    expect(mei, mei.func(RQ, "__init__"), [],
           "ModbusRequest.__init__(self, **kwargs)\nself.read_code = read_code or DeviceInformation.Basic\nself.object_id = object_id")
    expect(mei, mei.func(RQ, "encode"), [],
           "packet = struct.pack('>BBB', self.sub_function_code, self.read_code, self.object_id)\nreturn packet")
    expect(mei, mei.func(RQ, "decode"), [],
           "params = struct.unpack('>BBB', data)\nself.sub_function_code, self.read_code, self.object_id = params")
    fn = mei.func(RQ, "execute")
    b = strip(fn.body)
    if not (len(b) == 4 and isinstance(b[0], ast.If) and isinstance(b[1], ast.If)):
        mei.fail(fn, "execute: expected two guards, the factory call and the return")
    tr = ExprTr(mei, {"self.object_id", "self.read_code"}, consts=consts)
    D["reject_oid"] = tr.tr_bool(b[0].test)
    D["reject_code"] = tr.tr_bool(b[1].test)
    for g in (b[0], b[1]):
        if g.orelse or len(g.body) != 1 or not isinstance(g.body[0], ast.Return) \
                or not isinstance(g.body[0].value, ast.Call) or ast.unparse(g.body[0].value.func) != "self.doException" \
                or len(g.body[0].value.args) != 1:
            mei.fail(g, "execute: guard body must be `return self.doException(<code>)`")
    for key, g in (("exc_oid", b[0]), ("exc_code", b[1])):
        arg = ast.unparse(g.body[0].value.args[0])
        if arg not in consts:
            mei.fail(g, "execute: unknown exception code %s" % arg)
        D[key] = consts[arg]
    if text(b[2:]) != norm("information = DeviceInformationFactory.get(_MCB, self.read_code, self.object_id)\n"
                           "return ReadDeviceInformationResponse(self.read_code, information)"):
        mei.fail(fn, "execute: tail not recognised")

    # ---- ReadDeviceInformationResponse
    fn = mei.func(RS, "__init__")
    conf = None
    for n in ast.walk(fn):
        if isinstance(n, ast.Assign) and ast.unparse(n.targets[0]) == "self.conformity":
            conf = n.value
    if conf is None:
        mei.fail(fn, "self.conformity not set")
    D["conformity"] = core.const_int(mei, conf)
    expect(mei, fn, [(conf, "CONF")],
           "ModbusResponse.__init__(self, **kwargs)\nself.read_code = read_code or DeviceInformation.Basic\n"
           "self.information = information or {}\nself.number_of_objects = 0\nself.conformity = CONF\n"
           "self.next_object_id = 0\nself.more_follows = MoreData.Nothing\nself.space_left = None")

    fn = mei.func(RS, "_encode_object")
    b = strip(fn.body)
    if not (len(b) >= 2 and isinstance(b[0], ast.AugAssign) and isinstance(b[0].op, ast.Sub)
            and ast.unparse(b[0].target) == "self.space_left" and isinstance(b[1], ast.If)):
        mei.fail(fn, "_encode_object: expected `self.space_left -= <cost>` then `if <full>: raise`")
    tr = ExprTr(mei, {"self.space_left", "len(data)"})
    D["space_after"] = "(EBin Sub (EAtom \"self.space_left\") %s)" % tr.tr(b[0].value)
    D["out_of_space"] = tr.tr_bool(b[1].test)
    expect(mei, fn, [(b[0].value, "COST"), (b[1].test, "FULL")],
           "self.space_left -= COST\nif FULL:\n    raise _OutOfSpaceException(object_id)\n"
           "encoded_obj = struct.pack('>BB', object_id, len(data))\n"
           "if IS_PYTHON3:\n    if isinstance(data, bytes):\n        encoded_obj += data\n    else:\n        encoded_obj += data.encode()\n"
           "else:\n    encoded_obj += data.encode()\n"
           "self.number_of_objects += 1\nreturn encoded_obj")

    fn = mei.func(RS, "encode")
    init = None
    for n in ast.walk(fn):
        if isinstance(n, ast.Assign) and ast.unparse(n.targets[0]) == "self.space_left":
            init = n.value
    if init is None:
        mei.fail(fn, "encode: self.space_left is not initialised")
    D["space_init"] = ExprTr(mei, set()).tr(init)
    expect(mei, fn, [(init, "SPACE")],
           "packet = struct.pack('>BBB', self.sub_function_code, self.read_code, self.conformity)\n"
           "self.space_left = SPACE\nself.number_of_objects = 0\nobjects = b''\n"
           "try:\n    for (object_id, data) in iteritems(self.information):\n        if isinstance(data, list):\n"
           "            for item in data:\n                objects += self._encode_object(object_id, item)\n"
           "        else:\n            objects += self._encode_object(object_id, data)\n"
           "except _OutOfSpaceException as e:\n    self.next_object_id = e.oid\n    self.more_follows = MoreData.KeepReading\n"
           "packet += struct.pack('>BBB', self.more_follows, self.next_object_id, self.number_of_objects)\n"
           "packet += objects\nreturn packet")
    expect(mei, mei.func(RS, "decode"), [],
           "params = struct.unpack('>BBBBBB', data[0:6])\n"
           "self.sub_function_code, self.read_code = params[0:2]\n"
           "self.conformity, self.more_follows = params[2:4]\n"
           "self.next_object_id, self.number_of_objects = params[4:6]\n"
           "self.information, count = {}, 6\n"
           "while count < len(data):\n"
           "    object_id, object_length = struct.unpack('>BB', data[count:count + 2])\n"
           "    count += object_length + 2\n"
           "    if object_id not in self.information.keys():\n"
           "        self.information[object_id] = data[count - object_length:count]\n"
           "    elif isinstance(self.information[object_id], list):\n"
           "        self.information[object_id].append(data[count - object_length:count])\n"
           "    else:\n"
           "        self.information[object_id] = [self.information[object_id], data[count - object_length:count]]")

    # ---- device.py
    F = "DeviceInformationFactory"
    expect(dev, dev.func(F, "get"), [], "identity = control.Identity\nreturn cls.__lookup[read_code](cls, identity, object_id)")
    expect(dev, dev.func(F, "__get"), [], "return {object_id: identity[object_id]}")
    expect(dev, dev.func(F, "__gets"), [], "return dict(((oid, identity[oid]) for oid in object_ids if identity[oid]))")
    I = "ModbusDeviceIdentification"
    expect(dev, dev.func(I, "__getitem__"), [], "return self.__data.setdefault(key, '')")
    # ---- configuration API of ModbusDeviceIdentification (every path by which an object gets its value)
    fn = dev.func(I, "__setitem__")
    b = strip(fn.body)
    if not (len(b) == 1 and isinstance(b[0], ast.If) and isinstance(b[0].test, ast.Compare)
            and len(b[0].test.ops) == 1 and isinstance(b[0].test.ops[0], ast.NotIn)
            and ast.unparse(b[0].test.left) == "key" and isinstance(b[0].test.comparators[0], (ast.List, ast.Tuple))):
        dev.fail(fn, "__setitem__: expected `if key not in [<ids>]: self.__data[key] = value`")
    excl = b[0].test.comparators[0]
    D["excluded"] = coq_list(coq_z(core.const_int(dev, e)) for e in excl.elts)
    expect(dev, fn, [(excl, "EXCLUDED")], "if key not in EXCLUDED:\n    self.__data[key] = value")
    expect(dev, dev.func(I, "update"), [], "self.__data.update(value)")
    expect(dev, dev.func(I, "__iter__"), [], "return iteritems(self.__data)")
    fn = dev.func(I, "__init__")
    b = strip(fn.body)
    cond = None
    try:
        cond = b[0].body[0].body[0].test
    except (AttributeError, IndexError):
        dev.fail(fn, "__init__: expected `if isinstance(info, dict): for key in info: if <cond>: ...`")
    D["init_accepts"] = ExprTr(dev, {"key"}).tr_bool(cond)
    expect(dev, fn, [(cond, "ACCEPT")],
           "if isinstance(info, dict):\n    for key in info:\n        if ACCEPT:\n            self.__data[key] = info[key]")
    data0 = dev.class_attr(I, "__data")
    try:
        d0 = ast.literal_eval(data0)
    except Exception:
        d0 = None
    if not (isinstance(d0, dict) and all(isinstance(k, int) and v == '' for k, v in d0.items())):
        dev.fail(dev.cls(I), "__data: expected a literal dict of blank values")
    props = []
    for n in dev.cls(I).body:
        if isinstance(n, ast.Assign) and isinstance(n.value, ast.Call) and ast.unparse(n.value.func) == "dict_property":
            if not (len(n.targets) == 1 and isinstance(n.targets[0], ast.Name) and len(n.value.args) == 2
                    and ast.unparse(n.value.args[0]) == "lambda s: s.__data"):
                dev.fail(n, "unrecognised dict_property definition")
            props.append("(%s, %s)" % (core.coq_str(n.targets[0].id), coq_z(core.const_int(dev, n.value.args[1]))))
    if not props:
        dev.fail(dev.cls(I), "no dict_property definitions found")
    D["properties"] = coq_list(props)
    utl = Src("pymodbus/utilities.py")
    expect(utl, utl.func(None, "dict_property"), [],
           "if hasattr(store, '__call__'):\n    getter = lambda self: store(self)[index]\n"
           "    setter = lambda self, value: store(self).__setitem__(index, value)\n"
           "elif isinstance(store, str):\n    getter = lambda self: self.__getattribute__(store)[index]\n"
           "    setter = lambda self, value: self.__getattribute__(store).__setitem__(index, value)\n"
           "else:\n    getter = lambda self: store[index]\n    setter = lambda self, value: store.__setitem__(index, value)\n"
           "return property(getter, setter)")
    cb = Src("pymodbus/device.py")
    ident_attr = cb.class_attr("ModbusControlBlock", "Identity")
    if ident_attr is None or ast.unparse(ident_attr) != "property(lambda s: s.__identity)" \
            or ast.unparse(cb.class_attr("ModbusControlBlock", "__identity") or ast.Constant(value=0)) != "ModbusDeviceIdentification()":
        cb.fail(cb.cls("ModbusControlBlock"), "ModbusControlBlock.Identity is not the shared ModbusDeviceIdentification()")

    lk = dev.class_attr(F, "__lookup")
    if not isinstance(lk, ast.Dict):
        dev.fail(dev.cls(F), "__lookup is not a dict literal")
    tr = ExprTr(dev, {"i"})

    def idrange(node):
        """list(range(a, b))  |  [x for x in range(a, b) if x not in range(c, d)]"""
        if isinstance(node, ast.Call) and ast.unparse(node.func) == "list" and len(node.args) == 1 \
                and isinstance(node.args[0], ast.Call) and ast.unparse(node.args[0].func) == "range" \
                and len(node.args[0].args) == 2 and not node.args[0].keywords:
            a, b = node.args[0].args
            return "{| r_lo := %s; r_hi := %s; r_skip := None |}" % (tr.tr(a), tr.tr(b))
        if isinstance(node, ast.ListComp) and ast.unparse(node.elt) == "x" and len(node.generators) == 1:
            g = node.generators[0]
            if ast.unparse(g.target) == "x" and isinstance(g.iter, ast.Call) and ast.unparse(g.iter.func) == "range" \
                    and len(g.iter.args) == 2 and len(g.ifs) == 1 and isinstance(g.ifs[0], ast.Compare) \
                    and ast.unparse(g.ifs[0].left) == "x" and len(g.ifs[0].ops) == 1 and isinstance(g.ifs[0].ops[0], ast.NotIn) \
                    and isinstance(g.ifs[0].comparators[0], ast.Call) and ast.unparse(g.ifs[0].comparators[0].func) == "range" \
                    and len(g.ifs[0].comparators[0].args) == 2:
                a, b = g.iter.args
                c, d = g.ifs[0].comparators[0].args
                return "{| r_lo := %s; r_hi := %s; r_skip := Some (%s, %s) |}" % (tr.tr(a), tr.tr(b), tr.tr(c), tr.tr(d))
        dev.fail(node, "unrecognised object-id list: %s" % ast.unparse(node))

    rows = []
    for k, v in zip(lk.keys, lk.values):
        kt = ast.unparse(k)
        if kt not in consts:
            dev.fail(k, "__lookup key is not a DeviceInformation constant: %s" % kt)
        if not (isinstance(v, ast.Lambda) and [a.arg for a in v.args.args] == ["c", "r", "i"]):
            dev.fail(v, "__lookup value is not `lambda c, r, i: ...`")
        body = v.body
        if not (isinstance(body, ast.Call) and not body.keywords and len(body.args) == 2 and ast.unparse(body.args[0]) == "r"):
            dev.fail(v, "__lookup lambda body not recognised: %s" % ast.unparse(body))
        f = ast.unparse(body.func)
        if f == "c.__get" and ast.unparse(body.args[1]) == "i":
            rows.append("(%s, LGet)" % coq_z(consts[kt]))
        elif f == "c.__gets":
            ids = body.args[1]
            if isinstance(ids, ast.IfExp):
                if ast.unparse(ids.test) != "c.__get(r, i)[i]":
                    dev.fail(ids, "__lookup: the switch must be `c.__get(r, i)[i]`")
                rows.append("(%s, LGetsIfPresent %s %s)" % (coq_z(consts[kt]), idrange(ids.body), idrange(ids.orelse)))
            else:
                rows.append("(%s, LGets %s)" % (coq_z(consts[kt]), idrange(ids)))
        else:
            dev.fail(v, "__lookup lambda body not recognised: %s" % ast.unparse(body))
    D["lookup"] = "[" + ";\n     ".join(rows) + "]"

    out = [core.HEADER, "From PM.theories Require Import DevInfo.", "Open Scope list_scope.\n",
           "Definition code : devinfo_code := {|",
           ";\n".join("  %s := %s" % kv for kv in [
               ("c_fc", coq_z(D["fc"])), ("c_sub", coq_z(D["sub"])), ("c_conformity", coq_z(D["conformity"])),
               ("c_space_init", D["space_init"]), ("c_space_after", D["space_after"]), ("c_out_of_space", D["out_of_space"]),
               ("c_reject_object_id", D["reject_oid"]), ("c_exc_object_id", coq_z(D["exc_oid"])),
               ("c_reject_read_code", D["reject_code"]), ("c_exc_read_code", coq_z(D["exc_code"])),
               ("c_lookup", D["lookup"]),
               ("c_more_nothing", coq_z(more["Nothing"])), ("c_more_keep", coq_z(more["KeepReading"])),
               ("c_basic", coq_z(di["Basic"])), ("c_regular", coq_z(di["Regular"])),
               ("c_extended", coq_z(di["Extended"])), ("c_specific", coq_z(di["Specific"])),
               ("c_init_accepts", D["init_accepts"]), ("c_setitem_excluded", D["excluded"]),
               ("c_properties", D["properties"])]),
           "|}.\n"]
    return {"GenDevInfo.v": "\n".join(out)}
