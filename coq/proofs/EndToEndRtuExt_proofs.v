(* EndToEndRtuExt_proofs.v — the extended composition (datastores + control block) over RTU framing. *)
From PM.theories Require Import Base Expr Struct FrBaseA FrSpecA PduCls PduSpec Pdu CorrPdu Store Exec ExecSpec
                                Device ExecOther ExecOtherSpec ExecOtherView Server
                                EndToEnd EndToEndSerial EndToEndExt CorrE2E CorrE2ESerial CorrE2EExt.
From PM.theories Require FrBCode Crc FrBCommon FrRtu FrSpecB.
From PM.Generated Require Import GenFramerA GenPdu.
From PM.Generated Require GenStore GenExec GenExecOther GenServer GenFramerB.
From PM.proofs Require Import Pdu_proofs Exec_proofs Server_proofs ExecOther_proofs
                              EndToEnd_adapt_proofs EndToEnd_spec_proofs EndToEnd_proofs EndToEndSerial_proofs
                              EndToEndRtu_proofs EndToEndExt_proofs.
From PM.proofs Require FrB_rtu_proofs.
From PM.Props Require C03_rtubin C06_rtubin.
From Coq Require Import ZifyBool.
Open Scope string_scope.
Open Scope list_scope.
Open Scope Z_scope.

Module R := FrB_rtu_proofs.

(* the station requests have fixed-size rules in the generated server table (4 bytes; 8 for diagnostics) *)
Lemma rtu_station_size m ow u : owire_of_msg m = Some ow -> spec_wf m = true -> wfb (u :: spec_pdu m) = true ->
  exists fc data, spec_pdu m = fc :: data /\
    R.simple_rule (FrBCommon.lookup_rule GenFramerB.server_decoder (FrBCommon.zb fc)) = true /\
    FrBCommon.frame_size (FrBCommon.lookup_rule GenFramerB.server_decoder (FrBCommon.zb fc)) (FrSpecB.spec_adu_rtu u (spec_pdu m))
      = Ok (FrBCommon.zlen (FrSpecB.spec_adu_rtu u (spec_pdu m))).
Proof.
  intros How Hwf Hb. destruct (R.spec_adu_rtu_shape u (spec_pdu m) Hb) as (lo & hi & Esh & _). rewrite Esh. clear Esh Hb.
  destruct m; cbn [owire_of_msg] in How; try discriminate How.
  2: destruct data as [|d [|? ?]]; try discriminate How.
  all: clear How; cbn [spec_pdu]; eexists; eexists; (split; [reflexivity|]); eval_rule; (split; [reflexivity|]);
       cbn [FrBCommon.frame_size]; unfold FrBCommon.zlen, u16, words; cbn [flat_map app length]; reflexivity.
Qed.

Definition rtu_item_ok_x (sk : skel) (cfg : scfg) (hosted : list Z) (fc : FrBaseA.cfg) (q : e2e_req) : Prop :=
  0 <= q_uid q < 256 /\ wfb (sreq_pdu (q_body q)) = true /\
  ((exists m w, q_body q = QMsg m /\ wreq_of_msg m = Some w /\ spec_wf m = true) \/ station_body (q_body q)) /\
  ((0 <= q_tid q < 65536 /\ 0 <= q_pid q < 65536 /\ served sk cfg hosted (q_uid q)) \/
   spec_accepts KAscii fc (q_uid q) = false).

Lemma rtu_item_item_x sk cfg hosted fc q : rtu_item_ok_x sk cfg hosted fc q -> item_ok_x KAscii sk cfg hosted fc q.
Proof.
  intros (Hu & Hb & Hbody & [(Ht & Hp & Hs)|Hrej]).
  - left. split; [|right; exact Hb]. destruct Hbody as [(m & w & Hq & Hw & Hwf)|Hst].
    + left. repeat split; try lia; try apply Hs. exists w. rewrite Hq. split; assumption.
    + right. repeat split; try lia; try apply Hs. exact Hst.
  - right. split; [|exact Hrej]. cbn [frame_wf]. unfold ascii_wf, frame_of. cbn [f_uid f_pdu].
    assert (Hl : (1 <= length (sreq_pdu (q_body q)))%nat).
    { destruct Hbody as [(m & w & Hq & Hw & Hwf)|Hst].
      - rewrite Hq. cbn [sreq_pdu]. apply (request_pdu_length m w Hw Hwf).
      - apply (station_frame_facts _ Hst). }
    repeat split; try lia; exact Hb.
Qed.

Lemma item_vf_x sk cfg keys q :
  rtu_item_ok_x sk cfg keys (unit_cfg sk cfg keys) q ->
  R.vf (rtu_fcfg (unit_cfg sk cfg keys)) (rtu_frame (unit_cfg sk cfg keys) q).
Proof.
  intros (Hu & Hb & Hbody & Hcase).
  assert (Hub : wfb (Z.to_N (q_uid q) :: sreq_pdu (q_body q)) = true).
  { cbn [wfb forallb]. fold (wfb (sreq_pdu (q_body q))). rewrite Hb. unfold byteb. lia. }
  unfold R.vf, rtu_frame. cbn [fst snd]. constructor.
  - exact Hub.
  - intros Hacc. apply is_msg_rtu. destruct Hbody as [(m & w & Hq & Hw & Hwf)|Hst].
    + rewrite Hq. cbn [sreq_pdu]. apply (dec_body_msg (QMsg m) w). split; assumption.
    + apply (station_frame_facts _ Hst).
  - rewrite zb_to_N by lia. exact (rtu_validate (unit_cfg sk cfg keys) (q_uid q) (cf_single cfg) eq_refl).
  - destruct Hbody as [(m & w & Hq & Hw & Hwf)|(m & ow & Hq & How & Hwf & _)]; rewrite Hq in *; cbn [sreq_pdu] in *.
    + exact (rtu_request_size m w _ Hw Hwf Hub).
    + exact (rtu_station_size m ow _ How Hwf Hub).
Qed.

Theorem e2e_rtu_ext sk cfg x st qs chunks :
  In sk serial_fes -> xrel x st ->
  Forall (rtu_item_ok_x sk cfg (x_keys x) (unit_cfg sk cfg (x_keys x))) qs ->
  concat chunks = concat (map req_adu_rtu qs) ->
  exists x' fs',
    rtu_server_run_x sk cfg x chunks = result x' (snd (spec_run_x rtu_adu (cf_single cfg) st qs)) fs' /\
    xrel x' (fst (spec_run_x rtu_adu (cf_single cfg) st qs)).
Proof.
  intros Hsk Hrel Hok Hcat. pose proof (serial_fe_ok sk Hsk) as Hfe.
  set (fc := unit_cfg sk cfg (x_keys x)) in *.
  assert (Hitems : Forall (item_ok_x KAscii sk cfg (x_keys x) fc) qs).
  { eapply Forall_impl; [|exact Hok]. intros q. apply rtu_item_item_x. }
  destruct (stream_spec_x KAscii packet_rtu rtu_adu rtu_pk_ok sk cfg Hfe ltac:(discriminate) qs x st x eq_refl Hrel Hitems)
    as (x' & Hall & Hrel' & _).
  assert (Hvf : Forall (R.vf (rtu_fcfg fc)) (map (rtu_frame fc) qs)).
  { apply Forall_forall. intros f Hf. apply in_map_iff in Hf as (q & <- & Hq).
    rewrite Forall_forall in Hok. exact (item_vf_x sk cfg (x_keys x) q (Hok q Hq)). }
  assert (Hcat' : concat (filter nonempty chunks) = R.stream (map (rtu_frame fc) qs)).
  { now rewrite concat_filter_nonempty, rtu_stream. }
  pose proof (C06_rtubin.C06_rtu (rtu_fcfg fc) (filter nonempty chunks) (map (rtu_frame fc) qs) FrRtu.rtu_init
                eq_refl (or_intror eq_refl) Hvf Hcat') as Hdels.
  destruct (feed_of_dels fc _ _ _ Hdels) as [fs' Hfeed].
  rewrite rtu_msgs in Hfeed.
  2: { eapply Forall_impl; [|exact Hok]. intros q (Hu & _). lia. }
  exists x', fs'. split; [|exact Hrel'].
  unfold rtu_server_run_x. rewrite run_serial_filter_g.
  eapply (run_serial_feed_g x_keys (handle_all_x packet_rtu sk cfg) rtu_recv_h sk cfg
            (handle_all_x_nil packet_rtu sk cfg) (hall_x_app packet_rtu sk cfg) (hall_x_keys packet_rtu sk cfg (proj1 Hfe)));
    [apply filter_nonempty_all|exact Hfeed|exact Hall].
Qed.
