(* ExecOtherSpec.v — what the MODBUS Application Protocol v1.1b3 says a server does with
   function codes 07 (6.7), 08 and its sub-functions (6.8), 0B (6.9), 0C (6.10), 11 (6.13),
   14 / 15 (6.14, 6.15) and 18 (6.19).  Transcribed from the specification, not from the
   code: no Python objects, no control block, no scripts.  Device-specific contents (the
   eight exception status outputs, the server id, which flag is which bit of the diagnostic
   register, the files, the FIFO queues) are fields of the abstract device.
   No proofs in this file. *)
From PM.theories Require Import Base.
Open Scope list_scope.
Open Scope Z_scope.

Record sdev := {
  (* 6.8 sub-functions 0B..12: the eight diagnostic counters *)
  sc_bus_msg : Z; sc_bus_comm_err : Z; sc_exc_err : Z; sc_server_msg : Z;
  sc_no_resp : Z; sc_nak : Z; sc_busy : Z; sc_overrun : Z;
  sc_event : Z;                 (* 6.9 comm event counter *)
  s_diag_reg : Z;               (* 6.8 sub 02: the 16-bit diagnostic register *)
  s_events : list Z;            (* 6.10 event log: event bytes, newest first, 0..64 *)
  s_listen : bool;              (* 6.8 sub 04 listen-only mode *)
  s_delim : list Z;             (* 6.8 sub 03 ASCII end-of-message delimiter *)
  s_exc_status : Z;             (* 6.7 the eight exception status outputs *)
  s_server_id : list Z; s_run : bool;   (* 6.13 *)
  s_processing : bool;          (* 6.9 / 6.10 status word FFFF while a previous program command is in progress *)
  s_files : list (Z * Z * Z);   (* 6.14: (file, record, word) *)
  s_fifos : list (Z * list Z)   (* 6.19: FIFO pointer address -> queue *)
}.

Inductive owire :=
| WExcStatus | WEvCounter | WEvLog | WReportId
| WDiag (sub data : Z)                               (* one data word *)
| WReadFile (subs : list (Z * Z * Z * Z))            (* reference type, file, record, record length *)
| WWriteFile (subs : list (Z * Z * Z * list Z))      (* reference type, file, record, register data *)
| WFifo (addr : Z).

Inductive sresp :=
| SStatus (v : Z)                                    (* 07 *)
| SEvCounter (status count : Z)                      (* 0B *)
| SEvLog (status event_count message_count : Z) (events : list Z)   (* 0C *)
| SServerId (id : list Z) (run : bool)               (* 11 *)
| SDiag (sub : Z) (data : list Z)                    (* 08: sub-function and data words *)
| SNoResponse                                        (* 08/04 *)
| SFileRead (groups : list (list Z))                 (* 14: per sub-request the words read *)
| SFileWrite (subs : list (Z * Z * Z * list Z))      (* 15: echo *)
| SFifo (values : list Z)                            (* 18 *)
| SOExc (fc code : Z)
| SUnspecified.                                      (* reserved / vendor sub-functions the document does not define *)

Definition status_word (s : sdev) : Z := if s_processing s then 65535 else 0.

Definition with_counters (s : sdev) (f : Z -> Z) (ev : Z) (reg : Z) (log : list Z) (listen : bool) : sdev :=
  {| sc_bus_msg := f (sc_bus_msg s); sc_bus_comm_err := f (sc_bus_comm_err s); sc_exc_err := f (sc_exc_err s);
     sc_server_msg := f (sc_server_msg s); sc_no_resp := f (sc_no_resp s); sc_nak := f (sc_nak s);
     sc_busy := f (sc_busy s); sc_overrun := f (sc_overrun s);
     sc_event := ev; s_diag_reg := reg; s_events := log; s_listen := listen; s_delim := s_delim s;
     s_exc_status := s_exc_status s; s_server_id := s_server_id s; s_run := s_run s;
     s_processing := s_processing s; s_files := s_files s; s_fifos := s_fifos s |}.

Definition set_delim_s (s : sdev) (d : list Z) : sdev :=
  {| sc_bus_msg := sc_bus_msg s; sc_bus_comm_err := sc_bus_comm_err s; sc_exc_err := sc_exc_err s;
     sc_server_msg := sc_server_msg s; sc_no_resp := sc_no_resp s; sc_nak := sc_nak s;
     sc_busy := sc_busy s; sc_overrun := sc_overrun s; sc_event := sc_event s; s_diag_reg := s_diag_reg s;
     s_events := s_events s; s_listen := s_listen s; s_delim := d;
     s_exc_status := s_exc_status s; s_server_id := s_server_id s; s_run := s_run s;
     s_processing := s_processing s; s_files := s_files s; s_fifos := s_fifos s |}.

Definition set_overrun_s (s : sdev) (v : Z) : sdev :=
  {| sc_bus_msg := sc_bus_msg s; sc_bus_comm_err := sc_bus_comm_err s; sc_exc_err := sc_exc_err s;
     sc_server_msg := sc_server_msg s; sc_no_resp := sc_no_resp s; sc_nak := sc_nak s;
     sc_busy := sc_busy s; sc_overrun := v; sc_event := sc_event s; s_diag_reg := s_diag_reg s;
     s_events := s_events s; s_listen := s_listen s; s_delim := s_delim s;
     s_exc_status := s_exc_status s; s_server_id := s_server_id s; s_run := s_run s;
     s_processing := s_processing s; s_files := s_files s; s_fifos := s_fifos s |}.

Fixpoint file_word (fs : list (Z * Z * Z)) (file rec : Z) : option Z :=
  match fs with
  | [] => None
  | (f, r, w) :: t => if (f =? file) && (r =? rec) then Some w else file_word t file rec
  end.

Fixpoint read_records (fs : list (Z * Z * Z)) (file rec : Z) (n : nat) : option (list Z) :=
  match n with
  | O => Some []
  | S k => match file_word fs file rec, read_records fs file (rec + 1) k with
           | Some w, Some r => Some (w :: r)
           | _, _ => None
           end
  end.

Fixpoint read_groups (fs : list (Z * Z * Z)) (subs : list (Z * Z * Z * Z)) : option (list (list Z)) :=
  match subs with
  | [] => Some []
  | (_, file, rec, len) :: t =>
      match read_records fs file rec (Z.to_nat len), read_groups fs t with
      | Some g, Some r => Some (g :: r)
      | _, _ => None
      end
  end.

Fixpoint fifo_of (l : list (Z * list Z)) (a : Z) : option (list Z) :=
  match l with [] => None | (k, q) :: t => if k =? a then Some q else fifo_of t a end.

(* 6.8: the sub-function codes the document defines; everything else is RESERVED *)
Definition diag_defined (sub : Z) : bool :=
  ((0 <=? sub) && (sub <=? 4)) || ((10 <=? sub) && (sub <=? 18)) || (sub =? 20).

Definition spec_diag (s : sdev) (sub data : Z) : sdev * sresp :=
  if sub =? 0 then (s, SDiag 0 [data])                                   (* Return Query Data: echo *)
  else if sub =? 1 then                                                  (* Restart Communications Option *)
    if negb ((data =? 0) || (data =? 65280)) then (s, SOExc 136 3)
    else (* port restarted: counters cleared, listen-only left, the log cleared on FF00, a
            communications-restart event (00) logged; no response when it was in listen-only mode *)
      (with_counters s (fun _ => 0) 0 (s_diag_reg s) (firstn 64 (0 :: (if data =? 65280 then [] else s_events s))) false,
       if s_listen s then SNoResponse else SDiag 1 [data])
  else if sub =? 2 then (s, SDiag 2 [s_diag_reg s])                      (* Return Diagnostic Register *)
  else if sub =? 3 then (set_delim_s s [Z.land (Z.shiftr data 8) 255], SDiag 3 [data])   (* CHAR 00 *)
  else if sub =? 4 then                                                  (* Force Listen Only Mode: no response *)
    (with_counters s (fun v => v) (sc_event s) (s_diag_reg s) (s_events s) true, SNoResponse)
  else if sub =? 10 then                                                 (* Clear Counters and Diagnostic Register *)
    (with_counters s (fun _ => 0) 0 0 (s_events s) (s_listen s), SDiag 10 [data])
  else if sub =? 11 then (s, SDiag 11 [sc_bus_msg s])
  else if sub =? 12 then (s, SDiag 12 [sc_bus_comm_err s])
  else if sub =? 13 then (s, SDiag 13 [sc_exc_err s])
  else if sub =? 14 then (s, SDiag 14 [sc_server_msg s])
  else if sub =? 15 then (s, SDiag 15 [sc_no_resp s])
  else if sub =? 16 then (s, SDiag 16 [sc_nak s])
  else if sub =? 17 then (s, SDiag 17 [sc_busy s])
  else if sub =? 18 then (s, SDiag 18 [sc_overrun s])
  else if sub =? 20 then (set_overrun_s s 0, SDiag 20 [data])            (* Clear Overrun Counter and Flag *)
  else (s, SUnspecified).

Definition spec_other (s : sdev) (w : owire) : sdev * sresp :=
  match w with
  | WExcStatus => (s, SStatus (s_exc_status s))
  | WEvCounter => (s, SEvCounter (status_word s) (sc_event s))
  | WEvLog => (s, SEvLog (status_word s) (sc_event s) (sc_bus_msg s) (s_events s))
  | WReportId => (s, SServerId (s_server_id s) (s_run s))
  | WDiag sub data => spec_diag s sub data
  | WReadFile subs =>
      (* byte count 0x07..0xF5, reference type 6, every record present; else 03 / 02 *)
      let bc := 7 * Z.of_nat (length subs) in
      if negb ((7 <=? bc) && (bc <=? 245)) || negb (forallb (fun x => match x with (r, _, _, _) => r =? 6 end) subs)
      then (s, SOExc 148 3)
      else match read_groups (s_files s) subs with
           | Some g => (s, SFileRead g)
           | None => (s, SOExc 148 2)
           end
  | WWriteFile subs =>
      if negb (forallb (fun x => match x with (r, _, _, _) => r =? 6 end) subs) || match subs with [] => true | _ => false end
      then (s, SOExc 149 3)
      else if forallb (fun x => match x with (_, f, r, d) =>
                                  match read_records (s_files s) f r (length d) with Some _ => true | None => false end end) subs
           then (s, SFileWrite subs)      (* the file contents are updated; not needed to state the deviation *)
           else (s, SOExc 149 2)
  | WFifo a =>
      match fifo_of (s_fifos s) a with
      | None => (s, SOExc 152 2)
      | Some q => if Z.of_nat (length q) >? 31 then (s, SOExc 152 3) else (s, SFifo q)
      end
  end.
