(* Crc_proofs.v — the table-driven computeCRC of utilities.py (model [py_crc], built from
   the regenerated constants) equals the bitwise CRC-16/Modbus of the serial line guide,
   byte-swapped, for every byte string. *)
From Coq Require Import ZifyBool.
From PM.theories Require Import Base Expr FrBCode Crc.
From PM.Generated Require Import GenFramerB.
Open Scope list_scope.
Open Scope N_scope.

(* ---- finite sweeps by binary recursion over the bit depth *)
Fixpoint all_bits (d : nat) (acc : N) (f : N -> bool) : bool :=
  match d with
  | O => f acc
  | S d' => all_bits d' (2 * acc) f && all_bits d' (2 * acc + 1) f
  end.

Lemma all_bits_sound d : forall acc f, all_bits d acc f = true ->
  forall x, acc * 2 ^ N.of_nat d <= x < (acc + 1) * 2 ^ N.of_nat d -> f x = true.
Proof.
  induction d as [|d IH]; intros acc f H x Hx.
  - cbn in *. replace x with acc by lia. exact H.
  - cbn [all_bits] in H. apply andb_prop in H. destruct H as [H0 H1].
    rewrite Nat2N.inj_succ, N.pow_succ_r' in Hx.
    set (P := 2 ^ N.of_nat d) in *.
    destruct (N.lt_ge_cases x ((2 * acc + 1) * P)) as [Hlt|Hge].
    + apply (IH _ _ H0). fold P. lia.
    + apply (IH _ _ H1). fold P. lia.
Qed.

Lemma sweep16 f : all_bits 16 0 f = true -> forall x, x < 65536 -> f x = true.
Proof. intros H x Hx. apply (all_bits_sound 16 0 f H). cbn. lia. Qed.

Lemma sweep8 f : all_bits 8 0 f = true -> forall x, x < 256 -> f x = true.
Proof. intros H x Hx. apply (all_bits_sound 8 0 f H). cbn. lia. Qed.

(* ---- the table *)
Lemma py_crc_table_gen : py_crc_table = py_gen_table.
Proof. vm_compute. reflexivity. Qed.

Lemma py_gen_table_length : length py_gen_table = 256%nat.
Proof. vm_compute. reflexivity. Qed.

(* every one of the 256 entries is eight rounds of the bitwise step *)
Lemma crc_table_entries : forall i, i < 256 ->
  nth_error py_gen_table (N.to_nat i) = Some (Z.of_N (iter_shift 8 i)).
Proof.
  intros i Hi.
  pose (f := fun i => option_eqb Z.eqb (nth_error py_gen_table (N.to_nat i)) (Some (Z.of_N (iter_shift 8 i)))).
  assert (H : f i = true) by (apply sweep8; [vm_compute; reflexivity | exact Hi]).
  unfold f in H. destruct (nth_error py_gen_table (N.to_nat i)) as [v|]; cbn in H; [|discriminate].
  apply Z.eqb_eq in H. now subst.
Qed.

(* ---- bounds *)
Lemma land_lxor_distr_l a b c : N.land (N.lxor a b) c = N.lxor (N.land a c) (N.land b c).
Proof.
  apply N.bits_inj. intro i. rewrite N.land_spec, !N.lxor_spec, !N.land_spec.
  destruct (N.testbit a i), (N.testbit b i), (N.testbit c i); reflexivity.
Qed.

Lemma lxor_lt_pow2 a b n : a < 2 ^ n -> b < 2 ^ n -> N.lxor a b < 2 ^ n.
Proof.
  intros Ha Hb.
  rewrite <- (N.mod_small a (2 ^ n)), <- (N.mod_small b (2 ^ n)) by assumption.
  rewrite <- !N.land_ones, <- land_lxor_distr_l, N.land_ones.
  apply N.mod_lt. apply N.pow_nonzero. discriminate.
Qed.

Lemma lxor_lt_65536 a b : a < 65536 -> b < 65536 -> N.lxor a b < 65536.
Proof. exact (lxor_lt_pow2 a b 16). Qed.

Lemma iter8_lt x : x < 65536 -> iter_shift 8 x < 65536.
Proof.
  intros Hx. apply N.ltb_lt.
  apply (sweep16 (fun x => iter_shift 8 x <? 65536)); [vm_compute; reflexivity | exact Hx].
Qed.

Lemma crc_byte_lt s b : s < 65536 -> b < 256 -> crc_byte s b < 65536.
Proof. intros Hs Hb. unfold crc_byte. apply iter8_lt. apply lxor_lt_65536; lia. Qed.

Lemma crc_reg_lt bs : forall s, s < 65536 -> wfb bs = true -> crc_reg s bs < 65536.
Proof.
  induction bs as [|b t IH]; intros s Hs Hw; cbn in *; [exact Hs|].
  apply andb_prop in Hw. destruct Hw as [Hb Ht]. unfold byteb in Hb. apply N.ltb_lt in Hb.
  apply IH; [apply crc_byte_lt; assumption | exact Ht].
Qed.

(* ---- the byte-at-a-time identity: eight shifts of x = (x >> 8) xor T[x & 0xff] *)
Lemma iter8_table x : x < 65536 ->
  iter_shift 8 x = N.lxor (N.shiftr x 8) (iter_shift 8 (N.land x 255)).
Proof.
  intros Hx. apply N.eqb_eq.
  apply (sweep16 (fun x => iter_shift 8 x =? N.lxor (N.shiftr x 8) (iter_shift 8 (N.land x 255))));
    [vm_compute; reflexivity | exact Hx].
Qed.

Lemma hi_byte_mask s : s < 65536 -> N.land (N.shiftr s 8) 255 = N.shiftr s 8.
Proof.
  intros Hs. apply N.eqb_eq.
  apply (sweep16 (fun s => N.land (N.shiftr s 8) 255 =? N.shiftr s 8)); [vm_compute; reflexivity | exact Hs].
Qed.

Lemma shiftr8_byte b : b < 256 -> N.shiftr b 8 = 0.
Proof.
  intros Hb. apply N.eqb_eq.
  apply (sweep8 (fun b => N.shiftr b 8 =? 0)); [vm_compute; reflexivity | exact Hb].
Qed.

Lemma land255_lt x : N.land x 255 < 256.
Proof. change 255 with (N.ones 8). rewrite N.land_ones. apply N.mod_lt. discriminate. Qed.

(* ---- closed forms of the generated expressions (these are the lemmas that break when
        utilities.py changes a shift count, a mask or the operators) *)
Open Scope Z_scope.

Lemma cc_idx_closed c a :
  eval (env_of [("crc"%string, c); ("byte2int(a)"%string, a)]) (cc_idx GenFramerB.crc) = Z.land (Z.lxor c a) 255.
Proof. reflexivity. Qed.

Lemma cc_upd_closed c idx :
  eval (env_of [("crc"%string, c); ("idx"%string, idx)]) (cc_upd GenFramerB.crc) = Z.lxor (Z.land (Z.shiftr c 8) 255) idx.
Proof. reflexivity. Qed.

Lemma cc_swap_closed c :
  eval (env_of [("crc"%string, c)]) (cc_swap GenFramerB.crc) =
  Z.lor (Z.land (Z.shiftl c 8) 65280) (Z.land (Z.shiftr c 8) 255).
Proof. reflexivity. Qed.

Lemma cc_init_closed : cc_init GenFramerB.crc = 65535.
Proof. reflexivity. Qed.

Lemma cc_check_closed c k :
  beval (env_of [("computeCRC(data)"%string, c); ("check"%string, k)]) (cc_check GenFramerB.crc) = (c =? k).
Proof. unfold beval. cbn. destruct (c =? k); reflexivity. Qed.

Module N2Zb.
Lemma inj_lxor a b : Z.of_N (N.lxor a b) = Z.lxor (Z.of_N a) (Z.of_N b).
Proof. destruct a, b; reflexivity. Qed.
Lemma inj_land a b : Z.of_N (N.land a b) = Z.land (Z.of_N a) (Z.of_N b).
Proof. destruct a, b; reflexivity. Qed.
Lemma inj_lor a b : Z.of_N (N.lor a b) = Z.lor (Z.of_N a) (Z.of_N b).
Proof. destruct a, b; reflexivity. Qed.
Lemma inj_shiftr a n : Z.of_N (N.shiftr a n) = Z.shiftr (Z.of_N a) (Z.of_N n).
Proof. rewrite N.shiftr_div_pow2, Z.shiftr_div_pow2 by lia. now rewrite N2Z.inj_div, N2Z.inj_pow. Qed.
Lemma inj_shiftl a n : Z.of_N (N.shiftl a n) = Z.shiftl (Z.of_N a) (Z.of_N n).
Proof. rewrite N.shiftl_mul_pow2, Z.shiftl_mul_pow2 by lia. now rewrite N2Z.inj_mul, N2Z.inj_pow. Qed.
End N2Zb.

Lemma py_index_table i : (i < 256)%N ->
  py_index py_crc_table (Z.of_N i) = Ok (Z.of_N (iter_shift 8 i)).
Proof.
  intros Hi. unfold py_index. rewrite py_crc_table_gen, py_gen_table_length.
  replace (Z.of_N i <? 0) with false by lia.
  replace ((Z.of_N i <? 0) || (Z.of_nat 256 <=? Z.of_N i))%bool with false by lia.
  replace (Z.to_nat (Z.of_N i)) with (N.to_nat i) by lia.
  rewrite crc_table_entries by exact Hi. reflexivity.
Qed.

(* one iteration of the computeCRC loop = eight bit times of the bitwise algorithm *)
Lemma py_crc_step_eq s b : (s < 65536)%N -> (b < 256)%N ->
  py_crc_step (Z.of_N s) b = Ok (Z.of_N (crc_byte s b)).
Proof.
  intros Hs Hb. unfold py_crc_step.
  rewrite cc_idx_closed.
  change 255 with (Z.of_N 255). rewrite <- N2Zb.inj_lxor, <- N2Zb.inj_land.
  rewrite py_index_table by apply land255_lt. cbn [bind].
  rewrite cc_upd_closed.
  change 8 with (Z.of_N 8). change 255 with (Z.of_N 255).
  rewrite <- N2Zb.inj_shiftr, <- N2Zb.inj_land, <- N2Zb.inj_lxor.
  f_equal. f_equal. unfold crc_byte.
  rewrite (iter8_table (N.lxor s b)) by (apply lxor_lt_65536; lia).
  rewrite N.shiftr_lxor, (shiftr8_byte b Hb), N.lxor_0_r, hi_byte_mask by exact Hs.
  reflexivity.
Qed.

Lemma py_crc_loop_eq bs : forall s, (s < 65536)%N -> wfb bs = true ->
  py_crc_loop (Z.of_N s) bs = Ok (Z.of_N (crc_reg s bs)).
Proof.
  induction bs as [|b t IH]; intros s Hs Hw; cbn [py_crc_loop crc_reg fold_left]; [reflexivity|].
  cbn in Hw. apply andb_prop in Hw. destruct Hw as [Hb Ht]. unfold byteb in Hb. apply N.ltb_lt in Hb.
  rewrite py_crc_step_eq by assumption. cbn [bind].
  apply IH; [apply crc_byte_lt; assumption | exact Ht].
Qed.

Lemma swap_closed_N c : (c < 65536)%N ->
  N.lor (N.land (N.shiftl c 8) 65280) (N.land (N.shiftr c 8) 255) = swap16 c.
Proof.
  intros Hc. apply N.eqb_eq.
  apply (sweep16 (fun c => N.lor (N.land (N.shiftl c 8) 65280) (N.land (N.shiftr c 8) 255) =? swap16 c)%N);
    [vm_compute; reflexivity | exact Hc].
Qed.

(* computeCRC = byte-swapped bitwise CRC-16/Modbus, for every byte string *)
Theorem py_crc_bitwise : forall bs, wfb bs = true ->
  py_crc bs = Ok (Z.of_N (swap16 (crc16_bitwise bs))).
Proof.
  intros bs Hw. unfold py_crc, crc16_bitwise. rewrite cc_init_closed.
  change 65535 with (Z.of_N 65535).
  rewrite py_crc_loop_eq by (try exact Hw; reflexivity). cbn [bind].
  rewrite cc_swap_closed.
  change 8 with (Z.of_N 8). change 65280 with (Z.of_N 65280). change 255 with (Z.of_N 255).
  rewrite <- N2Zb.inj_shiftl, <- N2Zb.inj_shiftr, <- !N2Zb.inj_land, <- N2Zb.inj_lor.
  rewrite swap_closed_N by (apply crc_reg_lt; [reflexivity | exact Hw]).
  reflexivity.
Qed.

Lemma crc16_lt bs : wfb bs = true -> (crc16_bitwise bs < 65536)%N.
Proof. intros Hw. apply crc_reg_lt; [reflexivity | exact Hw]. Qed.

(* checkCRC(data, check) is true exactly when check is the swapped bitwise CRC *)
Theorem py_check_crc_spec : forall bs k, wfb bs = true ->
  py_check_crc bs k = Ok (Z.of_N (swap16 (crc16_bitwise bs)) =? k).
Proof.
  intros bs k Hw. unfold py_check_crc. rewrite py_crc_bitwise by exact Hw. cbn [bind].
  rewrite cc_check_closed. reflexivity.
Qed.

(* swap16 as two bytes: the value whose big-endian ('>H') image is [lo; hi] *)
Lemma swap16_bytes c : (c < 65536)%N -> swap16 c = (256 * crc_lo c + crc_hi c)%N.
Proof.
  intros Hc. apply N.eqb_eq.
  apply (sweep16 (fun c => swap16 c =? 256 * crc_lo c + crc_hi c)%N); [vm_compute; reflexivity | exact Hc].
Qed.

Lemma crc_lo_lt c : (crc_lo c < 256)%N.
Proof. apply land255_lt. Qed.

Lemma crc_hi_lt c : (c < 65536)%N -> (crc_hi c < 256)%N.
Proof.
  intros Hc. apply N.ltb_lt.
  apply (sweep16 (fun c => crc_hi c <? 256)%N); [vm_compute; reflexivity | exact Hc].
Qed.

Lemma crc_lo_hi c : (c < 65536)%N -> (crc_lo c + 256 * crc_hi c = c)%N.
Proof.
  intros Hc. apply N.eqb_eq.
  apply (sweep16 (fun c => crc_lo c + 256 * crc_hi c =? c)%N); [vm_compute; reflexivity | exact Hc].
Qed.

Example crc_check_value :
  py_crc [49; 50; 51; 52; 53; 54; 55; 56; 57]%N = Ok 14155 /\
  crc16_bitwise [49; 50; 51; 52; 53; 54; 55; 56; 57]%N = 19255%N.   (* "123456789" -> 0x4B37 *)
Proof. split; vm_compute; reflexivity. Qed.
