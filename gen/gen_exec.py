"""GenExec.v — the `execute()` bodies of the data-access requests as guard scripts.

Sources read (all fail closed on any unrecognised shape):
  bit_read_message.py / bit_write_message.py / register_read_message.py / register_write_message.py
      execute() of FC 1-6, 15, 16, 22, 23  -> `script` (PM.theories.Exec.stmt list)
      which attributes each class's decode() assigns (only those may be mentioned)
      function_code of every response class named in a `return Cls(...)`
  pdu.py      ModbusExceptions constants, ExceptionResponse.__init__ (fc | ExceptionOffset),
              ModbusRequest.doException, IllegalFunctionRequest.execute / ErrorCode
  factory.py  ServerDecoder.__function_table (-> known function codes), the
              IllegalFunctionRequest fallback of _helper
  server/sync.py, server/async_io.py, server/asynchronous.py
              `except Exception: … response = request.doException(merror.SlaveFailure)` around execute

Arithmetic goes through gen.core.ExprTr; this file only matches statement shapes and prints data.
"""
import ast
from . import core
from .core import Src, ExprTr, coq_z, coq_str, coq_list

MSG_FILES = ["pymodbus/bit_read_message.py", "pymodbus/bit_write_message.py",
             "pymodbus/register_read_message.py", "pymodbus/register_write_message.py"]
OTHER_MSG_FILES = ["pymodbus/diag_message.py", "pymodbus/other_message.py",
                   "pymodbus/file_message.py", "pymodbus/mei_message.py"]

# the data-access function codes of properties C04 / C05
DATA_FCS = [1, 2, 3, 4, 5, 6, 15, 16, 22, 23]

# attributes the Coq request record (Exec.req) has
SCALAR_ATTRS = {"address", "count", "value", "byte_count", "and_mask", "or_mask",
                "read_address", "read_count", "write_address", "write_count", "write_byte_count"}
LIST_ATTRS = {"values", "write_registers"}


def body(fn):
    return [s for s in fn.body if not (core.is_docstring(s) or core.is_log_call(s))]


def find_class(srcs, name):
    for s in srcs:
        for n in s.mod.body:
            if isinstance(n, ast.ClassDef) and n.name == name:
                return s, n
    return None, None


def class_const(srcs, src, cls, attr, depth=0):
    """integer class attribute, looked up through single inheritance inside the given files"""
    for n in cls.body:
        if isinstance(n, ast.Assign) and len(n.targets) == 1 and isinstance(n.targets[0], ast.Name) \
                and n.targets[0].id == attr:
            return core.const_int(src, n.value)
    if depth < 4:
        for b in cls.bases:
            if isinstance(b, ast.Name):
                s2, c2 = find_class(srcs, b.id)
                if c2 is not None:
                    v = class_const(srcs, s2, c2, attr, depth + 1)
                    if v is not None:
                        return v
    return None


def find_method(srcs, src, cls, name, depth=0):
    for n in cls.body:
        if isinstance(n, ast.FunctionDef) and n.name == name:
            return src, n
    if depth < 4:
        for b in cls.bases:
            if isinstance(b, ast.Name):
                s2, c2 = find_class(srcs, b.id)
                if c2 is not None:
                    r = find_method(srcs, s2, c2, name, depth + 1)
                    if r[1] is not None:
                        return r
    return None, None


def decode_attrs(src, fn):
    """attributes assigned by decode(): name -> 'scalar' | 'list'"""
    out = {}

    def put(name, kind, node):
        if out.get(name, kind) != kind:
            src.fail(node, "decode assigns self.%s with two different kinds" % name)
        out[name] = kind

    def self_attr(t):
        return isinstance(t, ast.Attribute) and isinstance(t.value, ast.Name) and t.value.id == "self"

    for st in ast.walk(fn):
        if isinstance(st, ast.Assign):
            if len(st.targets) != 1:
                src.fail(st, "decode: chained assignment")
            tg = st.targets[0]
            tgs = tg.elts if isinstance(tg, ast.Tuple) else [tg]
            for t in tgs:
                if not self_attr(t):
                    continue
                v = st.value
                if isinstance(v, ast.Call) and ast.unparse(v.func) == "struct.unpack":
                    put(t.attr, "scalar", st)
                elif isinstance(v, ast.Compare) and not isinstance(tg, ast.Tuple):
                    put(t.attr, "scalar", st)
                elif not isinstance(tg, ast.Tuple) and (
                        (isinstance(v, ast.List) and not v.elts) or
                        (isinstance(v, ast.Subscript) and isinstance(v.slice, ast.Slice))):
                    put(t.attr, "list", st)
                else:
                    src.fail(st, "decode: unrecognised assignment to self.%s" % t.attr)
        elif isinstance(st, ast.AugAssign) and self_attr(st.target):
            src.fail(st, "decode: augmented assignment to an attribute")
    return out


class ScriptTr:
    """one execute() body -> list of Coq stmt terms"""

    def __init__(self, srcs, src, cls, fc, attrs, exc_codes):
        self.srcs, self.src, self.cls, self.fc = srcs, src, cls, fc
        self.attrs = attrs
        atoms = {"self." + a for a, k in attrs.items() if k == "scalar"}
        atoms |= {"len(self.%s)" % a for a, k in attrs.items() if k == "list"}
        consts = {"self.function_code": fc}
        consts.update({"merror." + k: v for k, v in exc_codes.items()})
        self.tr = ExprTr(src, atoms, consts=consts)
        self.kind = {}            # local name -> 'scalar' | 'list'
        self.resp_classes = {}

    def fail(self, node, why):
        self.src.fail(node, "%s.execute: %s" % (self.cls.name, why))

    def bind(self, node, name, kind):
        if self.kind.get(name, kind) != kind:
            self.fail(node, "local `%s` is used both as a scalar and as a list" % name)
        self.kind[name] = kind
        if kind == "scalar":
            self.tr.atoms.add(name)

    def exc_code(self, node):
        """`self.doException(merror.X)` -> int"""
        if not (isinstance(node, ast.Call) and ast.unparse(node.func) == "self.doException"
                and len(node.args) == 1 and not node.keywords):
            self.fail(node, "expected self.doException(merror.X)")
        t = ast.unparse(node.args[0])
        if t not in self.tr.consts or not t.startswith("merror."):
            self.fail(node, "unknown exception constant %s" % t)
        return self.tr.consts[t]

    def ctx_call(self, node, meth, nargs):
        if not (isinstance(node, ast.Call) and ast.unparse(node.func) == "context." + meth
                and len(node.args) == nargs and not node.keywords):
            return None
        return node.args

    def lexpr(self, node):
        t = ast.unparse(node)
        if isinstance(node, ast.Attribute) and t.startswith("self.") and self.attrs.get(node.attr) == "list":
            return "(LAttr %s)" % coq_str(t)
        if isinstance(node, ast.Name) and self.kind.get(node.id) == "list":
            return "(LVar %s)" % coq_str(node.id)
        if isinstance(node, ast.List) and len(node.elts) == 1:
            return "(LSingle %s)" % self.tr.tr(node.elts[0])
        self.fail(node, "unsupported list expression %s" % t)

    def rarg(self, node):
        t = ast.unparse(node)
        if isinstance(node, ast.Subscript) and isinstance(node.slice, ast.Constant) and node.slice.value == 0 \
                and not isinstance(node.slice.value, bool):
            return "(AIdx0 %s)" % self.lexpr(node.value)
        if (isinstance(node, ast.Name) and self.kind.get(node.id) == "list") or \
                (isinstance(node, ast.Attribute) and t.startswith("self.") and self.attrs.get(node.attr) == "list"):
            return "(AL %s)" % self.lexpr(node)
        return "(AZ %s)" % self.tr.tr(node)

    def translate(self, fn):
        if [a.arg for a in fn.args.args] != ["self", "context"] or fn.args.vararg or fn.args.kwarg \
                or fn.decorator_list:
            self.fail(fn, "unexpected signature")
        out = []
        stmts = body(fn)
        if not stmts or not isinstance(stmts[-1], ast.Return):
            self.fail(fn, "body does not end in a return")
        for i, st in enumerate(stmts):
            last = i == len(stmts) - 1
            # if <cond>: return self.doException(merror.X)
            if isinstance(st, ast.If):
                if st.orelse or len(st.body) != 1 or not isinstance(st.body[0], ast.Return):
                    self.fail(st, "unsupported if statement shape")
                code = self.exc_code(st.body[0].value)
                test = st.test
                if isinstance(test, ast.UnaryOp) and isinstance(test.op, ast.Not):
                    args = self.ctx_call(test.operand, "validate", 3)
                    if args is not None:
                        out.append("SValidate %s %s %s %s" % (self.tr.tr(args[0]), self.tr.tr(args[1]),
                                                             self.tr.tr(args[2]), coq_z(code)))
                        continue
                if "context" in ast.unparse(test):
                    self.fail(st, "unsupported use of context in a guard")
                out.append("SGuard %s %s" % (self.tr.tr_bool(test), coq_z(code)))
                continue
            # x = context.getValues(...)[0]? | x = <expr>
            if isinstance(st, ast.Assign):
                if len(st.targets) != 1 or not isinstance(st.targets[0], ast.Name):
                    self.fail(st, "unsupported assignment target")
                x = st.targets[0].id
                v = st.value
                args = self.ctx_call(v, "getValues", 3)
                if args is not None:
                    out.append("SGet %s %s %s %s" % (coq_str(x), self.tr.tr(args[0]), self.tr.tr(args[1]),
                                                     self.tr.tr(args[2])))
                    self.bind(st, x, "list")
                    continue
                if isinstance(v, ast.Subscript) and isinstance(v.slice, ast.Constant) and v.slice.value == 0 \
                        and not isinstance(v.slice.value, bool):
                    args = self.ctx_call(v.value, "getValues", 3)
                    if args is not None:
                        out.append("SGetIdx0 %s %s %s %s" % (coq_str(x), self.tr.tr(args[0]),
                                                             self.tr.tr(args[1]), self.tr.tr(args[2])))
                        self.bind(st, x, "scalar")
                        continue
                if "context" in ast.unparse(v):
                    self.fail(st, "unsupported use of context in an assignment")
                e = self.tr.tr(v)           # may mention x's previous (scalar) value
                self.bind(st, x, "scalar")
                out.append("SAssign %s %s" % (coq_str(x), e))
                continue
            # context.setValues(fx, a, vs)
            if isinstance(st, ast.Expr):
                args = self.ctx_call(st.value, "setValues", 3)
                if args is None:
                    self.fail(st, "unsupported expression statement: %s" % ast.unparse(st))
                out.append("SSet %s %s %s" % (self.tr.tr(args[0]), self.tr.tr(args[1]), self.lexpr(args[2])))
                continue
            # return Cls(args)
            if isinstance(st, ast.Return):
                if not last:
                    self.fail(st, "return before the end of the body")
                v = st.value
                if not (isinstance(v, ast.Call) and isinstance(v.func, ast.Name) and not v.keywords):
                    self.fail(st, "expected `return ResponseClass(args…)`")
                s2, c2 = find_class(self.srcs, v.func.id)
                if c2 is None:
                    self.fail(st, "response class %s not found" % v.func.id)
                rfc = class_const(self.srcs, s2, c2, "function_code")
                if rfc is None:
                    self.fail(st, "response class %s has no function_code" % v.func.id)
                self.resp_classes[v.func.id] = rfc
                out.append("SReturn %s %s" % (coq_str(v.func.id), coq_list(self.rarg(a) for a in v.args)))
                continue
            self.fail(st, "unsupported statement: %s" % ast.unparse(st).split("\n")[0])
        return out


def server_slave_failure(exc_codes):
    """the `except Exception` arm around request.execute in every front-end"""
    found = []
    spots = [("pymodbus/server/sync.py", "ModbusBaseRequestHandler", "execute"),
             ("pymodbus/server/async_io.py", "ModbusBaseRequestHandler", "execute"),
             ("pymodbus/server/asynchronous.py", "ModbusTcpProtocol", "_execute"),
             ("pymodbus/server/asynchronous.py", "ModbusUdpProtocol", "_execute")]
    for rel, cls, meth in spots:
        src = Src(rel)
        fn = src.func(cls, meth)
        tries = [s for s in fn.body if isinstance(s, ast.Try)]
        if len(tries) != 1:
            src.fail(fn, "%s.%s: expected exactly one try statement" % (cls, meth))
        t = tries[0]
        if "request.execute(" not in ast.unparse(ast.Module(body=t.body, type_ignores=[])):
            src.fail(t, "%s.%s: request.execute is not inside the try" % (cls, meth))
        arms = [h for h in t.handlers if h.type is not None and ast.unparse(h.type) == "Exception"]
        if len(arms) != 1 or t.handlers[-1] is not arms[0] or t.finalbody or t.orelse:
            src.fail(t, "%s.%s: expected a final `except Exception` arm" % (cls, meth))
        b = [s for s in arms[0].body if not core.is_log_call(s)]
        if len(b) != 1 or not isinstance(b[0], ast.Assign) or ast.unparse(b[0].targets[0]) != "response":
            src.fail(arms[0], "%s.%s: unrecognised except-arm body" % (cls, meth))
        v = b[0].value
        if not (isinstance(v, ast.Call) and ast.unparse(v.func) == "request.doException" and len(v.args) == 1
                and ast.unparse(v.args[0]).startswith("merror.")
                and ast.unparse(v.args[0])[7:] in exc_codes):
            src.fail(arms[0], "%s.%s: expected response = request.doException(merror.X)" % (cls, meth))
        if "merror" not in imports_alias(src, "pymodbus.pdu", "ModbusExceptions"):
            src.fail(fn, "merror is not pymodbus.pdu.ModbusExceptions here")
        found.append(exc_codes[ast.unparse(v.args[0])[7:]])
    if len(set(found)) != 1:
        raise core.TranslatorFail("pymodbus/server", 0, "front-ends map datastore failures to different codes: %r" % found)
    return found[0]


def imports_alias(src, module, name):
    """local names under which `module.name` is imported in src"""
    out = set()
    for n in src.mod.body:
        if isinstance(n, ast.ImportFrom) and n.module == module:
            for a in n.names:
                if a.name == name:
                    out.add(a.asname or a.name)
    return out


def generate():
    srcs = [Src(f) for f in MSG_FILES]
    pdu = Src("pymodbus/pdu.py")
    fac = Src("pymodbus/factory.py")

    # ---- exception constants
    exc_codes = {}
    for n in pdu.cls("ModbusExceptions").body:
        if isinstance(n, ast.Assign) and len(n.targets) == 1 and isinstance(n.targets[0], ast.Name):
            exc_codes[n.targets[0].id] = core.const_int(pdu, n.value)
    for k in ("IllegalFunction", "IllegalAddress", "IllegalValue", "SlaveFailure"):
        if k not in exc_codes:
            pdu.fail(pdu.cls("ModbusExceptions"), "ModbusExceptions.%s missing" % k)
    for s in srcs:
        if imports_alias(s, "pymodbus.pdu", "ModbusExceptions") != {"merror"}:
            s.fail(s.mod, "expected `from pymodbus.pdu import ModbusExceptions as merror`")

    # ---- ExceptionResponse.__init__ and doException
    fn = pdu.func("ExceptionResponse", "__init__")
    if [a.arg for a in fn.args.args] != ["self", "function_code", "exception_code"]:
        pdu.fail(fn, "ExceptionResponse.__init__: unexpected signature")
    off = pdu.class_attr("ExceptionResponse", "ExceptionOffset")
    if off is None:
        pdu.fail(fn, "ExceptionResponse.ExceptionOffset missing")
    tre = ExprTr(pdu, {"function_code"}, consts={"self.ExceptionOffset": core.const_int(pdu, off)})
    exc_fc = None
    seen_code = False
    for st in body(fn):
        t = ast.unparse(st)
        if t == "ModbusResponse.__init__(self, **kwargs)" or t == "self.original_code = function_code":
            continue
        if isinstance(st, ast.Assign) and ast.unparse(st.targets[0]) == "self.function_code":
            exc_fc = tre.tr(st.value)
            continue
        if t == "self.exception_code = exception_code":
            seen_code = True
            continue
        pdu.fail(st, "ExceptionResponse.__init__: unrecognised statement")
    if exc_fc is None or not seen_code:
        pdu.fail(fn, "ExceptionResponse.__init__: function_code / exception_code assignment missing")
    fn = pdu.func("ModbusRequest", "doException")
    if [ast.unparse(s) for s in body(fn)] != ["exc = ExceptionResponse(self.function_code, exception)", "return exc"] \
            or [a.arg for a in fn.args.args] != ["self", "exception"]:
        pdu.fail(fn, "doException: unrecognised shape")

    # ---- IllegalFunctionRequest
    ill = pdu.class_attr("IllegalFunctionRequest", "ErrorCode")
    if ill is None:
        pdu.fail(pdu.cls("IllegalFunctionRequest"), "ErrorCode missing")
    illegal_code = core.const_int(pdu, ill)
    fn = pdu.func("IllegalFunctionRequest", "execute")
    if [ast.unparse(s) for s in body(fn)] != ["return ExceptionResponse(self.function_code, self.ErrorCode)"]:
        pdu.fail(fn, "IllegalFunctionRequest.execute: unrecognised shape")
    fn = pdu.func("IllegalFunctionRequest", "__init__")
    if "self.function_code = function_code" not in [ast.unparse(s) for s in body(fn)]:
        pdu.fail(fn, "IllegalFunctionRequest.__init__: does not keep the function code")

    # ---- ServerDecoder function table and the IllegalFunctionRequest fallback
    table = None
    for n in fac.cls("ServerDecoder").body:
        if isinstance(n, ast.Assign) and ast.unparse(n.targets[0]) == "__function_table":
            if not (isinstance(n.value, ast.List) and all(isinstance(e, ast.Name) for e in n.value.elts)):
                fac.fail(n, "__function_table: not a list of class names")
            table = [e.id for e in n.value.elts]
    if table is None:
        fac.fail(fac.cls("ServerDecoder"), "__function_table not found")
    all_srcs = srcs + [Src(f) for f in OTHER_MSG_FILES]
    known = {}
    for name in table:
        s2, c2 = find_class(all_srcs, name)
        if c2 is None:
            fac.fail(fac.cls("ServerDecoder"), "class %s of the function table not found" % name)
        v = class_const(all_srcs, s2, c2, "function_code")
        if v is None:
            s2.fail(c2, "%s has no function_code" % name)
        if v in known:
            fac.fail(fac.cls("ServerDecoder"), "function code %d registered twice (%s, %s)" % (v, known[v], name))
        known[v] = name
    init = [ast.unparse(s) for s in body(fac.func("ServerDecoder", "__init__"))]
    if "self.__lookup = dict([(f.function_code, f) for f in self.__function_table])" not in init:
        fac.fail(fac.func("ServerDecoder", "__init__"), "lookup table construction not recognised")
    helper = [ast.unparse(s) for s in body(fac.func("ServerDecoder", "_helper"))]
    need = ["function_code = byte2int(data[0])",
            "request = self.__lookup.get(function_code, lambda: None)()",
            "request.decode(data[1:])"]
    for ln in need:
        if ln not in helper:
            fac.fail(fac.func("ServerDecoder", "_helper"), "_helper: missing `%s`" % ln)
    iff = [s for s in body(fac.func("ServerDecoder", "_helper")) if isinstance(s, ast.If)
           and ast.unparse(s.test) == "not request"]
    if len(iff) != 1 or "request = IllegalFunctionRequest(function_code)" not in \
            [ast.unparse(s) for s in iff[0].body if not core.is_log_call(s)]:
        fac.fail(fac.func("ServerDecoder", "_helper"), "_helper: IllegalFunctionRequest fallback not recognised")

    # ---- the ten execute() bodies
    scripts = []
    resp_fc = {}
    defs = []
    for fc in DATA_FCS:
        if fc not in known:
            fac.fail(fac.cls("ServerDecoder"), "no request class for function code %d in the function table" % fc)
        name = known[fc]
        s2, c2 = find_class(srcs, name)
        if c2 is None:
            fac.fail(fac.cls("ServerDecoder"), "class %s not in the data-access message files" % name)
        ds, dfn = find_method(srcs, s2, c2, "decode")
        if dfn is None:
            s2.fail(c2, "%s has no decode" % name)
        attrs = decode_attrs(ds, dfn)
        for a, k in attrs.items():
            if (k == "scalar" and a not in SCALAR_ATTRS) or (k == "list" and a not in LIST_ATTRS):
                ds.fail(dfn, "%s.decode assigns attribute %s (%s) unknown to the model" % (name, a, k))
        es, efn = find_method(srcs, s2, c2, "execute")
        if efn is None:
            s2.fail(c2, "%s has no execute" % name)
        tr = ScriptTr(srcs, es, c2, fc, attrs, exc_codes)
        stmts = tr.translate(efn)
        for cname, rfc in tr.resp_classes.items():
            if resp_fc.get(cname, rfc) != rfc:
                es.fail(efn, "response class %s with two function codes" % cname)
            resp_fc[cname] = rfc
        defs.append("(* %s:%d %s.execute *)\nDefinition %s : script :=\n  [ %s ].\n" % (
            es.rel, efn.lineno, name, name, ";\n    ".join(stmts)))
        scripts.append("(%s, (%s, %s))" % (coq_z(fc), coq_str(name), name))

    slave_failure = server_slave_failure(exc_codes)

    out = [core.HEADER, "From PM.theories Require Import Store Exec.\nOpen Scope list_scope.\n"]
    out += defs
    out.append("Definition code : exec_code := {|")
    out.append("  x_scripts := %s;" % coq_list(scripts))
    out.append("  x_known_fcs := %s;" % coq_list(coq_z(k) for k in sorted(known)))
    out.append("  x_illegal_code := %s;" % coq_z(illegal_code))
    out.append("  x_slave_failure := %s;" % coq_z(slave_failure))
    out.append("  x_exc_fc := %s;" % exc_fc)
    out.append("  x_resp_fc := %s" % coq_list("(%s, %s)" % (coq_str(k), coq_z(v)) for k, v in sorted(resp_fc.items())))
    out.append("|}.\n")
    return {"GenExec.v": "\n".join(out)}
