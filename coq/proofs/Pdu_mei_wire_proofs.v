(* Pdu_mei_wire_proofs.v — every Read Device Identification response the encoder model emits —
   single page or not, scalar or list-valued (repeated) objects, whatever runs out of space where —
   is self-consistent on the wire: the NUMBER OF OBJECTS byte equals the number of (id, length,
   data) objects that follow, and nothing follows them (CorrPdu.mei_wire_ok). *)
From PM.theories Require Import Base Struct PduCls PduSpec Pdu CorrPdu.
From PM.Generated Require Import GenPdu.
From PM.proofs Require Import Struct_proofs Pdu_bits_proofs Pdu_proofs.
From Coq Require Import ZifyBool.
Open Scope string_scope.
Open Scope list_scope.
Open Scope Z_scope.

Definition enc1 (kv : Z * bytes) : bytes := u8 (fst kv) ++ u8 (zlen (snd kv)) ++ snd kv.
Definition ok1 (kv : Z * bytes) : Prop := is_u8 (fst kv) = true /\ is_u8 (zlen (snd kv)) = true.

Lemma pk_BB a b h : pk [FB; FB] [a; b] = Ok h -> is_u8 a = true /\ is_u8 b = true /\ h = u8 a ++ u8 b.
Proof.
  unfold pk. rewrite !pack_cons, pack_nil.
  destruct (is_u8 a) eqn:Ea.
  - rewrite (pack1_B a Ea). cbn [bind].
    destruct (is_u8 b) eqn:Eb.
    + rewrite (pack1_B b Eb). cbn [bind]. intros H. injection H as <-. rewrite ?app_nil_r. auto.
    + rewrite (pack1_B_raises b Eb). cbn [bind]. discriminate.
  - rewrite (pack1_B_raises a Ea). cbn [bind]. discriminate.
Qed.

Lemma pk_BBB a b c h : pk [FB; FB; FB] [a; b; c] = Ok h ->
  is_u8 a = true /\ is_u8 b = true /\ is_u8 c = true /\ h = u8 a ++ u8 b ++ u8 c.
Proof.
  unfold pk. rewrite !pack_cons, pack_nil.
  destruct (is_u8 a) eqn:Ea; [rewrite (pack1_B a Ea) | rewrite (pack1_B_raises a Ea); cbn [bind]; discriminate].
  cbn [bind].
  destruct (is_u8 b) eqn:Eb; [rewrite (pack1_B b Eb) | rewrite (pack1_B_raises b Eb); cbn [bind]; discriminate].
  cbn [bind].
  destruct (is_u8 c) eqn:Ec; [rewrite (pack1_B c Ec) | rewrite (pack1_B_raises c Ec); cbn [bind]; discriminate].
  cbn [bind]. intros H. injection H as <-. rewrite ?app_nil_r. auto.
Qed.

(* what _encode_object appended: whole objects, each with in-range id and length, counted one by one *)
Lemma mei_objs_shape : forall items space n acc objs sp n' oos,
  mei_objs items space n acc = Ok (objs, sp, n', oos) ->
  exists ds, objs = acc ++ flat_map enc1 ds /\ n' = n + zlen ds /\ Forall ok1 ds.
Proof.
  induction items as [|[oid d] t IH]; intros space n acc objs sp n' oos H; cbn [mei_objs] in H.
  - inversion H; subst. exists []. cbn. rewrite app_nil_r. unfold zlen. cbn. split; [reflexivity|]. split; [lia|constructor].
  - destruct (space - (2 + zlen d) <=? 0) eqn:E.
    + inversion H; subst. exists []. cbn. rewrite app_nil_r. unfold zlen. cbn. split; [reflexivity|]. split; [lia|constructor].
    + destruct (pk [FB; FB] [oid; zlen d]) as [h|e] eqn:Eh; cbn [bind] in H; [|discriminate].
      destruct (pk_BB _ _ _ Eh) as [Ha [Hb Hh]]. subst h.
      destruct (IH _ _ _ _ _ _ _ H) as [ds [Hobjs [Hn Hok]]].
      exists ((oid, d) :: ds). split.
      * rewrite Hobjs. cbn [flat_map]. unfold enc1 at 2. cbn [fst snd]. rewrite <- !app_assoc. reflexivity.
      * split.
        -- rewrite Hn. unfold zlen. cbn [length]. lia.
        -- constructor; [split; assumption | exact Hok].
Qed.

Lemma to_nat_zlen (d : bytes) : N.to_nat (Z.to_N (zlen d)) = length d.
Proof. unfold zlen. rewrite <- nat_N_Z, N2Z.id, Nnat.Nat2N.id. reflexivity. Qed.

Lemma skipn_app_exact {A} (a b : list A) : skipn (length a) (a ++ b) = b.
Proof. induction a as [|x a IH]; [reflexivity | exact IH]. Qed.

(* the receiver's view: [count] whole objects and nothing else parse back *)
Lemma parse_objs_ok : forall ds fuel, Forall ok1 ds -> (length ds < fuel)%nat ->
  mei_objs_ok fuel (N.of_nat (length ds)) (flat_map enc1 ds) = true.
Proof.
  induction ds as [|[oid d] t IH]; intros fuel Hok Hf.
  - destruct fuel as [|f]; [lia|]. reflexivity.
  - destruct fuel as [|f]; [cbn in Hf; lia|].
    inversion Hok as [|x l [Ha Hb] Ht]; subst.
    cbn [flat_map]. unfold enc1 at 1. cbn [fst snd]. unfold u8. cbn [app].
    cbn [mei_objs_ok].
    replace (N.eqb (N.of_nat (length ((oid, d) :: t))) 0) with false
      by (symmetry; apply N.eqb_neq; cbn [length]; rewrite Nnat.Nat2N.inj_succ; apply N.neq_succ_0).
    cbn [negb andb].
    rewrite to_nat_zlen, app_length.
    replace (Nat.leb (length d) (length d + length (flat_map enc1 t))) with true
      by (symmetry; apply Nat.leb_le; lia).
    cbn [andb]. rewrite skipn_app_exact.
    replace (N.of_nat (length ((oid, d) :: t)) - 1)%N with (N.of_nat (length t))
      by (cbn [length]; rewrite Nnat.Nat2N.inj_succ, <- N.pred_sub, N.pred_succ; reflexivity).
    apply IH; [exact Ht | cbn [length] in Hf; lia].
Qed.

Lemma objs_length_bound : forall ds, (2 * length ds <= length (flat_map enc1 ds))%nat.
Proof.
  induction ds as [|[oid d] t IH]; [cbn; lia|].
  cbn [flat_map length]. rewrite app_length.
  assert (2 <= length (enc1 (oid, d)))%nat by (unfold enc1, u8; cbn [fst snd app length]; lia).
  lia.
Qed.

(* MAIN *)
Theorem mei_wire_consistent : forall rc cf more next nobj info sl b,
  py_pdu (OMeiRsp 14 rc cf more next nobj info sl) = Ok b -> mei_wire_ok b = true.
Proof.
  intros rc cf more next nobj info sl b H.
  unfold py_pdu in H. cbn [obj_fc class_of] in H.
  change (fc_of ReadDeviceInformationResponse) with (Some 43) in H. cbn [bind] in H.
  change (fc_byte 43) with (@Ok bytes [43%N]) in H. cbn [bind] in H.
  unfold py_encode in H. cbn [encode_st] in H.
  destruct (pk [FB; FB; FB] [14; rc; cf]) as [p|e] eqn:Ep; [|cbn in H; discriminate].
  destruct (pk_BBB _ _ _ _ Ep) as [_ [Hrc [Hcf Hp]]]. subst p.
  destruct (mei_objs (mei_items info) (253 - 6) 0 []) as [[[[objs sp] n] oos]|e] eqn:Eo; [|cbn in H; discriminate].
  destruct (mei_objs_shape _ _ _ _ _ _ _ _ Eo) as [ds [Hobjs [Hn Hok]]].
  cbn [app] in Hobjs. subst objs.
  set (more' := match oos with Some _ => more_keep_reading | None => more end) in *.
  set (next' := match oos with Some oid => oid | None => next end) in *.
  destruct (pk [FB; FB; FB] [more'; next'; n]) as [q|e] eqn:Eq; [|cbn in H; discriminate].
  destruct (pk_BBB _ _ _ _ Eq) as [Hm [Hnx [Hnb Hq]]]. subst q.
  cbn [fst bind] in H. inversion H as [Hb]. clear H.
  unfold u8. cbn [app]. unfold mei_wire_ok.
  change (Z.to_N 14) with 14%N.
  assert (Hcnt : Z.to_N n = N.of_nat (length ds)).
  { rewrite Hn. unfold zlen. rewrite Z.add_0_l, <- nat_N_Z, N2Z.id. reflexivity. }
  rewrite Hcnt. apply parse_objs_ok; [exact Hok|].
  pose proof (objs_length_bound ds). lia.
Qed.
