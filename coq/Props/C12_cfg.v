(* C12 add-on — what is configured at a documented entry point is what serves.
   "No received byte sequence can … corrupt its data" presupposes that the store, decoder, framer
   and flags the serving code reads ARE the ones the user configured: a factory that drops a
   keyword, an `x or default` that replaces a value it takes for empty, or decoder tables shared
   between servers silently put other data behind the same front-end.  Generated tables:
   GenWiring.factories / truth_facts / decoder_facts, GenFrontends.server_wiring / servers. *)
From Coq Require Import List String.
From PM.theories Require Import Base Ladder Frontends CorrFrontends Wiring.
From PM.Generated Require Import GenFrontends GenWiring.
From PM.proofs Require Import FrontendsC12_proofs Wiring_proofs.
Import ListNotations.
Open Scope string_scope.
Open Scope list_scope.

(* every Start*Server factory (all ten; the asyncio serial one is a declared stub), every role the
   front-end's handlers read: the user's value is served whatever its user-level truth value, the
   constructor's default only when nothing was passed *)
Theorem C12_entry_point_serves_user_value : forall f fe role,
  In f factories -> In (fa_target f, fe) servers -> In role (required_roles fe) ->
  exists roles s p, assoc_s (fa_target f) server_wiring = Some roles /\ assoc_s role roles = Some s /\
    wparam s = Some p /\
    forall V (env : string -> option V) (user_truth : V -> bool) (d : V),
      (forall x, env role = Some x ->
         configured_t s (py_truthy (role_overrides truth_facts role) user_truth) (ctor_sees f env p) d = x) /\
      (env role = None ->
         configured_t s (py_truthy (role_overrides truth_facts role) user_truth) (ctor_sees f env p) d = d).
Proof. exact entry_point_serves_user_value. Qed.
Print Assumptions C12_entry_point_serves_user_value.

(* the same for a server object the user constructs directly, with Python's `or` taken literally
   (C12_server_wiring states it for Ladder.configured, which ignores truth values) *)
Theorem C12_constructor_serves_user_value : forall srv fe role,
  In (srv, fe) servers -> In role (required_roles fe) ->
  exists roles s, assoc_s srv server_wiring = Some roles /\ assoc_s role roles = Some s /\
    forall V (user_truth : V -> bool) (x d : V),
      configured_t s (py_truthy (role_overrides truth_facts role) user_truth) (Some x) d = x /\
      configured_t s (py_truthy (role_overrides truth_facts role) user_truth) None d = d.
Proof. exact constructor_serves_user_value. Qed.
Print Assumptions C12_constructor_serves_user_value.

(* all documented entry points are in the table *)
Theorem C12_entry_points_covered :
  forallb (fun n => existsb (fun f => String.eqb (fa_name f) n) factories) entry_points = true.
Proof. exact entry_points_covered. Qed.
Print Assumptions C12_entry_points_covered.

(* custom functions are registered on the decoder of the server that was built — and decoders keep
   their lookup tables per instance, so they reach no other server's decoder *)
Theorem C12_custom_functions_stay_local :
  (forall f, In f factories -> fa_registers f = true) /\
  (forall c a b, In (c, (a, b)) decoder_facts -> a = true /\ b = true).
Proof. exact custom_functions_stay_local. Qed.
Print Assumptions C12_custom_functions_stay_local.

(* why the truth facts are needed: a context class with __len__ would lose an empty context *)
Theorem C12_falsy_context_would_be_replaced :
  forall V (x d : V), configured_t (WOrDefault "context" "ModbusServerContext()") (py_truthy true (fun _ => false)) (Some x) d = d.
Proof. exact falsy_context_would_be_replaced. Qed.
Print Assumptions C12_falsy_context_would_be_replaced.

Example C12_cfg_nonvacuous :
  length factories = 10%nat /\ (9 <= length servers)%nat /\
  (exists f, In f factories /\ fa_name f = "sync.StartTcpServer" /\
     ctor_sees f (fun k => if String.eqb k "broadcast_enable" then Some 1%nat else None) "broadcast_enable" = Some 1%nat /\
     ctor_sees f (fun k => if String.eqb k "context" then Some 7%nat else None) "context" = Some 7%nat /\
     ctor_sees f (fun k => if String.eqb k "framer" then Some 9%nat else None) "framer" = Some 9%nat).
Proof. exact wiring_nonvacuous. Qed.
Print Assumptions C12_cfg_nonvacuous.
