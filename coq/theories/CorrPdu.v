(* CorrPdu.v — harness side of C01/C02: the abstraction from objects to spec messages,
   equality on observations, the case types and the [chk_*] functions
   (model agreement, PROPERTY oracle).  The property oracle uses only PduSpec
   (spec_pdu / msg_matches / field identity on what the implementation returned), never the
   code-shaped model.  No proofs. *)
From PM.theories Require Import Base Struct PduCls PduSpec Pdu.
From PM.Generated Require Import GenPdu.
Open Scope string_scope.
Open Scope list_scope.
Open Scope Z_scope.

(* ---- abstraction: which spec message an object stands for ------------------------------
   [None] = the object is outside the property's domain (a field does not fit its wire
   width, derived attributes are inconsistent, or the class has no PDU of its own). *)

Fixpoint words_of_bytes (b : bytes) : option (list Z) :=
  match b with
  | [] => Some []
  | h :: l :: t => match words_of_bytes t with Some r => Some (rd_be16 h l :: r) | None => None end
  | [_] => None
  end.

Definition dmsg_words (m : dmsg) : option (list Z) :=
  match m with
  | DNone => Some []
  | DInt v => Some [v]
  | DList l | DTuple l => Some l
  | DBytes b => words_of_bytes b
  end.

Fixpoint opt_map {A B} (f : A -> option B) (l : list A) : option (list B) :=
  match l with
  | [] => Some []
  | x :: t => match f x, opt_map f t with Some y, Some r => Some (y :: r) | _, _ => None end
  end.

Definition at2 (a : list (string * Z)) (x y : string) (k : Z -> Z -> msg) : option msg :=
  match assoc_str x a, assoc_str y a with Some u, Some v => Some (k u v) | _, _ => None end.
Definition at3 (a : list (string * Z)) (x y z : string) (k : Z -> Z -> Z -> msg) : option msg :=
  match assoc_str x a, assoc_str y a, assoc_str z a with Some u, Some v, Some w => Some (k u v w) | _, _, _ => None end.

Definition abs_raw (o : obj) : option msg :=
  match o with
  | OFixed c a =>
      match c with
      | ReadCoilsRequest => at2 a "address" "count" MReadCoilsReq
      | ReadDiscreteInputsRequest => at2 a "address" "count" MReadDiscreteReq
      | ReadHoldingRegistersRequest => at2 a "address" "count" MReadHoldingReq
      | ReadInputRegistersRequest => at2 a "address" "count" MReadInputReq
      | WriteMultipleCoilsResponse => at2 a "address" "count" MWriteCoilsRsp
      | WriteMultipleRegistersResponse => at2 a "address" "count" MWriteRegsRsp
      | WriteSingleRegisterResponse => at2 a "address" "value" MWriteRegRsp
      | MaskWriteRegisterRequest => at3 a "address" "and_mask" "or_mask" MMaskWriteReq
      | MaskWriteRegisterResponse => at3 a "address" "and_mask" "or_mask" MMaskWriteRsp
      | ReadFifoQueueRequest => match assoc_str "address" a with Some v => Some (MReadFifoReq v) | None => None end
      | ReadDeviceInformationRequest =>
          match assoc_str "sub_function_code" a with
          | Some s => if s =? 14 then at2 a "read_code" "object_id" MReadDevIdReq else None
          | None => None
          end
      | _ => None
      end
  | OEmpty ReadExceptionStatusRequest => Some MReadExcStatusReq
  | OEmpty GetCommEventCounterRequest => Some MCommEventCounterReq
  | OEmpty GetCommEventLogRequest => Some MCommEventLogReq
  | OEmpty ReportSlaveIdRequest => Some MReportSlaveIdReq
  | OEmpty _ => None
  | OBitsRsp ReadCoilsResponse bits _ => Some (MReadCoilsRsp bits)
  | OBitsRsp ReadDiscreteInputsResponse bits _ => Some (MReadDiscreteRsp bits)
  | OBitsRsp _ _ _ => None
  | ORegsRsp ReadHoldingRegistersResponse r => Some (MReadHoldingRsp r)
  | ORegsRsp ReadInputRegistersResponse r => Some (MReadInputRsp r)
  | ORegsRsp ReadWriteMultipleRegistersResponse r => Some (MReadWriteRegsRsp r)
  | ORegsRsp _ _ => None
  | OCoil WriteSingleCoilRequest a v => Some (MWriteCoilReq a v)
  | OCoil WriteSingleCoilResponse a v => Some (MWriteCoilRsp a v)
  | OCoil _ _ _ => None
  | OWriteRegReq a v => Some (MWriteRegReq a v)
  | OWriteCoilsReq a vals _ => Some (MWriteCoilsReq a vals)
  | OWriteRegsReq a vals cnt bc =>
      if (cnt =? zlen vals) && (bc =? 2 * zlen vals) then Some (MWriteRegsReq a vals) else None
  | ORWReq ra rc wa regs wc wbc =>
      if (wc =? zlen regs) && (wbc =? 2 * zlen regs) then Some (MReadWriteRegsReq ra rc wa regs) else None
  | ODiag c sub m =>
      (* the data field as 16-bit words.  Outside the domain: raw bytes payloads; a tuple on a request
         (tuples only arise from decoding responses); GetClearModbusPlusRequest's data is one operation
         word (an int) by construction *)
      let mk ws := Some (if is_request c then MDiagReq sub ws else MDiagRsp sub ws) in
      if option_eqb Z.eqb (fc_of c) (Some 8) then
        match m with
        | DInt v => mk [v]
        | DList l => if cls_eqb c GetClearModbusPlusRequest then None else mk l
        | DNone => if cls_eqb c GetClearModbusPlusRequest then None else mk []
        | DTuple l => if is_request c then None else mk l
        | DBytes _ => None
        end
      else None
  | OExcStatusRsp s => Some (MReadExcStatusRsp s)
  | OEvCounterRsp st c => Some (MCommEventCounterRsp (negb st) c)
  | OEvLogRsp st mc ec evs => Some (MCommEventLogRsp (negb st) ec mc evs)
  | OSlaveIdRsp id st _ => Some (MReportSlaveIdRsp id st)
  | OFileRecs c rs =>
      match c with
      | ReadFileRecordRequest =>
          if forallb (fun r => fr_ref r =? 6) rs
          then Some (MReadFileReq (map (fun r => {| sr_file := fr_file r; sr_record := fr_recno r; sr_length := fr_len r |}) rs))
          else None
      | ReadFileRecordResponse =>
          if forallb (fun r => (fr_ref r =? 6) && (fr_len r =? zlen (fr_data r) / 2) && (fr_rlen r =? zlen (fr_data r) + 1) && wfb (fr_data r)) rs
          then match opt_map (fun r => words_of_bytes (fr_data r)) rs with Some ds => Some (MReadFileRsp ds) | None => None end
          else None
      | WriteFileRecordRequest | WriteFileRecordResponse =>
          if forallb (fun r => (fr_ref r =? 6) && (fr_len r * 2 =? zlen (fr_data r)) && wfb (fr_data r)) rs
          then match opt_map (fun r => match words_of_bytes (fr_data r) with
                                       | Some ws => Some {| sw_file := fr_file r; sw_record := fr_recno r; sw_data := ws |}
                                       | None => None end) rs with
               | Some ss => Some (if cls_eqb c WriteFileRecordRequest then MWriteFileReq ss else MWriteFileRsp ss)
               | None => None
               end
          else None
      | _ => None
      end
  | OFifoRsp vals => Some (MReadFifoRsp vals)
  | OMeiRsp sub rc cf more next _ info _ =>
      let items := mei_items info in
      (* the whole identification fits one response (otherwise paging applies: property C20) *)
      if (sub =? 14) && (Pdu.zsum (map (fun kv => 2 + zlen (snd kv)) items) <? 253 - 6)
      then Some (MReadDevIdRsp rc cf more next items) else None
  | OExc orig fc code => if fc =? orig + 128 then Some (MException orig code) else None
  | OIllegal _ => None
  end.

Definition abs (o : obj) : option msg :=
  match abs_raw o with
  | Some m => if spec_wf m then Some m else None
  | None => None
  end.

(* ---- equality of observed objects ---------------------------------------------------- *)

Definition oz_eqb := option_eqb Z.eqb.
Definition dmsg_eqb (x y : dmsg) : bool :=
  match x, y with
  | DNone, DNone => true
  | DInt a, DInt b => a =? b
  | DList a, DList b | DTuple a, DTuple b => zl_eqb a b
  | DBytes a, DBytes b => bytes_eqb a b
  | _, _ => false
  end.
Definition frec_eqb (x y : frec) : bool :=
  (fr_ref x =? fr_ref y) && (fr_file x =? fr_file y) && (fr_recno x =? fr_recno y) &&
  bytes_eqb (fr_data x) (fr_data y) && (fr_len x =? fr_len y) && (fr_rlen x =? fr_rlen y).
Definition mval_eqb (x y : mval) : bool :=
  match x, y with
  | MOne a, MOne b => bytes_eqb a b
  | MMany a, MMany b => list_eqb bytes_eqb a b
  | _, _ => false
  end.
Definition info_eqb := list_eqb (fun x y : Z * mval => (fst x =? fst y) && mval_eqb (snd x) (snd y)).
(* attribute dictionaries: same keys, same values, any order *)
Definition attrs_eqb (a b : list (string * Z)) : bool :=
  Nat.eqb (length a) (length b) && forallb (fun kv => oz_eqb (assoc_str (fst kv) b) (Some (snd kv))) a.

Definition obj_eqb (x y : obj) : bool :=
  match x, y with
  | OFixed c a, OFixed c' a' => cls_eqb c c' && attrs_eqb a a'
  | OEmpty c, OEmpty c' => cls_eqb c c'
  | OBitsRsp c b n, OBitsRsp c' b' n' => cls_eqb c c' && list_eqb beqb b b' && oz_eqb n n'
  | ORegsRsp c r, ORegsRsp c' r' => cls_eqb c c' && zl_eqb r r'
  | OCoil c a v, OCoil c' a' v' => cls_eqb c c' && (a =? a') && beqb v v'
  | OWriteRegReq a v, OWriteRegReq a' v' => (a =? a') && (v =? v')
  | OWriteCoilsReq a v n, OWriteCoilsReq a' v' n' => (a =? a') && list_eqb beqb v v' && (n =? n')
  | OWriteRegsReq a v c n, OWriteRegsReq a' v' c' n' => (a =? a') && zl_eqb v v' && (c =? c') && (n =? n')
  | ORWReq a b c r d e, ORWReq a' b' c' r' d' e' =>
      (a =? a') && (b =? b') && (c =? c') && zl_eqb r r' && (d =? d') && (e =? e')
  | ODiag c s m, ODiag c' s' m' => cls_eqb c c' && (s =? s') && dmsg_eqb m m'
  | OExcStatusRsp s, OExcStatusRsp s' => s =? s'
  | OEvCounterRsp s c, OEvCounterRsp s' c' => beqb s s' && (c =? c')
  | OEvLogRsp s a b e, OEvLogRsp s' a' b' e' => beqb s s' && (a =? a') && (b =? b') && zl_eqb e e'
  | OSlaveIdRsp i s n, OSlaveIdRsp i' s' n' => bytes_eqb i i' && beqb s s' && oz_eqb n n'
  | OFileRecs c r, OFileRecs c' r' => cls_eqb c c' && list_eqb frec_eqb r r'
  | OFifoRsp v, OFifoRsp v' => zl_eqb v v'
  | OMeiRsp a b c d e f i s, OMeiRsp a' b' c' d' e' f' i' s' =>
      (a =? a') && (b =? b') && (c =? c') && (d =? d') && (e =? e') && (f =? f') && info_eqb i i' && oz_eqb s s'
  | OExc a b c, OExc a' b' c' => (a =? a') && (b =? b') && (c =? c')
  | OIllegal a, OIllegal a' => a =? a'
  | _, _ => false
  end.

Definition rbytes_eqb := res_eqb bytes_eqb.
Definition robj_eqb := res_eqb obj_eqb.

(* raw byte payloads handed to the encoder are real bytes (each < 256: a Python bytes object cannot
   hold anything else), and an exception response is built for a function code 1..127 *)
Definition payload_ok (o : obj) : bool :=
  match o with
  | OSlaveIdRsp id _ _ => wfb id
  | OMeiRsp _ _ _ _ _ _ info _ => forallb (fun kv : Z * bytes => wfb (snd kv)) (mei_items info)
  | OExc orig _ _ => (1 <=? orig) && (orig <? 128)
  | _ => true
  end.

(* ---- observations -------------------------------------------------------------------------
   What the harness saw the implementation do: a value or an exception class ([Seen]), or
   something outside that universe ([Unexpected]: an object whose fields cannot be dumped — e.g.
   re-classed to a class whose attributes it lacks —, a non-message return value, an attribute of
   the wrong type, a constructor that raised).  [Unexpected] never agrees with the model and the
   property oracle rejects it wherever the property constrains the outcome. *)
Inductive seen (A : Type) := Seen (r : res A) | Unexpected (what : string).
Arguments Seen {A} r.
Arguments Unexpected {A} what.
Definition unseen {A} (s : seen A) : option (res A) :=
  match s with Seen r => Some r | Unexpected _ => None end.

(* a Read Device Identification response on the wire is self-consistent: after the six header bytes
   (MEI type, read code, conformity, more follows, next object id, NUMBER OF OBJECTS) exactly that many
   objects (id, length, length bytes) follow and nothing else (v1.1b3 section 6.21) *)
Fixpoint mei_objs_ok (fuel : nat) (n : N) (bs : bytes) : bool :=
  match fuel with
  | O => false
  | S fuel' =>
      match bs with
      | [] => N.eqb n 0
      | _ :: len :: rest =>
          negb (N.eqb n 0) && Nat.leb (N.to_nat len) (length rest) &&
          mei_objs_ok fuel' (n - 1) (skipn (N.to_nat len) rest)
      | _ => false
      end
  end.
Definition mei_wire_ok (pdu : bytes) : bool :=
  match pdu with
  | 43%N :: 14%N :: _ :: _ :: _ :: _ :: n :: objs => mei_objs_ok (S (length objs)) n objs
  | _ => false
  end.

(* ---- C01: encode ---------------------------------------------------------------------- *)
(* case = (object, what bytes([m.function_code]) + m.encode() returned) *)
Definition chk_enc_r (c : obj * res bytes) : bool * bool :=
  let '(o, obs) := c in
  (rbytes_eqb (py_pdu o) obs,
   match abs_raw o with
   | Some m =>
       if spec_wf m then rbytes_eqb obs (Ok (spec_pdu m))
       else if payload_ok o
            then match obs with Ok _ => false | Raise _ => true end   (* no PDU exists for these field values:
                                                                         emitting bytes is non-conformant (C01_encode_rejects_all) *)
            else true
   | None =>
       (* no single spec message stands for this object (e.g. a device-identification response that must be
          paged): whatever is emitted is still a PDU, and a PDU has at most 253 bytes (v1.1b3 section 4.1) *)
       match obs with
       | Ok b => Nat.leb (length b) 253 &&
                 match o with OMeiRsp _ _ _ _ _ _ _ _ => mei_wire_ok b | _ => true end
       | Raise _ => true
       end
   end).

(* ---- attributes that [abs] does not look at but that decode() takes from the wire ----------------
   [abs] maps an object to the spec message it stands for and ignores attributes that encode()
   recomputes.  After a DECODE those attributes hold wire fields, and execute() reads one of them
   (WriteMultipleCoilsRequest.byte_count is compared with (count + 7) // 8).  [wire_attrs_ok m o] says
   they carry the value the specification's PDU of [m] has in that field:
     WriteMultipleCoilsRequest.byte_count      = the byte-count byte          (read by execute())
     Read{Coils,DiscreteInputs}Response.byte_count = the byte-count byte
     ReportSlaveIdResponse.byte_count          = the byte-count byte
     ReadDeviceInformationResponse.number_of_objects = the object-count byte
   (count / byte_count of WriteMultipleRegistersRequest and write_count / write_byte_count of
   ReadWriteMultipleRegistersRequest are already pinned by [abs], which requires them to be consistent
   with the register list.) *)
Definition wire_attrs_ok (m : msg) (o : obj) : bool :=
  match m with
  | MWriteCoilsReq _ cs =>
      match o with OWriteCoilsReq _ _ bc => bc =? bit_byte_count (len cs) | _ => false end
  | MReadCoilsRsp cs | MReadDiscreteRsp cs =>
      match o with OBitsRsp _ _ bc => option_eqb Z.eqb bc (Some (bit_byte_count (len cs))) | _ => false end
  | MReportSlaveIdRsp id _ =>
      match o with OSlaveIdRsp _ _ bc => option_eqb Z.eqb bc (Some (len id + 1)) | _ => false end
  | MReadDevIdRsp _ _ _ _ objs =>
      match o with OMeiRsp _ _ _ _ _ n _ _ => n =? len objs | _ => false end
  | _ => true
  end.

(* ---- C01: decode ---------------------------------------------------------------------- *)
(* case = (server?, the spec message that was put on the wire (None for the malformed stream),
           the bytes, what _helper returned, what the public decode() returned) *)
Definition chk_enc (c : obj * seen bytes) : bool * bool :=
  match unseen (snd c) with
  | Some r => chk_enc_r (fst c, r)
  | None => (false, false)
  end.

Definition wrap_eqb := res_eqb (option_eqb obj_eqb).
Definition chk_dec_r (c : bool * option msg * bytes * res obj * res (option obj)) : bool * bool :=
  let '(server, om, data, obs, wobs) := c in
  (robj_eqb (py_decode server data) obs && wrap_eqb (py_decode_wrapper server data) wobs &&
   match om with Some m => spec_wf m && bytes_eqb data (spec_pdu m) | None => true end,
   match om with
   | Some m =>
       match obs with
       | Ok o => cls_eqb (class_of o) (spec_class m) && wire_attrs_ok m o &&
                 match abs o with Some d => msg_matches m d | None => false end
       | Raise _ => false
       end &&
       wrap_eqb wobs (match obs with Ok o => Ok (Some o) | Raise e => Raise e end)
   | None => true
   end).

(* an undumpable result never agrees with the model; it violates the property when the PDU was a
   spec-conformant one (malformed input: the property does not constrain the outcome) *)
Definition chk_dec (c : bool * option msg * bytes * seen obj * seen (option obj)) : bool * bool :=
  let '(server, om, data, obs, wobs) := c in
  match unseen obs, unseen wobs with
  | Some r, Some w => chk_dec_r (server, om, data, r, w)
  | _, _ => (false, match om with Some _ => false | None => true end)
  end.

(* ---- C02 ------------------------------------------------------------------------------ *)

(* field identity between an original object and the decoded one: same class, public fields
   equal; bit lists up to zero padding; attributes that encode()/decode() derive from the
   others (byte counts, object counts, space_left) are not compared; a diagnostic data field is
   compared as its sequence of 16-bit words *)
Definition frec_match (x y : frec) : bool :=
  (fr_file x =? fr_file y) && (fr_recno x =? fr_recno y) && bytes_eqb (fr_data x) (fr_data y) && (fr_len x =? fr_len y).
Definition obj_match (x y : obj) : bool :=
  match x, y with
  | OBitsRsp c b _, OBitsRsp c' b' _ => cls_eqb c c' && bits_upto_pad b b'
  | OWriteCoilsReq a v _, OWriteCoilsReq a' v' _ => (a =? a') && list_eqb beqb v v'
  | ODiag c s m, ODiag c' s' m' =>
      cls_eqb c c' && (s =? s') && option_eqb zl_eqb (dmsg_words m) (dmsg_words m')
  | OSlaveIdRsp i s _, OSlaveIdRsp i' s' _ => bytes_eqb i i' && beqb s s'
  | OFileRecs c r, OFileRecs c' r' =>
      cls_eqb c c' &&
      (if cls_eqb c ReadFileRecordRequest
       then list_eqb (fun x y => (fr_file x =? fr_file y) && (fr_recno x =? fr_recno y) && (fr_len x =? fr_len y)) r r'
       else if cls_eqb c ReadFileRecordResponse
       then list_eqb (fun x y => bytes_eqb (fr_data x) (fr_data y)) r r'
       else list_eqb frec_match r r')
  | OMeiRsp a b c d e _ i _, OMeiRsp a' b' c' d' e' _ i' _ =>
      (* information compared as the sequence of (object id, value) it stands for: a one-element
         list and its element are the same field value *)
      (a =? a') && (b =? b') && (c =? c') && (d =? d') && (e =? e') &&
      list_eqb object_eqb (mei_items i) (mei_items i')
  | _, _ => obj_eqb x y
  end.

(* ReadDeviceInformationResponse whose objects do not fit one PDU is paged by encode (C20) *)
Definition paged (o : obj) : bool :=
  match o with
  | OMeiRsp _ _ _ _ _ _ info _ => negb (Pdu.zsum (map (fun kv => 2 + zlen (snd kv)) (mei_items info)) <? 253 - 6)
  | _ => false
  end.

(* the objects the round-trip property speaks about: exception responses for a function code
   1..127, diagnostic data fields that are whole 16-bit words *)
Definition rt_domain (o : obj) : bool :=
  match o with
  | OExc orig fc _ => (1 <=? orig) && (orig <? 128) && (fc =? orig + 128)
  | ODiag _ _ m => match dmsg_words m with Some _ => true | None => false end
  | _ => true
  end.

(* round trip: case = (server?, o, pdu(o), pdu(o) again on the same object,
                       decode of the first pdu, pdu of the decoded object, decode of that) *)
Definition chk_rt_r (c : bool * obj * res bytes * res bytes * res obj * res bytes * res obj) : bool * bool :=
  let '(server, o, e1, e2, d1, e3, d2) := c in
  (rbytes_eqb (py_pdu o) e1 &&
   rbytes_eqb (py_pdu (snd (encode_st o))) e2 &&
   match e1 with
   | Ok b => robj_eqb (py_decode server b) d1 &&
             match d1 with
             | Ok o' => rbytes_eqb (py_pdu o') e3 &&
                        match e3 with Ok b3 => robj_eqb (py_decode server b3) d2 | Raise _ => true end
             | Raise _ => true
             end
   | Raise _ => true
   end,
   match e1 with
   | Ok b =>
       if paged o then
         (* a response that does not fit one PDU: what was emitted is ONE page; decoding that page and
            encoding it again must give the page back (the page itself is a message that fits) *)
         match d1 with Ok _ => rbytes_eqb e3 e1 | Raise _ => false end
       else if negb (rt_domain o) then true else
       rbytes_eqb e2 e1 &&                                         (* encode is pure *)
       match d1 with
       | Ok o' => obj_match o o' &&                                (* decode . encode = id *)
                  rbytes_eqb e3 e1 &&                              (* re-encoding a decoded object *)
                  match d2 with Ok o'' => obj_eqb o' o'' | Raise _ => false end      (* fixed point *)
       | Raise _ => false
       end
   | Raise _ => true
   end).

Definition chk_rt (c : bool * obj * seen bytes * seen bytes * seen obj * seen bytes * seen obj) : bool * bool :=
  let '(server, o, e1, e2, d1, e3, d2) := c in
  match unseen e1, unseen e2, unseen d1, unseen e3, unseen d2 with
  | Some a, Some b, Some c', Some d, Some e => chk_rt_r (server, o, a, b, c', d, e)
  | _, _, _, _, _ => (false, false)
  end.

(* call histories on ONE object *)
Inductive hop := HEnc | HDec (b : bytes).
Inductive hout :=
| HOEnc (r : res bytes)                    (* encode() result *)
| HODec (r : res obj) (fresh_r : res obj) (fresh_enc : res bytes)
    (* the object after decode(b) / a brand-new instance after decode(b) / what that new instance then encodes to *)
| HOAfter (o : obj)                        (* the instance after a decode(b) that raised *)
| HOUnexpected (what : string).            (* something the harness could not dump (see [seen]) *)

Definition hout_eqb (x y : hout) : bool :=
  match x, y with
  | HOEnc a, HOEnc b => rbytes_eqb a b
  | HODec a f x, HODec b g y => robj_eqb a b && robj_eqb f g && rbytes_eqb x y
  | HOAfter a, HOAfter b => obj_eqb a b
  | _, _ => false
  end.

(* model in lock-step; a history ends at the first exception *)
Fixpoint run_hist (o : obj) (ops : list hop) : list hout :=
  match ops with
  | [] => []
  | HEnc :: t =>
      let '(r, o') := encode_st o in
      HOEnc r :: match r with Ok _ => run_hist o' t | Raise _ => [] end
  | HDec b :: t =>
      let r := decode_into o b in
      let fr := decode_into (fresh_like o) b in
      HODec r fr (match fr with Ok f => fst (encode_st f) | Raise e => Raise e end) ::
      match r with Ok o' => run_hist o' t | Raise _ => [HOAfter (decode_partial o b)] end
  end.

(* property on the observed outputs alone: two encodes with no decode in between give the same
   bytes; decode into a used object leaves exactly what decode into a new instance leaves — and
   the next encode() of the used object gives exactly what the new instance encodes to (nothing
   an earlier encode or decode left behind, visible in the dump or not, may show in the bytes) *)
(* space_left is encode()'s scratch variable, not a field of the message *)
Definition blank (o : obj) : obj :=
  match o with OMeiRsp a b c d e f i _ => OMeiRsp a b c d e f i None | _ => o end.

Fixpoint prop_hist (prev : option (res bytes)) (outs : list hout) : bool :=
  match outs with
  | [] => true
  | HOEnc (Ok b) :: t => match prev with Some (Ok p) => bytes_eqb p b | Some (Raise _) => false | None => true end
                         && prop_hist (Some (Ok b)) t
  | HOEnc (Raise _) :: _ => match prev with Some (Ok _) => false | _ => true end
  | HODec (Ok o) (Ok f) fe :: t => obj_eqb (blank o) (blank f) && prop_hist (Some fe) t
  | HODec (Raise _) (Raise _) _ :: [] => true
  | HODec (Raise _) (Raise _) _ :: HOAfter _ :: _ => true     (* unconstrained: the partially assigned instance *)
  | HODec _ _ _ :: _ => false
  | HOAfter _ :: _ => false
  | HOUnexpected _ :: _ => false
  end.

(* the fresh-instance observation of the harness uses the class's default constructor; the
   model's [fresh] must agree with it on everything decode does not overwrite *)
Definition chk_hist (c : obj * list hop * list hout) : bool * bool :=
  let '(o, ops, outs) := c in
  (list_eqb hout_eqb (run_hist o ops) outs, prop_hist None outs).

(* ---- explicit class lists used in the theorem statements of Props/C01.v and Props/C02.v ----
   (hand-written, not generated: a regression in a listed class breaks the theorem instead of
   silently shrinking a predicate) *)

Definition mem_cls (c : cls) (l : list cls) : bool := existsb (cls_eqb c) l.

Definition diag_request_classes : list cls :=
  [DiagnosticStatusRequest; ReturnQueryDataRequest; RestartCommunicationsOptionRequest; ReturnDiagnosticRegisterRequest;
   ChangeAsciiInputDelimiterRequest; ForceListenOnlyModeRequest; ClearCountersRequest; ReturnBusMessageCountRequest;
   ReturnBusCommunicationErrorCountRequest; ReturnBusExceptionErrorCountRequest; ReturnSlaveMessageCountRequest;
   ReturnSlaveNoResponseCountRequest; ReturnSlaveNAKCountRequest; ReturnSlaveBusyCountRequest;
   ReturnSlaveBusCharacterOverrunCountRequest; ReturnIopOverrunCountRequest; ClearOverrunCountRequest;
   GetClearModbusPlusRequest].
Definition diag_response_classes : list cls :=
  [DiagnosticStatusResponse; ReturnQueryDataResponse; RestartCommunicationsOptionResponse; ReturnDiagnosticRegisterResponse;
   ChangeAsciiInputDelimiterResponse; ForceListenOnlyModeResponse; ClearCountersResponse; ReturnBusMessageCountResponse;
   ReturnBusCommunicationErrorCountResponse; ReturnBusExceptionErrorCountResponse; ReturnSlaveMessageCountResponse;
   ReturnSlaveNoReponseCountResponse; ReturnSlaveNAKCountResponse; ReturnSlaveBusyCountResponse;
   ReturnSlaveBusCharacterOverrunCountResponse; ReturnIopOverrunCountResponse; ClearOverrunCountResponse;
   GetClearModbusPlusResponse].

(* classes whose bytes([fc]) + encode() is the specification's PDU for every in-range field value *)
Definition conforming_encode : list cls :=
  [ReadCoilsRequest; ReadDiscreteInputsRequest; ReadHoldingRegistersRequest; ReadInputRegistersRequest;
   WriteSingleCoilRequest; WriteSingleRegisterRequest; WriteMultipleCoilsRequest; WriteMultipleRegistersRequest;
   ReadWriteMultipleRegistersRequest; MaskWriteRegisterRequest;
   ReadExceptionStatusRequest; GetCommEventCounterRequest; GetCommEventLogRequest; ReportSlaveIdRequest;
   ReadFileRecordRequest; WriteFileRecordRequest; ReadFifoQueueRequest; ReadDeviceInformationRequest;
   ReadCoilsResponse; ReadDiscreteInputsResponse; ReadHoldingRegistersResponse; ReadInputRegistersResponse;
   WriteSingleCoilResponse; WriteSingleRegisterResponse; WriteMultipleCoilsResponse; WriteMultipleRegistersResponse;
   ReadWriteMultipleRegistersResponse; MaskWriteRegisterResponse;
   ReadExceptionStatusResponse; GetCommEventCounterResponse; GetCommEventLogResponse; ReportSlaveIdResponse;
   WriteFileRecordResponse; ReadDeviceInformationResponse; ExceptionResponse]
  ++ diag_request_classes ++ diag_response_classes.
(* NOT in the list: ReadFifoQueueResponse, ReadFileRecordResponse (refuted, see Props/C01.v);
   IllegalFunctionRequest has no PDU of its own *)

(* direction of a spec message: requests go through the server decoder, responses and exception
   responses through the client decoder *)
Definition msg_is_request (m : msg) : bool :=
  match m with
  | MReadCoilsReq _ _ | MReadDiscreteReq _ _ | MReadHoldingReq _ _ | MReadInputReq _ _ | MWriteCoilReq _ _
  | MWriteRegReq _ _ | MReadExcStatusReq | MDiagReq _ _ | MCommEventCounterReq | MCommEventLogReq
  | MWriteCoilsReq _ _ | MWriteRegsReq _ _ | MReportSlaveIdReq | MReadFileReq _ | MWriteFileReq _
  | MMaskWriteReq _ _ _ | MReadWriteRegsReq _ _ _ _ | MReadFifoReq _ | MReadDevIdReq _ _ => true
  | _ => false
  end.

(* object ids pairwise different (a repeated id is merged into one list-valued dict entry by the
   decoder, which can reorder the objects) *)
Fixpoint distinct_ids (objs : list (Z * bytes)) : bool :=
  match objs with
  | [] => true
  | o :: t => negb (existsb (fun x => fst x =? fst o) t) && distinct_ids t
  end.

(* message kinds whose spec-conformant PDUs the decoders are PROVED to decode to the wire's fields.
   false = refuted (FIFO response, slave-id response, diagnostic requests with other than one data
   word: see the _refuted theorems) or covered by the correspondence suite only (read-file-record
   response; device-identification responses with a repeated object id or spanning several pages) *)
Definition conforming_decode (m : msg) : bool :=
  match m with
  | MReadFifoRsp _ | MReportSlaveIdRsp _ _ => false
  | MDiagReq _ d => Nat.eqb (length d) 1
  | MReadFileRsp _ => false
  | MReadDevIdRsp _ _ _ _ objs =>
      distinct_ids objs && (Pdu.zsum (map (fun kv => 2 + zlen (snd kv)) objs) <? 253 - 6)
  | _ => true
  end.

(* the object has the constructor shape of its class (what the class's constructor builds) *)
Definition same_shape (o f : obj) : bool :=
  match o, f with
  | OFixed c _, OFixed c' _ | OEmpty c, OEmpty c' | OBitsRsp c _ _, OBitsRsp c' _ _ | ORegsRsp c _, ORegsRsp c' _
  | OCoil c _ _, OCoil c' _ _ | ODiag c _ _, ODiag c' _ _ | OFileRecs c _, OFileRecs c' _ => cls_eqb c c'
  | OWriteRegReq _ _, OWriteRegReq _ _ | OWriteCoilsReq _ _ _, OWriteCoilsReq _ _ _
  | OWriteRegsReq _ _ _ _, OWriteRegsReq _ _ _ _ | ORWReq _ _ _ _ _ _, ORWReq _ _ _ _ _ _
  | OExcStatusRsp _, OExcStatusRsp _ | OEvCounterRsp _ _, OEvCounterRsp _ _ | OEvLogRsp _ _ _ _, OEvLogRsp _ _ _ _
  | OSlaveIdRsp _ _ _, OSlaveIdRsp _ _ _ | OFifoRsp _, OFifoRsp _
  | OMeiRsp _ _ _ _ _ _ _ _, OMeiRsp _ _ _ _ _ _ _ _ | OExc _ _ _, OExc _ _ _ | OIllegal _, OIllegal _ => true
  | _, _ => false
  end.
Definition wf_shape (o : obj) : bool := same_shape o (fresh_like o).


(* classes whose decode() assigns nothing before its last statement that can raise: a raising decode
   leaves the instance exactly as it was (explicit list; the others are described by [decode_partial]) *)
Definition atomic_decode : list cls :=
  [ReadCoilsRequest; ReadDiscreteInputsRequest; ReadHoldingRegistersRequest; ReadInputRegistersRequest;
   WriteSingleCoilRequest; WriteSingleRegisterRequest; WriteMultipleCoilsRequest; MaskWriteRegisterRequest;
   ReadExceptionStatusRequest; GetCommEventCounterRequest; GetCommEventLogRequest; ReportSlaveIdRequest;
   ReadFifoQueueRequest; ReadDeviceInformationRequest;
   ReadCoilsResponse; ReadDiscreteInputsResponse; WriteSingleCoilResponse; WriteSingleRegisterResponse;
   WriteMultipleCoilsResponse; WriteMultipleRegistersResponse; MaskWriteRegisterResponse;
   ReadExceptionStatusResponse; GetCommEventCounterResponse; ReportSlaveIdResponse; ExceptionResponse;
   IllegalFunctionRequest]
  ++ diag_request_classes ++ diag_response_classes.
