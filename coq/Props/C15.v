(* Props/C15.v — Concurrent callers of one synchronous client are serialised.
   ONLY statements; proofs are in proofs/Lock_proofs.v and proofs/LockGen_proofs.v.
   Model: theories/Lock.v — any number of threads, each running any list of calls, every call a
   list of abstract operations; one step = one operation of one thread; [reachable] = reachable
   by SOME schedule, so a statement about all reachable states is a statement about EVERY
   schedule.  PARTIAL: pre-emption is at operation granularity (connect / lock / send / receive /
   table / buffer operations); bytecode-level pre-emption and the GIL are outside the model. *)
From PM.theories Require Import Base Lock.
From PM.Generated Require Import GenLock.
From PM.proofs Require Import Lock_proofs LockGen_proofs.
Open Scope list_scope.

(* The skeleton regenerated from pymodbus/transaction.py and client/sync.py: the lock is bound
   exactly once, in __init__, to RLock(); the call on its main path, EVERY shared-state site on
   every branch, and the retry loop unrolled any number of times all sit inside one bracket. *)
Example C15_generated_ok : well_bracketed GenLock.call_skeleton = true.
Proof. reflexivity. Qed.
Print Assumptions C15_generated_ok.

Theorem C15_generated_all_ok :
  lock_bindings_ok lock_bindings = true /\ well_bracketed call_skeleton = true /\
  well_bracketed (client_prefix ++ execute_allsites) = true /\
  forall n, well_bracketed (client_prefix ++ execute_unrolled n) = true.
Proof. exact gen_generated_ok. Qed.
Print Assumptions C15_generated_all_ok.

(* at most one thread is between its send and the end of its receive — any threads, any calls,
   every schedule, re-entrant or not *)
Theorem C15_mutex : forall re tid0 P σ t1 t2 th1 th2,
  wb_program P -> reachable re (init tid0 P) σ ->
  nth_error (st_thr σ) t1 = Some th1 -> nth_error (st_thr σ) t2 = Some th2 ->
  in_flight th1 = true -> in_flight th2 = true -> t1 = t2.
Proof. exact mutex_all_schedules. Qed.
Print Assumptions C15_mutex.

(* while one thread is inside its bracket, every other thread is at a connection check or waiting
   to acquire: it has touched nothing shared in its current call *)
Theorem C15_exclusive : forall re tid0 P σ o d t th,
  wb_program P -> reachable re (init tid0 P) σ ->
  sh_lock (st_sh σ) = Some (o, d) -> nth_error (st_thr σ) t = Some th -> t <> o ->
  in_flight th = false /\
  match th_prog th with
  | (op :: _) :: _ => op = ConnectCheck \/ op = Acquire
  | _ => True
  end.
Proof. exact exclusive_all_schedules. Qed.
Print Assumptions C15_exclusive.

(* single re-entrant lock: some thread can always move unless all are done *)
Theorem C15_no_deadlock : forall tid0 P σ,
  wb_program P -> reachable true (init tid0 P) σ ->
  (exists t σ', step true σ t = Some σ') \/ all_done σ = true.
Proof. exact no_deadlock_all_schedules. Qed.
Print Assumptions C15_no_deadlock.

(* … and re-entrancy is needed for that: with a plain Lock a nested acquisition blocks for ever *)
Theorem C15_nonreentrant_deadlocks :
  let P := [[[Acquire; Acquire; Release; Release]]] in
  let σ := run false [0; 0; 0; 0]%nat (init 0 P) in
  all_done σ = false /\ forall t, step false σ t = None.
Proof. exact nonreentrant_deadlock. Qed.
Print Assumptions C15_nonreentrant_deadlocks.

(* the hypotheses are satisfiable by the generated skeleton, for any thread / call counts *)
Example C15_nonvacuous : forall calls, wb_program (map (fun n => repeat call_skeleton n) calls).
Proof. intro calls. apply wb_program_uniform. exact gen_call_ok. Qed.
Print Assumptions C15_nonvacuous.
