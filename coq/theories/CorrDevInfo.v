(* CorrDevInfo.v — harness side of the C20 correspondence check.
   One case = an identity, a read code, a start object id, and the whole exchange history the
   harness observed while following more-follows through the real ServerDecoder ->
   ReadDeviceInformationRequest.execute -> ReadDeviceInformationResponse.encode -> ClientDecoder
   path, cut after [cc_limit] exchanges.
   [chk_chain] = (the model (GenDevInfo.code) predicts exactly that history,
                  the PROPERTY holds of the observed history, judged by the spec side only). *)
From PM.theories Require Import Base Expr DevInfo.
Open Scope list_scope.
Open Scope Z_scope.

(* compact values: tag byte followed by n-1 fill bytes (keeps case files small) *)
Definition mkv (tag fill : N) (n : nat) : bytes :=
  match n with O => [] | S m => tag :: repeat fill m end.

Definition bytes_eqb (a b : bytes) : bool := list_eqb N.eqb a b.

Definition info_value_eqb (x y : info_value) : bool :=
  match x, y with
  | VOne a, VOne b => bytes_eqb a b
  | VMany a, VMany b => list_eqb bytes_eqb a b
  | _, _ => false
  end.

Definition info_eqb (a b : list (Z * info_value)) : bool :=
  list_eqb (fun p q => (fst p =? fst q) && info_value_eqb (snd p) (snd q)) a b.

Definition object_eqb (a b : object) : bool := (fst a =? fst b) && bytes_eqb (snd a) (snd b).

(* one observed exchange *)
Inductive obs :=
| OResp (pdu_len : Z) (r : response)         (* length of the reply PDU (fc included), decoded reply *)
| OExc (pdu_len : Z) (fc code : Z)           (* exception response *)
| ORaise (e : pyexn).                        (* execute/encode/decode raised *)

Inductive obs_end := EDone | ELimit | EStopped.   (* EStopped: ended by an exception / raise *)

Definition response_eqb (a b : response) : bool :=
  (rs_sub a =? rs_sub b) && (rs_code a =? rs_code b) && (rs_conformity a =? rs_conformity b)
  && (rs_more a =? rs_more b) && (rs_next a =? rs_next b) && (rs_count a =? rs_count b)
  && info_eqb (rs_info a) (rs_info b).

Definition obs_eqb (a b : obs) : bool :=
  match a, b with
  | OResp l r, OResp l' r' => (l =? l') && response_eqb r r'
  | OExc l f c, OExc l' f' c' => (l =? l') && (f =? f') && (c =? c')
  | ORaise e, ORaise e' => pyexn_eqb e e'
  | _, _ => false
  end.

Definition obs_end_eqb (a b : obs_end) : bool :=
  match a, b with EDone, EDone | ELimit, ELimit | EStopped, EStopped => true | _, _ => false end.

Section WithCode.
Variable C : devinfo_code.

(* the model's history, in the harness' observation format *)
Fixpoint model_history (idn : identity) (code oid : Z) (fuel : nat) : list obs * obs_end :=
  match fuel with
  | O => ([], ELimit)
  | S f =>
      match server_reply C idn code oid with
      | Raise e => ([ORaise e], EStopped)
      | Ok pdu =>
          let len := Z.of_nat (length pdu) in
          match decode_reply C pdu with
          | DOk (RResp r) =>
              if rs_more r =? 255 then
                let '(os, e) := model_history idn code (rs_next r) f in (OResp len r :: os, e)
              else ([OResp len r], EDone)
          | DOk (RExc fc e) => ([OExc len fc e], EStopped)
          | DRaise _ => ([ORaise OtherExc], EStopped)   (* ClientDecoder.decode swallows every exception and returns None *)
          | DOutOfFuel => ([ORaise OtherExc], EStopped)
          end
      end
  end.

End WithCode.

(* ---------------------------------------------------------------- property oracle (spec side) *)

Definition obs_len_ok (o : obs) : bool :=
  match o with OResp l _ | OExc l _ _ => l <=? max_pdu | ORaise _ => true end.

Definition obs_objects (o : obs) : list object :=
  match o with OResp _ r => info_objects (rs_info r) | _ => [] end.

Definition all_responses (os : list obs) : bool :=
  forallb (fun o => match o with OResp _ _ => true | _ => false end) os.

(* does the quantifier of the property cover this identity?  values of length 0..245 *)
Definition in_quantifier (ids : list object) : bool :=
  forallb (fun o => (blen (snd o) <=? 245)
                    && (existsb (Z.eqb (fst o)) extended_ids || negb (nonempty (snd o)))) ids.

Definition individual_ids : list Z := extended_ids.

Definition prop_chain (ids : list object) (code oid : Z) (os : list obs) (e : obs_end) : bool :=
  let idn := id_of ids in
  let terminates := match e with ELimit => false | _ => true end in
  forallb obs_len_ok os                                             (* no PDU above 253 bytes *)
  && (if negb ((0 <=? oid) && (oid <=? 255)) then true              (* not expressible on the wire *)
      else if negb ((1 <=? code) && (code <=? 4)) then
        (* invalid read device id code: exception 03 (illegal data value) *)
        match os with [OExc _ _ c] => c =? 3 | _ => false end
      else if negb (in_quantifier ids) then true                    (* values longer than 245 bytes *)
      else
        terminates                                                  (* the chain terminates *)
        && (if code =? 4 then
              if existsb (Z.eqb oid) individual_ids && nonempty (idn oid) then
                obs_end_eqb e EDone && all_responses os
                && list_eqb object_eqb (flat_map obs_objects os) [(oid, idn oid)]
              else true
            else if start_ok idn code oid then
              obs_end_eqb e EDone && all_responses os
              && list_eqb object_eqb (flat_map obs_objects os) (expected idn code oid)
            else true)).

Record chain_case := {
  cc_ids : list object; cc_code : Z; cc_oid : Z; cc_limit : nat;
  cc_obs : list obs; cc_end : obs_end }.

Definition chk_chain (C : devinfo_code) (c : chain_case) : bool * bool :=
  let '(os, e) := model_history C (id_of (cc_ids c)) (cc_code c) (cc_oid c) (cc_limit c) in
  (list_eqb obs_eqb os (cc_obs c) && obs_end_eqb e (cc_end c),
   prop_chain (cc_ids c) (cc_code c) (cc_oid c) (cc_obs c) (cc_end c)).

(* ================================================================== configuration histories *)

(* the map an identity holds, one entry per key (the most recent write) *)
Definition normalize (m : list object) : list object :=
  map (fun k => (k, id_of m k)) (nodup Z.eq_dec (map fst m)).

Record cfg_case := {
  cf_hist : list cfg_op; cf_code : Z; cf_oid : Z; cf_limit : nat;
  cf_obs : list obs; cf_end : obs_end }.

(* model: the identity is what the GENERATED configuration code makes of the history;
   property: the expected objects come from the spec-side final map (last write per id wins,
   a blank value withdraws the object) *)
Definition chk_cfg (C : devinfo_code) (c : cfg_case) : bool * bool :=
  let '(os, e) := model_history C (id_of (configured C (cf_hist c))) (cf_code c) (cf_oid c) (cf_limit c) in
  (list_eqb obs_eqb os (cf_obs c) && obs_end_eqb e (cf_end c),
   prop_chain (normalize (spec_configured (cf_hist c))) (cf_code c) (cf_oid c) (cf_obs c) (cf_end c)).

(* ================================================================== multi-item / text values *)
From PM.theories Require Import DevInfoMulti.

Section WithCodeM.
Variable C : devinfo_code.

Fixpoint model_mhistory (idn : midentity) (code oid : Z) (fuel : nat) : list obs * obs_end :=
  match fuel with
  | O => ([], ELimit)
  | S f =>
      match mserver_reply C idn code oid with
      | Raise e => ([ORaise e], EStopped)
      | Ok pdu =>
          let len := Z.of_nat (length pdu) in
          match decode_reply C pdu with
          | DOk (RResp r) =>
              if rs_more r =? 255 then
                let '(os, e) := model_mhistory idn code (rs_next r) f in (OResp len r :: os, e)
              else ([OResp len r], EDone)
          | DOk (RExc fc e) => ([OExc len fc e], EStopped)
          | DRaise _ => ([ORaise OtherExc], EStopped)   (* ClientDecoder.decode swallows every exception and returns None *)
          | DOutOfFuel => ([ORaise OtherExc], EStopped)
          end
      end
  end.

End WithCodeM.

Definition mvalue_items (v : mvalue) : list item := match v with MOne i => [i] | MMany l => l end.

(* quantifier: ids 0-6 / 0x80-0xFF, every item at most 245 long (as Python measures it) *)
Definition m_in_quantifier (ids : list mobject) : bool :=
  forallb (fun o => forallb (fun i => it_len i <=? 245) (mvalue_items (snd o))
                    && (existsb (Z.eqb (fst o)) extended_ids || negb (truthy (snd o)))) ids.

Definition mstart_ok (idn : midentity) (code oid : Z) : bool :=
  (oid =? 0) || (existsb (Z.eqb oid) (category code) && truthy (idn oid)).

Definition prop_mchain (ids : list mobject) (code oid : Z) (os : list obs) (e : obs_end) : bool :=
  let idn := mid_of ids in
  let terminates := match e with ELimit => false | _ => true end in
  forallb obs_len_ok os
  && (if negb ((0 <=? oid) && (oid <=? 255)) then true
      else if negb ((1 <=? code) && (code <=? 4)) then
        match os with [OExc _ _ c] => c =? 3 | _ => false end
      else if negb (m_in_quantifier ids) then true
      else
        terminates
        && (if code =? 4 then
              if existsb (Z.eqb oid) individual_ids && truthy (idn oid) then
                obs_end_eqb e EDone && all_responses os
                && list_eqb object_eqb (flat_map obs_objects os)
                            (map (fun i => (oid, it_wire i)) (mvalue_items (idn oid)))
              else true
            else if mstart_ok idn code oid then
              obs_end_eqb e EDone && all_responses os
              && list_eqb object_eqb (flat_map obs_objects os) (mexpected idn code oid)
            else true)).

Record mchain_case := {
  mc_ids : list mobject; mc_code : Z; mc_oid : Z; mc_limit : nat;
  mc_obs : list obs; mc_end : obs_end }.

Definition chk_mchain (C : devinfo_code) (c : mchain_case) : bool * bool :=
  let '(os, e) := model_mhistory C (mid_of (mc_ids c)) (mc_code c) (mc_oid c) (mc_limit c) in
  (list_eqb obs_eqb os (mc_obs c) && obs_end_eqb e (mc_end c),
   prop_mchain (mc_ids c) (mc_code c) (mc_oid c) (mc_obs c) (mc_end c)).
