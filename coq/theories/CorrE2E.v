(* CorrE2E.v — SPEC SIDE and harness side of the end-to-end composition (Props/C09_e2e.v).

   Spec side (used in the theorem statements and as the property oracle; written from the Modbus
   specifications, it mentions no Python object, no framer state, no script, no skeleton):
     * a request on the wire = transaction id, protocol id, unit id and a spec message [msg] of
       PduSpec (or a PDU with an unassigned function code);
     * [wreq_of_msg]: the data-access request messages (FC 1-6, 15, 16, 22, 23) in the wire-field
       vocabulary of the abstract data model ExecSpec (quantity, byte count, data bytes);
     * [spec_response_msg]: the response shapes of ExecSpec as spec messages of PduSpec;
     * [spec_answer] / [spec_run]: the abstract server — every request is executed by
       [ExecSpec.spec_exec] on the abstract state of the unit it addresses (left by its predecessors)
       and answered with  spec_adu_tcp tid 0 uid (spec_pdu response);
     * [spec_check]: the same as a CHECKER of observed bytes that also covers broadcast (executed on
       every unit, no answer) and units that are not hosted (no execution; no answer, or the gateway
       exception 0x0B) — the oracle of the correspondence suites.

   Harness side: the case type (layouts of the hosted units, the spec requests, the reads as the
   socket delivered them, the bytes the REAL server wrote, the dumps of the real datastores
   afterwards) and [chk_e2e] = (the composed model EndToEnd.tcp_server_run reproduces bytes and
   stores, the spec side accepts bytes and stores).  No proofs. *)
From PM.theories Require Import Base Expr Struct FrBaseA FrTcp FrSpecA PduCls PduSpec Pdu Store Exec ExecSpec CorrExec Server EndToEnd.
From PM.Generated Require Import GenFramerA.
From PM.Generated Require GenServer.
Open Scope string_scope.
Open Scope list_scope.
Open Scope Z_scope.

(* ---------------------------------------------------------------- requests on the wire *)
Inductive sreq :=
| QMsg (m : msg)                       (* a message of the application protocol *)
| QRaw (fc : Z) (rest : bytes).        (* any PDU; used for function codes the protocol does not assign *)

Record e2e_req := { q_tid : Z; q_pid : Z; q_uid : Z; q_body : sreq }.

Definition sreq_pdu (b : sreq) : bytes :=
  match b with QMsg m => spec_pdu m | QRaw fc rest => Z.to_N fc :: rest end.

Definition req_adu (q : e2e_req) : bytes := spec_adu_tcp (q_tid q) (q_pid q) (q_uid q) (sreq_pdu (q_body q)).

(* ---------------------------------------------------------------- messages <-> data-model vocabulary *)
Definition zbytes (b : bytes) : list Z := map Z.of_N b.

(* the wire fields of a data-access request message: quantity = number of values, byte count as the
   protocol computes it, data = the data bytes of the PDU *)
Definition wreq_of_msg (m : msg) : option wreq :=
  match m with
  | MReadCoilsReq a q => Some (WRead Coils a q)
  | MReadDiscreteReq a q => Some (WRead Discrete a q)
  | MReadHoldingReq a q => Some (WRead Holding a q)
  | MReadInputReq a q => Some (WRead Input a q)
  | MWriteCoilReq a on => Some (WWriteCoil a (if on then 65280 else 0))
  | MWriteRegReq a v => Some (WWriteReg a v)
  | MWriteCoilsReq a cs => Some (WWriteCoils a (len cs) (bit_byte_count (len cs)) (zbytes (spec_pack_bits cs)))
  | MWriteRegsReq a rs => Some (WWriteRegs a (len rs) (2 * len rs) (zbytes (words rs)))
  | MMaskWriteReq a am om => Some (WMask a am om)
  | MReadWriteRegsReq ra rq wa ws => Some (WRWM ra rq wa (len ws) (2 * len ws) (zbytes (words ws)))
  | _ => None
  end.

Definition wreq_of (b : sreq) : option wreq :=
  match b with QMsg m => wreq_of_msg m | QRaw fc _ => Some (WOther fc) end.

(* a coil / discrete input is ON iff its cell is not 0 *)
Definition coil_on (v : Z) : bool := negb (v =? 0).

(* the response of the data model as a message of the application protocol.  [spec_exec] produces
   SRead only with function codes 1, 2, 3, 4, 23, SEcho1 with 5, 6 and SEchoN with 15, 16. *)
Definition spec_response_msg (r : srsp) : msg :=
  match r with
  | SRead fc vals =>
      if fc =? 1 then MReadCoilsRsp (map coil_on vals)
      else if fc =? 2 then MReadDiscreteRsp (map coil_on vals)
      else if fc =? 3 then MReadHoldingRsp vals
      else if fc =? 4 then MReadInputRsp vals
      else MReadWriteRegsRsp vals
  | SEcho1 fc a v => if fc =? 5 then MWriteCoilRsp a (coil_on v) else MWriteRegRsp a v
  | SEchoN fc a q => if fc =? 15 then MWriteCoilsRsp a q else MWriteRegsRsp a q
  | SMask a am om => MMaskWriteRsp a am om
  | SExc fc code => MException (fc - 128) code
  end.

(* ---------------------------------------------------------------- the abstract server *)
Definition sunits := list (Z * astate).      (* hosted unit id -> abstract data-model state *)

Fixpoint su_get (l : sunits) (k : Z) : option astate :=
  match l with [] => None | (k', s) :: t => if k' =? k then Some s else su_get t k end.
Fixpoint su_set (l : sunits) (k : Z) (v : astate) : sunits :=
  match l with [] => [] | (k', s) :: t => if k' =? k then (k', v) :: t else (k', s) :: su_set t k v end.

(* protocol id of a Modbus response *)
Definition modbus_pid : Z := 0.

(* a framing on the spec side: the ADU of a request and the ADU of the response to it *)
Definition adu_fn := e2e_req -> bytes -> bytes.
Definition tcp_adu : adu_fn := fun q pdu => spec_adu_tcp (q_tid q) modbus_pid (q_uid q) pdu.
(* serial framings carry no transaction / protocol id *)
Definition ascii_adu : adu_fn := fun q pdu => spec_adu_ascii (q_uid q) pdu.

(* the answer to request q on abstract state s: new state and the response ADU *)
Definition spec_answer_g (adu : adu_fn) (s : astate) (q : e2e_req) : option (astate * bytes) :=
  match wreq_of (q_body q) with
  | Some w =>
      let '(s', r) := spec_exec s w in
      Some (s', adu q (spec_pdu (spec_response_msg r)))
  | None => None
  end.
Definition spec_answer := spec_answer_g tcp_adu.

(* a server configured with a single context serves every unit id from the context stored under 0 *)
Definition spec_key (single : bool) (uid : Z) : Z := if single then 0 else uid.

(* requests to served units, in order: final states and the bytes that must have been written.
   (A request to a unit that is not hosted, or that is not a data-access request, is outside this
   function: it is skipped; see [spec_check] for the full decision.) *)
Fixpoint spec_run_g (adu : adu_fn) (single : bool) (su : sunits) (qs : list e2e_req) : sunits * bytes :=
  match qs with
  | [] => (su, [])
  | q :: t =>
      let k := spec_key single (q_uid q) in
      match su_get su k with
      | Some s =>
          match spec_answer_g adu s q with
          | Some (s', b) => let '(su2, b2) := spec_run_g adu single (su_set su k s') t in (su2, b ++ b2)
          | None => spec_run_g adu single su t
          end
      | None => spec_run_g adu single su t
      end
  end.
Definition spec_run := spec_run_g tcp_adu.

(* ---------------------------------------------------------------- the oracle as a checker *)
Fixpoint strip_prefix (p l : bytes) : option bytes :=
  match p, l with
  | [], _ => Some l
  | a :: p', b :: l' => if N.eqb a b then strip_prefix p' l' else None
  | _ :: _, [] => None
  end.

Inductive verdict := VRespond (key : Z) | VBroadcast | VAbsent.

(* [has_bcast]: the front-end has a broadcast_enable option at all (Twisted has not) *)
Definition spec_route (has_bcast : bool) (cfg : scfg) (hosted : list Z) (uid : Z) : verdict :=
  if has_bcast && cf_bcast cfg && (uid =? 0) then VBroadcast
  else if cf_single cfg then VRespond 0
  else if FrBaseA.zmem uid hosted then VRespond uid else VAbsent.

Definition gateway_no_response : Z := 11.

Definition fc_of_sreq (b : sreq) : Z :=
  match sreq_pdu b with x :: _ => Z.of_N x | [] => 0 end.

(* Some final-states = the written bytes are what the property demands *)
Fixpoint spec_check_g (adu : adu_fn) (has_bcast : bool) (cfg : scfg) (su : sunits) (qs : list e2e_req) (written : bytes) : option sunits :=
  match qs with
  | [] => match written with [] => Some su | _ => None end
  | q :: t =>
      match spec_route has_bcast cfg (map fst su) (q_uid q) with
      | VBroadcast =>
          match wreq_of (q_body q) with
          | Some w => spec_check_g adu has_bcast cfg (map (fun p => (fst p, fst (spec_exec (snd p) w))) su) t written
          | None => None
          end
      | VRespond k =>
          match su_get su k with
          | Some s =>
              match spec_answer_g adu s q with
              | Some (s', b) =>
                  match strip_prefix b written with
                  | Some rest => spec_check_g adu has_bcast cfg (su_set su k s') t rest
                  | None => None
                  end
              | None => None
              end
          | None => None
          end
      | VAbsent =>
          let b := adu q [Z.to_N (Z.lor (fc_of_sreq (q_body q)) 128); Z.to_N gateway_no_response] in
          match strip_prefix b written with
          | Some rest => spec_check_g adu has_bcast cfg su t rest
          | None => spec_check_g adu has_bcast cfg su t written
          end
      end
  end.

Definition spec_check := spec_check_g tcp_adu.

(* ---------------------------------------------------------------- cases *)
(* byte strings in case files are written as lists of Z literals *)
Definition nb (l : list Z) : bytes := map Z.to_N l.

Record e2e_case := {
  k_fe : string;                       (* front-end, key into GenServer.frontends *)
  k_cfg : scfg;
  k_eof : bool;                        (* the front-end takes an empty read as end of stream *)
  k_units : list (Z * ldesc);          (* hosted units (dict order) and the layout of their datastore *)
  k_reqs : list e2e_req;               (* the requests whose ADUs make up the stream *)
  k_chunks : list bytes;               (* the reads *)
  k_written : bytes;                   (* what the real server wrote to the socket *)
  k_final : list (Z * list dump1)      (* per hosted unit: dump of every block afterwards *)
}.

Fixpoint eff_chunks (eof : bool) (chunks : list bytes) : list bytes :=
  match chunks with
  | [] => []
  | c :: t => if eof && (match c with [] => true | _ => false end) then [] else c :: eff_chunks eof t
  end.

(* the requests whose ADU lies completely in the bytes the server has read *)
Fixpoint complete_reqs_k (radu : e2e_req -> bytes) (qs : list e2e_req) (sent : bytes) : list e2e_req :=
  match qs with
  | [] => []
  | q :: t => match strip_prefix (radu q) sent with
              | Some rest => q :: complete_reqs_k radu t rest
              | None => []
              end
  end.
Definition complete_reqs := complete_reqs_k req_adu.

Definition is_prefix (p l : bytes) : bool := match strip_prefix p l with Some _ => true | None => false end.

Definition bytes_eqb := list_eqb N.eqb.

Fixpoint stores_match (l : units slavectx) (f : list (Z * list dump1)) : bool :=
  match l, f with
  | [], [] => true
  | (u, c) :: lt, (u', ds) :: ft => (u =? u') && all2 dump_matches (cx_blocks c) ds && stores_match lt ft
  | _, _ => false
  end.

Fixpoint states_ok (ls : list (Z * ldesc)) (su : sunits) (f : list (Z * list dump1)) : bool :=
  match ls, su, f with
  | [], [], [] => true
  | (u, l) :: lt, (u', s) :: st, (u'', ds) :: ft =>
      (u =? u') && (u =? u'') && dumps_ok l s O (l_blocks l) ds && states_ok lt st ft
  | _, _, _ => false
  end.

Definition has_bcast_of (sk : skel) : bool := match sk_bcast sk with Some _ => true | None => false end.

Definition chk_e2e (c : e2e_case) : bool * bool :=
  match sassoc (k_fe c) GenServer.frontends with
  | None => (false, false)
  | Some sk =>
      let sent := concat (eff_chunks (k_eof c) (k_chunks c)) in
      let wf := is_prefix sent (concat (map req_adu (k_reqs c))) in
      let r := tcp_server_run sk (k_cfg c) (k_eof c)
                 (map (fun p => (fst p, ctx_of_layout (snd p))) (k_units c)) (k_chunks c) in
      (wf &&
       match e_fault r, e_stop r with None, None => true | _, _ => false end &&
       bytes_eqb (e_out r) (k_written c) && stores_match (e_units r) (k_final c),
       match spec_check (has_bcast_of sk) (k_cfg c)
                        (map (fun p => (fst p, abs_of_layout (snd p))) (k_units c))
                        (complete_reqs (k_reqs c) sent) (k_written c) with
       | Some su => states_ok (k_units c) su (k_final c)
       | None => false
       end)
  end.
