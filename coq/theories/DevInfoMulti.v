(* DevInfoMulti.v — extension of the Read Device Identification model (DevInfo.v) to the two
   kinds of identity values DevInfo.v leaves out:

   * list-valued (multi-item) entries: `encode` iterates `for item in data:
     objects += self._encode_object(object_id, item)`; the _OutOfSpaceException raised in the
     middle of a list carries the LIST's object id, so the continuation request names the list
     and the server starts again at its first item;
   * `str` values: `_encode_object` accounts `2 + len(data)` and writes `len(data)` into the
     length byte BEFORE `data.encode()`; for non-ASCII text the encoded bytes are longer.  An item
     therefore has two fields: [it_len] (what Python's len() returns) and [it_wire] (the bytes put
     on the wire).  For bytes and ASCII text the two agree ([accurate]).

   The generated record [devinfo_code] (GenDevInfo.code), the id ranges, the guards, the wire
   header, the client decoder and its grouping of repeated ids are those of DevInfo.v.
   No proofs in this file. *)
From PM.theories Require Import Base Expr DevInfo.
Open Scope string_scope.
Open Scope list_scope.
Open Scope Z_scope.

Record item := { it_len : Z; it_wire : bytes }.
Inductive mvalue := MOne (i : item) | MMany (l : list item).
Definition midentity := Z -> mvalue.
Definition mobject := (Z * mvalue)%type.

Definition item_of_bytes (v : bytes) : item := {| it_len := blen v; it_wire := v |}.
Definition accurate (i : item) : Prop := it_len i = blen (it_wire i).

(* Python truthiness: '' / b'' / [] are false; a non-empty list is true whatever its items *)
Definition truthy (v : mvalue) : bool :=
  match v with
  | MOne i => negb (it_len i =? 0)
  | MMany [] => false
  | MMany (_ :: _) => true
  end.

Fixpoint mid_of (l : list mobject) : midentity :=
  fun k => match l with
           | [] => MOne {| it_len := 0; it_wire := [] |}
           | (k', v) :: t => if k' =? k then v else mid_of t k
           end.

(* the (object id, item) sequence `encode` walks through, in order *)
Definition items_of (o : mobject) : list (Z * item) :=
  match snd o with
  | MOne i => [(fst o, i)]
  | MMany l => map (fun i => (fst o, i)) l
  end.
Definition flat_items (info : list mobject) : list (Z * item) := flat_map items_of info.

Definition mobjects_of (idn : midentity) (ids : list Z) : list mobject :=
  filter (fun o => truthy (snd o)) (map (fun k => (k, idn k)) ids).

Section WithCode.
Variable C : devinfo_code.

Definition mfactory_get (idn : midentity) (code oid : Z) : res (list mobject) :=
  match zlookup code (c_lookup C) with
  | None => Raise KeyError
  | Some (LGets r) => Ok (mobjects_of idn (ids_of_range r oid))
  | Some (LGetsIfPresent r r0) =>
      Ok (mobjects_of idn (if truthy (idn oid) then ids_of_range r oid else ids_of_range r0 oid))
  | Some LGet => Ok [(oid, idn oid)]
  end.

Inductive mexec_result := MExcResponse (code : Z) | MInfoResponse (read_code : Z) (info : list mobject).

Definition mexecute (idn : midentity) (code oid : Z) : res mexec_result :=
  if beval (env_of [("self.object_id", oid)]) (c_reject_object_id C) then Ok (MExcResponse (c_exc_object_id C))
  else if beval (env_of [("self.read_code", code)]) (c_reject_read_code C) then Ok (MExcResponse (c_exc_read_code C))
  else do info <- mfactory_get idn code oid;
       Ok (MInfoResponse (if code =? 0 then c_basic C else code) info).

(* _encode_object over the flattened item sequence; the space accounting sees len(data) *)
Fixpoint mpage_items (space : Z) (its : list (Z * item)) : list (Z * item) * option Z :=
  match its with
  | [] => ([], None)
  | (k, i) :: t =>
      let space' := eval (env_of [("self.space_left", space); ("len(data)", it_len i)]) (c_space_after C) in
      if beval (env_of [("self.space_left", space')]) (c_out_of_space C) then ([], Some k)
      else let '(acc, oos) := mpage_items space' t in ((k, i) :: acc, oos)
  end.

Record mpage := { mp_code : Z; mp_more : Z; mp_next : Z; mp_items : list (Z * item) }.

Definition mpage_of (read_code : Z) (info : list mobject) : mpage :=
  let '(its, oos) := mpage_items (space0 C) (flat_items info) in
  {| mp_code := read_code;
     mp_more := match oos with Some _ => c_more_keep C | None => c_more_nothing C end;
     mp_next := match oos with Some k => k | None => 0 end;
     mp_items := its |}.

(* struct.pack('>BB', object_id, len(data)) + data.encode() *)
Fixpoint mser_items (its : list (Z * item)) : res bytes :=
  match its with
  | [] => Ok []
  | (k, i) :: t => do h <- pack_bytes [k; it_len i]; do r <- mser_items t; Ok (h ++ it_wire i ++ r)
  end.

Definition mencode_page (p : mpage) : res bytes :=
  do h1 <- pack_bytes [c_sub C; mp_code p; c_conformity C];
  do body <- mser_items (mp_items p);
  do h2 <- pack_bytes [mp_more p; mp_next p; Z.of_nat (length (mp_items p))];
  Ok (h1 ++ h2 ++ body).

Definition mserver_reply (idn : midentity) (code oid : Z) : res bytes :=
  do r <- mexecute idn code oid;
  match r with
  | MExcResponse e => do b <- pack_bytes [c_fc C + 128; e]; Ok b
  | MInfoResponse rc info => do b <- mencode_page (mpage_of rc info); Ok (Z.to_N (c_fc C) :: b)
  end.

Definition mtransact (idn : midentity) (code oid : Z) : dec_reply :=
  match mserver_reply idn code oid with
  | Ok pdu => decode_reply C pdu
  | Raise e => DRaise e
  end.

Fixpoint mchain (idn : midentity) (code oid : Z) (fuel : nat) : list response * chain_end :=
  match fuel with
  | O => ([], ChainOutOfFuel)
  | S f =>
      match mtransact idn code oid with
      | DOk (RResp r) =>
          if rs_more r =? 255 then
            let '(rs, e) := mchain idn code (rs_next r) f in (r :: rs, e)
          else ([r], ChainDone)
      | DOk (RExc _ e) => ([], ChainExc e)
      | DRaise e => ([], ChainRaises e)
      | DOutOfFuel => ([], ChainRaises OtherExc)
      end
  end.

End WithCode.

(* ---- spec side: what a stream access over a multi-valued identity must deliver in total:
   every item of every configured object of the category from the start id on, each once, in
   order (an object's items travel as repeated objects with the same id) *)
Definition mexpected (idn : midentity) (code oid : Z) : list (Z * bytes) :=
  map (fun ki => (fst ki, it_wire (snd ki)))
      (flat_items (mobjects_of idn (filter (fun k => oid <=? k) (category code)))).

(* embedding of the single-valued byte-string identities of DevInfo.v *)
Definition lift_identity (idn : identity) : midentity := fun k => MOne (item_of_bytes (idn k)).
