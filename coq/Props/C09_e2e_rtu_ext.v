(* Props/C09_e2e_rtu_ext.v — the extended composition (datastores + control block, Props/C09_e2e_ext.v)
   over the RTU framing.  ONLY statements; proofs in proofs/EndToEndRtuExt_proofs.v.
   [rtu_item_ok_x]: a data-access request message of the ten kinds or a station request of the proved
   region (FC 7, 11, 12, 17; FC 8 sub-functions 00, 03, 04, 0A-12, 14), addressed to a served unit — or
   such a message to a unit the filter rejects (skipped; as in C09_e2e_rtu a skipped frame needs a size
   rule: the station requests have the fixed rules 4 and 8 of the generated table, [rtu_station_size]). *)
From PM.theories Require Import Base Expr Struct FrBaseA FrSpecA PduCls PduSpec Pdu Store Exec ExecSpec
                                Device ExecOther ExecOtherSpec ExecOtherView Server
                                EndToEnd EndToEndSerial EndToEndExt CorrE2E CorrE2ESerial CorrE2EExt.
From PM.theories Require FrBCommon FrRtu FrSpecB.
From PM.Generated Require GenStore GenExec GenExecOther GenServer GenFramerB.
From PM.proofs Require Import Exec_proofs Server_proofs EndToEnd_adapt_proofs EndToEnd_spec_proofs EndToEnd_proofs
                              EndToEndSerial_proofs EndToEndRtu_proofs EndToEndExt_proofs EndToEndRtuExt_proofs.
From PM.proofs Require FrB_rtu_proofs.
From PM.Props Require C09_e2e C09_e2e_ext.
Open Scope string_scope.
Open Scope list_scope.
Open Scope Z_scope.

Theorem C09_e2e_rtu_ext : forall sk cfg (x : xstate) (st : sstate) (qs : list e2e_req) (chunks : list bytes),
  In sk serial_fes -> xrel x st ->
  Forall (rtu_item_ok_x sk cfg (x_keys x) (unit_cfg sk cfg (x_keys x))) qs ->
  concat chunks = concat (map req_adu_rtu qs) ->
  exists x' fs',
    rtu_server_run_x sk cfg x chunks = result x' (snd (spec_run_x rtu_adu (cf_single cfg) st qs)) fs' /\
    xrel x' (fst (spec_run_x rtu_adu (cf_single cfg) st qs)).
Proof. exact e2e_rtu_ext. Qed.
Print Assumptions C09_e2e_rtu_ext.

Theorem C09_e2e_rtu_station_size : forall m ow u, owire_of_msg m = Some ow -> spec_wf m = true -> wfb (u :: spec_pdu m) = true ->
  exists fc data, spec_pdu m = fc :: data /\
    FrB_rtu_proofs.simple_rule (FrBCommon.lookup_rule GenFramerB.server_decoder (FrBCommon.zb fc)) = true /\
    FrBCommon.frame_size (FrBCommon.lookup_rule GenFramerB.server_decoder (FrBCommon.zb fc)) (FrSpecB.spec_adu_rtu u (spec_pdu m))
      = Ok (FrBCommon.zlen (FrSpecB.spec_adu_rtu u (spec_pdu m))).
Proof. exact rtu_station_size. Qed.
Print Assumptions C09_e2e_rtu_station_size.

(* non-vacuity: the request list of C09_e2e_ext_nonvacuous over RTU, one byte per read for the first frame *)
Definition nvxr_stream : bytes := concat (map req_adu_rtu C09_e2e_ext.nvx_reqs).
Definition nvxr_chunks : list bytes := map (fun b => [b]) (firstn 8 nvxr_stream) ++ [[]; skipn 8 nvxr_stream].

Example C09_e2e_rtu_ext_nonvacuous :
  let sk := GenServer.sync_serial in let cfg := C09_e2e.nv_cfg in let x := C09_e2e_ext.nvx_x in
  Forall (rtu_item_ok_x sk cfg (x_keys x) (unit_cfg sk cfg (x_keys x))) C09_e2e_ext.nvx_reqs /\
  concat nvxr_chunks = concat (map req_adu_rtu C09_e2e_ext.nvx_reqs) /\
  snd (spec_run_x rtu_adu true {| ss_units := abs_units (x_units x); ss_dev := abs_dev (x_dev x) |} C09_e2e_ext.nvx_reqs) =
    e_out (rtu_server_run_x sk cfg x nvxr_chunks) /\
  length (e_out (rtu_server_run_x sk cfg x nvxr_chunks)) = 69%nat.
Proof.
  cbv zeta. split.
  { unfold C09_e2e_ext.nvx_reqs. repeat (apply Forall_cons || apply Forall_nil);
      (split; [cbn; lia|]; split; [reflexivity|]).
    - split; [left; eexists; eexists; repeat split; reflexivity|]. left. repeat split; cbn; try lia; tauto.
    - split; [right; eexists; eexists; repeat split; try reflexivity; left; reflexivity|]. left. repeat split; cbn; try lia; tauto.
    - split; [right; eexists; eexists; repeat split; reflexivity|]. left. repeat split; cbn; try lia; tauto.
    - split; [right; eexists; eexists; repeat split; try reflexivity; right; reflexivity|]. left. repeat split; cbn; try lia; tauto.
    - split; [right; eexists; eexists; repeat split; try reflexivity; left; reflexivity|]. left. repeat split; cbn; try lia; tauto.
    - split; [right; eexists; eexists; repeat split; try reflexivity; left; reflexivity|]. left. repeat split; cbn; try lia; tauto.
    - split; [right; eexists; eexists; repeat split; reflexivity|]. left. repeat split; cbn; try lia; tauto.
    - split; [right; eexists; eexists; repeat split; reflexivity|]. left. repeat split; cbn; try lia; tauto.
    - split; [left; eexists; eexists; repeat split; reflexivity|]. left. repeat split; cbn; try lia; tauto. }
  split; [vm_compute; reflexivity|]. split; vm_compute; reflexivity.
Qed.
