(* ExecSpec.v — the Modbus data model and what the Modbus Application Protocol says a
   server does with the data-access function codes.  Transcribed from the property
   texts C04 / C05 (and MODBUS Application Protocol v1.1b3 sections 6.1-6.6, 6.11, 6.12,
   6.16, 6.17), NOT from the code: no Python objects, no scripts, no datastore classes.

   * four tables of cells addressed by the 0-based protocol address; a cell that is not
     configured is [None].  Two tables may be backed by the same storage ("tables shared
     or separate"): a table is a storage id, cells belong to storage ids.
   * requests are what is on the wire (quantity, byte count, value word, data bytes).
   * [spec_outcome] is the decision table of C05; [spec_exec] the state transformer and
     response of C04.
   No proofs in this file; it is short enough to be read against the property text. *)
From PM.theories Require Import Base.
Open Scope list_scope.
Open Scope Z_scope.

Inductive tbl := Coils | Discrete | Holding | Input.

Record astate := {
  a_slot : tbl -> nat;                 (* which storage backs a table *)
  a_cell : nat -> Z -> option Z        (* storage id -> protocol address -> value *)
}.

(* extensional equality of data-model states *)
Definition aeq (s s' : astate) : Prop :=
  (forall t, a_slot s t = a_slot s' t) /\ (forall b k, a_cell s b k = a_cell s' b k).

(* ---------------------------------------------------------------- requests on the wire *)
Inductive wreq :=
| WRead (t : tbl) (addr qty : Z)                          (* FC 1 2 3 4 by table *)
| WWriteCoil (addr word : Z)                              (* FC 5: value word *)
| WWriteReg (addr value : Z)                              (* FC 6 *)
| WWriteCoils (addr qty bc : Z) (data : list Z)           (* FC 15: data bytes *)
| WWriteRegs (addr qty bc : Z) (data : list Z)            (* FC 16: data bytes *)
| WMask (addr and_mask or_mask : Z)                       (* FC 22 *)
| WRWM (raddr rqty waddr wqty wbc : Z) (data : list Z)    (* FC 23: write data bytes *)
| WOther (fc : Z).                                        (* a function code the server does not support *)

Definition read_fc (t : tbl) : Z :=
  match t with Coils => 1 | Discrete => 2 | Holding => 3 | Input => 4 end.

Definition wfc (w : wreq) : Z :=
  match w with
  | WRead t _ _ => read_fc t
  | WWriteCoil _ _ => 5 | WWriteReg _ _ => 6
  | WWriteCoils _ _ _ _ => 15 | WWriteRegs _ _ _ _ => 16
  | WMask _ _ _ => 22 | WRWM _ _ _ _ _ _ => 23
  | WOther fc => fc
  end.

(* ---------------------------------------------------------------- responses *)
Inductive srsp :=
| SRead (fc : Z) (vals : list Z)               (* FC 1-4 and 23: the values read *)
| SEcho1 (fc addr value : Z)                   (* FC 5 (value = coil state 0/1), FC 6 *)
| SEchoN (fc addr qty : Z)                     (* FC 15, 16: address and quantity *)
| SMask (addr and_mask or_mask : Z)            (* FC 22 *)
| SExc (fc code : Z).                          (* function code | 0x80, exception code *)

(* ---------------------------------------------------------------- data model operations *)
Definition is_some {A} (o : option A) : bool := match o with Some _ => true | None => false end.

Definition cell (s : astate) (t : tbl) (k : Z) : option Z := a_cell s (a_slot s t) k.

(* the whole range addr .. addr+n-1 is configured in table t *)
Definition range_ok (s : astate) (t : tbl) (addr n : Z) : bool :=
  forallb (fun k => is_some (cell s t k)) (zrange addr (Z.to_nat n)).

Definition read (s : astate) (t : tbl) (addr n : Z) : list Z :=
  map (fun k => match cell s t k with Some v => v | None => 0 end) (zrange addr (Z.to_nat n)).

(* cells addr .. addr+|vs|-1 of the storage behind t take the values vs; nothing else changes *)
Definition write (s : astate) (t : tbl) (addr : Z) (vs : list Z) : astate :=
  let n := Z.of_nat (length vs) in
  let blk := a_slot s t in
  {| a_slot := a_slot s;
     a_cell := fun b k =>
       if Nat.eqb b blk
       then (if (addr <=? k) && (k <? addr + n) then nth_error vs (Z.to_nat (k - addr)) else a_cell s b k)
       else a_cell s b k |}.

(* ---------------------------------------------------------------- wire data *)
(* coil data: least significant bit of the first byte is the first coil *)
Definition bits_of_byte (b : Z) : list Z :=
  map (fun i => if Z.testbit b i then 1 else 0) [0; 1; 2; 3; 4; 5; 6; 7].
Definition bits_of_bytes (data : list Z) : list Z := flat_map bits_of_byte data.

(* register data: big endian words; a trailing odd byte carries no register *)
Fixpoint words_of_bytes (data : list Z) : list Z :=
  match data with
  | hi :: lo :: t => (hi * 256 + lo) :: words_of_bytes t
  | _ => []
  end.

Definition in_range (lo x hi : Z) : bool := (lo <=? x) && (x <=? hi).

(* ---------------------------------------------------------------- C05: the decision table
   None = the request is valid; Some code = the exception it must be answered with.
   Priority: illegal function (01), then illegal data value (03), then illegal data
   address (02).  (A datastore failure, 04, is not a property of the request: see
   ExecView.serve_spec / the theorems about raising datastores.) *)
Definition spec_outcome (s : astate) (w : wreq) : option Z :=
  match w with
  | WOther _ => Some 1
  | WRead t a n =>
      let lim := match t with Coils | Discrete => 2000 | Holding | Input => 125 end in
      if negb (in_range 1 n lim) then Some 3
      else if negb (range_ok s t a n) then Some 2 else None
  | WWriteCoil a word =>
      if negb ((word =? 0) || (word =? 65280)) then Some 3           (* 0x0000 / 0xFF00 *)
      else if negb (range_ok s Coils a 1) then Some 2 else None
  | WWriteReg a v =>
      if negb (in_range 0 v 65535) then Some 3
      else if negb (range_ok s Holding a 1) then Some 2 else None
  | WWriteCoils a n bc _ =>
      if negb (in_range 1 n 1968) || negb (bc =? (n + 7) / 8) then Some 3
      else if negb (range_ok s Coils a n) then Some 2 else None
  | WWriteRegs a n bc _ =>
      if negb (in_range 1 n 123) || negb (bc =? n * 2) then Some 3
      else if negb (range_ok s Holding a n) then Some 2 else None
  | WMask a am om =>
      if negb (in_range 0 am 65535) || negb (in_range 0 om 65535) then Some 3
      else if negb (range_ok s Holding a 1) then Some 2 else None
  | WRWM ra rn wa wn wbc _ =>
      if negb (in_range 1 rn 125) || negb (in_range 1 wn 121) || negb (wbc =? wn * 2) then Some 3
      else if negb (range_ok s Holding wa wn) || negb (range_ok s Holding ra rn) then Some 2 else None
  end.

(* mask write: Result = (Current AND And_Mask) OR (Or_Mask AND (NOT And_Mask)) *)
Definition mask_result (cur am om : Z) : Z := Z.lor (Z.land cur am) (Z.land om (Z.lnot am)).

(* ---------------------------------------------------------------- C04: state transformer + response *)
Definition spec_apply (s : astate) (w : wreq) : astate * srsp :=
  match w with
  | WRead t a n => (s, SRead (read_fc t) (read s t a n))
  | WWriteCoil a word =>
      let v := if word =? 65280 then 1 else 0 in
      (write s Coils a [v], SEcho1 5 a v)
  | WWriteReg a v => (write s Holding a [v], SEcho1 6 a v)
  | WWriteCoils a n _ data => (write s Coils a (firstn (Z.to_nat n) (bits_of_bytes data)), SEchoN 15 a n)
  | WWriteRegs a n _ data => (write s Holding a (firstn (Z.to_nat n) (words_of_bytes data)), SEchoN 16 a n)
  | WMask a am om =>
      let cur := match cell s Holding a with Some v => v | None => 0 end in
      (write s Holding a [mask_result cur am om], SMask a am om)
  | WRWM ra rn wa wn _ data =>
      (* the write is performed before the read *)
      let s' := write s Holding wa (firstn (Z.to_nat wn) (words_of_bytes data)) in
      (s', SRead 23 (read s' Holding ra rn))
  | WOther fc => (s, SExc (Z.lor fc 128) 1)
  end.

Definition spec_exec (s : astate) (w : wreq) : astate * srsp :=
  match spec_outcome s w with
  | Some code => (s, SExc (Z.lor (wfc w) 128) code)      (* exception: nothing changes *)
  | None => spec_apply s w
  end.

Fixpoint spec_exec_all (s : astate) (ws : list wreq) : astate * list srsp :=
  match ws with
  | [] => (s, [])
  | w :: t => let '(s1, o) := spec_exec s w in
              let '(s2, os) := spec_exec_all s1 t in (s2, o :: os)
  end.
