"""C15 — Concurrent callers of one synchronous client are serialised.

REAL threads call execute() on ONE real ModbusTcpClient (subclass whose connect/_send/_recv
talk to an in-memory in-order peer).  The instance attribute `_transaction_lock` of the real
transaction manager is replaced by a cooperating re-entrant lock, and every thread is parked on
a harness semaphore BEFORE every connect / lock acquisition / send / receive call and AFTER the
lock release, so the harness owns the schedule.  Handshake: the controller removes the chosen
thread from the parked set itself, releases it, and then waits until every live thread is parked
again (or finished) before it looks at the parked set again.
"""
import sys
import threading
import time

from lib import common
from lib.coqrun import nat, boolean, lst
from lib.main import Case, Suite

ID = "C15"
GENERATORS = ["lock"]
PROP_FILE = "C15"
CASE_DEPS = ["theories/CorrLock.vo", "Generated/GenLock.vo"]
RULE = ("one case = one complete schedule of real threads on one real client: ALL schedules of 2 threads x 1 "
        "call and 2 threads x (1,2)/(2,1) calls, all schedules of 3 threads x 1 call (thorough: also 2 x 2), "
        "random schedules for 2-4 threads x 1-3 calls; replies have different lengths; a case is non-trivial "
        "when at least two threads were inside execute() at overlapping times (some thread was scheduled "
        "while another had started and not finished a call); distinct = distinct (calls, schedule)")
TRUSTED = [
    "generated from source on every run (Generated/GenLock.v): the operation skeleton of "
    "ModbusTransactionManager.execute/_transact with the position of `with self._transaction_lock:`, every "
    "binding of _transaction_lock (exactly one, in __init__, RLock()), BaseModbusClient.execute's prefix",
    "hand-modelled, tied by correspondence only: what each abstract operation does to the tid counter, the "
    "transactions dict, the framer buffer and the transport (coq/theories/Lock.v exec_op)",
    "calls the translator lists as PURE (gen/gen_lock.py) do not touch shared client state",
    "the harness' cooperating lock and parking points stand for the real RLock and the OS scheduler",
]
ASSUMPTIONS = [
    "PARTIAL: schedules are at transport-operation / lock-operation granularity (pre-emption before every "
    "connect, acquire, send, recv call and after the release); pre-emption between bytecodes inside an "
    "operation and the GIL are outside the model, as they are outside the property's stated quantifier",
    "C15_own_reply assumes an in-order responsive peer (one reply per request, in request order)",
    "threading.RLock provides mutual exclusion and re-entrancy (Python runtime)",
]
IMPORTS = ("From PM.theories Require Import Base Lock CorrLock.\n"
           "From PM.Generated Require Import GenLock.")

HARD = 8.0          # seconds: any single wait longer than this is a hang


class Abort(BaseException):
    pass


def me():
    return getattr(threading.current_thread(), "c15_idx", None)


class Sched:
    def __init__(self, n):
        self.n = n
        self.cv = threading.Condition()
        self.parked = {}
        self.finished = set()
        self.go = [threading.Semaphore(0) for _ in range(n)]
        self.abort = False

    def park(self, kind):
        t = me()
        if t is None:
            return
        if self.abort:
            raise Abort()
        with self.cv:
            self.parked[t] = kind
            self.cv.notify_all()
        ok = self.go[t].acquire(timeout=HARD * 4)
        if not ok or self.abort:
            raise Abort()

    def finish(self, t):
        with self.cv:
            self.parked.pop(t, None)
            self.finished.add(t)
            self.cv.notify_all()

    def wait_quiet(self):
        deadline = time.time() + HARD
        with self.cv:
            while len(self.parked) + len(self.finished) < self.n:
                left = deadline - time.time()
                if left <= 0:
                    return False
                self.cv.wait(left)
        return True

    def release(self, t):
        with self.cv:
            del self.parked[t]
        self.go[t].release()

    def shutdown(self):
        self.abort = True
        for s in self.go:
            for _ in range(4):
                s.release()


class CoopRLock:
    """re-entrant lock whose blocking is done by the harness scheduler"""

    def __init__(self, sched):
        self.s = sched
        self.owner = None
        self.depth = 0
        self.misuse = []

    def acquire(self, blocking=True, timeout=-1):
        t = me()
        self.s.park("acquire")
        if self.owner not in (None, t):
            self.misuse.append("thread %s scheduled while the lock is held by %s" % (t, self.owner))
            raise Abort()
        self.owner = t
        self.depth += 1
        return True

    def release(self):
        t = me()
        if self.owner != t:
            self.misuse.append("release by non-owner %s" % t)
            raise RuntimeError("cannot release un-acquired lock")
        self.depth -= 1
        if self.depth == 0:
            self.owner = None
            self.s.park("released")

    def __enter__(self):
        return self.acquire()

    def __exit__(self, *a):
        self.release()

    def enabled(self, t):
        return self.owner in (None, t)


def make_client(sched, log):
    from pymodbus.client.sync import ModbusTcpClient

    class MemTcpClient(ModbusTcpClient):
        """real client; only the three transport primitives are replaced"""

        def __init__(self):
            ModbusTcpClient.__init__(self, host="mem", port=0)
            self.inbuf = bytearray()
            self.phase = {}

        def connect(self):
            inner = sys._getframe(1).f_code.co_name == "_transact"
            sched.park("connect" if inner else "check")
            if inner:
                th = threading.current_thread()
                log.append((th.c15_idx, th.c15_k, "KConnect"))
            return True

        def close(self):
            pass

        def is_socket_open(self):
            return True

        def _send(self, request):
            sched.park("send")
            th = threading.current_thread()
            log.append((th.c15_idx, th.c15_k, "KSend"))
            self.phase[th.c15_idx] = 0
            req = bytes(request)
            tid, unit, fc = req[0:2], req[6], req[7]
            addr = int.from_bytes(req[8:10], "big")
            count = int.from_bytes(req[10:12], "big")
            body = bytes([unit, fc, 2 * count]) + b"".join(addr.to_bytes(2, "big") for _ in range(count))
            self.inbuf += tid + b"\x00\x00" + len(body).to_bytes(2, "big") + body
            return len(req)

        def _recv(self, size):
            th = threading.current_thread()
            if self.phase.get(th.c15_idx, 0) == 0:
                sched.park("recv")
                log.append((th.c15_idx, th.c15_k, "KRecv"))
                self.phase[th.c15_idx] = 1
            else:
                sched.park("recv2")
            if size is None:
                size = len(self.inbuf)
            out = bytes(self.inbuf[:size])
            del self.inbuf[:size]
            return out

    return MemTcpClient()


def run_schedule(calls, choose):
    """drive one schedule; choose(enabled, i) -> thread id.  Returns the observation record."""
    from pymodbus.register_read_message import ReadHoldingRegistersRequest
    n = len(calls)
    sched = Sched(n)
    log = []
    client = make_client(sched, log)
    lock = CoopRLock(sched)
    client.transaction._transaction_lock = lock
    results = [[] for _ in range(n)]
    errors = []

    def worker(t):
        th = threading.current_thread()
        th.c15_idx, th.c15_k = t, 0
        try:
            for k in range(calls[t]):
                th.c15_k = k
                req = ReadHoldingRegistersRequest(address=t * 64 + k, count=1 + (t + k) % 3, unit=1)
                try:
                    r = client.execute(req)
                except Abort:
                    raise
                except Exception as e:  # noqa: BLE001 — observation
                    r = e
                regs = getattr(r, "registers", None)
                if regs and not isinstance(r, Exception) and len(regs) == 1 + (regs[0] // 64 + regs[0] % 64) % 3 \
                        and all(x == regs[0] for x in regs):
                    results[t].append((int(r.transaction_id), regs[0] // 64, regs[0] % 64))
                else:
                    results[t].append(None)
        except Abort:
            pass
        except BaseException as e:  # noqa: BLE001
            errors.append("thread %d: %r" % (t, e))
        finally:
            sched.finish(t)

    threads = [threading.Thread(target=worker, args=(t,), daemon=True) for t in range(n)]
    for th in threads:
        th.start()
    decisions, status = [], "ok"
    overlap = False
    while True:
        if not sched.wait_quiet():
            status = "hang"
            break
        if len(sched.finished) == n:
            break
        enabled = sorted(t for t, kind in sched.parked.items() if kind != "acquire" or lock.enabled(t))
        if not enabled:
            status = "deadlock"
            break
        if len(decisions) > 400:
            status = "livelock"
            break
        t = choose(enabled, len(decisions))
        kind = sched.parked[t]
        started = [u for u in range(n) if u != t and u not in sched.finished
                   and sched.parked.get(u) not in (None, "check")]
        if started and kind != "check":
            overlap = True
        decisions.append((t, kind, enabled))
        sched.release(t)
    sched.shutdown()
    for th in threads:
        th.join(2.0)
    alive = [i for i, th in enumerate(threads) if th.is_alive()]
    if alive and status == "ok":
        status = "unjoined"
    if lock.misuse and status == "ok":
        status = "lock-misuse"
    if isinstance(client.transaction._transaction_lock, CoopRLock) is False and status == "ok":
        status = "lock-replaced"
    return {"calls": list(calls), "decisions": [(t, k) for t, k, _ in decisions],
            "enabled": [e for _, _, e in decisions], "log": list(log), "results": results,
            "status": status, "errors": errors + lock.misuse, "overlap": overlap,
            "completed": status in ("ok", "lock-replaced") and all(len(results[t]) == calls[t] for t in range(n))}


def explore_all(calls, limit):
    """stateless DFS over all schedules (each run replays a prefix, then always picks the lowest enabled)"""
    out = []
    stack = [[]]
    suspects = 0
    while stack and len(out) < limit:
        prefix = stack.pop()

        def choose(enabled, i, prefix=prefix):
            if i < len(prefix):
                return prefix[i] if prefix[i] in enabled else enabled[0]
            return enabled[0]
        obs = run_schedule(calls, choose)
        out.append(obs)
        if obs["status"] != "ok" or not obs["completed"] or any(x is None for rs in obs["results"] for x in rs):
            suspects += 1
            if suspects >= 25:      # the property is already visibly broken: no point in enumerating on
                break
        chosen = [t for t, _ in obs["decisions"]]
        for i in range(len(prefix), len(chosen)):
            for alt in obs["enabled"][i]:
                if alt != chosen[i]:
                    stack.append(chosen[:i] + [alt])
        if obs["status"] in ("hang", "unjoined"):
            break
    return out, (not stack)


def explore_random(r, calls, count):
    out = []
    for _ in range(count):
        bias = r.random()

        def choose(enabled, i):
            # mix of uniform choice and "stick with the previous thread" runs
            if choose.last in enabled and r.random() < bias * 0.7:
                return choose.last
            choose.last = r.choice(enabled)
            return choose.last
        choose.last = None
        obs = run_schedule(calls, choose)
        out.append(obs)
        if obs["status"] in ("hang", "unjoined"):
            break
    return out


def obs_term(o):
    ev = lst("(%s, %s, %s)" % (nat(t), nat(k), kd) for t, k, kd in o["log"])
    res = lst(lst(("Some (%d%%N, %s, %s)" % (x[0], nat(x[1]), nat(x[2]))) if x is not None else "None" for x in rs)
              for rs in o["results"])
    sch = lst(nat(t) for t, kind in o["decisions"] if kind != "recv2")
    return ("{| lc_calls := %s; lc_sched := %s; lc_log := %s; lc_results := %s; lc_completed := %s |}"
            % (lst(nat(c) for c in o["calls"]), sch, ev, res, boolean(o["completed"])))


def obs_desc(o):
    return {"calls": o["calls"], "decisions": [[t, k] for t, k in o["decisions"]], "status": o["status"],
            "log": [list(e) for e in o["log"]], "results": o["results"], "errors": o["errors"][:3]}


_CACHE = {}


def collect(tier):
    if tier in _CACHE:
        return _CACHE[tier]
    t0 = time.time()
    r = common.rng("C15.sched")
    groups = []
    exhaustive = [[1, 1], [2, 1], [1, 2]]
    if tier != "quick":
        exhaustive += [[2, 2]]
    complete = {}
    for calls in exhaustive:
        obs, done = explore_all(calls, 4000 if tier == "quick" else 200000)
        complete["x".join(map(str, calls))] = {"schedules": len(obs), "exhausted": done}
        groups.append(("all-" + "x".join(map(str, calls)), obs))
    shapes = [[2, 2], [3, 3], [1, 1, 1], [2, 2, 2], [3, 2, 1], [1, 1, 1, 1], [2, 1, 2, 1], [3, 3, 3], [2, 2, 2, 2], [3, 1, 2, 3]]
    per = 40 if tier == "quick" else 600
    for calls in shapes:
        groups.append(("rand-%dthr" % len(calls), explore_random(r, calls, per)))
    _CACHE[tier] = (groups, complete, round(time.time() - t0, 1))
    return _CACHE[tier]


def suites(tier):
    groups, _, _ = collect(tier)
    cases = []
    for label, obs in groups:
        for o in obs:
            key = (tuple(o["calls"]), tuple(o["decisions"]))
            cases.append(Case(obs_term(o), obs_desc(o), kind=label, nontrivial=o["overlap"], key=key))
    return [Suite("schedules", IMPORTS, "chk_lock call_skeleton", cases, shard=300)]


def extra_checks(tier):
    groups, complete, wall = collect(tier)
    n, failures, broken, keys = 0, [], [], []
    for label, obs in groups:
        for o in obs:
            n += 1
            if o["status"] != "ok" or o["errors"] or not o["completed"]:
                failures.append(obs_desc(o))
            if o["overlap"]:
                keys.append((tuple(o["calls"]), tuple(o["decisions"])))
    for k, v in complete.items():
        if not v["exhausted"]:
            broken.append("schedule enumeration for %s did not finish (%d schedules)" % (k, v["schedules"]))
    return {"threads-live": {"evaluations": n, "failures": failures[:5], "broken": broken, "keys": keys,
                             "enumerated": complete, "wall_s": wall,
                             "samples": [obs_desc(groups[0][1][0])] if groups and groups[0][1] else []}}


def classify(suite, desc):
    return None


def replay_finding(f):
    return None


def replay_case(suite, desc):
    dec = [d[0] for d in desc["decisions"]]

    def choose(enabled, i):
        return dec[i] if i < len(dec) and dec[i] in enabled else enabled[0]
    o = run_schedule(desc["calls"], choose)
    print("status", o["status"], "log", o["log"], "results", o["results"])
    from lib import coqrun
    r = coqrun.eval_cases("C15_replay", IMPORTS, "chk_lock call_skeleton", [obs_term(o)])
    print(r)
    return bool(r["propfail"] or r["errors"] or o["status"] != "ok")


MANIFEST = {
    "text": ("Coq theorems (Props/C15.v) over a small-step interleaving semantics with ANY number of threads, ANY "
             "number of calls and EVERY schedule (induction over the step relation): mutual exclusion of the "
             "send..receive windows, contiguity of the transport log, reply ownership under an in-order peer and "
             "absence of deadlock follow from `well_bracketed` of the call skeleton, and the skeleton regenerated "
             "from transaction.py on every run is well bracketed (all shared-state sites, all branches, the retry "
             "loop unrolled any number of times; the lock bound once in __init__ to RLock()). Real threads on a real "
             "client are driven through all schedules of small configurations and compared with the model."),
    "note": ("PARTIAL: transport-operation/lock granularity; bytecode pre-emption and the GIL are outside the model. "
             "Trusted: Coq kernel, translator shape matching and its PURE-call list, hand-written operation "
             "semantics (tied by trace correspondence), the cooperative scheduler harness."),
    "design_ref": "DESIGN.md section 8 (C15)",
}
