(* Crc.v — CRC-16/Modbus.
   SPEC side: [crc16_bitwise] is the algorithm printed in the Modbus serial line guide
   (register initialised to 0xFFFF; each byte is XORed into the low byte; eight times:
   shift right, and if the bit shifted out was 1, XOR with the reflected polynomial
   0xA001).  The CRC is transmitted low byte first.
   CODE side: [py_crc] mirrors utilities.computeCRC statement by statement, evaluating
   the expression trees regenerated from the source (Generated/GenFramerB.crc): the
   256-entry table is built by the model of __generate_crc16_table, the byte loop uses
   the generated index/update expressions, the result is byte-swapped.
   No proofs here (proofs/Crc_proofs.v, proofs/Crc_detect_proofs.v). *)
From PM.theories Require Import Base Expr FrBCode.
From PM.Generated Require Import GenFramerB.
Open Scope string_scope.
Open Scope list_scope.
Open Scope N_scope.

(* ------------------------------------------------------------------ spec side *)

Definition crc_poly : N := 40961.     (* 0xA001 *)

(* one bit time: the map called Z in DESIGN.md section 8 (C07) *)
Definition crc_shift (s : N) : N :=
  if N.odd s then N.lxor (N.shiftr s 1) crc_poly else N.shiftr s 1.

Fixpoint iter_shift (n : nat) (s : N) : N :=
  match n with O => s | S k => iter_shift k (crc_shift s) end.

Definition crc_byte (s b : N) : N := iter_shift 8 (N.lxor s b).

(* register after the bytes [bs], starting from [s] *)
Definition crc_reg (s : N) (bs : bytes) : N := fold_left crc_byte bs s.

Definition crc16_bitwise (bs : bytes) : N := crc_reg 65535 bs.

Definition crc_lo (c : N) : N := N.land c 255.
Definition crc_hi (c : N) : N := N.shiftr c 8.

(* what computeCRC returns: the two bytes exchanged, so that struct.pack('>H', _) sends
   the low byte first *)
Definition swap16 (c : N) : N := N.lor (N.shiftl (N.land c 255) 8) (N.shiftr c 8).

(* a frame body followed by its CRC, low byte first *)
Definition with_crc (body : bytes) : bytes :=
  let c := crc16_bitwise body in body ++ [crc_lo c; crc_hi c].

(* integrity check of a received frame: last two bytes = CRC of the rest, low byte first *)
Definition crc_ok (frame : bytes) : bool :=
  let n := length frame in
  match skipn (n - 2) frame with
  | [lo; hi] => (2 <=? n)%nat && (crc16_bitwise (firstn (n - 2) frame) =? lo + 256 * hi)
  | _ => false
  end.

(* error patterns *)
Fixpoint xor_bytes (a e : bytes) : bytes :=
  match a, e with
  | x :: a', y :: e' => N.lxor x y :: xor_bytes a' e'
  | _, _ => a
  end.

Fixpoint popcount_pos (p : positive) : nat :=
  match p with xH => 1 | xO q => popcount_pos q | xI q => S (popcount_pos q) end.
Definition popcount (n : N) : nat := match n with N0 => O | Npos p => popcount_pos p end.
Definition weight (e : bytes) : nat := fold_right (fun b n => (popcount b + n)%nat) O e.

(* the bits of a byte string in transmission order (LSB of each byte first) *)
Fixpoint byte_bits (k : nat) (b : N) : list bool :=
  match k with O => [] | S k' => N.odd b :: byte_bits k' (N.div2 b) end.
Definition bits_of (e : bytes) : list bool := flat_map (byte_bits 8) e.

(* position of the first / last set bit of an error pattern (serial order) *)
Fixpoint first_set (l : list bool) : option nat :=
  match l with
  | [] => None
  | true :: _ => Some O
  | false :: t => match first_set t with Some i => Some (S i) | None => None end
  end.
Definition last_set (l : list bool) : option nat :=
  match first_set (rev l) with Some i => Some (length l - 1 - i)%nat | None => None end.
(* extent of the error burst, in bits (0 for the empty pattern) *)
Definition burst_len (e : bytes) : nat :=
  match first_set (bits_of e), last_set (bits_of e) with
  | Some i, Some j => (j - i + 1)%nat
  | _, _ => O
  end.

(* ------------------------------------------------------------------ code side *)
Open Scope Z_scope.

(* __generate_crc16_table: inner loop, [n] rounds *)
Fixpoint py_tab_rounds (n : nat) (byte crc : Z) : Z :=
  match n with
  | O => crc
  | S k =>
      let rho := env_of [("byte", byte); ("crc", crc)] in
      let crc' := if z2b (eval rho (cc_tab_test GenFramerB.crc))
                  then eval rho (cc_tab_then GenFramerB.crc)
                  else eval rho (cc_tab_else GenFramerB.crc) in
      py_tab_rounds k (eval rho (cc_tab_byte GenFramerB.crc)) crc'
  end.

Definition py_gen_table : list Z :=
  map (fun byte => py_tab_rounds (Z.to_nat (cc_tab_rounds GenFramerB.crc)) byte (cc_tab_init GenFramerB.crc))
      (py_range 0 (cc_tab_range GenFramerB.crc)).

(* the module-level table, built once at import *)
Definition py_crc_table : list Z := Eval vm_compute in py_gen_table.

(* list indexing table[i] with Python's negative-index rule *)
Definition py_index {A} (l : list A) (i : Z) : res A :=
  let n := Z.of_nat (length l) in
  let j := if i <? 0 then i + n else i in
  if (j <? 0) || (n <=? j) then Raise IndexError
  else match nth_error l (Z.to_nat j) with Some x => Ok x | None => Raise IndexError end.

Definition py_crc_step (crc : Z) (a : N) : res Z :=
  do idx <- py_index py_crc_table (eval (env_of [("crc", crc); ("byte2int(a)", Z.of_N a)]) (cc_idx GenFramerB.crc));
  Ok (eval (env_of [("crc", crc); ("idx", idx)]) (cc_upd GenFramerB.crc)).

Fixpoint py_crc_loop (crc : Z) (data : bytes) : res Z :=
  match data with
  | [] => Ok crc
  | a :: t => do c <- py_crc_step crc a; py_crc_loop c t
  end.

(* utilities.computeCRC *)
Definition py_crc (data : bytes) : res Z :=
  do c <- py_crc_loop (cc_init GenFramerB.crc) data;
  Ok (eval (env_of [("crc", c)]) (cc_swap GenFramerB.crc)).

(* utilities.checkCRC *)
Definition py_check_crc (data : bytes) (check : Z) : res bool :=
  do c <- py_crc data;
  Ok (beval (env_of [("computeCRC(data)", c); ("check", check)]) (cc_check GenFramerB.crc)).
